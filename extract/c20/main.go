// Command c20 extracts structural facts about the critical sections of
// internal/packages/internal/packageimport/request_manager.go and writes them as Lean data.
//
//	go run . -repo <repo> -out <file.lean> -what locks
//
// The model of the request manager (Pko.Model.ReqMgr / ReqMgrFine) treats one call of
// handleRequest / handleResponse as one atomic step: both hold `inFlightLock` for their whole
// body.  That is a fact about the source text; it is re-read from the source on every run:
//
// reqMgrLocks, per method of RequestManager in {handleRequest, handleResponse}:
//
//	(method, lockKind, lockStmtIndex, deferUnlockFollows, otherMutexCalls, sharedOutsideLock)
//
//   - lockKind: "Lock" = the first top-level statement of the body that is a call
//     `<recv>.inFlightLock.Lock()`; "none"/"missing" if there is no such statement / method.
//   - lockStmtIndex: index of that statement among the top-level statements (0 = first).
//   - deferUnlockFollows: the statement right after it is `defer <recv>.inFlightLock.Unlock()`.
//   - otherMutexCalls: number of further calls on `<recv>.inFlightLock` anywhere in the body
//     (an explicit Unlock / a second Lock = a critical section that does not span the body).
//   - sharedOutsideLock: `<recv>.inFlight` is used before the lock statement, or inside a
//     function literal (go statement / defer / closure, which does not run under the caller's
//     lock), or anywhere if there is no lock statement.
//
// reqMgrGo: per method, for every `go` statement in source order, the calls rooted at the receiver
// inside it (mutex excluded): the pull runs on its own goroutine, outside the lock, and ends with
// handleResponse.
//
// reqMgrInFlightUsers: functions/methods of the package (non-test files) whose body contains a
// selector `<x>.inFlight`.   reqMgrCallers: who calls handleRequest / handleResponse.
//
// reqMgrSent, per send statement `<ch> <- response{RawPackage: <e>, ...}` in handleResponse:
//
//	(channel, e, isVarDeclaredWithoutValue, [right-hand sides assigned to e in the method])
//
// i.e. where the package pointer that is handed to a receiver comes from (the model hands every
// receiver a fresh DeepCopy or nil).
//
// reqMgrBlocking, per method in {handleRequest, handleResponse}: the operations in the method body
// that may block, i.e. that execute while `inFlightLock` is held (the bodies of functions started
// with `go` are excluded: they run on their own goroutine, outside the caller's lock; deferred and
// immediately called closures are included) - channel sends (`send <chan>`), receives
// (`recv <expr>`), `select` statements, `range` over a call/receive is not recognised, and calls
// of methods named Lock / RLock / Wait / Acquire / Sleep on anything but `inFlightLock`
// (`call <selector>`).  A goroutine that waits for something inside the critical section keeps
// every other request and every finishing pull out; the model's steps never wait.
//
// reqMgrChanMakes: every `make(chan ...)` expression in handleRequest (the receiver channels the
// broadcast sends to under the lock: buffered, so that the send does not wait for the receiver).
//
// Only the standard library is used.
package main

import (
	"flag"
	"fmt"
	"go/ast"
	"go/parser"
	"go/token"
	"go/types"
	"os"
	"path/filepath"
	"sort"
	"strings"
)

const (
	mutexField  = "inFlightLock"
	sharedField = "inFlight"
	recvTypeNm  = "RequestManager"
	pkgDir      = "internal/packages/internal/packageimport"
)

var targets = []string{"handleRequest", "handleResponse"}

type fn struct {
	decl *ast.FuncDecl
	recv string // receiver identifier, "" for plain functions
	typ  string // receiver type name
}

func main() {
	repo := flag.String("repo", "/repo", "package-operator checkout")
	out := flag.String("out", "", "Lean file to write")
	what := flag.String("what", "locks", "fact family (only: locks)")
	flag.Parse()
	if *what != "locks" {
		fail("unknown -what %q", *what)
	}
	if *out == "" {
		fail("-out is required")
	}
	dir := filepath.Join(*repo, filepath.FromSlash(pkgDir))
	ents, err := os.ReadDir(dir)
	if err != nil {
		fail("read %s: %v", dir, err)
	}
	fset := token.NewFileSet()
	var fns []fn
	for _, e := range ents {
		n := e.Name()
		if e.IsDir() || !strings.HasSuffix(n, ".go") || strings.HasSuffix(n, "_test.go") {
			continue
		}
		f, err := parser.ParseFile(fset, filepath.Join(dir, n), nil, 0)
		if err != nil {
			fail("parse %s: %v", n, err)
		}
		for _, d := range f.Decls {
			fd, ok := d.(*ast.FuncDecl)
			if !ok || fd.Body == nil {
				continue
			}
			x := fn{decl: fd}
			if fd.Recv != nil && len(fd.Recv.List) == 1 {
				x.typ = recvType(fd.Recv.List[0].Type)
				if len(fd.Recv.List[0].Names) == 1 {
					x.recv = fd.Recv.List[0].Names[0].Name
				}
			}
			fns = append(fns, x)
		}
	}
	methods := map[string]fn{}
	for _, x := range fns {
		if x.typ == recvTypeNm {
			methods[x.decl.Name.Name] = x
		}
	}

	var rows, gos, sent, blocking, makes []string
	for _, t := range targets {
		m, ok := methods[t]
		if !ok {
			rows = append(rows, fmt.Sprintf("  (%q, %q, 0, false, 0, true)", t, "missing"))
			gos = append(gos, fmt.Sprintf("  (%q, [])", t))
			blocking = append(blocking, fmt.Sprintf("  (%q, [\"missing\"])", t))
			continue
		}
		blocking = append(blocking, fmt.Sprintf("  (%q, %s)", t, leanStrList(blockingOps(m))))
		if t == "handleRequest" {
			ast.Inspect(m.decl.Body, func(x ast.Node) bool {
				if ce, ok := x.(*ast.CallExpr); ok {
					if id, ok := ce.Fun.(*ast.Ident); ok && id.Name == "make" && len(ce.Args) > 0 {
						if _, ok := ce.Args[0].(*ast.ChanType); ok {
							makes = append(makes, types.ExprString(ce))
						}
					}
				}
				return true
			})
		}
		kind, idx, deferFollows, others, outside := analyse(m)
		rows = append(rows, fmt.Sprintf("  (%q, %q, %d, %v, %d, %v)", t, kind, idx, deferFollows, others, outside))
		var gs []string
		ast.Inspect(m.decl.Body, func(x ast.Node) bool {
			if g, ok := x.(*ast.GoStmt); ok {
				gs = append(gs, leanStrList(recvCalls(g, m.recv)))
			}
			return true
		})
		gos = append(gos, fmt.Sprintf("  (%q, [%s])", t, strings.Join(gs, ", ")))
	}
	if m, ok := methods["handleResponse"]; ok {
		sent = sendFacts(m)
	}

	var users []string
	callers := map[string][]string{}
	for _, x := range fns {
		name := x.decl.Name.Name
		uses := false
		ast.Inspect(x.decl.Body, func(n ast.Node) bool {
			switch t := n.(type) {
			case *ast.SelectorExpr:
				if t.Sel.Name == sharedField {
					uses = true
				}
			case *ast.CallExpr:
				if se, ok := t.Fun.(*ast.SelectorExpr); ok {
					for _, tg := range targets {
						if se.Sel.Name == tg && !contains(callers[tg], name) {
							callers[tg] = append(callers[tg], name)
						}
					}
				}
			}
			return true
		})
		if uses {
			users = append(users, name)
		}
	}
	sort.Strings(users)
	var crow []string
	for _, tg := range targets {
		sort.Strings(callers[tg])
		crow = append(crow, fmt.Sprintf("  (%q, %s)", tg, leanStrList(callers[tg])))
	}

	var b strings.Builder
	b.WriteString("/- GENERATED by /verif/extract/c20 (-what locks) from " + pkgDir + "/*.go (non-test files).\n")
	b.WriteString("   Do not edit.  Regenerated by bin/check C20 on every run; `Pko.Props.C20.locks_cover_bodies` and the\n")
	b.WriteString("   theorems next to it compare it with the hand-written expectation. -/\n")
	b.WriteString("namespace Pko.Gen.ReqMgrLocks\n\n")
	b.WriteString("/-- (method, lockKind, lockStmtIndex, deferUnlockFollows, otherMutexCalls, sharedOutsideLock) -/\n")
	b.WriteString("def reqMgrLocks : List (String × String × Nat × Bool × Nat × Bool) := [\n")
	b.WriteString(strings.Join(rows, ",\n"))
	b.WriteString("\n]\n\n")
	b.WriteString("/-- per method: for every `go` statement, the calls rooted at the receiver inside it -/\n")
	b.WriteString("def reqMgrGo : List (String × List (List String)) := [\n")
	b.WriteString(strings.Join(gos, ",\n"))
	b.WriteString("\n]\n\n")
	b.WriteString("/-- functions of the package that touch the in-flight table -/\n")
	b.WriteString("def reqMgrInFlightUsers : List String := " + leanStrList(users) + "\n\n")
	b.WriteString("/-- (callee, callers within the package) -/\n")
	b.WriteString("def reqMgrCallers : List (String × List String) := [\n")
	b.WriteString(strings.Join(crow, ",\n"))
	b.WriteString("\n]\n\n")
	b.WriteString("/-- sends in handleResponse: (channel, RawPackage field value, declared without value, right-hand sides assigned to it) -/\n")
	b.WriteString("def reqMgrSent : List (String × String × Bool × List String) := [\n")
	b.WriteString(strings.Join(sent, ",\n"))
	b.WriteString("\n]\n\n")
	b.WriteString("/-- per method: the operations that may block and execute while the lock is held (bodies of `go` functions excluded) -/\n")
	b.WriteString("def reqMgrBlocking : List (String × List String) := [\n")
	b.WriteString(strings.Join(blocking, ",\n"))
	b.WriteString("\n]\n\n")
	b.WriteString("/-- the `make(chan ...)` expressions in handleRequest -/\n")
	b.WriteString("def reqMgrChanMakes : List String := " + leanStrList(makes) + "\n\n")
	b.WriteString("end Pko.Gen.ReqMgrLocks\n")
	if err := os.MkdirAll(filepath.Dir(*out), 0o755); err != nil {
		fail("%v", err)
	}
	if old, err := os.ReadFile(*out); err == nil && string(old) == b.String() {
		return // unchanged: keep the mtime so lake does not rebuild
	}
	if err := os.WriteFile(*out, []byte(b.String()), 0o644); err != nil {
		fail("%v", err)
	}
}

func fail(format string, a ...any) {
	fmt.Fprintf(os.Stderr, "extract/c20: "+format+"\n", a...)
	os.Exit(1)
}

func contains(l []string, s string) bool {
	for _, x := range l {
		if x == s {
			return true
		}
	}
	return false
}

func leanStrList(l []string) string {
	var qs []string
	for _, c := range l {
		qs = append(qs, fmt.Sprintf("%q", c))
	}
	return "[" + strings.Join(qs, ", ") + "]"
}

func recvType(e ast.Expr) string {
	switch t := e.(type) {
	case *ast.StarExpr:
		return recvType(t.X)
	case *ast.Ident:
		return t.Name
	case *ast.IndexExpr:
		return recvType(t.X)
	}
	return ""
}

func selChain(e ast.Expr) string {
	switch t := e.(type) {
	case *ast.Ident:
		return t.Name
	case *ast.SelectorExpr:
		x := selChain(t.X)
		if x == "" {
			return ""
		}
		return x + "." + t.Sel.Name
	case *ast.ParenExpr:
		return selChain(t.X)
	}
	return ""
}

// mutexCall: is e a call `<recv>.inFlightLock.<name>()`; returns name.
func mutexCall(e ast.Expr, recv string) string {
	ce, ok := e.(*ast.CallExpr)
	if !ok {
		return ""
	}
	ch := selChain(ce.Fun)
	prefix := recv + "." + mutexField + "."
	if strings.HasPrefix(ch, prefix) {
		return strings.TrimPrefix(ch, prefix)
	}
	return ""
}

func touches(n ast.Node, recv string) bool {
	found := false
	ast.Inspect(n, func(x ast.Node) bool {
		if se, ok := x.(*ast.SelectorExpr); ok {
			if id, ok := se.X.(*ast.Ident); ok && id.Name == recv && se.Sel.Name == sharedField {
				found = true
			}
		}
		return !found
	})
	return found
}

// recvCalls: calls rooted at the receiver inside n (mutex excluded), source order, no repetitions.
func recvCalls(n ast.Node, recv string) []string {
	var calls []string
	ast.Inspect(n, func(x ast.Node) bool {
		ce, ok := x.(*ast.CallExpr)
		if !ok {
			return true
		}
		ch := selChain(ce.Fun)
		if !strings.HasPrefix(ch, recv+".") || strings.HasPrefix(ch, recv+"."+mutexField+".") {
			return true
		}
		ch = strings.TrimPrefix(ch, recv+".")
		if !contains(calls, ch) {
			calls = append(calls, ch)
		}
		return true
	})
	return calls
}

func analyse(m fn) (kind string, idx int, deferFollows bool, others int, outside bool) {
	stmts := m.decl.Body.List
	li := -1
	kind = "none"
	for i, s := range stmts {
		if es, ok := s.(*ast.ExprStmt); ok {
			if n := mutexCall(es.X, m.recv); n == "Lock" {
				li, kind = i, n
				break
			}
		}
	}
	// every call on the mutex in the body
	total := 0
	ast.Inspect(m.decl.Body, func(x ast.Node) bool {
		if ce, ok := x.(*ast.CallExpr); ok && mutexCall(ce, m.recv) != "" {
			total++
		}
		return true
	})
	if li < 0 {
		return kind, 0, false, total, touches(m.decl.Body, m.recv)
	}
	accounted := 1
	if li+1 < len(stmts) {
		if ds, ok := stmts[li+1].(*ast.DeferStmt); ok && mutexCall(ds.Call, m.recv) == "Unlock" {
			deferFollows = true
			accounted = 2
		}
	}
	others = total - accounted
	for _, s := range stmts[:li] {
		if touches(s, m.recv) {
			outside = true
		}
	}
	ast.Inspect(m.decl.Body, func(x ast.Node) bool {
		if fl, ok := x.(*ast.FuncLit); ok && touches(fl, m.recv) {
			outside = true
		}
		return true
	})
	return kind, li, deferFollows, others, outside
}

// blockingOps: operations in the body of m that may block and run on m's own goroutine (so, for
// the target methods, under the lock): see the package comment.
func blockingOps(m fn) []string {
	var ops []string
	var visit func(n ast.Node)
	visit = func(n ast.Node) {
		if n == nil {
			return
		}
		ast.Inspect(n, func(x ast.Node) bool {
			switch t := x.(type) {
			case *ast.GoStmt:
				// arguments are evaluated here, the function body runs elsewhere
				for _, a := range t.Call.Args {
					visit(a)
				}
				if _, lit := t.Call.Fun.(*ast.FuncLit); !lit {
					visit(t.Call.Fun)
				}
				return false
			case *ast.SendStmt:
				ops = append(ops, "send "+types.ExprString(t.Chan))
			case *ast.UnaryExpr:
				if t.Op == token.ARROW {
					ops = append(ops, "recv "+types.ExprString(t.X))
				}
			case *ast.SelectStmt:
				ops = append(ops, "select")
			case *ast.CallExpr:
				if mutexCall(t, m.recv) != "" {
					return true
				}
				if se, ok := t.Fun.(*ast.SelectorExpr); ok {
					switch se.Sel.Name {
					case "Lock", "RLock", "Wait", "Acquire", "Sleep":
						ops = append(ops, "call "+types.ExprString(t.Fun))
					}
				}
			}
			return true
		})
	}
	visit(m.decl.Body)
	return ops
}

// sendFacts: where does the RawPackage pointer of every response sent in m come from.
func sendFacts(m fn) []string {
	var out []string
	ast.Inspect(m.decl.Body, func(x ast.Node) bool {
		ss, ok := x.(*ast.SendStmt)
		if !ok {
			return true
		}
		val := "?"
		if cl, ok := ss.Value.(*ast.CompositeLit); ok {
			val = "<no RawPackage field>"
			for i, el := range cl.Elts {
				if kv, ok := el.(*ast.KeyValueExpr); ok {
					if id, ok := kv.Key.(*ast.Ident); ok && id.Name == "RawPackage" {
						val = types.ExprString(kv.Value)
					}
				} else if i == 0 {
					val = types.ExprString(el)
				}
			}
		} else {
			val = "<not a literal> " + types.ExprString(ss.Value)
		}
		zero := false
		var srcs []string
		ast.Inspect(m.decl.Body, func(y ast.Node) bool {
			switch t := y.(type) {
			case *ast.ValueSpec:
				for i, n := range t.Names {
					if n.Name == val {
						if len(t.Values) == 0 {
							zero = true
						} else if i < len(t.Values) {
							srcs = append(srcs, types.ExprString(t.Values[i]))
						}
					}
				}
			case *ast.AssignStmt:
				for i, l := range t.Lhs {
					if id, ok := l.(*ast.Ident); ok && id.Name == val {
						if len(t.Rhs) == len(t.Lhs) {
							srcs = append(srcs, types.ExprString(t.Rhs[i]))
						} else {
							srcs = append(srcs, "<multi> "+types.ExprString(t.Rhs[0]))
						}
					}
				}
			case *ast.RangeStmt:
				for _, e := range []ast.Expr{t.Key, t.Value} {
					if id, ok := e.(*ast.Ident); ok && id.Name == val {
						srcs = append(srcs, "<range> "+types.ExprString(t.X))
					}
				}
			case *ast.UnaryExpr:
				if id, ok := t.X.(*ast.Ident); ok && t.Op == token.AND && id.Name == val {
					srcs = append(srcs, "<address taken>")
				}
			}
			return true
		})
		out = append(out, fmt.Sprintf("  (%q, %q, %v, %s)", types.ExprString(ss.Chan), val, zero, leanStrList(srcs)))
		return true
	})
	return out
}
