module verif/extract/c20

go 1.21
