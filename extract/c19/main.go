// Panic-site census for property C19 ("nothing can crash PKO").
//
//	go run . -repo <repo> -out <file.lean> -what census
//
// Lists, for the non-test files of the packages on the untrusted-input path, every place where
// Go can panic *syntactically*:
//
//	panic   explicit call of the builtin panic
//	assert  single-value type assertion x.(T) (not the comma-ok form, not a type switch)
//	index   index expression x[i] on something that is not known to be a map
//	        (constant indices into arrays are compile-time checked and left out;
//	        constant indices into slices/strings are NOT: s[0] panics on an empty s)
//	slice   slice expression x[a:b] with at least one bound
//	mapwrite  assignment to an entry of a map that MAY BE NIL: `m[k] = v`, `m[k] op= v`, `m[k]++` where
//	        m has a map type (or an unknown type) and is not a local variable of the enclosing
//	        function whose every assignment is an allocation (`make(...)` or a composite literal) and
//	        whose address is never taken.  Parameters, results of calls, struct fields, `var m map[..]..`
//	        without a value and variables that are also assigned something else are all "may be nil".
//	nilmap  a SOURCE of nil maps: a variable of map type (or unknown type) that is assigned the literal
//	        `nil`, or declared `var m map[K]V` without a value
//	mapsink   a map that MAY BE NIL (same rule) handed, as a call argument, to a function or method of a
//	        package OUTSIDE the repository and outside the standard library: the callee may write into it
//	        in place (apiextensions defaulting.Default, unstructured.SetNestedField ...), which the
//	        census cannot look into.
//
// Types come from go/types with a best-effort importer (stdlib from source, packages of the
// repository's own modules from source, directly imported third-party packages from the module
// cache with their own non-stdlib imports faked, everything else faked).  Where a type is unknown
// the site is REPORTED (over-approximation, never under-approximation).
//
// Output: `def census : List (String × String × String)` = (file, enclosing function, kind),
// sorted, with multiplicity, WITHOUT line numbers, so that edits which do not add, remove or move
// a potential panic site do not change the file.  Stdlib only.
//
// Second output, `def assertGuards : List (String × String × String × String)`: for every `assert`
// row of the census (same order) the asserted expression in source form and its GUARDS = the
// conditions, in source form, under which control provably does not reach the assertion or under
// which alone it is reached, as far as they talk about the asserted value:
//
//	unless C   an `if C { ... }` statement without else whose body always leaves (return, panic,
//	           continue, break, goto), that is an earlier statement of a block enclosing the
//	           assertion (so it DOMINATES the assertion: reaching it implies !C), or the assertion
//	           sits in the else branch of `if C`
//	if C       the assertion sits in the then branch of `if C`
//
// restricted to conditions that mention the root variable of the asserted operand (`out` in
// `out.Value().(bool)`) and that come after the last assignment to that variable before the
// assertion (an earlier check would be about another value).  Guards are joined by " ; " in source
// order.  This makes safety arguments of the form "guarded by the run-time type check directly
// above" a CHECKED fact: deleting the check, moving it behind the assertion, or replacing it by a
// test that is not about the value changes the row.
package main

import (
	"bufio"
	"flag"
	"fmt"
	"go/ast"
	"go/build"
	"go/importer"
	"go/parser"
	"go/printer"
	"go/token"
	"go/types"
	"os"
	"path/filepath"
	"sort"
	"strings"
)

// Directories (relative to the repo root) whose non-test .go files are scanned, recursively.
var roots = []string{
	"internal/controllers",
	"internal/packages/internal/packagerender",
	"internal/packages/internal/packageimport",
	"internal/packages/internal/packagestructure",
	"internal/packages/internal/packagevalidation",
	"internal/packages/internal/packagemanifestvalidation",
	"internal/packages/internal/packagedeploy",
	"internal/probing",
	"pkg/probing",
	"internal/preflight",
	"internal/adapters",
	"internal/utils",
	"internal/cmd",
}

type module struct {
	path  string // import path prefix
	dir   string // directory
	local bool   // part of the repository
}

type loader struct {
	fset    *token.FileSet
	std     types.Importer
	mods    []module
	pkgs    map[string]*types.Package
	loading map[string]bool
}

func fake(path string) *types.Package {
	name := path[strings.LastIndex(path, "/")+1:]
	if i := strings.IndexAny(name, ".-"); i > 0 && !strings.HasPrefix(name, "v") {
		name = name[:i]
	}
	p := types.NewPackage(path, name)
	p.MarkComplete()
	return p
}

func isStd(path string) bool {
	first := path
	if i := strings.Index(path, "/"); i >= 0 {
		first = path[:i]
	}
	return !strings.Contains(first, ".")
}

func (l *loader) find(path string) (module, string, bool) {
	best := -1
	for i, m := range l.mods {
		if path == m.path || strings.HasPrefix(path, m.path+"/") {
			if best < 0 || len(m.path) > len(l.mods[best].path) {
				best = i
			}
		}
	}
	if best < 0 {
		return module{}, "", false
	}
	m := l.mods[best]
	return m, filepath.Join(m.dir, strings.TrimPrefix(strings.TrimPrefix(path, m.path), "/")), true
}

type shallow struct{ l *loader }

func (s shallow) Import(path string) (*types.Package, error) {
	if path == "unsafe" {
		return types.Unsafe, nil
	}
	if isStd(path) {
		return s.l.Import(path)
	}
	if p, ok := s.l.pkgs[path]; ok {
		return p, nil
	}
	return fake(path), nil
}

func (l *loader) Import(path string) (*types.Package, error) {
	if path == "unsafe" {
		return types.Unsafe, nil
	}
	if p, ok := l.pkgs[path]; ok {
		return p, nil
	}
	if l.loading[path] {
		return fake(path), nil
	}
	l.loading[path] = true
	defer delete(l.loading, path)
	var p *types.Package
	if isStd(path) {
		q, err := l.std.Import(path)
		if err == nil {
			p = q
		}
	} else if m, dir, ok := l.find(path); ok {
		files := l.parseDir(dir, false)
		if len(files) > 0 {
			var imp types.Importer = shallow{l}
			if m.local {
				imp = l
			}
			conf := types.Config{Importer: imp, IgnoreFuncBodies: true, FakeImportC: true, Error: func(error) {}}
			q, _ := conf.Check(path, l.fset, files, nil)
			p = q
		}
	}
	if p == nil {
		p = fake(path)
	}
	l.pkgs[path] = p
	return p, nil
}

// isLocal: the import path belongs to one of the repository's own modules.
func (l *loader) isLocal(path string) bool {
	m, _, ok := l.find(path)
	return ok && m.local
}

func (l *loader) parseDir(dir string, withComments bool) []*ast.File {
	ents, err := os.ReadDir(dir)
	if err != nil {
		return nil
	}
	var files []*ast.File
	for _, e := range ents {
		n := e.Name()
		if e.IsDir() || !strings.HasSuffix(n, ".go") || strings.HasSuffix(n, "_test.go") {
			continue
		}
		if ok, err := build.Default.MatchFile(dir, n); err != nil || !ok {
			continue
		}
		f, err := parser.ParseFile(l.fset, filepath.Join(dir, n), nil, parser.SkipObjectResolution)
		if err != nil || f == nil {
			continue
		}
		files = append(files, f)
	}
	return files
}

func escapeModPath(s string) string {
	var b strings.Builder
	for _, c := range s {
		if c >= 'A' && c <= 'Z' {
			b.WriteByte('!')
			b.WriteRune(c + 'a' - 'A')
		} else {
			b.WriteRune(c)
		}
	}
	return b.String()
}

// requires parses the `require` entries of a go.mod (module path, version).
func requires(gomod string) (modPath string, reqs [][2]string) {
	f, err := os.Open(gomod)
	if err != nil {
		return "", nil
	}
	defer f.Close()
	sc := bufio.NewScanner(f)
	inReq := false
	for sc.Scan() {
		line := strings.TrimSpace(sc.Text())
		if i := strings.Index(line, "//"); i >= 0 {
			line = strings.TrimSpace(line[:i])
		}
		switch {
		case strings.HasPrefix(line, "module "):
			modPath = strings.TrimSpace(strings.TrimPrefix(line, "module "))
		case line == "require (":
			inReq = true
		case line == ")":
			inReq = false
		case strings.HasPrefix(line, "require "):
			fs := strings.Fields(strings.TrimPrefix(line, "require "))
			if len(fs) >= 2 {
				reqs = append(reqs, [2]string{fs[0], fs[1]})
			}
		case inReq:
			fs := strings.Fields(line)
			if len(fs) >= 2 {
				reqs = append(reqs, [2]string{fs[0], fs[1]})
			}
		}
	}
	return modPath, reqs
}

type site struct {
	file, fn, kind string
	line           int
	expr, guards   string // assert sites only
}

func src(fset *token.FileSet, n ast.Node) string {
	var b strings.Builder
	if err := printer.Fprint(&b, fset, n); err != nil {
		return "?"
	}
	return strings.Join(strings.Fields(b.String()), " ")
}

// rootIdent: the variable an operand is built from by selections, calls on it, indexing,
// dereferences and parentheses (out.Value() -> out, (*p).x[0] -> p).
func rootIdent(e ast.Expr) *ast.Ident {
	for {
		switch x := e.(type) {
		case *ast.Ident:
			return x
		case *ast.ParenExpr:
			e = x.X
		case *ast.SelectorExpr:
			e = x.X
		case *ast.CallExpr:
			sel, ok := ast.Unparen(x.Fun).(*ast.SelectorExpr)
			if !ok {
				return nil
			}
			e = sel.X
		case *ast.IndexExpr:
			e = x.X
		case *ast.StarExpr:
			e = x.X
		case *ast.TypeAssertExpr:
			e = x.X
		default:
			return nil
		}
	}
}

func mentions(n ast.Node, name string) bool {
	found := false
	ast.Inspect(n, func(m ast.Node) bool {
		if id, ok := m.(*ast.Ident); ok && id.Name == name {
			found = true
		}
		return !found
	})
	return found
}

// leaves: the statement list always ends by leaving the enclosing block.
func leaves(list []ast.Stmt) bool {
	if len(list) == 0 {
		return false
	}
	switch s := list[len(list)-1].(type) {
	case *ast.ReturnStmt:
		return true
	case *ast.BranchStmt:
		return s.Tok == token.BREAK || s.Tok == token.CONTINUE || s.Tok == token.GOTO
	case *ast.ExprStmt:
		if c, ok := s.X.(*ast.CallExpr); ok {
			if id, ok := ast.Unparen(c.Fun).(*ast.Ident); ok && id.Name == "panic" {
				return true
			}
			if sel, ok := ast.Unparen(c.Fun).(*ast.SelectorExpr); ok {
				if p, ok := sel.X.(*ast.Ident); ok && p.Name == "os" && sel.Sel.Name == "Exit" {
					return true
				}
			}
		}
	case *ast.BlockStmt:
		return leaves(s.List)
	}
	return false
}

// guardsOf computes the guards of the type assertion ta inside the function body.
func guardsOf(fset *token.FileSet, body *ast.BlockStmt, ta *ast.TypeAssertExpr) string {
	root := rootIdent(ta.X)
	if root == nil {
		return ""
	}
	// path of nodes from the body down to the assertion
	var path []ast.Node
	var stack []ast.Node
	ast.Inspect(body, func(n ast.Node) bool {
		if n == nil {
			stack = stack[:len(stack)-1]
			return true
		}
		stack = append(stack, n)
		if n == ast.Node(ta) {
			path = append([]ast.Node(nil), stack...)
		}
		return path == nil
	})
	if path == nil {
		return ""
	}
	// position of the last assignment to / declaration of the root variable before the assertion
	var lastDef token.Pos
	ast.Inspect(body, func(n ast.Node) bool {
		switch x := n.(type) {
		case *ast.AssignStmt:
			for _, l := range x.Lhs {
				if id, ok := l.(*ast.Ident); ok && id.Name == root.Name && x.Pos() < ta.Pos() && x.End() > lastDef {
					lastDef = x.End()
				}
			}
		case *ast.ValueSpec:
			for _, id := range x.Names {
				if id.Name == root.Name && x.Pos() < ta.Pos() && x.End() > lastDef {
					lastDef = x.End()
				}
			}
		case *ast.RangeStmt:
			for _, l := range []ast.Expr{x.Key, x.Value} {
				if id, ok := l.(*ast.Ident); ok && id.Name == root.Name && x.Pos() < ta.Pos() && x.Body.Pos() > lastDef {
					lastDef = x.Body.Pos()
				}
			}
		}
		return true
	})
	var gs []string
	add := func(kind string, cond ast.Expr) {
		if cond != nil && cond.Pos() >= lastDef && mentions(cond, root.Name) {
			gs = append(gs, kind+" "+src(fset, cond))
		}
	}
	for i, n := range path {
		if i+1 >= len(path) {
			break
		}
		child := path[i+1]
		var list []ast.Stmt
		switch x := n.(type) {
		case *ast.BlockStmt:
			list = x.List
		case *ast.CaseClause:
			list = x.Body
		case *ast.CommClause:
			list = x.Body
		case *ast.IfStmt:
			switch child {
			case ast.Node(x.Body):
				add("if", x.Cond)
			case x.Else:
				add("unless", x.Cond)
			}
		}
		for _, st := range list {
			if ast.Node(st) == child {
				break
			}
			if is, ok := st.(*ast.IfStmt); ok && is.Else == nil && leaves(is.Body.List) {
				add("unless", is.Cond)
			}
		}
	}
	return strings.Join(gs, " ; ")
}

func recvName(fd *ast.FuncDecl) string {
	if fd.Recv == nil || len(fd.Recv.List) == 0 {
		return fd.Name.Name
	}
	t := fd.Recv.List[0].Type
	for {
		switch x := t.(type) {
		case *ast.StarExpr:
			t = x.X
			continue
		case *ast.IndexExpr:
			t = x.X
			continue
		case *ast.IndexListExpr:
			t = x.X
			continue
		case *ast.ParenExpr:
			t = x.X
			continue
		}
		break
	}
	if id, ok := t.(*ast.Ident); ok {
		return id.Name + "." + fd.Name.Name
	}
	return fd.Name.Name
}

// allocOnly returns the names of the local variables of a function body that only ever hold a
// freshly allocated map: every assignment to the name is `make(...)` or a composite literal, there
// is at least one, the name is not a parameter / named result / range variable, it is never
// declared without a value and its address is never taken (json.Unmarshal(data, &m) may set a map
// to nil).  Purely by name: shadowing makes the answer more conservative, never less.
func allocOnly(fd *ast.FuncDecl) map[string]bool {
	alloc := map[string]int{}
	other := map[string]int{}
	isAlloc := func(e ast.Expr) bool {
		switch x := ast.Unparen(e).(type) {
		case *ast.CompositeLit:
			return true
		case *ast.CallExpr:
			if id, ok := ast.Unparen(x.Fun).(*ast.Ident); ok && id.Name == "make" {
				return true
			}
		}
		return false
	}
	fields := func(fl *ast.FieldList) {
		if fl == nil {
			return
		}
		for _, f := range fl.List {
			for _, n := range f.Names {
				other[n.Name]++
			}
		}
	}
	fields(fd.Recv)
	fields(fd.Type.Params)
	fields(fd.Type.Results)
	ast.Inspect(fd.Body, func(n ast.Node) bool {
		switch x := n.(type) {
		case *ast.FuncLit:
			fields(x.Type.Params)
			fields(x.Type.Results)
		case *ast.AssignStmt:
			for i, l := range x.Lhs {
				id, ok := l.(*ast.Ident)
				if !ok {
					continue
				}
				if len(x.Lhs) == len(x.Rhs) && isAlloc(x.Rhs[i]) {
					alloc[id.Name]++
				} else {
					other[id.Name]++
				}
			}
		case *ast.ValueSpec:
			for i, id := range x.Names {
				if len(x.Values) == len(x.Names) && isAlloc(x.Values[i]) {
					alloc[id.Name]++
				} else {
					other[id.Name]++
				}
			}
		case *ast.RangeStmt:
			for _, l := range []ast.Expr{x.Key, x.Value} {
				if id, ok := l.(*ast.Ident); ok {
					other[id.Name]++
				}
			}
		case *ast.UnaryExpr:
			if x.Op == token.AND {
				if id, ok := ast.Unparen(x.X).(*ast.Ident); ok {
					other[id.Name]++
				}
			}
		}
		return true
	})
	out := map[string]bool{}
	for n, c := range alloc {
		if c > 0 && other[n] == 0 {
			out[n] = true
		}
	}
	return out
}

func scanFile(fset *token.FileSet, rel string, f *ast.File, info *types.Info, local func(string) bool, out *[]site) {
	at := func(n ast.Node) int { return fset.Position(n.Pos()).Line }
	// comma-ok type assertions: v, ok := x.(T) / v, ok = x.(T) / var v, ok = x.(T)
	commaOK := map[*ast.TypeAssertExpr]bool{}
	ast.Inspect(f, func(n ast.Node) bool {
		switch s := n.(type) {
		case *ast.AssignStmt:
			if len(s.Lhs) == 2 && len(s.Rhs) == 1 {
				if ta, ok := ast.Unparen(s.Rhs[0]).(*ast.TypeAssertExpr); ok {
					commaOK[ta] = true
				}
			}
		case *ast.ValueSpec:
			if len(s.Names) == 2 && len(s.Values) == 1 {
				if ta, ok := ast.Unparen(s.Values[0]).(*ast.TypeAssertExpr); ok {
					commaOK[ta] = true
				}
			}
		}
		return true
	})
	typeOf := func(e ast.Expr) types.Type {
		if tv, ok := info.Types[e]; ok && tv.Type != nil {
			if b, ok := tv.Type.(*types.Basic); ok && b.Kind() == types.Invalid {
				return nil
			}
			return tv.Type
		}
		return nil
	}
	isConst := func(e ast.Expr) bool {
		if e == nil {
			return true
		}
		if tv, ok := info.Types[e]; ok && tv.Value != nil {
			return true
		}
		_, lit := ast.Unparen(e).(*ast.BasicLit)
		return lit
	}
	// mayBeNilMap: e has a map type (or an unknown one, when unknownToo) and is not a local variable
	// that only ever holds a fresh allocation.
	mayBeNilMap := func(e ast.Expr, fresh map[string]bool, unknownToo bool) bool {
		t := typeOf(e)
		if t == nil {
			if !unknownToo {
				return false
			}
		} else if _, ok := t.Underlying().(*types.Map); !ok {
			return false
		}
		switch x := ast.Unparen(e).(type) {
		case *ast.Ident:
			if x.Name == "nil" {
				return false
			}
			return !fresh[x.Name]
		case *ast.CompositeLit:
			return false
		case *ast.CallExpr:
			if id, ok := ast.Unparen(x.Fun).(*ast.Ident); ok && id.Name == "make" {
				return false
			}
		}
		return true
	}
	var walk func(n ast.Node, fn string, body *ast.BlockStmt, fresh map[string]bool)
	walk = func(n ast.Node, fn string, body *ast.BlockStmt, fresh map[string]bool) {
		mapWrite := func(l ast.Expr) {
			if ix, ok := ast.Unparen(l).(*ast.IndexExpr); ok && mayBeNilMap(ix.X, fresh, false) {
				*out = append(*out, site{file: rel, fn: fn, kind: "mapwrite", line: at(ix)})
			}
		}
		ast.Inspect(n, func(n ast.Node) bool {
			switch x := n.(type) {
			case *ast.FuncDecl:
				if x.Body != nil && fn == "<package>" {
					walk(x.Body, recvName(x), x.Body, allocOnly(x))
				}
				return fn != "<package>"
			case *ast.AssignStmt:
				if x.Tok != token.DEFINE {
					for _, l := range x.Lhs {
						mapWrite(l)
					}
				}
				if len(x.Lhs) == len(x.Rhs) {
					for i, r := range x.Rhs {
						if id, ok := ast.Unparen(r).(*ast.Ident); ok && id.Name == "nil" {
							if _, blank := x.Lhs[i].(*ast.Ident); blank && x.Lhs[i].(*ast.Ident).Name == "_" {
								continue
							}
							t := typeOf(x.Lhs[i])
							if t == nil {
								*out = append(*out, site{file: rel, fn: fn, kind: "nilmap", line: at(x)})
							} else if _, ok := t.Underlying().(*types.Map); ok {
								*out = append(*out, site{file: rel, fn: fn, kind: "nilmap", line: at(x)})
							}
						}
					}
				}
			case *ast.DeclStmt:
				if gd, ok := x.Decl.(*ast.GenDecl); ok && gd.Tok == token.VAR {
					for _, sp := range gd.Specs {
						if vs, ok := sp.(*ast.ValueSpec); ok && vs.Type != nil && len(vs.Values) == 0 {
							if t := typeOf(vs.Type); t != nil {
								if _, ok := t.Underlying().(*types.Map); ok {
									for range vs.Names {
										*out = append(*out, site{file: rel, fn: fn, kind: "nilmap", line: at(vs)})
									}
								}
							} else if _, ok := vs.Type.(*ast.MapType); ok {
								for range vs.Names {
									*out = append(*out, site{file: rel, fn: fn, kind: "nilmap", line: at(vs)})
								}
							}
						}
					}
				}
			case *ast.IncDecStmt:
				mapWrite(x.X)
			case *ast.ValueSpec:
				if fn == "<package>" && len(x.Names) > 0 {
					if x.Type != nil && len(x.Values) == 0 {
						isMap := false
						if t := typeOf(x.Type); t != nil {
							_, isMap = t.Underlying().(*types.Map)
						} else {
							_, isMap = x.Type.(*ast.MapType)
						}
						if isMap {
							for _, nm := range x.Names {
								*out = append(*out, site{file: rel, fn: "var " + nm.Name, kind: "nilmap", line: at(x)})
							}
						}
					}
					for _, v := range x.Values {
						walk(v, "var "+x.Names[0].Name, nil, nil)
					}
					return false
				}
			case *ast.CallExpr:
				if p := calleePkg(info, x); p != "" && !isStd(p) && !local(p) {
					for _, a := range x.Args {
						if mayBeNilMap(a, fresh, false) {
							*out = append(*out, site{file: rel, fn: fn, kind: "mapsink", line: at(x)})
						}
					}
				}
				if id, ok := ast.Unparen(x.Fun).(*ast.Ident); ok && id.Name == "panic" {
					builtin := true
					if obj, ok := info.Uses[id]; ok {
						_, builtin = obj.(*types.Builtin)
					}
					if builtin {
						*out = append(*out, site{file: rel, fn: fn, kind: "panic", line: at(x)})
					}
				}
			case *ast.TypeAssertExpr:
				if x.Type != nil && !commaOK[x] {
					g := ""
					if body != nil {
						g = guardsOf(fset, body, x)
					}
					*out = append(*out, site{rel, fn, "assert", at(x), src(fset, x), g})
				}
			case *ast.IndexExpr:
				if tv, ok := info.Types[x.Index]; ok && tv.IsType() {
					return true // generic instantiation
				}
				if tv, ok := info.Types[x.X]; ok && tv.IsType() {
					return true
				}
				t := typeOf(x.X)
				if t != nil {
					if _, isSig := t.Underlying().(*types.Signature); isSig {
						return true // generic function instantiation
					}
					u := t.Underlying()
					if p, ok := u.(*types.Pointer); ok {
						u = p.Elem().Underlying()
					}
					switch u.(type) {
					case *types.Map:
						return true
					case *types.Array:
						if isConst(x.Index) {
							return true
						}
					}
				}
				*out = append(*out, site{file: rel, fn: fn, kind: "index", line: at(x)})
			case *ast.SliceExpr:
				if x.Low == nil && x.High == nil && x.Max == nil {
					return true
				}
				*out = append(*out, site{file: rel, fn: fn, kind: "slice", line: at(x)})
			}
			return true
		})
	}
	walk(f, "<package>", nil, nil)
}

// calleePkg: import path of the package that declares the called function or method ("" when
// unknown, for builtins, conversions and calls of function values).
func calleePkg(info *types.Info, c *ast.CallExpr) string {
	var id *ast.Ident
	switch f := ast.Unparen(c.Fun).(type) {
	case *ast.Ident:
		id = f
	case *ast.SelectorExpr:
		id = f.Sel
	case *ast.IndexExpr: // generic instantiation f[T](...)
		switch g := ast.Unparen(f.X).(type) {
		case *ast.Ident:
			id = g
		case *ast.SelectorExpr:
			id = g.Sel
		}
	}
	if id == nil {
		return ""
	}
	if fn, ok := info.Uses[id].(*types.Func); ok && fn.Pkg() != nil {
		return fn.Pkg().Path()
	}
	return ""
}

func leanStr(s string) string {
	s = strings.ReplaceAll(s, `\`, `\\`)
	s = strings.ReplaceAll(s, `"`, `\"`)
	return `"` + s + `"`
}

func main() {
	repo := flag.String("repo", "/repo", "repository root")
	out := flag.String("out", "", "output .lean file")
	what := flag.String("what", "census", "what to extract (census)")
	lines := flag.Bool("lines", false, "also print file:line of every site to stderr (for reviewing the classification)")
	flag.Parse()
	if *what != "census" || *out == "" {
		fmt.Fprintln(os.Stderr, "usage: c19 -repo <repo> -out <file> -what census")
		os.Exit(2)
	}
	root, err := filepath.Abs(*repo)
	if err != nil {
		fmt.Fprintln(os.Stderr, err)
		os.Exit(2)
	}
	build.Default.CgoEnabled = false
	fset := token.NewFileSet()
	l := &loader{fset: fset, std: importer.ForCompiler(fset, "source", nil),
		pkgs: map[string]*types.Package{}, loading: map[string]bool{}}

	modcache := os.Getenv("GOMODCACHE")
	if modcache == "" {
		gp := os.Getenv("GOPATH")
		if gp == "" {
			home, _ := os.UserHomeDir()
			gp = filepath.Join(home, "go")
		}
		modcache = filepath.Join(strings.Split(gp, string(os.PathListSeparator))[0], "pkg", "mod")
	}
	seenMod := map[string]bool{}
	for _, sub := range []string{".", "apis", "pkg"} {
		mp, reqs := requires(filepath.Join(root, sub, "go.mod"))
		if mp == "" {
			continue
		}
		l.mods = append(l.mods, module{path: mp, dir: filepath.Join(root, sub), local: true})
		seenMod[mp] = true
		for _, r := range reqs {
			if seenMod[r[0]] {
				continue
			}
			seenMod[r[0]] = true
			l.mods = append(l.mods, module{path: r[0], dir: filepath.Join(modcache, escapeModPath(r[0])+"@"+r[1])})
		}
	}
	// the repository's own modules win over a `require` of the same path
	sort.SliceStable(l.mods, func(i, j int) bool { return l.mods[i].local && !l.mods[j].local })

	var sites []site
	nfiles := 0
	for _, r := range roots {
		base := filepath.Join(root, r)
		var dirs []string
		filepath.WalkDir(base, func(p string, d os.DirEntry, err error) error {
			if err == nil && d.IsDir() {
				if d.Name() == "testdata" {
					return filepath.SkipDir
				}
				dirs = append(dirs, p)
			}
			return nil
		})
		sort.Strings(dirs)
		for _, dir := range dirs {
			files := l.parseDir(dir, false)
			if len(files) == 0 {
				continue
			}
			// also pick up files excluded by build constraints on this platform (they still ship)
			have := map[string]bool{}
			for _, f := range files {
				have[fset.Position(f.Pos()).Filename] = true
			}
			ents, _ := os.ReadDir(dir)
			for _, e := range ents {
				n := e.Name()
				p := filepath.Join(dir, n)
				if e.IsDir() || !strings.HasSuffix(n, ".go") || strings.HasSuffix(n, "_test.go") || have[p] {
					continue
				}
				if f, err := parser.ParseFile(fset, p, nil, parser.SkipObjectResolution); err == nil {
					files = append(files, f)
				}
			}
			info := &types.Info{Types: map[ast.Expr]types.TypeAndValue{}, Uses: map[*ast.Ident]types.Object{}}
			conf := types.Config{Importer: l, FakeImportC: true, Error: func(error) {}}
			conf.Check(dir, fset, files, info)
			for _, f := range files {
				rel, _ := filepath.Rel(root, fset.Position(f.Pos()).Filename)
				scanFile(fset, filepath.ToSlash(rel), f, info, l.isLocal, &sites)
				nfiles++
			}
		}
	}
	sort.Slice(sites, func(i, j int) bool {
		a, b := sites[i], sites[j]
		if a.file != b.file {
			return a.file < b.file
		}
		if a.fn != b.fn {
			return a.fn < b.fn
		}
		if a.kind != b.kind {
			return a.kind < b.kind
		}
		if a.line != b.line {
			return a.line < b.line
		}
		return a.expr < b.expr
	})
	if *lines {
		for _, s := range sites {
			fmt.Fprintf(os.Stderr, "%s:%d\t%s\t%s\t%s\t%s\n", s.file, s.line, s.fn, s.kind, s.expr, s.guards)
		}
	}
	var b strings.Builder
	b.WriteString("/- GENERATED by /verif/extract/c19 from the repository's working tree - do not edit.\n")
	b.WriteString("   Panic-site census: (file, enclosing function, kind) of every explicit panic, single-value\n")
	b.WriteString("   type assertion and index/slice expression on a non-map in the non-test files of the\n")
	b.WriteString("   packages on the untrusted-input path, plus the ingredients of a nil-map write: nilmap (a map\n")
	b.WriteString("   variable set to nil / declared without value), mapwrite (entry assignment to a map that is not\n")
	b.WriteString("   a locally allocated variable), mapsink (such a map handed to a third-party function).\n")
	b.WriteString("   Sorted, with multiplicity, no line numbers. -/\n")
	b.WriteString("namespace Pko.Gen.PanicCensus\n\n")
	fmt.Fprintf(&b, "/-- scanned directories (recursively) -/\ndef roots : List String := [%s]\n\n", func() string {
		var q []string
		for _, r := range roots {
			q = append(q, leanStr(r))
		}
		return strings.Join(q, ", ")
	}())
	b.WriteString("def census : List (String × String × String) := [\n")
	for i, s := range sites {
		sep := ","
		if i == len(sites)-1 {
			sep = ""
		}
		fmt.Fprintf(&b, "  (%s, %s, %s)%s\n", leanStr(s.file), leanStr(s.fn), leanStr(s.kind), sep)
	}
	b.WriteString("]\n\n")
	b.WriteString("/-- For every `assert` row of the census, in census order: (file, enclosing function, asserted\n")
	b.WriteString("expression, guards).  Guards = conditions about the asserted value's root variable that control\n")
	b.WriteString("the reachability of the assertion: `unless C` = a dominating `if C { ...leave }` (or the else branch\n")
	b.WriteString("of `if C`), `if C` = the then branch of `if C`; source form, joined by \" ; \"; only conditions after\n")
	b.WriteString("the last assignment to that variable. -/\n")
	b.WriteString("def assertGuards : List (String × String × String × String) := [\n")
	var as []site
	for _, s := range sites {
		if s.kind == "assert" {
			as = append(as, s)
		}
	}
	for i, s := range as {
		sep := ","
		if i == len(as)-1 {
			sep = ""
		}
		fmt.Fprintf(&b, "  (%s, %s, %s, %s)%s\n", leanStr(s.file), leanStr(s.fn), leanStr(s.expr), leanStr(s.guards), sep)
	}
	b.WriteString("]\n\nend Pko.Gen.PanicCensus\n")
	if err := os.MkdirAll(filepath.Dir(*out), 0o755); err != nil {
		fmt.Fprintln(os.Stderr, err)
		os.Exit(1)
	}
	// only rewrite when the content changed, so that lake does not rebuild needlessly
	if old, err := os.ReadFile(*out); err == nil && string(old) == b.String() {
		fmt.Fprintf(os.Stderr, "census: %d sites in %d files (unchanged)\n", len(sites), nfiles)
		return
	}
	if err := os.WriteFile(*out, []byte(b.String()), 0o644); err != nil {
		fmt.Fprintln(os.Stderr, err)
		os.Exit(1)
	}
	fmt.Fprintf(os.Stderr, "census: %d sites in %d files\n", len(sites), nfiles)
}
