module verif.local/extract/c19

go 1.22
