module verif/extract/c12

go 1.21
