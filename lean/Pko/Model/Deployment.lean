/-
Model of the ObjectDeployment → ObjectSet revision machinery (property C07).  Core Lean only.

Go ↔ model
* `internal/controllers/objectdeployments/objectdeployment_controller.go`
    `GenericObjectDeploymentController.Reconcile`          ↦ `odPass` (one pass = one step)
    `listObjectSetsByRevision` (List by selector + sort)   ↦ `visible`, `sortByRev`
* `hash_reconciler.go`  `hashReconciler.Reconcile`          ↦ `c.h s.template s.cc`
    (`utils.ComputeFNV32Hash(template, collisionCount)`: the hash is an ABSTRACT function `h` of
    the template variant and the collision count – every theorem quantifies over ALL `h`,
    injective or not, so real FNV collisions are covered; on the Go side a clash is provoked by
    rolling back to an earlier template or by a foreign ObjectSet squatting on the next name)
* `objectset_reconciler.go`  `objectSetReconciler.Reconcile` ↦ `plan`
    (delay until every listed ObjectSet reports a revision; current = newest listed ObjectSet whose
    hash annotation equals status.templateHash; sub-reconcilers skipped while paused)
* `new_revision_reconciler.go`  `newRevisionReconciler.Reconcile` ↦ the `.create` arm of `odPass`
    (no phases → wait; Create; AlreadyExists → Get conflicting → "slow cache" test → else bump
    status.collisionCount).  `slowCache` is the test AFTER the fix of finding C07-a; `legacy := true`
    gives the test as it was before (used only for `one_per_template_counterexample_before_fix`).
* `archive_reconciler.go` (the last sub-reconciler of the pass) is not modelled here (C08): archival
  and garbage collection of old revisions appear as the environment operations `arch` / `del` with
  the guards PKO's own archiver obeys.  The harness runs the real archiveReconciler as part of every
  pass and reports what it archived / garbage collected (beyond `spec.revisionHistoryLimit`, which the
  histories vary: operation `limit`) as separate `arch` / `del` steps right after the pass (so the
  guards of `arch` and `del` are checked against the real archiver whenever it acts).
* `internal/controllers/objectsets/revision_reconciler.go`  `revisionReconciler.Reconcile`
    ↦ `osPass` (set once; no previous → 1; otherwise max(previous)+1, waiting for previous
    revisions that do not report a number yet; the ObjectSet controller does not run it for an
    archived ObjectSet).

The cache of the ObjectDeployment controller: a List returns every ObjectSet carrying the selector
labels, except – in a pass with view `hideList` / `hideBoth` – those this deployment created and has
not observed yet (their serials are in `unseen`): the create-not-yet-visible window the property names.  With
`hideBoth` the Get of the conflicting ObjectSet misses it too (NotFound).  A pass with a fresh view
observes everything.  Assumption (checks/C07.json): the window does not span a template edit
(`racy := false`); `racy := true` drops it and is used only for `racy_edit_counterexample`.
-/
namespace Pko.Model.Deployment

/-- One ObjectSet (or ClusterObjectSet) in the API. -/
structure OSet where
  serial : Nat          -- creation order (ghost: identifies the object, names can be reused after deletion)
  name : Nat            -- name suffix = the template hash it was created under
  hash : Nat            -- `package-operator.run/hash` annotation
  spec : Nat            -- template variant its spec equals
  prev : List Nat       -- names in spec.previous
  rev : Nat             -- status.revision, 0 = not reported
  archived : Bool       -- spec.lifecycleState == Archived
  owned : Bool          -- controller reference points at this ObjectDeployment
  member : Bool         -- carries the deployment's selector labels (listed by the deployment)
  deriving DecidableEq, Repr, Inhabited

structure State where
  template : Nat        -- spec.template variant; 0 = template without phases
  paused : Bool         -- spec.paused
  cc : Nat              -- status.collisionCount (0 = nil)
  th : Option Nat       -- status.templateHash as last persisted
  sets : List OSet      -- all ObjectSets, in creation order
  next : Nat            -- serial of the next ObjectSet
  unseen : List Nat     -- serials of own creates the deployment's cache has not observed yet
  -- ghost variables (never read by the modelled code)
  created : Nat         -- ObjectSets created since the template last changed
  hi : Nat              -- highest revision number ever reported by a member
  log : List Nat        -- revision numbers reported by members, in order of assignment
  deriving Repr

structure Cfg where
  h : Nat → Nat → Nat   -- hash of (template variant, collision count)
  legacy : Bool         -- slow-cache test as before the C07-a fix
  racy : Bool           -- the cache window may span template edits

inductive Fault where
  | none | fail | lose   -- create: fine / fails before taking effect / takes effect, response lost
  deriving DecidableEq, Repr, Inhabited

inductive View where
  | fresh | hideList | hideBoth
  deriving DecidableEq, Repr, Inhabited

inductive Op where
  | edit (k : Nat)
  | pause (b : Bool)
  | od (f : Fault) (v : View) (sfail : Bool)
  | os (i : Nat)
  | arch (i : Nat)
  | del (i : Nat)
  | squat (d : Nat) (owned arch : Bool) (spec rev : Nat) (prev : List Nat)
  | restart
  | limit (l : Option Nat)   -- the user sets spec.revisionHistoryLimit (`none` = field absent, default 10)
  deriving DecidableEq, Repr, Inhabited

def init (t : Nat) : State :=
  { template := t, paused := false, cc := 0, th := none, sets := [], next := 0, unseen := [], created := 0, hi := 0, log := [] }

/-- ObjectSets of the deployment (what an up-to-date List by selector returns). -/
def members (s : State) : List OSet := s.sets.filter (·.member)

/-- What the controller's List returns in a pass with view `v`. -/
def visible (s : State) (v : View) : List OSet :=
  s.sets.filter (fun o => o.member && (v == .fresh || !s.unseen.contains o.serial))

/-- Insert into a list sorted by ascending revision (before the first element that is not smaller). -/
def insertByRev (o : OSet) : List OSet → List OSet
  | [] => [o]
  | x :: xs => if o.rev ≤ x.rev then o :: x :: xs else x :: insertByRev o xs

/-- `sort.Sort(objectSetsByRevisionAscending(items))` (as a structural insertion sort, so that
concrete histories can be evaluated by `decide`; on the states the controller acts on all listed
revisions are distinct, where every sorting algorithm returns the same list). -/
def sortByRev (l : List OSet) : List OSet := l.foldr insertByRev []

/-- A fresh List observes everything. -/
def markSeen (v : View) (unseen : List Nat) : List Nat := if v = .fresh then [] else unseen

inductive Outcome where
  | ok | «exists» | fail | lost
  deriving DecidableEq, Repr, Inhabited

/-- One ObjectSet create request as sent to the API. -/
structure Req where
  obj : OSet
  outcome : Outcome
  deriving Repr

inductive Res where
  | ok | inj | nf
  deriving DecidableEq, Repr, Inhabited

/-- What `objectSetReconciler` + the first half of `newRevisionReconciler` decide from the list. -/
inductive Plan where
  | gate        -- a listed ObjectSet does not report a revision yet: delay any action
  | paused      -- sub-reconcilers are skipped
  | current     -- the newest listed ObjectSet carries the template hash
  | noPhases    -- template without phases: wait for spec
  | create (new : OSet) (latest : Nat)
  deriving Repr

def latestRev (sorted : List OSet) : Nat :=
  match sorted.getLast? with | some o => o.rev | none => 0

def newSet (c : Cfg) (s : State) (sorted : List OSet) : OSet :=
  { serial := s.next, name := c.h s.template s.cc, hash := c.h s.template s.cc, spec := s.template,
    prev := sorted.map (·.name), rev := 0, archived := false, owned := true, member := true }

/-- objectset_reconciler.go:50-70: is the newest listed ObjectSet the current one? -/
def isCurrent (sorted : List OSet) (tH : Nat) : Bool :=
  match sorted.getLast? with | some o => o.hash == tH | none => false

def plan (c : Cfg) (s : State) (v : View) : Plan :=
  let tH := c.h s.template s.cc
  let vis := visible s v
  -- objectset_reconciler.go:43-48
  if vis.any (fun o => o.rev == 0) then .gate else
  let sorted := sortByRev vis
  -- objectset_reconciler.go:96-100
  if s.paused then .paused else
  -- new_revision_reconciler.go:31-34
  if isCurrent sorted tH then .current else
  -- new_revision_reconciler.go:37-41
  if s.template == 0 then .noPhases else
  .create (newSet c s sorted) (latestRev sorted)

/-- new_revision_reconciler.go:67-77 (the "slow cache, no collision" test). -/
def slowCache (c : Cfg) (conf : OSet) (latest t : Nat) : Bool :=
  !conf.archived && (decide (latest ≤ conf.rev) || (!c.legacy && conf.rev == 0)) && conf.owned && conf.spec == t

structure Out where
  st : State
  reqs : List Req
  res : Res

/-- End of `GenericObjectDeploymentController.Reconcile`: `Status().Update`.  `cc0` is the
collision count the pass started with (a failed update loses the bump). -/
def finish (s : State) (cc0 tH : Nat) (sfail : Bool) (reqs : List Req) : Out :=
  if sfail then ⟨{ s with cc := cc0 }, reqs, .inj⟩ else ⟨{ s with th := some tH }, reqs, .ok⟩

/-- One pass of the ObjectDeployment controller. -/
def odPass (c : Cfg) (s : State) (f : Fault) (v : View) (sfail : Bool) : Out :=
  let tH := c.h s.template s.cc
  let s1 := { s with unseen := markSeen v s.unseen }
  match plan c s v with
  | .create new latest =>
    if f = .fail then ⟨s1, [⟨new, .fail⟩], .inj⟩ else
    match s.sets.find? (fun o => o.name == tH) with
    | none =>
      let s2 := { s1 with sets := s.sets ++ [new], next := s.next + 1, unseen := new.serial :: s1.unseen,
                          created := s.created + 1 }
      if f = .lose then ⟨s2, [⟨new, .lost⟩], .inj⟩ else finish s2 s.cc tH sfail [⟨new, .ok⟩]
    | some conf =>
      -- AlreadyExists → Get the conflicting ObjectSet
      if v = .hideBoth ∧ conf.member = true ∧ conf.serial ∈ s.unseen then ⟨s1, [⟨new, .exists⟩], .nf⟩ else
      if slowCache c conf latest s.template then finish s1 s.cc tH sfail [⟨new, .exists⟩]
      else finish { s1 with cc := s.cc + 1 } s.cc tH sfail [⟨new, .exists⟩]
  | _ => finish s1 s.cc tH sfail []

inductive Look where
  | missing | waiting | ok (m : Nat)
  deriving DecidableEq, Repr

/-- revision_reconciler.go:40-66: the loop over spec.previous. -/
def lookPrev (sets : List OSet) : List Nat → Nat → Look
  | [], acc => .ok acc
  | n :: ns, acc =>
    match sets.find? (fun o => o.name == n) with
    | none => .missing
    | some p => if p.rev == 0 then .waiting else lookPrev sets ns (max acc p.rev)

inductive OsRes where
  | none | ok | rq | err
  deriving DecidableEq, Repr, Inhabited

/-- Report revision `r` for the ObjectSet at index `i` (ghost bookkeeping for members). -/
def setRev (s : State) (i : Nat) (o : OSet) (r : Nat) : State :=
  { s with sets := s.sets.set i { o with rev := r },
           hi := if o.member then max s.hi r else s.hi,
           log := if o.member then s.log ++ [r] else s.log }

/-- The revision a pass of the ObjectSet controller reports for `o`, if any. -/
def osDecide (s : State) (o : OSet) : Option Nat × OsRes :=
  if o.archived then (none, .ok)               -- objectset_controller.go: archived → teardown path only
  else if o.rev != 0 then (none, .ok)          -- revision_reconciler.go:28-31
  else if o.prev.isEmpty then (some 1, .ok)    -- revision_reconciler.go:33-37
  else match lookPrev s.sets o.prev 0 with
    | .missing => (none, .err)
    | .waiting => (none, .rq)
    | .ok m => (some (m + 1), .ok)

/-- One pass of the ObjectSet controller on the ObjectSet at index `i`. -/
def osPass (s : State) (i : Nat) : State × OsRes :=
  match s.sets[i]? with
  | none => (s, .none)
  | some o =>
    match osDecide s o with
    | (some r, res) => (setRev s i o r, res)
    | (none, res) => (s, res)

/-- Environment guard for deleting a member: what `garbageCollectRevisions` can do. -/
def canDelete (s : State) (o : OSet) : Bool :=
  !o.member || ((members s).all (fun m => m.rev != 0) && (members s).any (fun m => decide (o.rev < m.rev)))

/-- Environment guard for archiving a member. -/
def canArchive (s : State) (o : OSet) : Bool := !o.member || (o.rev != 0 && !s.unseen.contains o.serial)

def step (c : Cfg) (s : State) : Op → State
  | .edit k =>
    if k = s.template then s
    else { s with template := k, created := 0, unseen := if c.racy then s.unseen else [] }
  | .pause b => { s with paused := b }
  | .od f v sfail => (odPass c s f v sfail).st
  | .os i => (osPass s i).1
  | .arch i =>
    match s.sets[i]? with
    | none => s
    | some o => if canArchive s o then { s with sets := s.sets.set i { o with archived := true } } else s
  | .del i =>
    match s.sets[i]? with
    | none => s
    | some o => if canDelete s o then { s with sets := s.sets.eraseIdx i } else s
  | .squat d owned arch spec rev prev =>
    let n := c.h s.template (s.cc + d)
    if s.sets.any (fun o => o.name == n) then s
    else { s with next := s.next + 1,
                  sets := s.sets ++ [{ serial := s.next, name := n, hash := n, spec := spec, prev := prev, rev := rev,
                                       archived := arch, owned := owned, member := false }] }
  | .restart => s
  -- spec.revisionHistoryLimit is read by `archiveReconciler.garbageCollectRevisions` only (an
  -- environment operation here, `del`): neither `objectSetReconciler` nor `newRevisionReconciler` /
  -- `newObjectSetFromDeployment` look at it, so it is not part of the modelled state and changing it
  -- changes nothing a pass decides (`Pko.Props.C07.limit_irrelevant`).
  | .limit _ => s

def run (c : Cfg) (s : State) (ops : List Op) : State := ops.foldl (step c) s

def resStr : Res → String
  | .ok => "ok" | .inj => "e:inj" | .nf => "e:nf"

def osResStr : OsRes → String
  | .none => "-" | .ok => "ok" | .rq => "rq" | .err => "err"

/-- `step` together with what an observer of the API sees of it: the ObjectSet create requests
and the controller's result. -/
def exec (c : Cfg) (s : State) : Op → State × List Req × String
  | .od f v sfail => let o := odPass c s f v sfail; (o.st, o.reqs, resStr o.res)
  | .os i => let r := osPass s i; (r.1, [], osResStr r.2)
  | op => (step c s op, [], "-")

end Pko.Model.Deployment
