/-
Abstract specification for the delivery part of property C12, written from the property's sentence:
"the dynamic cache runs an informer for a kind exactly while at least one live owner watches that
kind; every informer it starts delivers events to all registered controller handlers".

State = who watches what, which call contexts have ended, how many objects exist per kind, and how
many create events every registered handler must have received per kind.  No informer bookkeeping.
The context of a `Watch` call scopes that call only: `cancel` changes nothing but `done`.
-/
import Pko.Model.InformerLive
namespace Pko.Model.LiveSpec
open Pko.Model.Cache (Kind Owner insertOwner)
open Pko.Model.InformerLive (Ctx Op LRes)

structure Spec where
  w : Kind → List Owner
  done : Ctx → Bool
  objs : Kind → Nat
  ev : Kind → Nat

def init : Spec := { w := fun _ => [], done := fun _ => false, objs := fun _ => 0, ev := fun _ => 0 }

/-- A kind gets its first watcher: an informer starts, every handler learns the existing objects. -/
def start (s : Spec) (o : Owner) (k : Kind) : Spec :=
  { s with
    w := fun k' => if k' = k then [o] else s.w k'
    ev := fun k' => if k' = k then s.ev k + s.objs k else s.ev k' }

def step (s : Spec) : Op → Spec × LRes
  | .watch o k c =>
    if (s.w k).isEmpty then
      -- the call has to wait for the informer's first sync, which it cannot under an ended context
      if s.done c then (s, .err) else (start s o k, .ok)
    else ({ s with w := fun k' => if k' = k then insertOwner o (s.w k) else s.w k' }, .ok)
  | .free o => ({ s with w := fun k => (s.w k).filter (· ≠ o) }, .ok)
  | .get k =>
    if (s.w k).isEmpty then (s, .notStarted)
    else if s.objs k = 0 then (s, .notFound) else (s, .ok)
  | .cancel c => ({ s with done := fun c' => if c' = c then true else s.done c' }, .ok)
  | .create k =>
    ({ s with
       objs := fun k' => if k' = k then s.objs k + 1 else s.objs k'
       -- delivered to every handler iff somebody watches the kind
       ev := fun k' => if k' = k ∧ !(s.w k).isEmpty then s.ev k + 1 else s.ev k' }, .ok)

def run (s : Spec) (ops : List Op) : Spec := ops.foldl (fun s op => (step s op).1) s

/-- What can be observed of a kind from outside. -/
structure Obs where
  owners : List Owner
  entry : Bool            -- the informer map holds an informer
  streams : Nat           -- WATCH streams of the kind that are open
  events : Nat            -- create events received by every controller handler
  listed : Option Nat     -- objects `Cache.List` returns (`none` = refused)
  deriving DecidableEq, Repr

/-- The specified observation: watched ⇔ one informer with one open stream whose store is the
content of the API server; unwatched ⇔ nothing runs and reads are refused. -/
def obs (s : Spec) (k : Kind) : Obs :=
  let owned := !(s.w k).isEmpty
  { owners := s.w k, entry := owned, streams := if owned then 1 else 0, events := s.ev k,
    listed := if owned then some (s.objs k) else none }

end Pko.Model.LiveSpec
