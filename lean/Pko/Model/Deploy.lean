/-
Model of the Package rollout path (property C16).  Core Lean only.

Go ↔ model
* `internal/packages/internal/packagedeploy/deployer.go`
    `PackageDeployer.Deploy`            ↦ `deploy`
    `checkConstraints` (= body of `validateConstraints`) ↦ `checkConstraints` (`consLoop`, `uniqueRes`)
    `validateUnique`                    ↦ `uniqueRes` over the outcome of the List call
* `internal/packages/internal/packagedeploy/deployment_reconciler.go`
    `DeploymentReconciler.Reconcile`    ↦ `reconcile` (Get → [Create empty] → Update, retried on 409
                                          Conflict at most `retrySteps` times → slice GC); the refined
                                          model with resourceVersions, annotations / labels and the
                                          third-party writes that cause the conflicts is
                                          `Pko.Model.DeployRetry.reconcileObj` (shown to refine `reconcile`)
* `internal/controllers/packages/unpack_reconciler.go`   `unpackReconciler.Reconcile`
  `internal/controllers/packages/package_controller.go`  `GenericPackageController.Reconcile`,
    `updateStatus`                      ↦ `pass`

The leaves (structural loader, semver / platform evaluation of one constraint, the List call of
`validateUnique`, JSON decoding and schema admission of the configuration, image digest
resolution, rendering + package/object validation, building the desired ObjectDeployment, the API
calls) are opaque: their OUTCOMES are inputs (`Leaves`, `Faults`).  The model is the control flow
between them: which outcome stops the chain, whether `Deploy` returns an error (the Package
controller then does not persist the status) or nil (persisted), which conditions result, whether
the ObjectDeployment is written.

The model is of the code AFTER the fixes recorded as findings C16-a (`Deploy` stops, keeps
Invalid/ConstraintsFailed and returns nil when constraints are unmet) and C16-b
(`NewClusterPackageDeployer` sets `uncachedClient`, so cluster scope behaves like namespace scope).
-/
namespace Pko.Model.Deploy

/-- Outcome of one check inside the loop of `checkConstraints`: a `platform` entry or a
`platformVersion` entry of a manifest constraint.  `err` = version range or platform version
does not parse (the function returns that error at once). A `platformVersion` for a platform
that is not present is skipped by the code: that is `met`. -/
inductive COut where
  | met | unmet | err
  deriving DecidableEq, Repr, Inhabited

/-- `validateUnique`: no `uniqueInScope` constraint (no List call), List fails, or the number of
(Cluster)Packages carrying the manifest's package label. -/
inductive UOut where
  | absent | listErr | zero | one | many
  deriving DecidableEq, Repr, Inhabited

/-- `AdmitPackageConfiguration`: accepted / violates the manifest's schema / internal error. -/
inductive Admit where
  | ok | invalid | err
  deriving DecidableEq, Repr, Inhabited

/-- API error injected into `DeploymentReconciler.Reconcile` (at most one per call):
Get of the ObjectDeployment, its Create, its Update, or `late` = anything after the Update
(listing ObjectSets / ObjectSlices for slice garbage collection); `conflict n` = a third party
writes the ObjectDeployment right before each of the next `n` Update requests, so each of them is
answered 409 Conflict (optimistic locking) — no error of the API, an interleaving. -/
inductive RFault where
  | none | get | create | update | late
  | conflict (n : Nat)
  deriving DecidableEq, Repr, Inhabited

/-- Outcomes of the leaves of one `Deploy` call, in the order the code consults them. -/
structure Leaves where
  load : Bool          -- structuralLoader.LoadComponent succeeded
  cons : List COut     -- the checks of the constraint loop, in manifest order
  uniq : UOut
  cfgJson : Bool       -- json.Unmarshal of spec.config succeeded
  admission : Admit
  images : Bool        -- ImageWithDigest succeeded for every image of the lock file
  render : Bool        -- RenderPackageInstance (package validators = structure, templates, object validators)
  desired : Bool       -- desiredObjectDeployment (SetControllerReference) succeeded
  deriving DecidableEq, Repr, Inhabited

/-- The Package's `Invalid` condition: absent, or True with a reason. -/
inductive Inv where
  | none | loadError | constraintsFailed
  deriving DecidableEq, Repr, Inhabited

/-- The ObjectDeployment in the API: `none` absent, `some none` present with the empty template
(the pre-create of `DeploymentReconciler.Reconcile`), `some (some t)` present with template `t`. -/
abbrev OD (T : Type) := Option (Option T)

/-- Write requests for the ObjectDeployment, as seen by the API server. -/
inductive Write where
  | create | createFail | update | updateFail
  | updateConflict      -- Update answered 409 Conflict (nothing stored)
  deriving DecidableEq, Repr, Inhabited

/-- Annotations or labels of an object: association list, the first entry of a key counts
(abstract vocabulary of the harness, see `verifc16.MetaID`). -/
abbrev KV := List (String × String)

/-- Reading a Go map: a missing key reads as "". -/
def mget (m : KV) (k : String) : String := (m.lookup k).getD ""

/-! ### checkConstraints -/

/-- The `for _, constraint := range manifest.Spec.Constraints` loop: `none` = returned an error,
`some u` = finished, `u` = at least one message was collected. -/
def consLoop : List COut → Option Bool
  | [] => some false
  | .err :: _ => none
  | .met :: r => consLoop r
  | .unmet :: r => match consLoop r with
    | none => none
    | some _ => some true

/-- `validateUnique`: `none` = error (List failed, or zero items = `ErrNonExisting`),
`some u` = `u` ⇔ a message is returned (more than one package with this manifest). -/
def uniqueRes : UOut → Option Bool
  | .absent => some false
  | .listErr => none
  | .zero => none
  | .one => some false
  | .many => some true

inductive CRes where
  | err      -- could not be evaluated: error returned, nothing set by checkConstraints
  | unmet    -- Invalid/ConstraintsFailed set, (false, nil)
  | met
  deriving DecidableEq, Repr

def checkConstraints (L : Leaves) : CRes :=
  match consLoop L.cons with
  | none => .err
  | some u1 =>
    match uniqueRes L.uniq with
    | none => .err
    | some u2 => if u1 || u2 then .unmet else .met

/-! ### DeploymentReconciler.Reconcile -/

/-- `retry.DefaultRetry.Steps`: `retry.RetryOnConflict` runs the closure at most this many times
(`wait.ExponentialBackoff`: the loop ends when `Steps` reaches 1; then the last Conflict error is
returned). -/
def retrySteps : Nat := 5

/-- Number of consecutive conflicts a fault stands for. -/
def RFault.conflicts : RFault → Nat
  | .conflict n => n
  | _ => 0

/-- The `retry.RetryOnConflict` loop around the Update, given that the next `n` Update requests
are answered Conflict: template stored afterwards (`prev` if every attempt was refused — the
re-Get after each Conflict only refreshes the in-memory object), write requests, error. -/
def updateLoop {T : Type} (prev : OD T) (t : T) (n : Nat) : OD T × List Write × Bool :=
  if n < retrySteps then (some (some t), List.replicate n .updateConflict ++ [.update], false)
  else (prev, List.replicate retrySteps .updateConflict, true)

/-- Returns the ObjectDeployment afterwards, the write requests made, and whether an error is returned. -/
def reconcile {T : Type} (od : OD T) (t : T) (f : RFault) : OD T × List Write × Bool :=
  if f = .get then (od, [], true)
  else match od with
    | none =>
      -- NotFound: pre-create with an empty template
      if f = .create then (none, [.createFail], true)
      else if f = .update then (some none, [.create, .updateFail], true)
      else
        let u := updateLoop (some none) t f.conflicts
        (u.1, .create :: u.2.1, u.2.2 || f = .late)
    | some _ =>
      if f = .update then (od, [.updateFail], true)
      else
        let u := updateLoop od t f.conflicts
        (u.1, u.2.1, u.2.2 || f = .late)

/-! ### PackageDeployer.Deploy -/

structure DRes (T : Type) where
  err : Bool            -- Deploy returned an error
  inv : Inv             -- Invalid condition on the (in-memory) Package afterwards
  od : OD T
  writes : List Write
  reconciled : Bool     -- rendered and handed to the deployment reconciler
  deriving DecidableEq, Repr

/-- `Deploy`: `t` is what rendering the current spec yields, `inv` the Invalid condition the
Package object carries when it comes in, `od` the ObjectDeployment in the API. -/
def deploy {T : Type} (t : T) (L : Leaves) (f : RFault) (inv : Inv) (od : OD T) : DRes T :=
  -- pkg, err := l.structuralLoader.LoadComponent(...): Invalid/LoadError, return nil
  if !L.load then ⟨false, .loadError, od, [], false⟩
  else match checkConstraints L with
    -- setInvalidConditionBasedOnLoadError; return err
    | .err => ⟨true, .loadError, od, [], false⟩
    -- Invalid/ConstraintsFailed set by checkConstraints; return nil (C16-a fix)
    | .unmet => ⟨false, .constraintsFailed, od, [], false⟩
    | .met =>
      -- json.Unmarshal(tmplCtx.Config.Raw): plain error
      if !L.cfgJson then ⟨true, inv, od, [], false⟩
      else match L.admission with
        | .err => ⟨true, inv, od, [], false⟩
        -- validation errors: Invalid/LoadError, return the aggregate
        | .invalid => ⟨true, .loadError, od, [], false⟩
        | .ok =>
          if !L.images then ⟨true, inv, od, [], false⟩
          -- RenderPackageInstance failed: Invalid/LoadError, return err
          else if !L.render then ⟨true, .loadError, od, [], false⟩
          else if !L.desired then ⟨true, inv, od, [], false⟩
          else
            let r := reconcile od t f
            if r.2.2 then ⟨true, inv, r.1, r.2.1, true⟩
            -- "Load success": RemoveStatusCondition(Invalid)
            else ⟨false, .none, r.1, r.2.1, true⟩

/-! ### unpackReconciler + GenericPackageController.Reconcile -/

structure Spec where
  image : Nat
  config : Nat
  component : Nat
  deriving DecidableEq, Repr, Inhabited

/-- The part of the Package status the property talks about (as persisted in the API). -/
structure Status (H : Type) where
  unpackedHash : Option H      -- `none` = ""
  unpacked : Option Bool       -- Unpacked condition: absent / True / False
  invalid : Inv
  deriving DecidableEq, Repr

structure Store (H T : Type) where
  spec : Spec
  status : Status H
  od : OD T
  deriving DecidableEq, Repr

/-- Faults of one reconcile pass, one flag per call that can fail. -/
structure Faults where
  pkgGet : Bool := false   -- Get of the Package
  odGet0 : Bool := false   -- the controller's own Get of the ObjectDeployment (pause handling)
  pull : Bool := false     -- imagePuller.Pull
  env : Bool := false      -- GetEnvironment
  recon : RFault := .none  -- inside DeploymentReconciler.Reconcile
  odGet2 : Bool := false   -- Get in objectDeploymentStatusReconciler
  status : Bool := false   -- Status().Update
  deriving DecidableEq, Repr, Inhabited

inductive Res where
  | ok | requeue | err
  deriving DecidableEq, Repr, Inhabited

structure PassRes (H T : Type) where
  store : Store H T
  res : Res
  pulls : Nat
  deploys : Nat
  reconciled : Bool
  writes : List Write
  deriving DecidableEq, Repr

/-- One pass of `GenericPackageController.Reconcile` over a Package that is neither paused nor
being deleted.  `hash` = `GetSpecHash`, `render` = what a fresh render of a spec yields,
`L` = the leaf outcomes a `Deploy` of the current spec has in the current environment. -/
def pass {H T : Type} [DecidableEq H] (hash : Spec → H) (render : Spec → T)
    (L : Leaves) (F : Faults) (st : Store H T) : PassRes H T :=
  -- c.client.Get(pkg) / c.client.Get(objDep): error ⇒ return, nothing happened
  if F.pkgGet then ⟨st, .err, 0, 0, false, []⟩
  else if F.odGet0 then ⟨st, .err, 0, 0, false, []⟩
  -- unpackReconciler: `if pkg.GetUnpackedHash() == specHash { return }`
  else if st.status.unpackedHash = some (hash st.spec) then
    -- objectDeploymentStatusReconciler, then updateStatus (writes back the same status)
    if F.odGet2 || F.status then ⟨st, .err, 0, 0, false, []⟩
    else ⟨st, .ok, 0, 0, false, []⟩
  -- Pull failed: Unpacked=False, RequeueAfter ⇒ the sub-reconciler loop breaks, updateStatus
  else if F.pull then
    if F.status then ⟨st, .err, 1, 0, false, []⟩
    else ⟨{ st with status := { st.status with unpacked := some false } }, .requeue, 1, 0, false, []⟩
  else if F.env then ⟨st, .err, 1, 0, false, []⟩
  else
    let d := deploy (render st.spec) L F.recon st.status.invalid st.od
    -- "deploying package: %w": error ⇒ status not persisted; API writes already made stay
    if d.err then ⟨{ st with od := d.od }, .err, 1, 1, d.reconciled, d.writes⟩
    -- SetUnpackedHash, Unpacked=True; then the status sub-reconciler and updateStatus
    else if F.odGet2 || F.status then ⟨{ st with od := d.od }, .err, 1, 1, d.reconciled, d.writes⟩
    else ⟨{ st with od := d.od,
                    status := { unpackedHash := some (hash st.spec), unpacked := some true, invalid := d.inv } },
          .ok, 1, 1, d.reconciled, d.writes⟩

/-! ### histories -/

inductive Op where
  | edit (s : Spec)      -- the user replaces image / config / component
  | pass (F : Faults)    -- one reconcile pass hit by the faults `F`
  deriving DecidableEq, Repr, Inhabited

/-- `W` = the world: what the leaves of `Deploy` answer for each spec (environment and the other
packages in scope are fixed over the history). -/
def step {H T : Type} [DecidableEq H] (hash : Spec → H) (render : Spec → T) (W : Spec → Leaves)
    (st : Store H T) : Op → Store H T
  | .edit s => { st with spec := s }
  | .pass F => (pass hash render (W st.spec) F st).store

def run {H T : Type} [DecidableEq H] (hash : Spec → H) (render : Spec → T) (W : Spec → Leaves)
    (st : Store H T) (ops : List Op) : Store H T :=
  ops.foldl (step hash render W) st

/-- The pass results along a history (`none` for edits). -/
def trace {H T : Type} [DecidableEq H] (hash : Spec → H) (render : Spec → T) (W : Spec → Leaves) :
    Store H T → List Op → List (Option (PassRes H T))
  | _, [] => []
  | st, .edit s :: ops => none :: trace hash render W { st with spec := s } ops
  | st, .pass F :: ops =>
    let r := pass hash render (W st.spec) F st
    some r :: trace hash render W r.store ops

/-- A fresh Package: nothing recorded, no ObjectDeployment. -/
def fresh {H T : Type} (s : Spec) : Store H T :=
  { spec := s, status := { unpackedHash := none, unpacked := none, invalid := .none }, od := none }

end Pko.Model.Deploy
