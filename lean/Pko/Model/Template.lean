/-
Model of the ObjectTemplate controller
(`internal/controllers/objecttemplate/{objecttemplate_controller,template_reconciler}.go`,
the preflight composition `APIExistence{NoOwnerReferences, EmptyNamespaceNoDefault,
NamespaceEscalation}` of `internal/preflight`, `controllers.{EnsureCachedFinalizer,
FreeCacheAndRemoveFinalizer,AddDynamicCacheLabel}` and the event handler
`internal/dynamiccache/enqueue_watching.go`).  Core Lean only.

Go ↔ model
* API objects other than the ObjectTemplate          ↦ `Objs = Key → Option Obj`; an `Obj` is what
  the controller reads or writes: `data` (the desired-state payload), the dynamic-cache label,
  `metadata.generation`, `status.observedGeneration`, `status.conditions`.
* the (Cluster)ObjectTemplate object                  ↦ `Tmpl` (finalizer, deletionTimestamp, status);
  its spec never changes inside a history and lives in `Spec` (`ns = ""` ⇔ ClusterObjectTemplate).
* the dynamic cache                                   ↦ `World.watches : List (kind × owner)`; reads
  through it are FRESH and see only labelled objects of watched kinds (DESIGN.md §4).
* `environment.Sink`                                   ↦ `World.env`.
* OPAQUE LEAVES (`Leaves`): the REST mapper (`scope`), `copySourceItem` (JSONPath over the source
  object, `ok cfg' | error`), and text/template + sprig + yaml.Unmarshal (`render`:
  `ok manifest | template error | unmarshal error`).  Every theorem quantifies over all leaves.
* the pass never reads the watch set: `getSource`/`gather`/`templateCore` are functions of the
  objects and the environment only and RETURN the kinds they asked the cache to watch.
-/
namespace Pko.Model.Template

/-- Scope of a kind as the REST mapper reports it (`unknown` = no REST mapping). -/
inductive Scope where
  | namespaced | cluster | unknown
  deriving DecidableEq, Repr, Inhabited

structure Key where
  kind : String
  ns : String
  name : String
  deriving DecidableEq, Repr, Inhabited

abbrev Data := List (String × String)
/-- `sourcesConfig`: destination path ↦ copied value. -/
abbrev Config := List (String × String)

/-- One entry of `status.conditions` of a templated object. -/
structure OCond where
  type : String
  status : Bool
  reason : String
  og : Nat                  -- observedGeneration of the condition
  deriving DecidableEq, Repr, Inhabited

structure Obj where
  data : Data
  label : Bool              -- carries `package-operator.run/cache: "True"`
  gen : Nat                 -- metadata.generation
  obsGen : Option Nat       -- status.observedGeneration, if present
  conds : List OCond        -- status.conditions
  deriving DecidableEq, Repr, Inhabited

abbrev Objs := Key → Option Obj

def Objs.set (s : Objs) (k : Key) (v : Option Obj) : Objs := fun k' => if k' = k then v else s k'

/-- A condition of the ObjectTemplate other than Invalid (copied from the templated object). -/
structure Cond where
  type : String
  status : Bool
  reason : String
  deriving DecidableEq, Repr, Inhabited

/-- The `package-operator.run/Invalid` condition: absent, or True with reason
`SourceError` / `TemplateError`. -/
inductive Invalid where
  | none | source | template
  deriving DecidableEq, Repr, Inhabited

structure TStatus where
  invalid : Invalid
  conds : List Cond
  controllerOf : Option Key
  deriving DecidableEq, Repr, Inhabited

structure Tmpl where
  finalizer : Bool          -- carries `package-operator.run/cached`
  deleting : Bool           -- deletionTimestamp set
  status : TStatus
  deriving DecidableEq, Repr, Inhabited

inductive Owner where
  | tmpl                    -- the ObjectTemplate under consideration
  | peer                    -- some other owner sharing the dynamic cache
  deriving DecidableEq, Repr, Inhabited

structure World where
  objs : Objs
  tmpl : Option Tmpl
  watches : List (String × Owner)   -- dynamic cache: (kind, owner)
  env : String                      -- environment pushed into the controller's Sink

/-! ### the ObjectTemplate's spec and the opaque leaves -/

structure Item where
  key : String
  dest : String
  deriving DecidableEq, Repr, Inhabited

structure Source where
  kind : String
  ns : String
  name : String
  optional : Bool
  items : List Item
  deriving DecidableEq, Repr, Inhabited

/-- `T` is the template text (opaque). -/
structure Spec (T : Type) where
  ns : String               -- "" ⇔ ClusterObjectTemplate
  template : T
  sources : List Source

/-- What `yaml.Unmarshal(renderedTemplate, obj)` yields. -/
structure Rendered where
  kind : String
  ns : String
  name : String
  data : Data
  hasOwner : Bool           -- manifest carries metadata.ownerReferences
  deriving DecidableEq, Repr, Inhabited

inductive RenderRes where
  | ok (r : Rendered)
  | templateErr             -- template does not parse / execution fails (`*TemplateError`)
  | unmarshalErr            -- rendered text is not a manifest (wrapped in `*TemplateError` since
                            -- the fix recorded as finding C18-a; a plain error before)
  deriving DecidableEq, Repr, Inhabited

structure Leaves (T : Type) where
  scope : String → Scope
  /-- `copySourceItem(item, sourceObj, sourcesConfig)`: `none` = error. -/
  copy : Item → Key → Obj → Config → Option Config
  /-- `transformer.transform` + `yaml.Unmarshal` on (template, config, environment). -/
  render : T → Config → String → RenderRes

/-! ### events -/

inductive Verb where
  | create | update | merge | status
  deriving DecidableEq, Repr, Inhabited

/-- One non-dry-run mutating API request; `failed` = the API refused it (AlreadyExists). -/
structure Write where
  verb : Verb
  key : Key
  failed : Bool
  deriving DecidableEq, Repr, Inhabited

/-- Result class of `Reconcile`: `(ctrl.Result{}, nil)`, `RequeueAfter = optional interval`,
`RequeueAfter = resource interval`, or a non-nil error. -/
inductive Outcome where
  | ok | requeueOpt | requeueRes | err
  deriving DecidableEq, Repr, Inhabited

/-! ### preflight (`preflight.NewAPIExistence(m, List{NoOwnerReferences, EmptyNamespaceNoDefault,
NamespaceEscalation})`) -/

/-- `true` ⇔ `len(violations) > 0`.  `NamespaceEscalation` is the repaired one (finding C11-a):
the REST scope is checked also when the object's namespace equals the owner's. -/
def preflightViolates (scope : String → Scope) (ownerNs kind objNs : String) (hasOwner : Bool) : Bool :=
  match scope kind with
  | .unknown => true                                             -- APIExistence
  | sc =>
    hasOwner                                                     -- NoOwnerReferences
    || (decide (ownerNs = "") && decide (sc = .namespaced) && decide (objNs = ""))  -- EmptyNamespaceNoDefault
    || (decide (ownerNs ≠ "") &&                                  -- NamespaceEscalation
        ((decide (objNs ≠ "") && decide (objNs ≠ ownerNs)) || decide (sc ≠ .namespaced)))

/-- The API server ignores (clears) the namespace of cluster-scoped kinds. -/
def norm (scope : String → Scope) (k : Key) : Key :=
  if scope k.kind = .cluster then { k with ns := "" } else k

/-- Key of the (Cluster)ObjectTemplate itself. -/
def tmplKey {T : Type} (spec : Spec T) : Key :=
  ⟨if spec.ns = "" then "ClusterObjectTemplate" else "ObjectTemplate", spec.ns, "ot"⟩

/-! ### `getSourceObject` / `getValuesFromSources` -/

inductive SrcRes where
  | found (k : Key) (o : Obj)
  | skipped                      -- optional source not found
  | srcErr (missing : Bool)      -- `*SourceError`; `missing` ⇔ wraps NotFound

/-- Object a source refers to once the namespace default is applied. -/
def srcKey {T : Type} (L : Leaves T) (spec : Spec T) (src : Source) : Key :=
  norm L.scope ⟨src.kind, if src.ns = "" then spec.ns else src.ns, src.name⟩

/-- `getSourceObject`: preflight on the reference as written, namespace default, `Watch`,
cache `Get` (sees labelled objects only) → uncached `Get` → `AddDynamicCacheLabel` patch.
Returns the objects, the writes, the kinds handed to `dynamicCache.Watch`, and the result. -/
def getSource {T : Type} (L : Leaves T) (spec : Spec T) (objs : Objs) (src : Source) :
    Objs × List Write × List String × SrcRes :=
  if preflightViolates L.scope spec.ns src.kind src.ns false then (objs, [], [], .srcErr false)
  else
    let k := srcKey L spec src
    match objs k with
    | some o =>
      if o.label then (objs, [], [src.kind], .found k o)
      else
        let o' := { o with label := true }
        (objs.set k (some o'), [⟨.merge, k, false⟩], [src.kind], .found k o')
    | none =>
      if src.optional then (objs, [], [src.kind], .skipped)
      else (objs, [], [src.kind], .srcErr true)

/-- `copySourceItems`. -/
def copyItems {T : Type} (L : Leaves T) (k : Key) (o : Obj) : List Item → Config → Option Config
  | [], cfg => some cfg
  | it :: rest, cfg =>
    match L.copy it k o cfg with
    | none => none
    | some cfg' => copyItems L k o rest cfg'

inductive GatherRes where
  | ok (cfg : Config) (retryLater : Bool)
  | srcErr (missing : Bool)
  deriving DecidableEq, Repr, Inhabited

/-- `getValuesFromSources`: the loop over `spec.sources`. -/
def gather {T : Type} (L : Leaves T) (spec : Spec T) :
    Objs → List Source → Config → Bool → Objs × List Write × List String × GatherRes
  | objs, [], cfg, retry => (objs, [], [], .ok cfg retry)
  | objs, src :: rest, cfg, retry =>
    match getSource L spec objs src with
    | (o1, ws, ks, .srcErr m) => (o1, ws, ks, .srcErr m)
    | (o1, ws, ks, .skipped) =>
      let r := gather L spec o1 rest cfg true
      (r.1, ws ++ r.2.1, ks ++ r.2.2.1, r.2.2.2)
    | (o1, ws, ks, .found k o) =>
      match copyItems L k o src.items cfg with
      | none => (o1, ws, ks, .srcErr false)
      | some cfg' =>
        let r := gather L spec o1 rest cfg' retry
        (r.1, ws ++ r.2.1, ks ++ r.2.2.1, r.2.2.2)

/-! ### `updateStatusConditionsFromOwnedObject` (well-formed conditions only; the malformed
shapes are property C19's) -/

def setCond (cs : List Cond) (c : Cond) : List Cond :=
  if cs.any (fun x => x.type = c.type) then cs.map (fun x => if x.type = c.type then c else x)
  else cs ++ [c]

/-- The generation of the ObjectTemplate: its spec is never edited inside a history. -/
def tmplGeneration : Nat := 1

def mapConds (cs : List Cond) (o : Obj) : List Cond :=
  let all := o.conds.foldl
    (fun acc c => if c.og = o.gen then setCond acc ⟨c.type, c.status, c.reason⟩ else acc) cs
  match o.obsGen with
  | some g => if g = tmplGeneration then all else cs     -- all of .status is outdated
  | none => all

/-! ### `templateReconciler.Reconcile` incl. the deferred `setObjectTemplateConditionBasedOnError` -/

structure CoreRes where
  objs : Objs
  writes : List Write
  watched : List String
  status : TStatus
  out : Outcome

def templateCore {T : Type} (L : Leaves T) (spec : Spec T) (objs : Objs) (env : String)
    (st : TStatus) : CoreRes :=
  match gather L spec objs spec.sources [] false with
  | (o1, ws, ks, .srcErr missing) =>
    -- SourceError ⇒ Invalid=True/SourceError, error swallowed; NotFound ⇒ resourceRetryInterval
    ⟨o1, ws, ks, { st with invalid := .source }, if missing then .requeueRes else .ok⟩
  | (o1, ws, ks, .ok cfg retry) =>
    let res : Outcome := if retry then .requeueOpt else .ok
    match L.render spec.template cfg env with
    | .templateErr => ⟨o1, ws, ks, { st with invalid := .template }, res⟩
    | .unmarshalErr => ⟨o1, ws, ks, { st with invalid := .template }, res⟩
    | .ok r =>
      if preflightViolates L.scope spec.ns r.kind r.ns r.hasOwner then
        ⟨o1, ws, ks, { st with invalid := .source }, res⟩
      else
        -- namespace override, cache label, Watch, cache Get
        let k := norm L.scope ⟨r.kind, if spec.ns = "" then r.ns else spec.ns, r.name⟩
        let ks' := ks ++ [r.kind]
        match o1 k with
        | none =>
          -- handleCreation
          ⟨o1.set k (some ⟨r.data, true, 1, none, []⟩), ws ++ [⟨.create, k, false⟩], ks',
            { st with invalid := .none }, res⟩
        | some o =>
          if o.label then
            let o' := { o with data := r.data, gen := if o.data = r.data then o.gen else o.gen + 1 }
            ⟨o1.set k (some o'), ws ++ [⟨.update, k, false⟩], ks',
              { invalid := .none, conds := mapConds st.conds o, controllerOf := some k }, res⟩
          else
            -- invisible to the cache ⇒ Create ⇒ AlreadyExists: plain error, status not persisted
            ⟨o1, ws ++ [⟨.create, k, true⟩], ks', st, .err⟩

/-! ### the dynamic cache -/

def watch (ws : List (String × Owner)) (kind : String) (o : Owner) : List (String × Owner) :=
  if (kind, o) ∈ ws then ws else ws ++ [(kind, o)]

def watchAll (ws : List (String × Owner)) (kinds : List String) (o : Owner) : List (String × Owner) :=
  kinds.foldl (fun acc k => watch acc k o) ws

def free (ws : List (String × Owner)) (o : Owner) : List (String × Owner) :=
  ws.filter (fun e => e.2 ≠ o)

/-! ### `GenericObjectTemplateController.Reconcile` -/

structure PassRes where
  world : World
  writes : List Write
  out : Outcome

def reconcile {T : Type} (L : Leaves T) (spec : Spec T) (w : World) : PassRes :=
  match w.tmpl with
  | none => ⟨w, [], .ok⟩                                 -- NotFound is ignored
  | some t =>
    if t.deleting then
      -- FreeCacheAndRemoveFinalizer; removing the last finalizer of a deleting object removes it
      let ws' := free w.watches .tmpl
      if t.finalizer then ⟨{ w with watches := ws', tmpl := none }, [⟨.merge, tmplKey spec, false⟩], .ok⟩
      else ⟨{ w with watches := ws' }, [], .ok⟩
    else
      let fw : List Write := if t.finalizer then [] else [⟨.merge, tmplKey spec, false⟩]
      let c := templateCore L spec w.objs w.env t.status
      let watches := watchAll w.watches c.watched .tmpl
      match c.out with
      | .err =>
        -- no status update; the in-memory condition changes are lost
        ⟨{ w with objs := c.objs, watches := watches, tmpl := some { t with finalizer := true } },
          fw ++ c.writes, .err⟩
      | out =>
        ⟨{ w with objs := c.objs, watches := watches,
                  tmpl := some { t with finalizer := true, status := c.status } },
          fw ++ c.writes ++ [⟨.status, tmplKey spec, false⟩], out⟩

/-! ### environment steps (third parties, the API server's deletion handling, operator restart,
environment manager) -/

inductive EnvOp where
  | put (k : Key) (data : Data) (label : Bool)   -- create, or replace `data` of an existing object
  | del (k : Key)
  | unlabel (k : Key)
  | setStatus (k : Key) (obsGen : Option Nat) (conds : List (String × Bool × String × Bool))
      -- (type, status, reason, observedGeneration = the object's current generation?)
  | delTmpl
  | restart
  | setEnv (v : String)
  deriving Repr, Inhabited

/-- Number of reconcile requests for the ObjectTemplate that `EnqueueWatchingObjects` adds for
the event an informer restricted to labelled objects delivers for `before → after`
(`Create`/`Delete` call `enqueueWatchers` once, `Update` twice). -/
def enqueued (watches : List (String × Owner)) (kind : String) (before after : Option Obj) : Nat :=
  let lab := fun (o : Option Obj) => match o with | some x => x.label | none => false
  if !(lab before || lab after) then 0
  else if before = after then 0
  else if (kind, Owner.tmpl) ∈ watches then
    (match before, after with | some _, some _ => 2 | _, _ => 1)
  else 0

def envStep {T : Type} (L : Leaves T) (w : World) : EnvOp → World × Nat
  | .put k0 data label =>
    if L.scope k0.kind = .unknown then (w, 0) else
    let k := norm L.scope k0
    let before := w.objs k
    let after : Obj := match before with
      | some o => { o with data := data, gen := if o.data = data then o.gen else o.gen + 1 }
      | none => ⟨data, label, 1, none, []⟩
    ({ w with objs := w.objs.set k (some after) }, enqueued w.watches k.kind before (some after))
  | .del k0 =>
    if L.scope k0.kind = .unknown then (w, 0) else
    let k := norm L.scope k0
    ({ w with objs := w.objs.set k none }, enqueued w.watches k.kind (w.objs k) none)
  | .unlabel k0 =>
    if L.scope k0.kind = .unknown then (w, 0) else
    let k := norm L.scope k0
    match w.objs k with
    | none => (w, 0)
    | some o =>
      let o' := { o with label := false }
      ({ w with objs := w.objs.set k (some o') }, enqueued w.watches k.kind (some o) (some o'))
  | .setStatus k0 og conds =>
    if L.scope k0.kind = .unknown then (w, 0) else
    let k := norm L.scope k0
    match w.objs k with
    | none => (w, 0)
    | some o =>
      let o' := { o with obsGen := og,
                         conds := conds.map fun c => ⟨c.1, c.2.1, c.2.2.1, if c.2.2.2 then o.gen else 0⟩ }
      ({ w with objs := w.objs.set k (some o') }, enqueued w.watches k.kind (some o) (some o'))
  | .delTmpl =>
    match w.tmpl with
    | none => (w, 0)
    | some t =>
      if t.finalizer then ({ w with tmpl := some { t with deleting := true } }, 0)
      else ({ w with tmpl := none }, 0)
  | .restart => ({ w with watches := [] }, 0)
  | .setEnv v => ({ w with env := v }, 0)

end Pko.Model.Template
