/-
Model of the ObjectSet controller pass:
`internal/controllers/objectsets/objectset_controller.go` (Reconcile, handleDeletionAndArchival,
reportPausedCondition, updateStatus), `revision_reconciler.go`, `objectsetphases_reconciler.go`
(Reconcile, reconcile, Teardown, isObjectSetInTransition), `internal/controllers/controllers.go`
(finalizer helpers, GetControllerOf) and `UpdateObjectSetOrPhaseStatusFromError`.
Local phases are reconciled with the phase model of `Pko.Model.Phase`.
Delegated phases (class ≠ "") are handled by `Pko.Model.Remote` — here they are a parameter.
Core Lean only.
-/
import Pko.Model.Phase

namespace Pko.Model.ObjectSet
open Pko.Kube Pko.Model.Phase Pko.Model.Status

inductive Lifecycle where
  | active | paused | archived
  deriving DecidableEq, Repr, Inhabited

structure PhaseSpec where
  name : String
  cls : String              -- "" = reconciled in-process, otherwise delegated to an ObjectSetPhase
  objs : List PObj
  deriving DecidableEq, Repr, Inhabited

/-- The ObjectSet / ClusterObjectSet API object. -/
structure OSet where
  kind : String             -- "ObjectSet" | "ClusterObjectSet"
  ns : String
  name : String
  uid : String
  gen : Nat
  rv : Nat
  deleting : Bool
  finCached : Bool          -- package-operator.run/cached finalizer
  finOrphan : Bool          -- "orphan" finalizer (orphan propagation)
  pkgLabel : String
  lifecycle : Lifecycle
  phases : List PhaseSpec
  previous : List String
  -- status
  revision : Nat
  conds : List Cond
  controllerOf : List CRef
  remotePhases : List (String × String)   -- status.remotePhases: (name, uid) of delegated phase objects
  -- annotation `package-operator.run/paused-by-parent: "true"` (written by the ObjectDeployment
  -- controller only; the ObjectSet controller never reads it)
  pbp : Bool := false
  deriving DecidableEq, Repr, Inhabited

/-- `addRemoteObjectSetPhase`: replace the reference with the same name or append. -/
def addRemote (refs : List (String × String)) (r : String × String) : List (String × String) :=
  if refs.any (·.1 = r.1) then refs.map fun x => if x.1 = r.1 then r else x else refs ++ [r]

def OSet.owner (o : OSet) : Owner :=
  { group := pkoGroup, kind := o.kind, ns := o.ns, name := o.name, uid := o.uid,
    rev := o.revision, paused := o.lifecycle = .paused, pkgLabel := o.pkgLabel }

/-- A write on an ObjectSet itself. -/
inductive SetEvent where
  | finalizerPatch (name : String) (add : Bool) (res : Option ApiErr)
  | statusUpdate (name : String) (res : Option ApiErr) (revision : Nat) (conds : List Cond) (controllerOf : List CRef)
      (remotePhases : List (String × String))
  deriving Repr, Inhabited

/-- Third-party operations on an ObjectSet (users, the ObjectDeployment controller, the API's
deletion machinery). -/
inductive SetEnvOp where
  | lifecycle (name : String) (l : Lifecycle)     -- spec.lifecycleState edit
  | touch (name : String)                         -- any other spec edit (generation bump)
  | delete (name : String) (orphan : Bool)        -- delete request (orphan propagation adds the finalizer)
  | editPayload (name : String) (phase obj : Nat) (v : String)
  -- the store gets ahead of what a running pass has read (stale informer cache): the outcome of the
  -- controller's own previous pass becomes visible — `v` = "Archived": archival completed after a
  -- lifecycle change; anything else: Succeeded recorded.  No-op if that is recorded already.
  | status (name : String) (v : String)
  deriving Repr, Inhabited

/-- What the ObjectDeployment-level model (`Pko.Model.Handover`) needs of the ObjectDeployment the
ObjectSets are revisions of: `spec.paused` and the phases of `spec.template`. -/
structure ODState where
  paused : Bool := false
  template : List PhaseSpec := []
  deriving DecidableEq, Repr, Inhabited

structure Sys where
  w : World
  sets : String → Option OSet      -- ObjectSets of one namespace (or cluster scope) by name
  setEvents : List SetEvent
  freed : List String              -- owners whose dynamic-cache watches were freed (`Free`)
  setWrites : Nat                  -- writes on ObjectSets issued so far in this pass
  setEnv : List (Nat × SetEnvOp)   -- third-party op scheduled right before ObjectSet write number n
  -- GHOST (C10, see `World.tick`): the ObjectSets after each of PKO's writes on them, stamped with
  -- the number of write requests issued so far.  Never read by the model.
  trail : List (Nat × (String → Option OSet)) := []
  -- The (Cluster)ObjectSlice objects in the API: name ↦ objects.  Read only by `Pko.Model.Slices`
  -- (ObjectSets whose phases reference slices); empty in every other history.
  slices : List (String × List PObj) := []
  -- ENVIRONMENT: kinds whose API was re-registered with another scope during the history (newest
  -- first).  Not read by any model function: the drivers build the `Cfg.scope` of each step from it.
  scopeOv : List (String × Scope) := []
  -- The ObjectDeployment the ObjectSets are revisions of (handover stream, `Pko.Model.Handover`).
  -- Not read by any function of this file.
  od : ODState := {}

/-- GHOST: remember the ObjectSets as they are after a PKO write. -/
def Sys.note (s : Sys) : Sys := { s with trail := s.trail ++ [(s.w.gw, s.sets)] }

def Sys.setSet (s : Sys) (name : String) (o : Option OSet) : Sys :=
  { s with sets := fun n => if n = name then o else s.sets n }

/-- store an edited ObjectSet as a third party: bump rv (and generation for spec edits). -/
def Sys.thirdPartyStore (s : Sys) (cur next : OSet) (specEdit : Bool) : Sys :=
  if next = cur then s
  else
    let rv := s.w.store.nextRV
    let s := { s with w := { s.w with store := { s.w.store with nextRV := rv + 1 } } }
    s.setSet cur.name (some { next with rv := rv, gen := if specEdit then cur.gen + 1 else cur.gen })

def setAt {α : Type} (l : List α) (i : Nat) (f : α → α) : List α :=
  l.zipIdx.map fun (x, j) => if j = i then f x else x

def Sys.applySetEnv (s : Sys) : SetEnvOp → Sys
  | .lifecycle n l => match s.sets n with
    | some c => s.thirdPartyStore c { c with lifecycle := l } true
    | none => s
  | .touch n => match s.sets n with
    | some c =>
      let rv := s.w.store.nextRV
      let s := { s with w := { s.w with store := { s.w.store with nextRV := rv + 1 } } }
      s.setSet n (some { c with rv := rv, gen := c.gen + 1 })
    | none => s
  | .delete n orphan => match s.sets n with
    | some c =>
      let s := if orphan then s.thirdPartyStore c { c with finOrphan := true } false else s
      match s.sets n with
      | some c =>
        if c.finCached || c.finOrphan then
          if c.deleting then s else s.thirdPartyStore c { c with deleting := true } false
        else s.setSet n none
      | none => s
    | none => s
  | .editPayload n ph ob v => match s.sets n with
    | some c =>
      let phases := setAt c.phases ph fun p => { p with objs := setAt p.objs ob fun o => { o with payload := v } }
      s.thirdPartyStore c { c with phases := phases } true
    | none => s
  | .status n v => match s.sets n with
    | some c =>
      if v = "Archived" then
        if condTrue c.conds "Archived" then s
        else s.thirdPartyStore c { c with
          lifecycle := .archived, controllerOf := [],
          conds := setCond (removeCond c.conds "Available") ⟨"Archived", "True", "Archived", c.gen, ""⟩ }
          (decide (c.lifecycle ≠ .archived))
      else
        if condTrue c.conds "Succeeded" then s
        else s.thirdPartyStore c { c with conds := setCond c.conds ⟨"Succeeded", "True", "RolloutSuccess", c.gen, ""⟩ } false
    | none => s

/-- Run the third-party operations scheduled before the next write on an ObjectSet. -/
def Sys.beforeSetWrite (s : Sys) : Sys :=
  let due := s.setEnv.filter (·.1 = s.setWrites)
  let s := due.foldl (fun s e => s.applySetEnv e.2) s
  { s with setWrites := s.setWrites + 1 }

/-- fresh resourceVersion from the store-wide counter. -/
def Sys.bumpRV (s : Sys) : Sys × Nat :=
  ({ s with w := { s.w with store := { s.w.store with nextRV := s.w.store.nextRV + 1 } } }, s.w.store.nextRV)

/-- Persist a change of the stored ObjectSet with optimistic locking on `rv` (merge patch with
`metadata.resourceVersion`, or a status update of an object carrying its resourceVersion).
`f` computes the new stored object from the CURRENT stored one. Removing the last finalizer of a
deleting ObjectSet removes it. Returns the new in-memory copy. -/
def Sys.lockedWrite (s : Sys) (mem : OSet) (f : OSet → OSet) : Sys × Except ApiErr OSet :=
  let s := s.beforeSetWrite
  let s := { s with w := s.w.tick }
  match s.sets mem.name with
  | none => (s, .error .notFound)
  | some cur =>
    if cur.rv ≠ mem.rv then (s, .error .conflict)
    else
      let next := f cur
      if next.deleting && !next.finCached && !next.finOrphan then
        ((s.setSet mem.name none).note, .ok next)
      else if next = cur then (s, .ok cur)
      else
        let (s, rv) := s.bumpRV
        let next := { next with rv := rv }
        ((s.setSet mem.name (some next)).note, .ok next)

/-- `EnsureCachedFinalizer` / `RemoveFinalizer`: no request when nothing changes. -/
def Sys.setFinalizer (s : Sys) (mem : OSet) (present : Bool) : Sys × Except ApiErr OSet :=
  if mem.finCached = present then (s, .ok mem)
  else
    let (s', r) := s.lockedWrite mem fun cur => { cur with finCached := present }
    match r with
    | .ok stored =>
      -- the response carries the server's object: spec/status of the stored copy, new rv
      let mem' := { mem with finCached := present, rv := stored.rv }
      ({ s' with setEvents := s'.setEvents ++ [.finalizerPatch mem.name present none] }, .ok mem')
    | .error e => ({ s' with setEvents := s'.setEvents ++ [.finalizerPatch mem.name present (some e)] }, .error e)

/-- `client.Status().Update`: replaces the status of the stored object by the in-memory one. -/
def Sys.updateStatus (s : Sys) (mem : OSet) : Sys × Except ApiErr OSet :=
  let (s', r) := s.lockedWrite mem fun cur =>
    { cur with revision := mem.revision, conds := mem.conds, controllerOf := mem.controllerOf, remotePhases := mem.remotePhases }
  let ev res := SetEvent.statusUpdate mem.name res mem.revision mem.conds mem.controllerOf mem.remotePhases
  match r with
  | .ok stored => ({ s' with setEvents := s'.setEvents ++ [ev none] }, .ok { mem with rv := stored.rv })
  | .error e => ({ s' with setEvents := s'.setEvents ++ [ev (some e)] }, .error e)

/-! ### phases -/

/-- `GetControllerOf` on the objects returned by a phase. -/
def controllerOfOf (cfg : Cfg) (ow : Owner) (objs : List (PObj × Obj)) : List CRef :=
  objs.filterMap fun (p, o) =>
    -- the namespace is the one of the object as returned by the API ("" for cluster-scoped kinds)
    if isController cfg.st (ow.ref true) o then some ⟨p.kind, (keyOf cfg ow p).ns, p.name⟩ else none

/-- `ReconcilePhase`, additionally returning the objects that were returned to the caller. -/
def reconcilePhaseObjs (cfg : Cfg) (ow : Owner) (prev : List Prev) (ps : List PObj) (w : World) :
    World × Outcome × List (PObj × Obj) :=
  match preflightPhase cfg ow "" ps with
  | .error => (w, .err, [])
  | .violation => (w, .preflight, [])
  | .ok =>
    let rec go (ps : List PObj) (w : World) (failed : List String) (acc : List (PObj × Obj)) :
        World × Outcome × List (PObj × Obj) :=
      match ps with
      | [] => (w, .ok failed, acc)
      | p :: rest =>
        match reconcilePhaseObject cfg ow prev p w with
        | (w, .actual o) => go rest w (if probeOk o then failed else failed ++ [p.name]) (acc ++ [(p, o)])
        | (w, .missing) => go rest w (failed ++ [p.name]) acc
        | (w, .errCollision r) => (w, .collision r, [])
        | (w, .err) => (w, .err, [])
    go ps w [] []

inductive PassErr where
  | preflight | collision | other
  deriving DecidableEq, Repr, Inhabited

/-- result of reconciling all phases: (controllerOf, failing phase name if any) or an error -/
abbrev PhasesRes := Except PassErr (List CRef × Option String)

/-- `objectSetPhasesReconciler.reconcile`: phases in order, stop at the first failing one.
(Local phases only; a delegated phase is handled by `remote`.) -/
def reconcilePhases (cfg : Cfg) (ow : Owner) (prev : List Prev)
    (remote : PhaseSpec → World → World × Except PassErr (List CRef × Bool)) :
    List PhaseSpec → World → List CRef → World × PhasesRes
  | [], w, acc => (w, .ok (acc, none))
  | ph :: rest, w, acc =>
    if ph.cls ≠ "" then
      match remote ph w with
      | (w, .error e) => (w, .error e)
      | (w, .ok (crefs, ok)) =>
        if ok then reconcilePhases cfg ow prev remote rest w (acc ++ crefs)
        else (w, .ok (acc ++ crefs, some ph.name))
    else
      match reconcilePhaseObjs cfg ow prev ph.objs w with
      | (w, .preflight, _) => (w, .error .preflight)
      | (w, .collision _, _) => (w, .error .collision)
      | (w, .err, _) => (w, .error .other)
      | (w, .ok failed, objs) =>
        let acc := acc ++ controllerOfOf cfg ow objs
        if failed.isEmpty then reconcilePhases cfg ow prev remote rest w acc
        else (w, .ok (acc, some ph.name))

/-- `ObjectDuplicate`: the same (kind, namespace-as-written, name) listed twice. -/
def hasDuplicates (phases : List PhaseSpec) : Bool :=
  let keys := (phases.flatMap (·.objs)).map fun p => (p.kind, p.ns, p.name)
  keys.eraseDups.length ≠ keys.length

/-- `isObjectSetInTransition` -/
def inTransition (o : OSet) (controllerOf : List CRef) : Bool :=
  if o.lifecycle = .archived then false
  else
    let all : List CRef := ((o.phases.flatMap (·.objs)).map fun p =>
      (⟨p.kind, if p.ns = "" then o.ns else p.ns, p.name⟩ : CRef)).eraseDups
    let rest := controllerOf.foldl (fun (rest : List CRef) c =>
      if rest.contains c then rest.erase c
      else if c.ns = "" then
        match rest.find? (fun r => r.kind = c.kind && r.name = c.name) with
        | some r => rest.erase r
        | none => rest
      else rest) all
    !rest.isEmpty

inductive Res where
  | ok | requeue | err
  deriving DecidableEq, Repr, Inhabited

/-- teardown of all phases in reverse order; first unfinished phase stops. -/
def teardownPhases (cfg : Cfg) (ow : Owner)
    (remote : PhaseSpec → World → World × TRes) : List PhaseSpec → World → World × TRes
  | [], w => (w, .done)
  | ph :: rest, w =>
    let (w, r) := if ph.cls ≠ "" then remote ph w else teardownPhase cfg ow ph.objs w
    match r with
    | .done => teardownPhases cfg ow remote rest w
    | r => (w, r)

/-- `objectSetPhasesReconciler.Teardown` -/
def teardown (cfg : Cfg) (o : OSet) (remote : PhaseSpec → World → World × TRes) (w : World) : World × TRes :=
  if o.finOrphan then (w, .done)
  else teardownPhases cfg o.owner remote o.phases.reverse w

structure Remotes where
  recon : OSet → PhaseSpec → World → World × Except PassErr (List CRef × Bool)
  tear : OSet → PhaseSpec → World → World × TRes
  /-- `SyncPaused` (fix C09-a): hand the ObjectSet's pause state to an EXISTING phase object. -/
  sync : OSet → PhaseSpec → World → World := fun _ _ w => w

/-- the phases after the first one called `failing`. -/
def phasesAfter (failing : String) (phs : List PhaseSpec) : List PhaseSpec :=
  (phs.dropWhile (·.name ≠ failing)).drop 1

/-- `pauseRemotePhases` (fix C09-a): a PAUSED ObjectSet whose pass stops at a failing phase still
stops the controllers of the delegated phases after it. -/
def syncPausedAfter (rm : Remotes) (mem : OSet) (failing : String) (w : World) : World :=
  ((phasesAfter failing mem.phases).filter (·.cls ≠ "")).foldl (fun w ph => rm.sync mem ph w) w

/-- previous revisions as the lookup sees them (missing ones become empty records). -/
def lookupPrev (s : Sys) (o : OSet) : List Prev :=
  o.previous.map fun n => match s.sets n with
    | some p => { kind := p.kind, name := p.name, uid := p.uid, remotes := p.remotePhases }
    | none => { kind := o.kind, name := "", uid := "", remotes := [] }

def availableCond (gen : Nat) (ok : Bool) (reason msg : String) : Cond :=
  { type := "Available", status := if ok then "True" else "False", reason := reason, obsGen := gen, msg := msg }

/-- outcome of a pass that ends with a status update: `ok` if the update went through. -/
def afterStatus (x : Sys × Except ApiErr OSet) (ok : Res) : Sys × Res :=
  match x with
  | (s, .ok _) => (s, ok)
  | (s, .error _) => (s, .err)

/-- first previous revision, in order, that is missing (`some true`) or reports revision 0
(`some false`). -/
def firstProblem : List (Option OSet) → Option Bool
  | [] => none
  | none :: _ => some true
  | some p :: rest => if p.revision = 0 then some false else firstProblem rest

/-- `areRemotePhasesPaused`: `none` = unknown (a phase object is missing). -/
def remotePhasesPaused (w : World) (mem : OSet) : Option Bool :=
  let ps := mem.remotePhases.map fun r => w.phases r.1
  if ps.any (·.isNone) then none
  else some ((ps.filterMap id).all fun p => condTrue p.conds "Paused")

/-- `reportPausedCondition`: without delegated phases "phases are paused" = spec paused. -/
def finishMem (w : World) (mem : OSet) : OSet :=
  let spec := mem.lifecycle = .paused
  let are : Option Bool := if mem.remotePhases.isEmpty then some (decide spec) else remotePhasesPaused w mem
  match are with
  | some a =>
    if decide spec = a then
      if a then { mem with conds := setCond mem.conds ⟨"Paused", "True", "Paused", mem.gen, ""⟩ }
      else { mem with conds := removeCond mem.conds "Paused" }
    else { mem with conds := setCond mem.conds ⟨"Paused", "Unknown", "PartiallyPaused", mem.gen, ""⟩ }
  | none => { mem with conds := setCond mem.conds ⟨"Paused", "Unknown", "PartiallyPaused", mem.gen, ""⟩ }

def finish (s : Sys) (mem : OSet) (res : Res) : Sys × Res :=
  afterStatus (s.updateStatus (finishMem s.w mem)) res

/-- `UpdateObjectSetOrPhaseStatusFromError` for preflight / collision errors. -/
def statusFromError (s : Sys) (mem : OSet) (reason : String) : Sys × Res :=
  let mem := { mem with conds := setCond mem.conds (availableCond mem.gen false reason "") }
  afterStatus (s.updateStatus mem) .requeue

/-- InTransition is set / removed. -/
def transConds (cs : List Cond) (trans : Bool) (gen : Nat) : List Cond :=
  if trans then setCond cs ⟨"InTransition", "True", "InTransition", gen, ""⟩ else removeCond cs "InTransition"

/-- Available is set from the probing result of the pass. -/
def availConds (cs : List Cond) (gen : Nat) (failing : Option String) : List Cond :=
  match failing with
  | some ph => setCond cs (availableCond gen false "ProbeFailure" ph)
  | none => setCond cs (availableCond gen true "Available" "")

/-- Succeeded is set (never removed) once Available and not InTransition
(hasSurvivedDelay with successDelaySeconds = 0: Available is True now). -/
def succConds (cs : List Cond) (gen : Nat) (trans : Bool) (failing : Option String) : List Cond :=
  if failing.isNone && !condTrue cs "Succeeded" && !trans then
    setCond cs ⟨"Succeeded", "True", "RolloutSuccess", gen, ""⟩
  else cs

/-- the status the pass derives from the result of the phases (`objectSetPhasesReconciler.Reconcile`
after `reconcile` returned without error). -/
def deriveStatus (mem : OSet) (controllerOf : List CRef) (failing : Option String) : OSet :=
  let trans := inTransition { mem with controllerOf := controllerOf } controllerOf
  { mem with
    controllerOf := controllerOf
    conds := succConds (availConds (transConds mem.conds trans mem.gen) mem.gen failing) mem.gen trans failing }

/-- what follows the phase loop inside `objectSetPhasesReconciler.reconcile` (fix C09-a). -/
def afterPhases (rm : Remotes) (mem : OSet) (pr : PhasesRes) (w : World) : World :=
  match pr with
  | .ok (_, some failing) => if mem.lifecycle = Lifecycle.paused then syncPausedAfter rm mem failing w else w
  | _ => w

/-- the head of `objectSetPhasesReconciler.Reconcile` (fix C09-b): a PAUSED ObjectSet first hands the
pause to every existing phase object of its delegated phases — before the ObjectSet-level preflight
and before any phase is looked at, so that no error of the pass can leave their controllers running. -/
def beforePhases (rm : Remotes) (mem : OSet) (w : World) : World :=
  if mem.lifecycle = Lifecycle.paused then
    (mem.phases.filter (·.cls ≠ "")).foldl (fun w ph => rm.sync mem ph w) w
  else w

/-- `objectSetPhasesReconciler.Reconcile` + the tail of the controller pass, for an ObjectSet
that is active or paused (not deleting, not archived), after finalizer and revision handling. -/
def activePhasesCore (cfg : Cfg) (rm : Remotes) (s : Sys) (mem : OSet) : Sys × Res :=
  if hasDuplicates mem.phases then statusFromError s mem "PreflightError"
  else
    let prev := lookupPrev s mem
    let (w, pr) := reconcilePhases cfg mem.owner prev (rm.recon mem) mem.phases s.w []
    let w := afterPhases rm mem pr w
    -- RemotePhaseReferences collected while reconciling delegated phases (`SetRemotePhases`)
    let mem := { mem with remotePhases := w.remoteRefs.foldl addRemote mem.remotePhases }
    let s := { s with w := { w with remoteRefs := [] } }
    match pr with
    | .error .preflight => statusFromError s mem "PreflightError"
    | .error .collision => statusFromError s mem "CollisionDetected"
    | .error .other => (s, .err)
    | .ok (controllerOf, failing) => finish s (deriveStatus mem controllerOf failing) .ok

/-- `objectSetPhasesReconciler.Reconcile`: the pause hand-over (`beforePhases`, fix C09-b), then the rest. -/
def activePhases (cfg : Cfg) (rm : Remotes) (s : Sys) (mem : OSet) : Sys × Res :=
  activePhasesCore cfg rm { s with w := beforePhases rm mem s.w } mem

theorem beforePhases_not_paused (rm : Remotes) (mem : OSet) (w : World) (h : mem.lifecycle ≠ Lifecycle.paused) :
    beforePhases rm mem w = w := by
  simp [beforePhases, h]

theorem beforePhases_local (rm : Remotes) (mem : OSet) (w : World) (h : ∀ ph ∈ mem.phases, ph.cls = "") :
    beforePhases rm mem w = w := by
  unfold beforePhases
  split
  · have : mem.phases.filter (·.cls ≠ "") = [] := by
      apply List.filter_eq_nil_iff.mpr
      intro ph hph; simp [h ph hph]
    rw [this]; rfl
  · rfl

/-- `revisionReconciler.Reconcile`: `.error r` = the pass ends here with result `r`. -/
def revisionStep (s : Sys) (mem : OSet) : Sys × Except Res OSet :=
  if mem.revision ≠ 0 then (s, .ok mem)
  else if mem.previous.isEmpty then (s, .ok { mem with revision := 1 })
  else
    -- the loop returns at the first previous revision that is missing (error) or has not
    -- reported its revision yet (requeue), in spec order
    match firstProblem (mem.previous.map s.sets) with
    | some true => (s, .error .err)
    | some false => (s, .error .requeue)
    | none =>
      let revs := (mem.previous.map s.sets).filterMap fun p => p.map (·.revision)
      let mem := { mem with revision := revs.foldl max 0 + 1 }
      match s.updateStatus mem with
      | (s, .ok mem) => (s, .ok mem)
      | (s, .error _) => (s, .error .err)

/-- `handleDeletionAndArchival` + what follows it in `Reconcile`. -/
def deletionOrArchival (cfg : Cfg) (rm : Remotes) (s : Sys) (mem : OSet) : Sys × Res :=
  let (w, tr) := if mem.finCached then teardown cfg mem (rm.tear mem) s.w else (s.w, TRes.done)
  let s := { s with w := w }
  match tr with
  | .err => (s, .err)
  | .notDone =>
    let mem := if mem.lifecycle = .archived then
      { mem with conds := setCond mem.conds ⟨"Archived", "False", "ArchivalInProgress", mem.gen, ""⟩ } else mem
    let mem := { mem with conds := removeCond mem.conds "Available" }
    if mem.lifecycle ≠ .archived then (s, .ok)
    else afterStatus (s.updateStatus mem) .ok
  | .done =>
    -- `FreeCacheAndRemoveFinalizer`: `dynamicCache.Free(objectSet)` drops the registrations of this
    -- ObjectSet with the process's dynamic cache, then the finalizer is removed
    let s := { s with w := s.w.free mem.owner.wref, freed := s.freed ++ [mem.name] }
    match s.setFinalizer mem false with
    | (s, .error _) => (s, .err)
    | (s, .ok mem) =>
      let mem := if mem.lifecycle = .archived then
        { mem with conds := setCond mem.conds ⟨"Archived", "True", "Archived", mem.gen, ""⟩, controllerOf := [] } else mem
      let mem := { mem with conds := removeCond mem.conds "Available" }
      if mem.lifecycle ≠ .archived then (s, .ok)
      else afterStatus (s.updateStatus mem) .ok

/-- `GenericObjectSetController.Reconcile` for the ObjectSet called `name`. -/
def reconcile (cfg : Cfg) (rm : Remotes) (name : String) (s : Sys) : Sys × Res :=
  match s.sets name with
  | none => (s, .ok)
  | some mem =>
    if condTrue mem.conds "Archived" then (s, .ok)
    else if mem.deleting || mem.lifecycle = .archived then deletionOrArchival cfg rm s mem
    else
      match s.setFinalizer mem true with
      | (s, .error _) => (s, .err)
      | (s, .ok mem) =>
        match revisionStep s mem with
        -- on `requeue` the remaining reconcilers are skipped but status is still reported
        | (s, .error .requeue) => finish s mem .requeue
        | (s, .error _) => (s, .err)
        | (s, .ok mem) => activePhases cfg rm s mem

end Pko.Model.ObjectSet
