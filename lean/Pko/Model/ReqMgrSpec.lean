/-
Abstract specification for property C20, written from the property's sentence:

  "at most one registry pull per image is in flight at a time, every caller receives exactly one
   response (the package or the error), and each caller gets a private copy [...].  A request
   arriving after a response was broadcast starts a fresh pull rather than waiting forever."

State = for every image the (at most one, by construction) pull in flight together with the
callers waiting for it, and what every caller has been answered.  No channels, no goroutine
counter, no memory identities: privacy of the copies is specified as "zero aliased packages".
-/
import Pko.Model.ReqMgr
namespace Pko.Model.ReqMgrSpec
open Pko.Model.ReqMgr (Image Caller Recv Result Op Obs)

structure Spec where
  /-- `some ws`: one pull for the image is in flight and the requests `ws` wait for its result -/
  pull : Image → Option (List Recv)
  /-- pulls started so far -/
  started : Image → Nat
  /-- what each request has been answered so far -/
  answers : Recv → List Result
  callerOf : Recv → Caller
  next : Recv

def init : Spec :=
  { pull := fun _ => none, started := fun _ => 0, answers := fun _ => [], callerOf := fun _ => 0, next := 0 }

/-- A pull can only complete while it is in flight. -/
def enabled (s : Spec) : Op → Bool
  | .request _ _ => true
  | .complete img _ => (s.pull img).isSome

def step (s : Spec) : Op → Spec
  | .request c img =>
    let r := s.next
    match s.pull img with
    | none =>
      -- nothing in flight (never was, or the last response has been broadcast): fresh pull
      { s with pull := fun i => if i = img then some [r] else s.pull i
               started := fun i => if i = img then s.started i + 1 else s.started i
               callerOf := fun x => if x = r then c else s.callerOf x
               next := r + 1 }
    | some ws =>
      -- de-duplicated: wait for the pull that is already in flight
      { s with pull := fun i => if i = img then some (ws ++ [r]) else s.pull i
               callerOf := fun x => if x = r then c else s.callerOf x
               next := r + 1 }
  | .complete img res =>
    match s.pull img with
    | none => s
    | some ws =>
      -- everybody waiting for this pull gets its result, once; nobody else gets anything
      { s with pull := fun i => if i = img then none else s.pull i
               answers := fun r => if r ∈ ws then s.answers r ++ [res] else s.answers r }

def run (s : Spec) (ops : List Op) : Spec := ops.foldl step s

/-- The specified observation of one step (cf. `ReqMgr.obsStep`): the callers waiting for the
completed pull return its result; nothing returned is aliased. -/
def obsStep (n : Nat) (s : Spec) (op : Op) : Obs :=
  let s' := step s op
  { happened := enabled s op
    started := (List.range n).map s'.started
    inflight := (List.range n).map fun i => if (s'.pull i).isSome then 1 else 0
    returned := match op with
      | .request _ _ => []
      | .complete img res => ((s.pull img).getD []).map fun r => (s.callerOf r, res)
    aliased := 0 }

/-- Abstraction map from the model of the Go code to the specification state: forget the
goroutine counter, the memory identities of the copies and the allocator. -/
def abs (s : Pko.Model.ReqMgr.State) : Spec :=
  { pull := s.inFlight, started := s.started,
    answers := fun r => (s.delivered r).map (·.res),
    callerOf := s.callerOf, next := s.nextRecv }

end Pko.Model.ReqMgrSpec
