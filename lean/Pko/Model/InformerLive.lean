/-
Liveness layer over `Pko.Model.InformerMap`: request contexts with a lifetime, the context the
LIST/WATCH requests of an informer run under, objects that appear in the API server while kinds are
watched, the informer's store and the create events that reach the controller handlers.  Core Lean only.

Go ↔ model:
* the `ctx` handed to `Cache.Watch(ctx, owner, obj)` ↦ a context token `c : Ctx`; `Op.cancel c` = the
  caller cancels it / its deadline passes (`done c`).  `Cache.Get/List/Free` are called with a
  context that never ends (`CtxRef.background`).
* `InformerMap.addInformerToMap(_ context.Context, gvk, obj)` calls
  `im.createListWatch(context.Background(), gvk)`; the `ListFunc`/`WatchFunc` closures built there
  capture that context and use it for EVERY later `client.List(ctx, …)` / `client.Watch(ctx, …)` of
  the reflector.  Which context is captured is the `Policy`; the code's policy is `codePolicy`
  (`fun _ => .background`: the caller's context is ignored).  The structural fact is regenerated
  from informer_map.go by extract/c12 (`Pko.Gen.InformerCtx`) and `policyOfFact` turns it into the
  policy the theorems are stated for (`Pko.Props.C12Live.code_policy_is_background`).
  `lw id` remembers the captured context of every informer ever started.
* an informer whose captured context has ended can neither keep its WATCH stream (the transport
  closes it) nor re-LIST (`context canceled`): it is not `live`, its store is frozen and it delivers
  nothing — although it stays in the informer map and `HasSynced()` stays true.
* `InformerMap.Get` waits for the first sync with `cache.WaitForCacheSync(ctx.Done(), …)` under the
  CALLER's context: a `Watch` whose context has already ended gives up (`Fail.sync`), and
  `Cache.Watch` rolls the start back.
* objects of a kind are only ever created (`Op.create k`, names `s0, s1, …`), so the content of the
  API server and of an informer's store are prefixes, represented by their lengths (`objs`, `store`).
* `events k` = create events every registered controller handler has received for kind `k`
  (`cacheSource.handleNewInformer` attaches all handlers to a freshly synced informer, which
  replays its store to them as adds; afterwards one add per watch event).
-/
import Pko.Model.InformerMap
namespace Pko.Model.InformerLive
open Pko.Model.Cache (Kind Owner Fail Res)
open Pko.Model

abbrev Ctx := Nat

/-- A context as seen by the informer map: the never-ending background context or a caller's token. -/
inductive CtxRef where
  | background
  | call (c : Ctx)
  deriving DecidableEq, Repr, Inhabited

/-- Which context `addInformerToMap` hands to `createListWatch`, given the context it was called with. -/
abbrev Policy := CtxRef → CtxRef

/-- informer_map.go: `im.createListWatch(context.Background(), gvk)`. -/
def codePolicy : Policy := fun _ => .background

/-- The "propagate the caller's context" variant (NOT the code; used for the counterexample). -/
def callerPolicy : Policy := fun c => c

/-- The policy denoted by the extracted fact: the source text of the first argument of the
`createListWatch` call in `addInformerToMap`, the name of `addInformerToMap`'s context parameter,
and whether the List/Watch closures of `createListWatch` use its own context parameter. -/
def policyOfFact (arg param : String) (closuresUseParam : Bool) : Option Policy :=
  if !closuresUseParam then none
  else if arg = "context.Background()" ∨ arg = "context.TODO()" then some codePolicy
  else if arg = param ∧ param ≠ "_" then some callerPolicy
  else none

inductive Op where
  | watch (o : Owner) (k : Kind) (c : Ctx)   -- `Cache.Watch(ctx_c, o, k)`
  | free (o : Owner)
  | get (k : Kind)                            -- `Cache.Get` of the newest object of kind `k`
  | cancel (c : Ctx)                          -- context token `c` ends
  | create (k : Kind)                         -- a new object of kind `k` appears in the API server
  deriving DecidableEq, Repr, Inhabited

inductive LRes where
  | ok | err | notStarted | notFound
  deriving DecidableEq, Repr, Inhabited

def LRes.ofRes : Res → LRes
  | .ok => .ok | .err => .err | .notStarted => .notStarted

structure State where
  base : InformerMap.State
  done : Ctx → Bool          -- context token has ended
  lw : Nat → CtxRef          -- informer id ↦ context captured by its ListFunc/WatchFunc
  objs : Kind → Nat          -- objects of the kind that exist in the API server
  store : Nat → Nat          -- informer id ↦ objects in its indexer
  events : Kind → Nat        -- create events received by every controller handler

def init : State :=
  { base := InformerMap.init, done := fun _ => false, lw := fun _ => .background,
    objs := fun _ => 0, store := fun _ => 0, events := fun _ => 0 }

def ctxAlive (s : State) : CtxRef → Bool
  | .background => true
  | .call c => !s.done c

/-- Informer `id` was started, its stop channel is open and its LIST/WATCH context has not ended:
its reflector holds (or can re-establish) a WATCH stream. -/
def live (s : State) (id : Nat) : Bool :=
  match s.base.im.infs id with
  | some x => !x.stopped && ctxAlive s (s.lw id)
  | none => false

/-- Bookkeeping after a call (made with context `c`, for kind `k`) that went through
`InformerMap.Get`: if `addInformerToMap` created an informer (ids are allocated in order), record the
captured context; if the call then saw it synced (`synced`), its initial LIST filled the store. -/
def noteStart (p : Policy) (s : State) (b : InformerMap.State) (k : Kind) (c : CtxRef) (synced : Bool) : State :=
  if b.im.next = s.base.im.next then { s with base := b }
  else
    let id := s.base.im.next
    { s with
      base := b
      lw := fun i => if i = id then p c else s.lw i
      store := fun i => if i = id then (if synced then s.objs k else 0) else s.store i }

/-- `Cache.Watch(ctx_c, o, k)`. -/
def watch (p : Policy) (s : State) (o : Owner) (k : Kind) (c : Ctx) : State × LRes :=
  -- WaitForCacheSync(ctx.Done(), …) gives up at once when the caller's context has ended
  let f : Fail := if s.done c then .sync else .ok
  let r := InformerMap.watch s.base o k f
  let s' := noteStart p s r.1 k (.call c) (r.2 == .ok)
  if r.1.im.next ≠ s.base.im.next ∧ r.2 = .ok then
    -- handleNewInformer: every handler is attached to the new informer and gets its store replayed
    ({ s' with events := fun k' => if k' = k then s.events k + s.objs k else s.events k' }, .ok)
  else (s', LRes.ofRes r.2)

def free (s : State) (o : Owner) : State := { s with base := InformerMap.free s.base o }

/-- `Cache.Get(background, newest object of kind k)`. -/
def get (p : Policy) (s : State) (k : Kind) : State × LRes :=
  let r := InformerMap.get s.base k .ok
  let s' := noteStart p s r.1 k .background (r.2 == .ok)
  match r.2 with
  | .notStarted => (s', .notStarted)
  | .err => (s', .err)
  | .ok =>
    match r.1.im.map k with
    | none => (s', .err)
    | some id => (s', if 0 < s'.objs k ∧ s'.objs k ≤ s'.store id then .ok else .notFound)

def cancel (s : State) (c : Ctx) : State :=
  { s with done := fun c' => if c' = c then true else s.done c' }

/-- A new object of kind `k`: the API server sends it on every WATCH stream of the kind that is
still open, i.e. to the informer in the map if it is live. -/
def create (s : State) (k : Kind) : State :=
  let s1 := { s with objs := fun k' => if k' = k then s.objs k + 1 else s.objs k' }
  match s.base.im.map k with
  | none => s1
  | some id =>
    if live s id then
      { s1 with
        store := fun i => if i = id then s.store id + 1 else s.store i
        events := fun k' => if k' = k ∧ s.base.handlers id then s.events k + 1 else s.events k' }
    else s1

def step (p : Policy) (s : State) : Op → State × LRes
  | .watch o k c => watch p s o k c
  | .free o => (free s o, .ok)
  | .get k => get p s k
  | .cancel c => (cancel s c, .ok)
  | .create k => (create s k, .ok)

def run (p : Policy) (s : State) (ops : List Op) : State := ops.foldl (fun s op => (step p s op).1) s

def owners (s : State) (k : Kind) : List Owner := InformerMap.owners s.base k

/-- Executable: number of live informers of kind `k` (= WATCH streams of the kind that are open). -/
def liveCount (s : State) (k : Kind) : Nat :=
  ((InformerMap.runningIds s.base k).filter (live s)).length

/-- Executable: what `Cache.List` of kind `k` returns (`none` = refused). -/
def listed (s : State) (k : Kind) : Option Nat :=
  match s.base.refs k with
  | none => none
  | some _ => (s.base.im.map k).map s.store

end Pko.Model.InformerLive
