/-
Model of the pause handling of the Package controller (property C09, Package level).  Core Lean only.

Go ↔ model
* `internal/controllers/packages/package_controller.go` `GenericPackageController.Reconcile`
    Get Package, Get ObjectDeployment (NotFound ignored: `objDep` stays the EMPTY object)
    `if pkg.GetSpecPaused() != objDep.GetSpecPaused() { objDep.SetSpecPaused(..); c.client.Update(objDep) }`
                                                 ↦ `syncOutcome` / the `sync` part of `cpass`
    `if pkg.GetSpecPaused() { objDepStatusReconciler; updateStatus; return }`
                                                 ↦ paused branch of `cpass`
    the sub-reconciler loop + `updateStatus`     ↦ `Pko.Model.Deploy.pass` (model of property C16), reused as is
* the hash of `unpackReconciler` covers the whole spec, `spec.paused` included; as the unchanged
  controller computes it in un-paused passes only, `hash : Spec → H` stays a function of
  image / config / component.

On the unchanged tree a paused Package whose ObjectDeployment does not exist makes the controller
send an Update for the empty, nameless ObjectDeployment object: the API refuses it and the
reconcile returns "failed to pause objectdeployment".  Modelled as it behaves: `.sync .fail`, error,
nothing created.

The ObjectDeployment is `Deploy.OD` (absent / empty template / template) plus its `spec.paused`.
`Deploy` itself never touches `spec.paused`: a Create sends the desired object (`paused` unset), an
Update sends the object it read with a new template.
-/
import Pko.Model.Deploy
namespace Pko.Model.PkgPause
open Pko.Model.Deploy

/-- Answer of the API to the controller's own Update of the ObjectDeployment (the pause sync):
accepted, error, or 409 Conflict (a third party wrote the object after the controller read it). -/
inductive SyncW where
  | ok | fail | conflict
  deriving DecidableEq, Repr, Inhabited

/-- Write requests for the ObjectDeployment in the order the API sees them: the controller's own
Update (`sync`) or a request of the deployment reconciler (`dep`). -/
inductive PWrite where
  | sync (w : SyncW)
  | dep (w : Write)
  deriving DecidableEq, Repr, Inhabited

structure PStore (H T : Type) where
  base : Store H T     -- spec (image / config / component), persisted status, ObjectDeployment template
  paused : Bool        -- spec.paused of the Package
  odPaused : Bool      -- spec.paused of the ObjectDeployment (meaningless while it is absent)
  deriving DecidableEq, Repr

/-- `objDep.GetSpecPaused()` after the controller's Get: the empty object reads `false`. -/
def PStore.odp {H T : Type} (st : PStore H T) : Bool := st.base.od.isSome && st.odPaused

structure PPassRes (H T : Type) where
  store : PStore H T
  res : Res
  pulls : Nat
  deploys : Nat
  reconciled : Bool
  writes : List PWrite
  deriving DecidableEq, Repr

/-- What happens to the controller's own Update.  `F.recon` holds the (at most one) fault armed
for Update requests of the pass: an API error or a third-party write right before the request.
Without an ObjectDeployment the request is for the empty, nameless object and is refused. -/
def syncOutcome (F : Faults) (odExists : Bool) : SyncW :=
  if !odExists then .fail
  else if F.recon = .update then .fail
  else if F.recon.conflicts > 0 then .conflict
  else .ok

/-- One pass of `GenericPackageController.Reconcile` over a Package that is not being deleted. -/
def cpass {H T : Type} [DecidableEq H] (hash : Spec → H) (render : Spec → T)
    (L : Leaves) (F : Faults) (st : PStore H T) : PPassRes H T :=
  -- c.client.Get(pkg) / c.client.Get(objDep)
  if F.pkgGet then ⟨st, .err, 0, 0, false, []⟩
  else if F.odGet0 then ⟨st, .err, 0, 0, false, []⟩
  -- if pkg.GetSpecPaused() != objDep.GetSpecPaused()
  else if st.paused != st.odp then
    match syncOutcome F st.base.od.isSome with
    -- "failed to pause / unpause objectdeployment"
    | .fail => ⟨st, .err, 0, 0, false, [.sync .fail]⟩
    | .conflict => ⟨st, .err, 0, 0, false, [.sync .conflict]⟩
    | .ok =>
      let st1 := { st with odPaused := st.paused }
      if st.paused then
        -- Skip subreconcilers when paused: objDepStatusReconciler, updateStatus
        if F.odGet2 || F.status then ⟨st1, .err, 0, 0, false, [.sync .ok]⟩
        else ⟨st1, .ok, 0, 0, false, [.sync .ok]⟩
      else
        let r := pass hash render L F st1.base
        ⟨{ st1 with base := r.store }, r.res, r.pulls, r.deploys, r.reconciled,
          .sync .ok :: r.writes.map .dep⟩
  else if st.paused then
    if F.odGet2 || F.status then ⟨st, .err, 0, 0, false, []⟩
    else ⟨st, .ok, 0, 0, false, []⟩
  else
    let r := pass hash render L F st.base
    -- a Create sends the desired object: spec.paused unset
    ⟨{ st with base := r.store, odPaused := st.odp }, r.res, r.pulls, r.deploys, r.reconciled,
      r.writes.map .dep⟩

/-! ### histories -/

inductive POp where
  | edit (s : Spec)          -- the user replaces image / config / component
  | setPaused (v : Bool)     -- the user sets / clears spec.paused of the Package
  | tpPaused (v : Bool)      -- a third party sets / clears spec.paused of the ObjectDeployment
  | tpDelete                 -- a third party deletes the ObjectDeployment
  | pass (F : Faults)        -- one reconcile pass hit by the faults `F`
  deriving DecidableEq, Repr, Inhabited

/-- Steps other than a pass. -/
def edit {H T : Type} (st : PStore H T) : POp → PStore H T
  | .edit s => { st with base := { st.base with spec := s } }
  | .setPaused v => { st with paused := v }
  | .tpPaused v => if st.base.od.isSome then { st with odPaused := v } else st
  | .tpDelete => { st with base := { st.base with od := none }, odPaused := false }
  | .pass _ => st

def pstep {H T : Type} [DecidableEq H] (hash : Spec → H) (render : Spec → T) (W : Spec → Leaves)
    (st : PStore H T) : POp → PStore H T
  | .pass F => (cpass hash render (W st.base.spec) F st).store
  | op => edit st op

def prun {H T : Type} [DecidableEq H] (hash : Spec → H) (render : Spec → T) (W : Spec → Leaves)
    (st : PStore H T) (ops : List POp) : PStore H T :=
  ops.foldl (pstep hash render W) st

/-- The pass results along a history (`none` for the other steps). -/
def ptrace {H T : Type} [DecidableEq H] (hash : Spec → H) (render : Spec → T) (W : Spec → Leaves) :
    PStore H T → List POp → List (Option (PPassRes H T))
  | _, [] => []
  | st, .pass F :: ops =>
    let r := cpass hash render (W st.base.spec) F st
    some r :: ptrace hash render W r.store ops
  | st, op :: ops => none :: ptrace hash render W (edit st op) ops

/-- A Package right after its creation with `spec.paused = p`. -/
def pfresh {H T : Type} (s : Spec) (p : Bool) : PStore H T :=
  { base := fresh s, paused := p, odPaused := false }

end Pko.Model.PkgPause
