import Lean.Data.Json
import Pko.Model.Panic
import Pko.Model.TreeConfig
import Pko.Model.Include
/-! Scenario format, model printer and property monitor of the C19 line driver (kept in a library
module without `main` so that `Pko.Props.C19` can state theorems about them).  One scenario format, `fn` selects the function under test.
`model` prints what the model of the (fixed) Go code returns, in the format of the Go harnesses
`harness/C19/*`; `monitor` evaluates the PROPERTY on an implementation line: it must not be a
`PANIC …`, a `TIMEOUT` or a harness failure (`BAD-…`).  For the exploration functions (`…X`) the
model is the constant "nopanic": those streams are exploration, not proof.
Stream `cli` (harness/C19/cli): `fn = "tree"` is one row of the config-resolution decision table of
`kubectl package tree` (model `Pko.Model.TreeConfig`), `fn = "cliX"` is exploration of the
Tree / Validate / Update / Build entry points of internal/cmd. -/
namespace Pko.Drv.C19
open Lean Pko.Model.Panic

/-- `verifc19.CliProp`: a top-level property of the config schema (name, has default, required). -/
structure CliProp where
  n : String
  d : Bool
  r : Bool
  deriving FromJson

/-- `verifc19.CliTpl`: one `test.template[]` entry as written in manifest.yaml. -/
structure CliTpl where
  name : String
  cfg : String
  ck : Option (List String) := none
  pkg : String
  deriving FromJson

/-- `verifc19.CliScn`: package shape + `kubectl package tree` options. -/
structure CliScn where
  scopes : Option (List String) := none
  schema : Bool
  props : Option (List CliProp) := none
  tpls : Option (List CliTpl) := none
  cp : String
  cpk : Option (List String) := none
  tc : String
  cluster : Bool
  deriving FromJson

structure Scn where
  fn : String
  maps : Option (List (List String)) := none
  tgen : Option Int := none
  obj : Option Json := none
  key : Option String := none
  dest : Option String := none
  cfg : Option Json := none
  phases : Option (List String) := none
  objs : Option (List Json) := none
  cm : Option String := none
  blob : Option String := none
  n : Option Int := none
  place : Option String := none
  expr : Option Json := none
  imgs : Option Json := none
  cli : Option CliScn := none
  prog : Option (List (List Int)) := none   -- tmpl: template t<i> = sequence of -1 (emit) / n ≥ 0 (include t<n>)
  entry : Option (List Int) := none         -- tmpl: the body of the executed template file
  deriving FromJson

partial def toJVal : Json → JVal
  | .null => .null
  | .bool b => .bool b
  | .num n => if n.exponent == 0 then .int n.mantissa else .frac
  | .str s => .str s
  | .arr xs => .arr (xs.toList.map toJVal)
  | .obj kvs => .obj (kvs.toList.map fun (k, v) => (k, toJVal v))

/-- `&unstructured.Unstructured{Object: DecodeObj(raw)}`: anything that is not a JSON object gives
an empty (nil) map. -/
def toObj (j : Option Json) : JVal :=
  match j.map toJVal with
  | some (.obj kvs) => .obj kvs
  | _ => .obj []

def toFields (j : Option Json) : List (String × JVal) :=
  match toObj j with
  | .obj kvs => kvs
  | _ => []

/-- `verifc19.CelExpr` (omitted `b` = false). -/
partial def toCel (j : Json) : Option CelExpr :=
  match (j.getObjValAs? String "k").toOption with
  | some "lit" => some (.lit ((j.getObjValAs? Bool "b").toOption.getD false))
  | some "get" =>
    match (j.getObjValAs? (List String) "p").toOption with
    | some (r :: p) => some (.get (r :: p))
    | _ => none
  | some "not" => do
    let e ← (j.getObjVal? "e").toOption
    return .not (← toCel e)
  | some "tern" => do
    let c ← (j.getObjVal? "c").toOption
    let x ← (j.getObjVal? "x").toOption
    let y ← (j.getObjVal? "y").toOption
    return .tern (← toCel c) (← toCel x) (← toCel y)
  | _ => none

/-- The CEL variables as `celctx.unpackContext` builds them from the harness's render context
(JSON round trip of `PackageRenderContext`): a nil map / absent optional struct is `null` / absent. -/
def celCtx (s : Scn) : JVal :=
  let cfg := match s.cfg.map toJVal with
    | some (.obj kvs) => JVal.obj kvs
    | _ => .null
  let imgs := match s.imgs.map toJVal with
    | some (.obj kvs) => JVal.obj kvs
    | _ => .null
  let os := match s.n with
    | some n => n % 2 == 1
    | none => false
  .obj [("package", .obj [("metadata", .obj [("name", .str "p"), ("namespace", .str "ns"), ("labels", .null),
                                               ("annotations", .null)]),
                          ("image", .str "quay.io/x/y:v1")]),
        ("config", cfg), ("images", imgs),
        ("environment", .obj ([("kubernetes", .obj [("version", .str "1.25")])] ++
          (if os then [("openShift", .obj [("version", .str "4.14")])] else [])))]

def name (s : String) : String := if s.isEmpty then "%e" else s

def condsStr (cs : List (String × String)) : String :=
  if cs.isEmpty then "-" else ",".intercalate (cs.map fun c => name c.1 ++ "=" ++ name c.2)

def vis (s : String) : String :=
  String.ofList (s.toList.map fun c =>
    if c == ' ' then '_' else if c == '\t' then '~' else if c == '\n' then '$' else if c == '\r' then '^' else c)

/-- The abstract result of the model for one scenario. -/
inductive Out where
  | ok (payload : String)   -- returned normally; printed as "ok" / "ok <payload>"
  | err
  | nopanic                 -- exploration functions: the model predicts nothing else
  | panic
  | bad (why : String)      -- scenario outside the modelled input grammar
  | line (s : String)       -- stream cli, fn=tree: stage-by-stage line, printed as "tree <s>"
  deriving Repr

def ofOutcome {α} (f : α → String) : Outcome α → Out
  | .ok a => .ok (f a)
  | .err => .err
  | .panic => .panic

/-! ### stream `cli`, `fn = "tree"` -/
section tree
open Pko.Model.TreeConfig

/-- What the model of `kubectl package tree` needs of a scenario. -/
structure TreeIn where
  scopes : List String
  schema : Schema
  src : List (String × Option Doc × TplPkg)   -- test templates as WRITTEN (config: absent | document)
  opts : Opts

/-- the templates as the manifest decoder hands them to the code (`context.config: null` = nil pointer) -/
def TreeIn.tpls (i : TreeIn) : List TestTpl :=
  i.src.map fun (n, c, p) => { name := n, config := decodeConfig c, pkg := p }

def cliTpl (t : CliTpl) : Option (String × Option Doc × TplPkg) := do
  let cfg ← match t.cfg with
    | "" => some none
    | "null" => some (some Doc.null)
    | "obj" => some (some (Doc.obj (t.ck.getD [])))
    | "scalar" => some (some Doc.other)
    | _ => none
  let pkg ← match t.pkg with
    | "" => some ({} : TplPkg)
    | "ns" => some { name := "pk-" ++ t.name, ns := "ns-" ++ t.name }
    | "nons" => some { name := "pk-" ++ t.name, ns := "" }
    | _ => none
  return (t.name, cfg, pkg)

def cliIn (c : CliScn) : Option TreeIn := do
  let src ← (c.tpls.getD []).mapM cliTpl
  let cp ← match c.cp with
    | "" => some CfgPath.notGiven
    | "missing" => some CfgPath.missing
    | "obj" => some (CfgPath.file (.obj (c.cpk.getD [])))
    | "null" | "empty" | "comment" => some (CfgPath.file .null)
    | "scalar" | "list" => some (CfgPath.file .other)
    | "bad" => some (CfgPath.file .garbage)
    | _ => none
  return { scopes := c.scopes.getD []
           schema := if c.schema then some ((c.props.getD []).map fun p => { name := p.n, hasDefault := p.d, required := p.r }) else none
           src := src
           opts := { configPath := cp, testcase := c.tc, cluster := c.cluster } }

def insertSorted (k : String) : List String → List String
  | [] => [k]
  | x :: xs => if k < x then k :: x :: xs else x :: insertSorted k xs

/-- Go prints map keys sorted (`c19Keys`). -/
def keysStr (ks : List String) : String :=
  "[" ++ ",".intercalate (ks.foldr insertSorted []) ++ "]"

/-- `verifkit.Esc` on the names the harness generates (no characters to escape). -/
def esc (s : String) : String := if s.isEmpty then "%e" else s

/-- The stage-by-stage line of the harness: where `RenderPackage` ended and with what. -/
def treeOut (i : TreeIn) : Out :=
  match renderPackage i.scopes i.schema i.tpls i.opts with
  | .panic => .panic
  | r =>
    let rs := match r with | .ok _ => " render=ok" | _ => " render=err"
    match getConfig i.tpls i.opts with
    | .panic => .panic
    | .err => .line ("cfg=err" ++ rs)
    | .ok m =>
      let c := match m with | .nil => "cfg=nilmap" | .mk ks => "cfg=ok" ++ keysStr ks
      match admitConfig m i.schema with
      | .panic => .panic
      | adm =>
        let ad := match adm with
          | .ok a => if a.valid then " adm=ok" ++ keysStr a.m.keys else " adm=invalid"
          | _ => " adm=err"
        match getTemplateContext i.tpls i.opts with
        | .ok ctx => .line (c ++ ad ++ " ctx=" ++ esc ctx.name ++ "/" ++ esc ctx.ns ++ rs)
        | _ => .bad "ctx"   -- unreachable: a panic there is a panic of renderPackage above
end tree

def pairs (l : List (List String)) : Option (List (String × String)) :=
  l.mapM fun p => match p with | [a, b] => some (a, b) | _ => none

def modelOut (s : Scn) : Out :=
  match s.fn with
  | "mapConditions" =>
    match pairs (s.maps.getD []) with
    | none => .bad "maps"
    | some maps => ofOutcome condsStr (mapConditions maps (toObj s.obj))
  | "updateStatus" =>
    match s.tgen with
    | none => .bad "tgen"
    | some g => ofOutcome condsStr (updateStatus g (toObj s.obj))
  | "copySourceItem" =>
    match s.key, s.dest with
    | some k, some d =>
      match copySourceItem k d (toObj s.obj) (toFields s.cfg) with
      | none => .bad "key-outside-modelled-grammar"
      | some r => ofOutcome (fun _ => "") r
    | _, _ => .bad "key/dest"
  | "parseCM" =>
    match s.cm with
    | none => .bad "cm"
    | some c => ofOutcome (fun ms =>
        if ms.isEmpty then "-"
        else "|".intercalate (ms.map fun m => name (vis m.src) ++ "=>" ++ name (vis m.dst))) (parseCM (some c))
  | "render" =>
    ofOutcome (fun ps =>
        if ps.isEmpty then "-"
        else ";".intercalate (ps.map fun p => name p.1 ++ "[" ++ ",".intercalate (p.2.map toString) ++ "]"))
      (renderPackage (s.phases.getD []) ((s.objs.getD []).map fun j => getAnnotations (toObj (some j))))
  | "cel" =>
    match s.place, s.expr.bind toCel with
    | some place, some e =>
      if place == "ann" || place == "cond" || place == "path" then
        ofOutcome toString (celPlace place (celCtx s) e)
      else .bad "place"
    | _, _ => .bad "place/expr"
  | "tree" =>
    match s.cli.bind cliIn with
    | none => .bad "cli"
    | some i => treeOut i
  | "tmpl" =>
    -- templates executed by the real RenderTemplates: `Pko.Model.Include` (the include counter)
    let instr : Int → Pko.Model.Include.Instr := fun i => if i < 0 then .emit else .incl i.toNat
    -- (an empty list is omitted by the Go encoder)
    let pr := (s.prog.getD []).map (·.map instr)
    match Pko.Model.Include.run pr Pko.Model.Include.recursionDepth
        (Pko.Model.Include.renderBudget pr Pko.Model.Include.recursionDepth) (fun _ => 0) ((s.entry.getD []).map instr) with
    | .ok _ n => .ok (toString n)        -- number of marks the execution emitted
    | .guard => .err                     -- ErrExceededIncludeRecursion
    | .noTemplate => .err                -- no such template
    | .fuel => .bad "include-model-out-of-fuel"   -- impossible: C19Include.render_never_out_of_fuel
  | "copySourceItemX" | "relaxedX" | "renderX" | "structureX" | "importX" | "probeX" | "celX" | "cliX" | "tmplX" => .nopanic
  | _ => .bad "fn"

def render : Out → String
  | .ok p => if p.isEmpty then "ok" else "ok " ++ p
  | .err => "err"
  | .nopanic => "nopanic"
  | .panic => "PANIC model"
  | .bad w => "unmodelled " ++ w
  | .line l => "tree " ++ l

def model (s : Scn) : String := render (modelOut s)

/-- Class of an output line, decided by its first character: `P`ANIC, `T`IMEOUT, `B`AD-… are the
failures; everything else ("ok…", "err", "nopanic", "unmodelled…") is a normal return. -/
inductive Cls where
  | normal | panic | timeout | harness
  deriving DecidableEq, Repr

def classify (out : String) : Cls :=
  match out.toList.head? with
  | some 'P' => .panic
  | some 'T' => .timeout
  | some 'B' => .harness
  | none => .harness
  | _ => .normal

/-- Second word of a `PANIC <site> <message>` line: file:line of the innermost PKO frame. -/
def panicSite (out : String) : String :=
  match out.splitOn " " with
  | _ :: site :: _ => site
  | _ => "unknown"

/-- The CLI entry point a `cli` stream scenario drives. -/
def cliEntry (s : Scn) : String :=
  if s.fn == "tree" then "Tree.RenderPackage"
  else match s.n with
    | some 1 => "Validate.ValidatePackage"
    | some 2 => "Update.GenerateLockData"
    | some 3 => "Build.BuildFromSource"
    | _ => "Tree.RenderPackage"

/-- The property: the implementation neither panicked nor ran away.  Stream `cli`: every call of a
kubectl-package entry point ends in a result or an error — a panic is reported with the entry
point and the panic site. -/
def monitor (s : Scn) (out : String) : String :=
  match classify out with
  | .normal => "ok"
  | .panic =>
    if s.fn == "tree" || s.fn == "cliX" then
      "bad panic fn=" ++ s.fn ++ " entry=" ++ cliEntry s ++ " site=" ++ panicSite out ++ " " ++ (out.take 200).toString
    else "bad panic fn=" ++ s.fn ++ " " ++ (out.take 160).toString
  | .timeout => "bad timeout fn=" ++ s.fn
  | .harness => "bad harness fn=" ++ s.fn ++ " " ++ (out.take 80).toString

end Pko.Drv.C19
