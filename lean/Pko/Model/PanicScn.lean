import Lean.Data.Json
import Pko.Model.Panic
/-! Scenario format, model printer and property monitor of the C19 line driver (kept in a library
module without `main` so that `Pko.Props.C19` can state theorems about them).  One scenario format, `fn` selects the function under test.
`model` prints what the model of the (fixed) Go code returns, in the format of the Go harnesses
`harness/C19/*`; `monitor` evaluates the PROPERTY on an implementation line: it must not be a
`PANIC …`, a `TIMEOUT` or a harness failure (`BAD-…`).  For the exploration functions (`…X`) the
model is the constant "nopanic": those streams are exploration, not proof. -/
namespace Pko.Drv.C19
open Lean Pko.Model.Panic

structure Scn where
  fn : String
  maps : Option (List (List String)) := none
  tgen : Option Int := none
  obj : Option Json := none
  key : Option String := none
  dest : Option String := none
  cfg : Option Json := none
  phases : Option (List String) := none
  objs : Option (List Json) := none
  cm : Option String := none
  blob : Option String := none
  n : Option Int := none
  place : Option String := none
  expr : Option Json := none
  imgs : Option Json := none
  deriving FromJson

partial def toJVal : Json → JVal
  | .null => .null
  | .bool b => .bool b
  | .num n => if n.exponent == 0 then .int n.mantissa else .frac
  | .str s => .str s
  | .arr xs => .arr (xs.toList.map toJVal)
  | .obj kvs => .obj (kvs.toList.map fun (k, v) => (k, toJVal v))

/-- `&unstructured.Unstructured{Object: DecodeObj(raw)}`: anything that is not a JSON object gives
an empty (nil) map. -/
def toObj (j : Option Json) : JVal :=
  match j.map toJVal with
  | some (.obj kvs) => .obj kvs
  | _ => .obj []

def toFields (j : Option Json) : List (String × JVal) :=
  match toObj j with
  | .obj kvs => kvs
  | _ => []

/-- `verifc19.CelExpr` (omitted `b` = false). -/
partial def toCel (j : Json) : Option CelExpr :=
  match (j.getObjValAs? String "k").toOption with
  | some "lit" => some (.lit ((j.getObjValAs? Bool "b").toOption.getD false))
  | some "get" =>
    match (j.getObjValAs? (List String) "p").toOption with
    | some (r :: p) => some (.get (r :: p))
    | _ => none
  | some "not" => do
    let e ← (j.getObjVal? "e").toOption
    return .not (← toCel e)
  | some "tern" => do
    let c ← (j.getObjVal? "c").toOption
    let x ← (j.getObjVal? "x").toOption
    let y ← (j.getObjVal? "y").toOption
    return .tern (← toCel c) (← toCel x) (← toCel y)
  | _ => none

/-- The CEL variables as `celctx.unpackContext` builds them from the harness's render context
(JSON round trip of `PackageRenderContext`): a nil map / absent optional struct is `null` / absent. -/
def celCtx (s : Scn) : JVal :=
  let cfg := match s.cfg.map toJVal with
    | some (.obj kvs) => JVal.obj kvs
    | _ => .null
  let imgs := match s.imgs.map toJVal with
    | some (.obj kvs) => JVal.obj kvs
    | _ => .null
  let os := match s.n with
    | some n => n % 2 == 1
    | none => false
  .obj [("package", .obj [("metadata", .obj [("name", .str "p"), ("namespace", .str "ns"), ("labels", .null),
                                               ("annotations", .null)]),
                          ("image", .str "quay.io/x/y:v1")]),
        ("config", cfg), ("images", imgs),
        ("environment", .obj ([("kubernetes", .obj [("version", .str "1.25")])] ++
          (if os then [("openShift", .obj [("version", .str "4.14")])] else [])))]

def name (s : String) : String := if s.isEmpty then "%e" else s

def condsStr (cs : List (String × String)) : String :=
  if cs.isEmpty then "-" else ",".intercalate (cs.map fun c => name c.1 ++ "=" ++ name c.2)

def vis (s : String) : String :=
  String.ofList (s.toList.map fun c =>
    if c == ' ' then '_' else if c == '\t' then '~' else if c == '\n' then '$' else if c == '\r' then '^' else c)

/-- The abstract result of the model for one scenario. -/
inductive Out where
  | ok (payload : String)   -- returned normally; printed as "ok" / "ok <payload>"
  | err
  | nopanic                 -- exploration functions: the model predicts nothing else
  | panic
  | bad (why : String)      -- scenario outside the modelled input grammar
  deriving Repr

def ofOutcome {α} (f : α → String) : Outcome α → Out
  | .ok a => .ok (f a)
  | .err => .err
  | .panic => .panic

def pairs (l : List (List String)) : Option (List (String × String)) :=
  l.mapM fun p => match p with | [a, b] => some (a, b) | _ => none

def modelOut (s : Scn) : Out :=
  match s.fn with
  | "mapConditions" =>
    match pairs (s.maps.getD []) with
    | none => .bad "maps"
    | some maps => ofOutcome condsStr (mapConditions maps (toObj s.obj))
  | "updateStatus" =>
    match s.tgen with
    | none => .bad "tgen"
    | some g => ofOutcome condsStr (updateStatus g (toObj s.obj))
  | "copySourceItem" =>
    match s.key, s.dest with
    | some k, some d =>
      match copySourceItem k d (toObj s.obj) (toFields s.cfg) with
      | none => .bad "key-outside-modelled-grammar"
      | some r => ofOutcome (fun _ => "") r
    | _, _ => .bad "key/dest"
  | "parseCM" =>
    match s.cm with
    | none => .bad "cm"
    | some c => ofOutcome (fun ms =>
        if ms.isEmpty then "-"
        else "|".intercalate (ms.map fun m => name (vis m.src) ++ "=>" ++ name (vis m.dst))) (parseCM (some c))
  | "render" =>
    ofOutcome (fun ps =>
        if ps.isEmpty then "-"
        else ";".intercalate (ps.map fun p => name p.1 ++ "[" ++ ",".intercalate (p.2.map toString) ++ "]"))
      (renderPackage (s.phases.getD []) ((s.objs.getD []).map fun j => getAnnotations (toObj (some j))))
  | "cel" =>
    match s.place, s.expr.bind toCel with
    | some place, some e =>
      if place == "ann" || place == "cond" || place == "path" then
        ofOutcome toString (celPlace place (celCtx s) e)
      else .bad "place"
    | _, _ => .bad "place/expr"
  | "copySourceItemX" | "relaxedX" | "renderX" | "structureX" | "importX" | "probeX" | "celX" => .nopanic
  | _ => .bad "fn"

def render : Out → String
  | .ok p => if p.isEmpty then "ok" else "ok " ++ p
  | .err => "err"
  | .nopanic => "nopanic"
  | .panic => "PANIC model"
  | .bad w => "unmodelled " ++ w

def model (s : Scn) : String := render (modelOut s)

/-- Class of an output line, decided by its first character: `P`ANIC, `T`IMEOUT, `B`AD-… are the
failures; everything else ("ok…", "err", "nopanic", "unmodelled…") is a normal return. -/
inductive Cls where
  | normal | panic | timeout | harness
  deriving DecidableEq, Repr

def classify (out : String) : Cls :=
  match out.toList.head? with
  | some 'P' => .panic
  | some 'T' => .timeout
  | some 'B' => .harness
  | none => .harness
  | _ => .normal

/-- The property: the implementation neither panicked nor ran away. -/
def monitor (s : Scn) (out : String) : String :=
  match classify out with
  | .normal => "ok"
  | .panic => "bad panic fn=" ++ s.fn ++ " " ++ (out.take 160).toString
  | .timeout => "bad timeout fn=" ++ s.fn
  | .harness => "bad harness fn=" ++ s.fn ++ " " ++ (out.take 80).toString

end Pko.Drv.C19
