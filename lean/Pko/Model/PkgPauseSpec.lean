/-
Specification side of property C09 at the Package level, written from the property's sentence
("Pausing a Package pauses its ObjectDeployment, which … creates or archives no revision while
paused; unpausing releases …") and NOT from the control flow of the controller:

  (a) a pass over a PAUSED Package never creates an ObjectDeployment, never writes a template (or
      anything else than `spec.paused`) to an existing one, pulls nothing, renders nothing and
      records nothing as unpacked;
  (b) after a pass over a paused Package that returned without error an existing ObjectDeployment
      has `spec.paused = true`; a paused ObjectDeployment is never released by such a pass;
  (c) after a pass over an UN-paused Package that returned without error an existing
      ObjectDeployment has `spec.paused = false`, and the rollout behaves as property C16 says
      (`DeploySpec.checkStep` on the requests of the deployment reconciler).

`checkPStep` / `checkPRun` evaluate this on OBSERVATIONS of the real controller (what the Go
harness prints); the driver's `monitor` is exactly these functions on the parsed trace.
Core Lean only.
-/
import Pko.Model.PkgPause
import Pko.Model.DeploySpec
namespace Pko.Model.PkgPauseSpec
open Pko.Model.Deploy Pko.Model.DeploySpec Pko.Model.PkgPause

/-- What the harness reports after one reconcile pass. -/
structure PPObs (H T : Type) where
  o : PObs H T              -- as for C16; `writes` = the requests of the deployment reconciler
  sync : List SyncW         -- the controller's own Update requests for the ObjectDeployment
  odPaused : Option Bool    -- spec.paused of the stored ObjectDeployment afterwards (`none` = absent)
  syncOnlyPaused : Bool     -- every accepted own Update changed nothing but spec.paused
  deriving DecidableEq, Repr

/-- Clauses (a) and (b): one pass over a paused Package.  `ph`, `pod`, `podp` = persisted
unpackedHash, ObjectDeployment template and its spec.paused before the pass. -/
def checkPaused {H T : Type} [DecidableEq H] [DecidableEq T] (ph : Option H) (pod : OD T)
    (podp : Option Bool) (p : PPObs H T) : List String :=
  clause (pod == none && p.o.od != none) "paused-package-objectdeployment-created" ++
  clause (p.o.pulls != 0) "paused-package-pulled" ++
  clause (p.o.deploys != 0) "paused-package-rendered" ++
  clause (p.o.writes != []) "paused-package-deployment-written" ++
  clause (p.o.od != pod) "paused-package-template-changed" ++
  clause (!p.syncOnlyPaused) "pause-sync-wrote-more-than-spec-paused" ++
  clause (p.o.hash != ph) "paused-package-recorded-unpacked" ++
  clause (p.o.res != .err && p.o.od != none && p.odPaused != some true)
    "paused-package-objectdeployment-not-paused" ++
  clause (podp == some true && p.o.od != none && p.odPaused != some true)
    "paused-package-released-objectdeployment"

/-- Clause (c): one pass over an un-paused Package. -/
def checkUnpaused {H T : Type} [DecidableEq H] [DecidableEq T] (hash : Spec → H) (render : Spec → T)
    (L : Leaves) (F : Faults) (spec : Spec) (ph : Option H) (pod : OD T) (strong : Bool)
    (p : PPObs H T) : List String :=
  clause (!p.syncOnlyPaused) "pause-sync-wrote-more-than-spec-paused" ++
  clause (p.o.res != .err && p.odPaused == some true) "unpaused-package-objectdeployment-still-paused" ++
  (if p.sync.any (· != .ok) then
    -- the un-pause request was refused: the pass ends with an error and has done nothing else
    clause (p.o.res != .err || p.o.pulls != 0 || p.o.deploys != 0 || p.o.writes != [] || p.o.od != pod ||
      p.o.hash != ph) "refused-unpause-carried-on"
  else checkStep hash render L F spec ph pod strong p.o)

def checkPStep {H T : Type} [DecidableEq H] [DecidableEq T] (hash : Spec → H) (render : Spec → T)
    (L : Leaves) (F : Faults) (spec : Spec) (paused : Bool) (ph : Option H) (pod : OD T)
    (podp : Option Bool) (strong : Bool) (p : PPObs H T) : List String :=
  if paused then checkPaused ph pod podp p
  else checkUnpaused hash render L F spec ph pod strong p

/-- Monitor state while walking a history. -/
structure PMState (H T : Type) where
  spec : Spec
  paused : Bool
  ph : Option H
  pod : OD T
  podp : Option Bool
  lateSeen : Bool
  idx : Nat

/-- Walk a history and its observations (`none` for a step that is not a pass); result =
violated clauses with the index of the step.  `lateSeen` (switches off C16's `stale-template`
clause) as in `DeploySpec.checkRun`; a third party deleting the ObjectDeployment of a recorded
spec counts as such a loss too. -/
def checkPRun {H T : Type} [DecidableEq H] [DecidableEq T] (hash : Spec → H) (render : Spec → T)
    (W : Spec → Leaves) : PMState H T → List POp → List (Option (PPObs H T)) → List (Nat × String)
  | _, [], [] => []
  | m, .pass F :: ops, some p :: obs =>
    let ls := m.lateSeen || (!m.paused && late F)
    (checkPStep hash render (W m.spec) F m.spec m.paused m.ph m.pod m.podp (!ls && clean F) p).map
        (fun c => (m.idx, c)) ++
      checkPRun hash render W
        { m with ph := p.o.hash, pod := p.o.od, podp := p.odPaused, lateSeen := ls, idx := m.idx + 1 } ops obs
  | m, .edit s :: ops, none :: obs => checkPRun hash render W { m with spec := s, idx := m.idx + 1 } ops obs
  | m, .setPaused v :: ops, none :: obs => checkPRun hash render W { m with paused := v, idx := m.idx + 1 } ops obs
  | m, .tpPaused v :: ops, none :: obs =>
    checkPRun hash render W { m with podp := m.podp.map fun _ => v, idx := m.idx + 1 } ops obs
  | m, .tpDelete :: ops, none :: obs =>
    checkPRun hash render W { m with pod := none, podp := none, lateSeen := true, idx := m.idx + 1 } ops obs
  | m, _, _ => [(m.idx, "shape")]

/-- Observation of a model pass. -/
def syncsOf : List PWrite → List SyncW
  | [] => []
  | .sync w :: r => w :: syncsOf r
  | .dep _ :: r => syncsOf r

def depsOf : List PWrite → List Write
  | [] => []
  | .sync _ :: r => depsOf r
  | .dep w :: r => w :: depsOf r

def podpOf {H T : Type} (st : PStore H T) : Option Bool :=
  if st.base.od.isSome then some st.odPaused else none

def pobsOf {H T : Type} (r : PPassRes H T) : PPObs H T :=
  { o := { res := r.res, pulls := r.pulls, deploys := r.deploys, writes := depsOf r.writes, od := r.store.base.od,
           hash := r.store.base.status.unpackedHash, unpacked := r.store.base.status.unpacked,
           invalid := r.store.base.status.invalid },
    sync := syncsOf r.writes, odPaused := podpOf r.store, syncOnlyPaused := true }

end Pko.Model.PkgPauseSpec
