/-
Model of delegated phases:
* the ObjectSet side — `internal/controllers/objectsets/remotephase_reconciler.go`
  (`Reconcile`, `Teardown`, `desiredObjectSetPhase`, `addRemoteObjectSetPhase`);
* the ObjectSetPhase controller pass —
  `internal/controllers/objectsetphases/objectsetphase_controller.go` (`Reconcile`,
  `handleDeletionAndArchival`, `reportPausedCondition`) and `objectsetphase_reconciler.go`
  (`Reconcile`, `Teardown`), which reuse the very same `PhaseReconciler` (model: `Pko.Model.Phase`)
  with the phase object as owner.
Core Lean only.
-/
import Pko.Model.ObjectSet

namespace Pko.Model.Remote
open Pko.Kube Pko.Model.Phase Pko.Model.ObjectSet Pko.Model.Status

def phaseKindOf (setKind : String) : String :=
  if setKind.startsWith "Cluster" then "ClusterObjectSetPhase" else "ObjectSetPhase"

/-- `objectSetPhaseName` -/
def phaseName (o : OSet) (ph : PhaseSpec) : String := o.name ++ "-" ++ ph.name

def setPhase (w : World) (n : String) (p : Option OPhase) : World :=
  { w with phases := fun m => if m = n then p else w.phases m }

/-- fresh resourceVersion / uid from the store-wide counters. -/
def freshRV (w : World) : World × Nat :=
  ({ w with store := { w.store with nextRV := w.store.nextRV + 1 } }, w.store.nextRV)
def freshUID (w : World) : World × Nat :=
  ({ w with store := { w.store with nextUID := w.store.nextUID + 1 } }, w.store.nextUID)

/-- `desiredObjectSetPhase`: what the ObjectSet wants its phase object to carry. -/
def desiredPhase (o : OSet) (ph : PhaseSpec) : OPhase :=
  { name := phaseName o ph, uid := "", gen := 0, rv := 0, deleting := false, finCached := false,
    ctrlName := o.name, ctrlUID := o.uid, pkgLabel := o.pkgLabel,
    paused := o.lifecycle = .paused, revision := o.revision, previous := o.previous, objs := ph.objs,
    conds := [], controllerOf := [] }

/-- pause propagation: merge patch with the resourceVersion just read.  `client.Patch` writes the
server's answer back into the in-memory object, so the status check afterwards sees the NEW
generation: right after a pause flip the phase counts as "no status reported". -/
def propagatePause (o : OSet) (n : String) (cur : OPhase) (w : World) : World × OPhase :=
  let want := decide (o.lifecycle = .paused)
  if cur.paused ≠ want then
    let w := w.tick
    let (w, rv) := freshRV w
    let p := { cur with paused := want, gen := cur.gen + 1, rv := rv }
    ({ setPhase w n (some p) with phaseEvents := w.phaseEvents ++ [PhaseEvent.pausePatch n want none] }, p)
  else (w, cur)

/-- what the ObjectSet relays from the phase object: its controllerOf, and "passed" only if it
reports Available=True for its CURRENT generation. -/
def relayStatus (cur : OPhase) : List CRef × Bool :=
  match findCond cur.conds "Available" with
  | none => (cur.controllerOf, false)
  | some c => if c.obsGen ≠ cur.gen then (cur.controllerOf, false) else (cur.controllerOf, c.status = "True")

/-- the part of `Reconcile` after the phase object is at hand: report it in
status.remotePhases, propagate pause, relay its status. -/
def remoteContinue (o : OSet) (n : String) (cur : OPhase) (w : World) :
    World × Except PassErr (List CRef × Bool) :=
  let w := { w with remoteRefs := addRemote w.remoteRefs (cur.name, cur.uid) }
  let (w, cur) := propagatePause o n cur w
  (w, .ok (relayStatus cur))

/-- `objectSetRemotePhaseReconciler.Reconcile` — get-or-create the phase object, then carry on
with it (since fix C15-a the pass that creates the object no longer ends with the NotFound error
of the preceding Get: it reports the new object and "no status reported" for the phase). -/
def remoteReconcile (o : OSet) (ph : PhaseSpec) (w : World) : World × Except PassErr (List CRef × Bool) :=
  let n := phaseName o ph
  match w.phases n with
  | none =>
    let w := w.tick
    let (w, uid) := freshUID w
    let (w, rv) := freshRV w
    let p := { desiredPhase o ph with uid := s!"uid-{uid}", gen := 1, rv := rv }
    let w := { setPhase w n (some p) with phaseEvents := w.phaseEvents ++ [PhaseEvent.create n none] }
    remoteContinue o n p w
  | some cur => remoteContinue o n cur w

/-- `objectSetRemotePhaseReconciler.Teardown`: gone ⇒ done; not controlled by us ⇒ done;
otherwise delete it and wait until it is gone. -/
def remoteTeardown (o : OSet) (ph : PhaseSpec) (w : World) : World × TRes :=
  let n := phaseName o ph
  match w.phases n with
  | none => (w, .done)
  | some cur =>
    if cur.ctrlName ≠ o.name ∨ cur.ctrlUID ≠ o.uid then (w, .done)
    else
      -- (namespace-in-deletion shortcut not modelled: the harness namespace is never deleting)
      let w := w.tick
      if cur.finCached || cur.finOrphan then      -- (S1B: the "orphan" finalizer holds the object as well)
        if cur.deleting then ({ w with phaseEvents := w.phaseEvents ++ [PhaseEvent.delete n none] }, .notDone)
        else
          let (w, rv) := freshRV w
          ({ setPhase w n (some { cur with deleting := true, rv := rv }) with
              phaseEvents := w.phaseEvents ++ [PhaseEvent.delete n none] }, .notDone)
      else
        ({ setPhase w n none with phaseEvents := w.phaseEvents ++ [PhaseEvent.delete n none] }, .notDone)

/-- `objectSetRemotePhaseReconciler.SyncPaused` (fix C09-a): only an existing phase object is
patched; nothing is created, no status is read. -/
def remoteSyncPaused (o : OSet) (ph : PhaseSpec) (w : World) : World :=
  match w.phases (phaseName o ph) with
  | none => w
  | some cur => (propagatePause o (phaseName o ph) cur w).1

def remotes : Remotes := { recon := remoteReconcile, tear := remoteTeardown, sync := remoteSyncPaused }

/-! ### The ObjectSetPhase controller -/

def phaseOwner (p : OPhase) (setKind ns : String) : Owner :=
  { group := pkoGroup, kind := phaseKindOf setKind, ns := ns, name := p.name, uid := p.uid,
    rev := p.revision, paused := p.paused, pkgLabel := p.pkgLabel }

/-- locked write on a phase object (merge patch with resourceVersion / status update). -/
def lockedPhaseWrite (w : World) (mem : OPhase) (f : OPhase → OPhase) : World × Except ApiErr OPhase :=
  let w := w.tick
  match w.phases mem.name with
  | none => (w, .error .notFound)
  | some cur =>
    if cur.rv ≠ mem.rv then (w, .error .conflict)
    else
      let next := f cur
      if next.deleting && !next.finCached && !next.finOrphan then (setPhase w mem.name none, .ok next)
      else if next = cur then (w, .ok cur)
      else
        let (w, rv) := freshRV w
        let next := { next with rv := rv }
        (setPhase w mem.name (some next), .ok next)

def setPhaseFinalizer (w : World) (mem : OPhase) (present : Bool) : World × Except ApiErr OPhase :=
  if mem.finCached = present then (w, .ok mem)
  else
    let (w', r) := lockedPhaseWrite w mem fun cur => { cur with finCached := present }
    match r with
    | .ok stored => ({ w' with phaseEvents := w'.phaseEvents ++ [PhaseEvent.finalizerPatch mem.name present none] },
                     .ok { mem with finCached := present, rv := stored.rv })
    | .error e => ({ w' with phaseEvents := w'.phaseEvents ++ [PhaseEvent.finalizerPatch mem.name present (some e)] }, .error e)

def updatePhaseStatus (w : World) (mem : OPhase) : World × Except ApiErr OPhase :=
  let (w', r) := lockedPhaseWrite w mem fun cur => { cur with conds := mem.conds, controllerOf := mem.controllerOf }
  match r with
  | .ok stored => ({ w' with phaseEvents := w'.phaseEvents ++ [PhaseEvent.statusUpdate mem.name none mem.conds mem.controllerOf] },
                   .ok { mem with rv := stored.rv })
  | .error e => ({ w' with phaseEvents := w'.phaseEvents ++ [PhaseEvent.statusUpdate mem.name (some e) mem.conds mem.controllerOf] }, .error e)

def afterPhaseStatus (x : World × Except ApiErr OPhase) (ok : Res) : World × Res :=
  match x with
  | (w, .ok _) => (w, ok)
  | (w, .error _) => (w, .err)

/-- previous revisions as the phase controller's lookup sees them (by name, in the phase's
namespace), with their remote phases. -/
def lookupPrevFor (s : Sys) (setKind : String) (previous : List String) : List Prev :=
  previous.map fun n => match s.sets n with
    | some p => { kind := p.kind, name := p.name, uid := p.uid, remotes := p.remotePhases }
    | none => { kind := setKind, name := "", uid := "", remotes := [] }

/-- `GenericObjectSetPhaseController.Reconcile` for the phase object `name`
(`cfg` = the flavour of the phase controller; `setKind`/`ns` = kind of the ObjectSets and the
namespace the scenario lives in). -/
def reconcilePhaseCtl (cfg : Cfg) (setKind ns : String) (name : String) (s : Sys) : Sys × Res :=
  match s.w.phases name with
  | none => (s, .ok)
  | some mem =>
    let ow := phaseOwner mem setKind ns
    if mem.deleting then
      -- handleDeletionAndArchival, then ALWAYS a status update
      -- `objectSetPhaseReconciler.Teardown`: "orphan" finalizer present ⇒ cleanup is done, nothing is touched
      let (w, tr) : World × TRes :=
        if mem.finCached then (if mem.finOrphan then (s.w, .done) else teardownPhase cfg ow mem.objs s.w) else (s.w, .done)
      match tr with
      | .err => ({ s with w := w }, .err)
      | .notDone =>
        let (w, r) := afterPhaseStatus (updatePhaseStatus w mem) .ok
        ({ s with w := w }, r)
      | .done =>
        -- `FreeCacheAndRemoveFinalizer`: `dynamicCache.Free(objectSetPhase)` first
        match setPhaseFinalizer (w.free ow.wref) mem false with
        | (w, .error _) => ({ s with w := w, freed := s.freed ++ [mem.name] }, .err)
        | (w, .ok mem) =>
          let (w, r) := afterPhaseStatus (updatePhaseStatus w mem) .ok
          ({ s with w := w, freed := s.freed ++ [mem.name] }, r)
    else
      match setPhaseFinalizer s.w mem true with
      | (w, .error _) => ({ s with w := w }, .err)
      | (w, .ok mem) =>
        let prev := lookupPrevFor s setKind mem.previous
        let (w, oc, objs) := reconcilePhaseObjs cfg ow prev mem.objs w
        let fromError (w : World) (reason : String) : Sys × Res :=
          let mem := { mem with conds := setCond mem.conds (availableCond mem.gen false reason "") }
          let (w, r) := afterPhaseStatus (updatePhaseStatus w mem) .requeue
          ({ s with w := w }, r)
        match oc with
        | .preflight => fromError w "PreflightError"
        | .collision _ => fromError w "CollisionDetected"
        | .err => ({ s with w := w }, .err)
        | .ok failed =>
          let mem := { mem with controllerOf := controllerOfOf cfg ow objs }
          let mem := if failed.isEmpty then
              { mem with conds := setCond mem.conds (availableCond mem.gen true "Available" "") }
            else { mem with conds := setCond mem.conds (availableCond mem.gen false "ProbeFailure" "") }
          let mem := if mem.paused then
              { mem with conds := setCond mem.conds ⟨"Paused", "True", "Paused", mem.gen, ""⟩ }
            else { mem with conds := removeCond mem.conds "Paused" }
          let (w, r) := afterPhaseStatus (updatePhaseStatus w mem) .ok
          ({ s with w := w }, r)

/-! ### Third-party operations on phase objects (S1B)

What the API server / the garbage collector do to an ObjectSetPhase object on behalf of somebody
else than PKO — the counterpart of `Sys.applySetEnv (.delete …)` for ObjectSets.  The format is
the one of `harness/verifsys/sys.go` (`deletePhaseObject`, `gcPhaseObject`). -/

/-- a metadata-only write of a third party on a phase object: new resourceVersion. -/
def thirdPartyPhaseStore (w : World) (cur next : OPhase) : World :=
  if next = cur then w
  else
    let (w, rv) := freshRV w
    setPhase w cur.name (some { next with rv := rv })

/-- a delete request as the API server handles it: finalizers turn it into `deleting`. -/
def apiDeletePhase (w : World) (n : String) : World :=
  match w.phases n with
  | none => w
  | some c =>
    if c.finCached || c.finOrphan then
      if c.deleting then w else thirdPartyPhaseStore w c { c with deleting := true }
    else setPhase w n none

/-- the garbage collector on the dependents of owner `uid`: every object among `keys` (visited in
this order) loses its owner references to it; with `deleteUnowned` a dependent left without any
owner is deleted (honouring its finalizer). -/
def gcDependents (st : Store) (uid : String) (keys : List Key) (deleteUnowned : Bool) : Store :=
  keys.foldl (fun (st : Store) k =>
    match st.get k with
    | some o =>
      if o.owners.any (·.uid == uid) then
        let keep := o.owners.filter (·.uid != uid)
        let st := st.env (.reown k keep)
        if deleteUnowned && keep.isEmpty then st.env (.delete k) else st
      else st
    | none => st) st

/-- `delPhase`: delete request of a third party.  `orphan`: orphan propagation (the API server adds
the "orphan" finalizer before marking the object); `force`: every finalizer is stripped first, the
object is gone at once and the garbage collector cleans up the dangling owner references. -/
def deletePhaseObject (w : World) (n : String) (orphan force : Bool) (keys : List Key) : World :=
  match w.phases n with
  | none => w
  | some c =>
    if force then
      -- stripping the finalizers of an object in deletion removes it (no new resourceVersion);
      -- otherwise the edit is stored (if there was something to strip) and the delete removes it
      let w := if c.deleting then w else thirdPartyPhaseStore w c { c with finCached := false, finOrphan := false }
      let w := setPhase w n none
      { w with store := gcDependents w.store c.uid keys true }
    else
      let w := if orphan then thirdPartyPhaseStore w c { c with finOrphan := true } else w
      apiDeletePhase w n

/-- `gcPhase`: the garbage collector's half of an orphan deletion — every dependent among `keys`
loses its owner references to the phase object, then the "orphan" finalizer is released; the
object disappears with its last finalizer. -/
def gcPhaseObject (w : World) (n : String) (keys : List Key) : World :=
  match w.phases n with
  | none => w
  | some c =>
    if !(c.deleting && c.finOrphan) then w
    else
      let w := { w with store := gcDependents w.store c.uid keys false }
      if c.finCached then thirdPartyPhaseStore w c { c with finOrphan := false }
      else setPhase w n none

end Pko.Model.Remote
