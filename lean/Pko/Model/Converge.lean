/-
C10 — crash points, fair settling and the end-state projection, on top of the ObjectSet /
ObjectSetPhase controller models.  Core Lean only.

A *fault* at some API call of a pass (error before effect, effect with lost response, process
crash) is modelled by its only lasting consequence: the pass's writes are cut off after the first
`budget` write requests.  The model runs the pass with the ghost field `crashAt := budget`
(`World.tick` keeps the state as it was when request number `budget` was about to be issued) and
`crashState` then assembles that prefix state.  That the REAL code leaves exactly this state behind
for each of the three fault modes is what the correspondence run checks.
-/
import Pko.Model.Remote

namespace Pko.Model.Converge
open Pko.Kube Pko.Model.Phase Pko.Model.ObjectSet Pko.Model.Status

/-- reset the per-pass ghost state and arm the crash point. -/
def arm (s : Sys) (budget : Option Nat) : Sys :=
  { s with w := { s.w with gw := 0, crashAt := budget, snap := none, snapW := none }, trail := [] }

/-- the ObjectSets after the last of PKO's writes on them that was among the first `c` requests. -/
def setsAt (init : String → Option OSet) (trail : List (Nat × (String → Option OSet))) (c : Nat) :
    String → Option OSet :=
  match (trail.filter (·.1 ≤ c)).getLast? with
  | some e => e.2
  | none => init

/-- The state a pass leaves behind when it is cut off after `c` write requests: `s0` is the state
the pass started from, `s1` the state after the complete (armed) pass. -/
def crashState (s0 s1 : Sys) (c : Nat) : Sys :=
  match s1.w.snap with
  | none => s1                                   -- fewer than `c + 1` requests: nothing was cut off
  | some (store, phases) =>
    -- (in-memory: the dynamic cache's registrations as they were at that request; a process that
    -- dies there loses them — the driver restarts it, `World.restart`)
    { s0 with w := { s0.w with store := store, phases := phases, watched := s1.w.snapW.getD s0.w.watched },
              sets := setsAt s0.sets s1.trail c }

end Pko.Model.Converge
