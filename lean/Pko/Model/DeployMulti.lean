/-
One operator process, several Packages (property C16).  Core Lean only.

Go ↔ model
* `internal/controllers/packages/package_controller.go`  `GenericPackageController.Reconcile(req)`:
  one controller serves every (Cluster)Package; a pass is about the ONE Package named by the request.
  Everything the pass reads is (a) that Package and the ObjectDeployment of the same name (API), (b) the
  image its spec names (puller), (c) the environment — and nothing the controller, `unpackReconciler`,
  `PackageDeployer` or the packages below them (`packagemanifestvalidation.AdmitPackageConfiguration`:
  `schema.NewStructural` + prune + default + validate of THIS manifest's schema against THIS config, all
  built per call) keep in memory from one call to the next: there is no field and no package-level
  variable written by a pass.  Hence
    - a pass about Package `k` is `Pko.Model.Deploy.pass` on the store of Package `k` with the leaf outcomes
      `W spec` of the spec Package `k` has NOW (`stepM`), and touches no other Package,
    - restarting the operator (re-running `NewPackageController` / `NewPackageDeployer`) changes nothing
      (`.restart` is the identity on the modelled state: the API is all the state there is).
  The world `W : Spec → Leaves` is shared: which image an image index is (manifest, schema, templates) and
  what the environment answers does not depend on who asks.
-/
import Pko.Model.Deploy
import Pko.Model.DeploySpec
namespace Pko.Model.DeployMulti
open Pko.Model.Deploy Pko.Model.DeploySpec

/-- One step of a history of an operator process. -/
inductive MOp where
  | on (k : Nat) (op : Op)   -- a spec edit of / a reconcile pass about Package `k`
  | restart                  -- the operator process is restarted
  deriving DecidableEq, Repr, Inhabited

/-- Replace the `k`-th element by its image under `f` (no-op when out of range). -/
def updAt {α : Type} (f : α → α) : List α → Nat → List α
  | [], _ => []
  | a :: l, 0 => f a :: l
  | a :: l, k + 1 => a :: updAt f l k

variable {H T : Type} [DecidableEq H]

def stepM (hash : Spec → H) (render : Spec → T) (W : Spec → Leaves) (sts : List (Store H T)) :
    MOp → List (Store H T)
  | .on k op => updAt (fun st => step hash render W st op) sts k
  | .restart => sts

def runM (hash : Spec → H) (render : Spec → T) (W : Spec → Leaves) (sts : List (Store H T))
    (ops : List MOp) : List (Store H T) :=
  ops.foldl (stepM hash render W) sts

/-- The pass results along a history, aligned with the ops (`none` for edits, restarts and ops about a
Package that does not exist). -/
def traceM (hash : Spec → H) (render : Spec → T) (W : Spec → Leaves) :
    List (Store H T) → List MOp → List (Option (PassRes H T))
  | _, [] => []
  | sts, .restart :: ops => none :: traceM hash render W sts ops
  | sts, .on k (.edit s) :: ops => none :: traceM hash render W (stepM hash render W sts (.on k (.edit s))) ops
  | sts, .on k (.pass F) :: ops =>
    (sts[k]?.map fun st => pass hash render (W st.spec) F st) ::
      traceM hash render W (stepM hash render W sts (.on k (.pass F))) ops

/-- The history of Package `k` inside a history of the process. -/
def proj (k : Nat) : List MOp → List Op
  | [] => []
  | .on j op :: ops => if j = k then op :: proj k ops else proj k ops
  | .restart :: ops => proj k ops

/-- What was observed about Package `k`: the entries of `obs` at the positions of the ops about it. -/
def projObs {α : Type} (k : Nat) : List MOp → List α → List α
  | .on j _ :: ops, o :: obs => if j = k then o :: projObs k ops obs else projObs k ops obs
  | .restart :: ops, _ :: obs => projObs k ops obs
  | _, _ => []

/-- The position in `ops` of the `i`-th op about Package `k` (for messages). -/
def globalIdx (k : Nat) : List MOp → Nat → Nat
  | [], _ => 0
  | .on j _ :: ops, i =>
    if j = k then (match i with | 0 => 0 | i + 1 => globalIdx k ops i + 1) else globalIdx k ops i + 1
  | .restart :: ops, i => globalIdx k ops i + 1

/-- Specification side (what the driver's monitor evaluates on a process history): the property is a statement
about each Package — its own spec edits, the passes about it, its own ObjectDeployment —, so the walk `checkRun`
of `Pko.Model.DeploySpec` is applied to every Package's own ops and the observations made about it, from a fresh
Package.  Result: (Package, step within the Package's own history, violated clause). -/
def checkRunM [DecidableEq T] (hash : Spec → H) (render : Spec → T) (W : Spec → Leaves) (specs : List Spec)
    (ops : List MOp) (obs : List (Option (PObs H T))) : List (Nat × Nat × String) :=
  (List.range specs.length).flatMap fun k =>
    (checkRun hash render W { spec := specs.getD k default, ph := none, pod := none, lateSeen := false, idx := 0 }
      (proj k ops) (projObs k ops obs)).map fun v => (k, v)

end Pko.Model.DeployMulti
