/-
Model of `internal/dynamiccache/cache.go` (`Cache.Watch/Free/Get/List/OwnersForGKV`)
as a lock-atomic state machine.  Core Lean only.

Go ↔ model:
* `informerReferences map[GVK]map[OwnerReference]struct{}`  ↦ `refs : Kind → Option (List Owner)`
  (`none` = key absent; the code tests key presence, so presence is modelled, not emptiness).
* the informer map behind the `informerMap` interface       ↦ `infs : Kind → Option Bool`
  (`some h` = an informer exists; `h` = the controller event handlers were attached to it).
  `informerMap.Get` creates lazily (as `InformerMap.Get` does), `Delete` removes.
  The real `InformerMap` is modelled in `Pko.Model.InformerMap`; `Pko.Props.C12.composed_refines_cache`
  proves that this abstraction of it is exact on every reachable state.
* each exported method holds `informerReferencesMux` for its whole body, so one call = one step
  (structural fact `Pko.Gen.CacheLocks`, regenerated from cache.go; `Pko.Props.C12.locks_cover_bodies`).
-/
namespace Pko.Model.Cache

abbrev Kind := Nat
abbrev Owner := Nat

/-- Scripted outcome of the informer start-up inside one call. -/
inductive Fail where
  | ok        -- everything succeeds
  | get       -- `informerMap.Get` fails before creating anything (e.g. no REST mapping)
  | sync      -- `informerMap.Get` creates + starts the informer, then times out waiting for sync
  | handler   -- `cacheSource.handleNewInformer` fails
  deriving DecidableEq, Repr, Inhabited

inductive Op where
  | watch (o : Owner) (k : Kind) (f : Fail)
  | free (o : Owner)
  | get (k : Kind) (f : Fail)      -- `Get` and `List` behave identically w.r.t. this state
  | owners (k : Kind)
  deriving DecidableEq, Repr, Inhabited

inductive Res where
  | ok | err | notStarted
  deriving DecidableEq, Repr, Inhabited

structure State where
  refs : Kind → Option (List Owner)
  infs : Kind → Option Bool

def init : State := { refs := fun _ => none, infs := fun _ => none }

def setRefs (s : State) (k : Kind) (v : Option (List Owner)) : State :=
  { s with refs := fun k' => if k' = k then v else s.refs k' }
def setInf (s : State) (k : Kind) (v : Option Bool) : State :=
  { s with infs := fun k' => if k' = k then v else s.infs k' }

def insertOwner (o : Owner) (os : List Owner) : List Owner := if o ∈ os then os else o :: os

/-- `Cache.Watch` (after the fix recorded in known_findings: the reference is registered only
once the informer runs with handlers; a failed start is rolled back with `informerMap.Delete`). -/
def watch (s : State) (o : Owner) (k : Kind) (f : Fail) : State × Res :=
  match s.refs k with
  | some os => (setRefs s k (some (insertOwner o os)), .ok)
  | none =>
    -- informerMap.Get(ctx, gvk, uns): returns the existing informer or creates one
    let getFails : Bool := match s.infs k, f with
      | none, .get => true      -- fails before anything is created
      | none, .sync => true     -- informer created and started, then sync times out
      | _, _ => false           -- an informer that already exists is simply returned
    if getFails then (setInf s k none, .err)             -- roll-back: informerMap.Delete
    else if f = .handler then (setInf s k none, .err)    -- handleNewInformer failed → roll-back
    else (setRefs (setInf s k (some true)) k (some [o]), .ok)

/-- The owner set of a kind after removing `o`. -/
def rest (o : Owner) (os : List Owner) : List Owner := os.filter (· ≠ o)

/-- `Cache.Free`: drop the owner from every kind; kinds left without owners lose their
reference entry and their informer (`informerMap.Delete`). -/
def free (s : State) (o : Owner) : State :=
  { refs := fun k => match s.refs k with
      | some os => if o ∈ os then (match rest o os with | [] => none | os' => some os') else some os
      | none => none
    infs := fun k => match s.refs k with
      | some os => if o ∈ os then (match rest o os with | [] => none | _ => s.infs k) else s.infs k
      | none => s.infs k }

/-- `Cache.Get` / `Cache.List`: refuse kinds without a reference entry; otherwise go through
`informerMap.Get`, which would lazily create an informer (without handlers) if none existed. -/
def get (s : State) (k : Kind) (f : Fail) : State × Res :=
  match s.refs k with
  | none => (s, .notStarted)
  | some _ =>
    match s.infs k with
    | some _ => (s, .ok)
    | none =>
      match f with
      | .get => (s, .err)
      | .sync => (setInf s k (some false), .err)
      | _ => (setInf s k (some false), .ok)

def step (s : State) : Op → State × Res
  | .watch o k f => watch s o k f
  | .free o => (free s o, .ok)
  | .get k f => get s k f
  | .owners _ => (s, .ok)

def run (s : State) (ops : List Op) : State := ops.foldl (fun s op => (step s op).1) s

/-- Owners currently registered for a kind (what `OwnersForGKV` returns, as a list). -/
def owners (s : State) (k : Kind) : List Owner := (s.refs k).getD []

end Pko.Model.Cache
