/-
Model of the ObjectSlice encoding (property C14).  Core Lean only.

Go ↔ model
* `internal/packages/internal/packagedeploy/chunking.go`
    `NoOpChunker.Chunk`            ↦ `noopChunk`
    `EachObjectChunker.Chunk`      ↦ `eachChunk`
    `BinpackNextFitChunker.Chunk`  ↦ `binpackStep` / `binpackLoop` / `binpackChunk`
    `binpackNextFitStrategyChunkLimit` (1 MiB const) ↦ the parameter `limit`
    `len(json.Marshal(obj.Object))` ↦ `Obj.size` (`none`: Marshal returns an error)
* `internal/packages/internal/packagedeploy/deployment_reconciler.go`
    `reconcileSliceWithCollisionCount` ↦ `attempt`,  `reconcileSlice` ↦ `reconcileSlice`
    `chunkPhase` ↦ `chunkPhase`,  the phase loop of `Reconcile` ↦ `chunkPhases`
    `sliceGarbageCollection` ↦ `gcDeletes`,  `Reconcile` ↦ `reconcile`
    `utils.ComputeFNV32Hash(objects, &collisionCount)` ↦ the abstract parameter `hash`
* `internal/controllers/objectsets/objectsliceload_reconciler.go`
    `objectSliceLoadReconciler.Reconcile` ↦ `loadSlices` / `loadPhases`
* `internal/controllers/objectsets/objectset_controller.go` (`Reconcile`, `handleDeletionAndArchival`) with the
  per-phase worker abstracted to "record the call": `controller` (after fix C14-a: the slice loader also runs
  before teardown) and `controllerPreFix` (the control flow before that fix, kept as the record of the finding).
* `internal/controllers/objectsets/objectsetphases_reconciler.go` (`reconcile`, `reconcilePhase`, `Teardown`,
  `teardownPhase`, `isObjectSetInTransition`) ↦ `reconcileCalls` / `teardownCalls`: a phase WITHOUT class goes to
  the in-process per-phase worker, a phase WITH a class (`phase.Class != ""`, "delegated" / "remote" phase) goes to
  the remote phase reconciler:
* `internal/controllers/objectsets/remotephase_reconciler.go` (`Reconcile`, `desiredObjectSetPhase`, `Teardown`):
  the ObjectSetPhase object is created from the (loaded) phase — `SetPhase` copies `phase.Objects` — resp. deleted;
  what the controller finds of that object is the scenario input `RState`.

    `Reconcile` hit by one API fault (`DFault`: Get / Create / Update of the ObjectDeployment failing with a
    non-conflict error, an Update that took effect although an error came back, a 409 Conflict answered by the
    re-Get + retry of `retry.RetryOnConflict`, the lists and the Delete of the slice GC failing) ↦ `reconcileF`

Not modelled: API errors other than AlreadyExists on slice creation / NotFound on slice load, more than one
update conflict on the ObjectDeployment per call (the retry budget is property C16's), owner references other
than "is the ObjectDeployment the controller" and "does the loading ObjectSet own the slice".
-/
namespace Pko.Model.Chunk

/-- A phase object (`corev1alpha1.ObjectSetObject`): an identity, the length of the JSON encoding of `.object` as
measured by the chunker, and a fingerprint `fp` of EVERYTHING ELSE the ObjectSetObject carries
(`.collisionProtection`, `.conditionMappings`, the rest of the `.object` payload).  The model never looks into
`fp`; it only copies objects around, and two objects are equal iff they agree in every field.  The harnesses
compute the fingerprint of what the real code hands back by deep equality with the object the scenario built. -/
structure Obj where
  id : Nat
  size : Option Nat
  fp : Nat := 0
  deriving DecidableEq, Repr, Inhabited

abbrev Chunks := List (List Obj)

inductive Strategy where
  | noop | each | binpack
  deriving DecidableEq, Repr, Inhabited

/-! ### chunking.go -/

/-- `NoOpChunker.Chunk`: `return nil, nil`. -/
def noopChunk (_ : List Obj) : Option Chunks := some []

/-- `EachObjectChunker.Chunk`: one chunk per object, in order. -/
def eachChunk (objs : List Obj) : Option Chunks := some (objs.map fun o => [o])

/-- Loop state of `BinpackNextFitChunker.Chunk`: `chunks`, `currentChunk`, `currentChuckSize`. -/
structure BP where
  chunks : Chunks
  cur : List Obj
  curSize : Nat
  deriving Repr

/-- One iteration of the `for _, obj := range phase.Objects` loop (`none`: Marshal failed → return error). -/
def binpackStep (limit : Nat) (s : BP) (o : Obj) : Option BP :=
  match o.size with
  | none => none
  | some size =>
    -- "Close open chunk and allocate new chunk if the open chunk already contains objects and would overflow."
    let s : BP := if s.curSize > 0 ∧ s.curSize + size > limit
      then { chunks := s.chunks ++ [s.cur], cur := [], curSize := 0 } else s
    -- "Add object to open chunk."
    some { s with cur := s.cur ++ [o], curSize := s.curSize + size }

def binpackLoop (limit : Nat) : BP → List Obj → Option BP
  | s, [] => some s
  | s, o :: os =>
    match binpackStep limit s o with
    | none => none
    | some s' => binpackLoop limit s' os

/-- `BinpackNextFitChunker.Chunk`.  `none` = error, `some []` = "chunking bypass" (`return nil, nil`). -/
def binpackChunk (limit : Nat) (objs : List Obj) : Option Chunks :=
  match binpackLoop limit ⟨[], [], 0⟩ objs with
  | none => none
  | some s =>
    if s.chunks.isEmpty then some []                       -- "Signal chunking bypass"
    else if !s.cur.isEmpty then some (s.chunks ++ [s.cur]) -- "flush open chunk"
    else some s.chunks

def chunk (limit : Nat) : Strategy → List Obj → Option Chunks
  | .noop, objs => noopChunk objs
  | .each, objs => eachChunk objs
  | .binpack, objs => binpackChunk limit objs

/-! ### ObjectSlices in the API -/

/-- What the model keeps of an ObjectSlice. -/
structure Slice where
  objects : List Obj
  ctl : Bool     -- `ownerStrategy.IsController(deploy, slice)`
  lbl : Bool     -- carries `slices.package-operator.run/owner: <deployment name>` (GC scope)
  owned : Bool   -- lists the loading ObjectSet among its owner references (decoder side only)
  deriving DecidableEq, Repr, Inhabited

section
variable {Name : Type} [DecidableEq Name]

/-- ObjectSlices of one namespace, in creation order. -/
abbrev Store (Name : Type) := List (Name × Slice)

def getSlice : Store Name → Name → Option Slice
  | [], _ => none
  | (m, s) :: st, n => if m = n then some s else getSlice st n

def names (st : Store Name) : List Name := st.map (·.1)

/-- `client.Delete` of the given slices. -/
def erase (st : Store Name) (del : List Name) : Store Name := st.filter fun e => !(del.contains e.1)

/-- `client.Update` of an existing slice. -/
def setOwned : Store Name → Name → Store Name
  | [], _ => []
  | (m, s) :: st, n => if m = n then (m, { s with owned := true }) :: st else (m, s) :: setOwned st n

/-- A phase of an ObjectSet(Template): inline objects, references to slices, and whether the phase carries a
class (`phase.Class != ""`: it is not reconciled in-process but delegated to an ObjectSetPhase controller).
Neither the encoder (`chunkPhase` edits `Objects`/`Slices` of the phase in place) nor the slice loader looks at
the class. -/
structure Phase (Name : Type) where
  objects : List Obj
  slices : List Name
  cls : Bool := false
  deriving DecidableEq, Repr

abbrev Template (Name : Type) := List (Phase Name)

def refs (t : Template Name) : List Name := t.flatMap (·.slices)

/-! ### deployment_reconciler.go: reconcileSlice -/

/-- `reconcileSliceWithCollisionCount`.  `(store, some name)`: the slice named `name` now holds the content;
`(store, none)`: `sliceCollisionError`. -/
def attempt (hash : List Obj → Nat → Name) (st : Store Name) (content : List Obj) (c : Nat) :
    Store Name × Option Name :=
  let name := hash content c
  match getSlice st name with
  | none => (st ++ [(name, { objects := content, ctl := true, lbl := true, owned := false })], some name) -- Create ok
  | some ex =>
    -- AlreadyExists: "we are controller and object is equal -> all good, just a slow cache"
    if ex.ctl && ex.objects == content then (st, some name) else (st, none)

/-- `reconcileSlice`: `for { … collisionCount++ }`.  The Go loop has no bound; `fuel` bounds the model and
`none` means the loop is still colliding when the fuel is used up. -/
def reconcileSliceFrom (hash : List Obj → Nat → Name) : Nat → Nat → Store Name → List Obj → Option (Name × Store Name)
  | 0, _, _, _ => none
  | fuel + 1, c, st, content =>
    match attempt hash st content c with
    | (st', some n) => some (n, st')
    | (_, none) => reconcileSliceFrom hash fuel (c + 1) st content

/-- The fuel: every failed attempt hits an existing slice, so `length + 1` tries are enough for any hash that is
injective in the collision count (`Props.C14.reconcileSlice_terminates_of_injective`). -/
def reconcileSlice (hash : List Obj → Nat → Name) (st : Store Name) (content : List Obj) : Option (Name × Store Name) :=
  reconcileSliceFrom hash (st.length + 1) 0 st content

/-- The `for i, objectsForSlice := range objectsForSlices` loop of `chunkPhase`. -/
def reconcileSlices (hash : List Obj → Nat → Name) : Store Name → Chunks → Option (List Name × Store Name)
  | st, [] => some ([], st)
  | st, ch :: chs =>
    match reconcileSlice hash st ch with
    | none => none
    | some (n, st') =>
      match reconcileSlices hash st' chs with
      | none => none
      | some (ns, st'') => some (n :: ns, st'')

/-- `chunkPhase`.  Outer `none`: stuck in the collision loop.  Inner `none`: the chunker returned an error. -/
def chunkPhase (limit : Nat) (strat : Strategy) (hash : List Obj → Nat → Name)
    (st : Store Name) (objs : List Obj) : Option (Store Name × Option (Phase Name)) :=
  match chunk limit strat objs with
  | none => some (st, none)                                  -- "chunking strategy: %w"
  | some [] => some (st, some { objects := objs, slices := [] })  -- "no chunking taking place"
  | some chunks =>
    match reconcileSlices hash st chunks with
    | none => none
    | some (ns, st') => some (st', some { objects := [], slices := ns })  -- phase.Objects = nil; phase.Slices = …

/-- The `for i := range templateSpec.Phases` loop of `Reconcile` (stops at the first error). -/
def chunkPhases (limit : Nat) (strat : Strategy) (hash : List Obj → Nat → Name) :
    Store Name → List (List Obj) → Option (Store Name × Option (Template Name))
  | st, [] => some (st, some [])
  | st, p :: ps =>
    match chunkPhase limit strat hash st p with
    | none => none
    | some (st1, none) => some (st1, none)
    | some (st1, some po) =>
      match chunkPhases limit strat hash st1 ps with
      | none => none
      | some (st2, r) => some (st2, r.map (po :: ·))

/-! ### deployment_reconciler.go: Reconcile and slice GC -/

/-- `.spec.lifecycleState` of an ObjectSet. -/
inductive Life where
  | active | paused | archived
  deriving DecidableEq, Repr, Inhabited

/-- An ObjectSet that EXISTS in the API (the selector + namespace List returns it): its phases, its
`.spec.lifecycleState` (set by the ObjectDeployment controller / a user; `archived` is set long before the ObjectSet
controller has finished the teardown, which needs the slices), and whether its deletionTimestamp is set (it stays
around, finalizer `package-operator.run/cached`, until its teardown — which loads the slices — is done). -/
structure OSet (Name : Type) where
  phases : Template Name
  life : Life := .active
  deleting : Bool := false
  deriving DecidableEq, Repr

/-- The slices an ObjectSet references — whatever its lifecycle / deletion state. -/
def osRefs (os : OSet Name) : List Name := refs os.phases

/-- The API objects `DeploymentReconciler.Reconcile` reads and writes. -/
structure World (Name : Type) where
  deploy : Option (Template Name)         -- `.spec.template.spec.phases` of the ObjectDeployment, if it exists
  slices : Store Name
  objectSets : List (OSet Name)           -- the ObjectSets the selector + namespace List returns

/-- `sliceGarbageCollection`: the labelled slices that neither the template nor a listed ObjectSet references.
The loop `for _, objectSet := range objectSets` collects `phase.Slices` of EVERY listed ObjectSet: it looks neither
at `.spec.lifecycleState` nor at the deletionTimestamp. -/
def gcDeletes (st : Store Name) (tmpl : Template Name) (objectSets : List (OSet Name)) : List Name :=
  let referenced := refs tmpl ++ objectSets.flatMap osRefs
  -- "List all Slices controlled by this Deployment" (label selector), "Delete Slices not referenced anymore"
  (names st).filter fun n => (match getSlice st n with | some s => s.lbl | none => false) && !(referenced.contains n)

/-- `DeploymentReconciler.Reconcile` for a desired template given as the objects of every phase.
Result: new world, success flag, names of the slices deleted by GC.  `none`: stuck in a collision loop. -/
def reconcile (limit : Nat) (strat : Strategy) (hash : List Obj → Nat → Name)
    (w : World Name) (desired : List (List Obj)) : Option (World Name × Bool × List Name) :=
  -- NotFound → "Pre-Create the ObjectDeployment without phases"
  let tmpl0 := w.deploy.getD []
  match chunkPhases limit strat hash w.slices desired with
  | none => none
  | some (st1, none) => some ({ w with deploy := some tmpl0, slices := st1 }, false, [])  -- "reconcile phase: %w"
  | some (st1, some tmpl) =>
    -- Update Deployment, then GC against the updated template
    let del := gcDeletes st1 tmpl w.objectSets
    some ({ w with deploy := some tmpl, slices := erase st1 del }, true, del)

/-- One API fault hitting a `DeploymentReconciler.Reconcile` call (consumed by the first call it applies to;
a fault whose call is never made has no effect). -/
inductive DFault where
  | get            -- the first Get of the ObjectDeployment fails (not NotFound): "getting ObjectDeployment: %w"
  | create         -- the pre-create of an absent ObjectDeployment fails
  | update         -- the Update is REJECTED with a non-conflict error (5xx, webhook, forbidden, …): nothing stored
  | updateLost     -- the Update takes effect but an error (timeout) comes back
  | conflict       -- a third party writes the ObjectDeployment before the Update: 409 → re-Get → retry succeeds
  | conflictUpdate -- … and the retried Update is rejected with a non-conflict error
  | osList         -- slice GC: listing the ObjectSets fails
  | sliceList      -- slice GC: listing the controlled slices fails
  | gcDelete       -- slice GC: the first Delete of an unreferenced slice fails
  deriving DecidableEq, Repr, Inhabited

/-- The Update request of the call is refused by the API with a non-conflict error. -/
def DFault.rejectsUpdate : DFault → Bool
  | .update | .conflictUpdate => true
  | _ => false

/-- Faults that strike after the Update was stored: `Reconcile` fails although the API holds the new template. -/
def DFault.afterUpdate : DFault → Bool
  | .updateLost | .osList | .sliceList | .gcDelete => true
  | _ => false

/-- `DeploymentReconciler.Reconcile` hit by the API fault `f`.

    err := Get(actualDeploy)                       -- `get`: return "getting ObjectDeployment"
    NotFound → Create(desired, empty template)     -- `create`: return err
    for phases: chunkPhase                         -- (as `reconcile`)
    err = RetryOnConflict(Update(actualDeploy))    -- `conflict`: re-Get, closure again, stored;
    if err != nil { return err }                   -- `update` / `conflictUpdate`: return, GC does NOT run;
                                                   -- `updateLost`: stored, but return err, GC does not run
    sliceGarbageCollection(actualDeploy)           -- `osList` / `sliceList`: return err before any Delete;
                                                   -- `gcDelete`: the first Delete fails: nothing deleted

The slices created by the phase loop stay whatever happens afterwards (the next successful call collects those
that ended up unreferenced). -/
def reconcileF (limit : Nat) (strat : Strategy) (hash : List Obj → Nat → Name) (f : DFault)
    (w : World Name) (desired : List (List Obj)) : Option (World Name × Bool × List Name) :=
  if f = .get then some (w, false, [])
  else if f = .create ∧ w.deploy.isNone then some (w, false, [])
  else
    let tmpl0 := w.deploy.getD []
    match chunkPhases limit strat hash w.slices desired with
    | none => none
    | some (st1, none) => some ({ w with deploy := some tmpl0, slices := st1 }, false, [])
    | some (st1, some tmpl) =>
      if f.rejectsUpdate then some ({ w with deploy := some tmpl0, slices := st1 }, false, [])
      else
        let del := gcDeletes st1 tmpl w.objectSets
        if f.afterUpdate ∧ (f = .gcDelete → del ≠ []) then some ({ w with deploy := some tmpl, slices := st1 }, false, [])
        else some ({ w with deploy := some tmpl, slices := erase st1 del }, true, del)

/-- Environment: the ObjectDeployment controller creates a new ObjectSet revision from the current template
(active, not being deleted). -/
def snap (w : World Name) : World Name :=
  match w.deploy with
  | none => w
  | some t => { w with objectSets := w.objectSets ++ [{ phases := t }] }

/-- Environment: an ObjectSet is GONE from the API (deleted and all finalizers removed). -/
def delos (w : World Name) (i : Nat) : World Name := { w with objectSets := w.objectSets.eraseIdx i }

def modifyAt {α : Type} (f : α → α) : List α → Nat → List α
  | [], _ => []
  | a :: l, 0 => f a :: l
  | a :: l, i + 1 => a :: modifyAt f l i

/-- Environment: `.spec.lifecycleState` of the i-th ObjectSet is set (ObjectDeployment controller archiving an old
revision / pausing; a user).  The ObjectSet still exists. -/
def setLife (w : World Name) (i : Nat) (l : Life) : World Name :=
  { w with objectSets := modifyAt (fun os => { os with life := l }) w.objectSets i }

/-- Environment: the i-th ObjectSet is deleted but held by its finalizer (teardown not finished): it still exists. -/
def markDeleting (w : World Name) (i : Nat) : World Name :=
  { w with objectSets := modifyAt (fun os => { os with deleting := true }) w.objectSets i }

/-! ### objectsliceload_reconciler.go -/

/-- The `for _, slice := range phase.Slices` loop: Get, add the owner reference if missing, append. -/
def loadSlices : Store Name → List Name → List Obj → List Name → Store Name × List Name × List Obj × Bool
  | st, upd, acc, [] => (st, upd, acc, true)
  | st, upd, acc, n :: ns =>
    match getSlice st n with
    | none => (st, upd, acc, false)                          -- "getting ObjectSlice: %w"
    | some s =>
      if s.owned then loadSlices st upd (acc ++ s.objects) ns
      else loadSlices (setOwned st n) (upd ++ [n]) (acc ++ s.objects) ns

/-- `objectSliceLoadReconciler.Reconcile`: phases are edited in place, so after a failure the phases before
the failing one are loaded, the failing one partially, the rest untouched. -/
def loadPhases : Store Name → List Name → Template Name → Store Name × List Name × List (List Obj) × Bool
  | st, upd, [] => (st, upd, [], true)
  | st, upd, ph :: phs =>
    match loadSlices st upd ph.objects ph.slices with
    | (st1, upd1, objs, false) => (st1, upd1, objs :: phs.map (·.objects), false)
    | (st1, upd1, objs, true) =>
      match loadPhases st1 upd1 phs with
      | (st2, upd2, rest, ok) => (st2, upd2, objs :: rest, ok)

/-- The decoding as a function (what "loading" means, independent of the loader's control flow):
the referenced slices' objects in reference order … -/
def decodeSlices (st : Store Name) : List Name → Option (List Obj)
  | [] => some []
  | n :: ns =>
    match getSlice st n, decodeSlices st ns with
    | some s, some r => some (s.objects ++ r)
    | _, _ => none

/-- … appended to the phase's inline objects. -/
def decodePhase (st : Store Name) (ph : Phase Name) : Option (List Obj) :=
  (decodeSlices st ph.slices).map (ph.objects ++ ·)

def decode (st : Store Name) : Template Name → Option (List (List Obj))
  | [] => some []
  | ph :: t =>
    match decodePhase st ph, decode st t with
    | some a, some r => some (a :: r)
    | _, _ => none

/-! ### objectset_controller.go at the per-phase seam -/

inductive Mode where
  | active | archived | deleted
  deriving DecidableEq, Repr, Inhabited

/-- What the ObjectSet controller finds of the ObjectSetPhase object belonging to a delegated phase. -/
inductive RState where
  | absent        -- no ObjectSetPhase object (yet / any more)
  | noStatus      -- exists, controlled by the ObjectSet, no Available condition for its generation
  | available     -- exists, controlled by the ObjectSet, Available=True
  | unavailable   -- exists, controlled by the ObjectSet, Available=False
  | orphaned      -- exists with Available=True, but is not controlled by this ObjectSet
  deriving DecidableEq, Repr, Inhabited

/-- A call that hands a phase to whoever rolls it out / tears it down.
`remote = false`: `ReconcilePhase` / `TeardownPhase` of the in-process per-phase worker with the phase index and
its objects.  `remote = true`: the ObjectSetPhase object of a delegated phase is created with these objects in
`.spec.objects` (`desiredObjectSetPhase` → `SetPhase`) / is deleted (`teardown`, no objects involved). -/
structure Call where
  teardown : Bool
  phase : Nat
  objects : List Obj
  remote : Bool := false
  deriving DecidableEq, Repr

inductive CRes where
  | ok | err | preflight
  deriving DecidableEq, Repr

structure CtlOut (Name : Type) where
  res : CRes
  calls : List Call
  updates : List Name
  archived : Option Bool      -- status of the Archived condition afterwards, if present
  finalizerRemoved : Bool
  available : Option Bool := none   -- status of the Available condition afterwards, if present
  inTransition : Bool := false      -- InTransition condition present afterwards

/-- `preflight.ObjectDuplicate` over all phases. -/
def hasDup : List Nat → Bool
  | [] => false
  | x :: xs => xs.contains x || hasDup xs

def indexed {α : Type} (l : List α) : List (Nat × α) := (List.range l.length).zip l

/-- A loaded phase as the phases reconciler sees it: index, `none` for a phase without class resp. the state of
its ObjectSetPhase object for a delegated phase, and the phase's objects. -/
abbrev PInfo := Nat × Option RState × List Obj

/-- Phase `i` is delegated iff its class is set; `rem[i]` then says what exists of its ObjectSetPhase. -/
def phaseInfosFrom (cls : List Bool) (rem : List RState) : Nat → List (List Obj) → List PInfo
  | _, [] => []
  | i, objs :: rest =>
    (i, if cls.getD i false then some (rem.getD i .absent) else none, objs) :: phaseInfosFrom cls rem (i + 1) rest

def phaseInfos (cls : List Bool) (rem : List RState) (phases : List (List Obj)) : List PInfo :=
  phaseInfosFrom cls rem 0 phases

/-- `objectSetPhasesReconciler.reconcile` → `reconcilePhase`: phases in order, "break on first failing probe".
Result: calls, error?, all phases available.  The in-process worker always succeeds here (recorder).
`objectSetRemotePhaseReconciler.Reconcile`: NotFound → `Create(desiredObjectSetPhase)`, then (since fix C15-a)
the pass carries on with the new object, which has no status yet: a failed probe, no error; an existing
ObjectSetPhase is never updated; without an Available=True condition it is reported as a failed probe. -/
def reconcileCalls : List PInfo → List Call × Bool × Bool
  | [] => ([], false, true)
  | (i, none, objs) :: rest =>
    let (cs, err, av) := reconcileCalls rest
    ({ teardown := false, phase := i, objects := objs } :: cs, err, av)
  | (i, some rs, objs) :: rest =>
    match rs with
    | .absent => ([{ teardown := false, phase := i, objects := objs, remote := true }], false, false)
    | .noStatus | .unavailable => ([], false, false)
    | .available | .orphaned => reconcileCalls rest

/-- `objectSetPhasesReconciler.Teardown` → `teardownPhase`: phases in reverse order (the caller reverses), stop at
the first one that is not done.  `objectSetRemotePhaseReconciler.Teardown`: gone or orphaned → done; otherwise
Delete the ObjectSetPhase and "wait until we retry and really get a 404". -/
def teardownCalls (wait : Option Nat) : List PInfo → List Call × Bool
  | [] => ([], true)
  | (i, none, objs) :: rest =>
    if wait = some i then ([{ teardown := true, phase := i, objects := objs }], false)
    else
      let (cs, done) := teardownCalls wait rest
      ({ teardown := true, phase := i, objects := objs } :: cs, done)
  | (i, some rs, _) :: rest =>
    match rs with
    | .absent | .orphaned => teardownCalls wait rest
    | _ => ([{ teardown := true, phase := i, objects := [], remote := true }], false)

def finishTeardown (mode : Mode) (upd : List Name) (wait : Option Nat) (infos : List PInfo) : CtlOut Name :=
  let (calls, done) := teardownCalls wait infos.reverse
  if done then
    { res := .ok, calls, updates := upd, archived := if mode = .archived then some true else none,
      finalizerRemoved := true }
  else
    { res := .ok, calls, updates := upd, archived := if mode = .archived then some false else none,
      finalizerRemoved := false }

/-- `objectSetPhasesReconciler.Reconcile` on the loaded phases (everything after the slice loader). -/
def finishActive (upd : List Name) (infos : List PInfo) : CtlOut Name :=
  let all := infos.flatMap (·.2.2)
  if hasDup (all.map (·.id)) then
    -- preflight.Error → UpdateObjectSetOrPhaseStatusFromError: Available=False/PreflightError
    { res := .preflight, calls := [], updates := upd, archived := none, finalizerRemoved := false,
      available := some false }
  else
    let (calls, err, av) := reconcileCalls infos
    if err then
      -- the error is returned as it is, no status update
      { res := .err, calls, updates := upd, archived := none, finalizerRemoved := false }
    else
      -- `isObjectSetInTransition`: nobody reports to control anything here, so every object of every phase
      -- "may be under management" and is not yet
      { res := .ok, calls, updates := upd, archived := none, finalizerRemoved := false,
        available := some av, inTransition := !all.isEmpty }

/-- Everything after the slice loader, for the loaded phases `phases` of a template whose phases have the
classes `cls`. -/
def finish (mode : Mode) (upd : List Name) (cls : List Bool) (rem : List RState) (wait : Option Nat)
    (phases : List (List Obj)) : CtlOut Name :=
  match mode with
  | .active => finishActive upd (phaseInfos cls rem phases)
  | _ => finishTeardown mode upd wait (phaseInfos cls rem phases)

/-- `GenericObjectSetController.Reconcile` for an ObjectSet that carries the cache finalizer and has a
revision, with the in-process per-phase worker succeeding (reconcile: no probe failure; teardown: done unless
`wait`) and the ObjectSetPhase objects of delegated phases in the states `rem` (by phase index).
Models the code AFTER fix C14-a: `handleDeletionAndArchival` → `sliceLoadingTeardownHandler.Teardown` loads the
slices before `objectSetPhasesReconciler.Teardown`. -/
def controller (mode : Mode) (st : Store Name) (t : Template Name) (rem : List RState) (wait : Option Nat) :
    CtlOut Name :=
  match loadPhases st [] t with
  | (_, upd, _, false) => { res := .err, calls := [], updates := upd, archived := none, finalizerRemoved := false }
  | (_, upd, phases, true) => finish mode upd (t.map (·.cls)) rem wait phases

/-- The control flow BEFORE fix C14-a: deletion / archival went straight to `Teardown`, which therefore only saw
the inline objects of every phase. -/
def controllerPreFix (mode : Mode) (st : Store Name) (t : Template Name) (rem : List RState) (wait : Option Nat) :
    CtlOut Name :=
  match mode with
  | .active => controller mode st t rem wait
  | _ => finishTeardown mode [] wait (phaseInfos (t.map (·.cls)) rem (t.map (·.objects)))

end
end Pko.Model.Chunk
