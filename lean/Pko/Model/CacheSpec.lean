/-
Abstract specification for property C12, written from the property's sentence:
"an informer for a kind runs exactly while at least one live owner watches that kind".
State = who watches what.  No informer bookkeeping at all.
-/
import Pko.Model.Cache
namespace Pko.Model.CacheSpec
open Pko.Model.Cache (Kind Owner Fail Op Res)

structure Spec where
  w : Kind → List Owner      -- owners watching each kind (no duplicates, insertion order irrelevant)

def init : Spec := { w := fun _ => [] }

def step (s : Spec) : Op → Spec × Res
  | .watch o k f =>
    if (s.w k).isEmpty then
      -- first watcher of the kind: an informer has to be started, which may fail
      if f = .ok then ({ w := fun k' => if k' = k then [o] else s.w k' }, .ok)
      else (s, .err)
    else ({ w := fun k' => if k' = k then Pko.Model.Cache.insertOwner o (s.w k) else s.w k' }, .ok)
  | .free o => ({ w := fun k => (s.w k).filter (· ≠ o) }, .ok)
  | .get k _ => if (s.w k).isEmpty then (s, .notStarted) else (s, .ok)
  | .owners _ => (s, .ok)

def run (s : Spec) (ops : List Op) : Spec := ops.foldl (fun s op => (step s op).1) s

/-- What a client can observe of a kind: is an informer running, does it have handlers, who watches. -/
structure Obs where
  informer : Bool
  handlers : Bool
  owners : List Owner
  deriving DecidableEq, Repr

/-- The specified observation: informer ⇔ somebody watches; every informer has handlers. -/
def obs (s : Spec) (k : Kind) : Obs :=
  { informer := !(s.w k).isEmpty, handlers := !(s.w k).isEmpty, owners := s.w k }

end Pko.Model.CacheSpec
