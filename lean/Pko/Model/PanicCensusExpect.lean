/-
Hand-written classification of the C19 panic-site census (`Pko.Gen.PanicCensus.census`, regenerated
from the repository on every run by /verif/extract/c19).

Every (file, enclosing function, kind, count) of the census must appear here, in census order, with
one of four classes:

* `modelled d`       – the site is a `panic` branch (or an `idx` / `setNested` call) of the Lean
                       definition(s) `d` in `Pko.Model.Panic`; `Pko.Props.C19` proves it unreachable.
* `guarded r`        – cannot fire, for the stated local reason `r` (a preceding check, a loop
                       bound, a library contract).  Read from the code, NOT proved.
* `checkedGuard e g r` – a single-value type assertion `e` that cannot fire because of the run-time
                       check(s) `g` on the asserted value that DOMINATE it in the same function.  `g`
                       is not prose: it is the guard text the extractor computes for this site
                       (`Pko.Gen.PanicCensus.assertGuards`: `unless C` = an earlier `if C { …leave }`
                       of an enclosing block, after the last assignment to the value), and
                       `Pko.Props.C19.assert_guards_checked` states that the regenerated rows of the
                       function equal the ones expected here.  Deleting the check, moving it behind
                       the assertion or replacing it by a test that is not about the run-time value
                       breaks that theorem.  `r` says why `g` implies the assertion holds.
* `startupOnly r`    – depends only on compiled-in data (the runtime scheme), never on package
                       content or cluster object state; would fire for every input alike.
* `fixedElsewhere p` – a defect tracked and repaired under another property `p`.

`Pko.Props.C19.census_classified` states `census = expectedSites`: a new, removed or moved
potential panic site in the scanned packages breaks that theorem until it is classified here.

Besides `panic` / `assert` / `index` / `slice` the census lists the three syntactic ingredients of
"assignment to entry in nil map":
* `nilmap`   – a SOURCE: a map variable assigned the literal `nil` or declared without a value;
* `mapwrite` – a SINK in PKO code: `m[k] = v` (also `op=`, `++`) where `m` is not a local variable
               that only ever holds `make(…)` / a composite literal (parameters, fields, call
               results, variables also assigned otherwise, variables whose address is taken);
* `mapsink`  – a possibly-nil map (same rule) handed to a function or method of a package outside
               the repository and the standard library, which may write into it in place — the
               census cannot look into third-party code, so every such call is listed
               (apiextensions `defaulting.Default` in `AdmitPackageConfiguration` is the one that
               writes; it is `modelled` by `Pko.Model.TreeConfig.admitConfig`).
What the census still cannot express: a nil map that travels through PKO's own calls (the return
value of `(*Tree).getConfig` reaching `AdmitPackageConfiguration`) — that flow is covered by the model
(`Pko.Props.C19.getConfig_ok_nonnil`) and by the correspondence stream `cli`, not by the census.
The classification describes the tree WITH findings/C19-a, C19-b, C19-c, C19-e applied (the four
assertions of updateStatusConditionsFromOwnedObject and `item.Destination[0]` are gone).
-/
namespace Pko.Model.PanicCensusExpect

inductive Cls where
  | modelled (leanDef : String)
  | guarded (reason : String)
  | checkedGuard (expr : String) (guards : String) (reason : String)
  | startupOnly (reason : String)
  | fixedElsewhere (property : String)
  deriving Repr

structure Entry where
  file : String
  fn : String
  kind : String
  count : Nat
  cls : Cls
  deriving Repr

/-- the census rows this entry accounts for -/
def Entry.sites (e : Entry) : List (String × String × String) :=
  List.replicate e.count (e.file, e.fn, e.kind)

/-- the rows of `Pko.Gen.PanicCensus.assertGuards` this entry pins (only `checkedGuard`) -/
def Entry.guardRows (e : Entry) : List (String × String × String × String) :=
  match e.cls with
  | .checkedGuard expr guards _ => List.replicate e.count (e.file, e.fn, expr, guards)
  | _ => []

/-- the function of a `checkedGuard` entry: ALL its type assertions must be pinned -/
def Entry.guardFn (e : Entry) : List (String × String) :=
  match e.cls with
  | .checkedGuard .. => [(e.file, e.fn)]
  | _ => []

def schemeOnly : String :=
  "scheme.New / type assertion on an object of a kind registered by PKO's own AddToScheme: depends only on the compiled-in scheme, not on package or cluster content"
def rangeIdx : String :=
  "index is the range variable of a loop over the indexed slice or over a slice of the same length (destination made with make(..., len(src)))"
def sortIdx : String :=
  "indices come from sort.Sort / sort.Slice, which only passes 0 <= i,j < Len()"

def nilChecked : String :=
  "the map is tested for nil and allocated directly above the write (`if m == nil { m = map[…]…{} }`)"
def setterStores : String :=
  "SetLabels / SetAnnotations of metav1.Object / unstructured.Unstructured only STORE the map (nil = none), they do not write entries"
def nestedRead : String :=
  "apimachinery unstructured.Nested* accessors only read (a nil map yields found = false)"
def mergeStores : String :=
  "labels.Merge only reads its arguments and allocates its result; SetLabels / SetAnnotations only store the map"

def expected : List Entry := [
  ⟨"internal/adapters/objectdeployment.go", "NewClusterObjectDeployment", "assert", 1,
    .startupOnly schemeOnly⟩,
  ⟨"internal/adapters/objectdeployment.go", "NewClusterObjectDeployment", "panic", 1,
    .startupOnly schemeOnly⟩,
  ⟨"internal/adapters/objectdeployment.go", "NewObjectDeployment", "assert", 1,
    .startupOnly schemeOnly⟩,
  ⟨"internal/adapters/objectdeployment.go", "NewObjectDeployment", "panic", 1,
    .startupOnly schemeOnly⟩,
  ⟨"internal/adapters/objectset.go", "ClusterObjectSetAdapter.SetPausedByParent", "mapwrite", 1,
    .guarded nilChecked⟩,
  ⟨"internal/adapters/objectset.go", "ClusterObjectSetAdapter.SetPreviousRevisions", "index", 2,
    .guarded rangeIdx⟩,
  ⟨"internal/adapters/objectset.go", "NewClusterObjectSet", "assert", 1,
    .startupOnly schemeOnly⟩,
  ⟨"internal/adapters/objectset.go", "NewClusterObjectSet", "panic", 1,
    .startupOnly schemeOnly⟩,
  ⟨"internal/adapters/objectset.go", "NewObjectSet", "assert", 1,
    .startupOnly schemeOnly⟩,
  ⟨"internal/adapters/objectset.go", "NewObjectSet", "panic", 1,
    .startupOnly schemeOnly⟩,
  ⟨"internal/adapters/objectset.go", "ObjectSetAdapter.SetPausedByParent", "mapwrite", 1,
    .guarded nilChecked⟩,
  ⟨"internal/adapters/objectset.go", "ObjectSetAdapter.SetPreviousRevisions", "index", 2,
    .guarded rangeIdx⟩,
  ⟨"internal/adapters/objectsetlist.go", "ClusterObjectSetList.GetItems", "index", 2,
    .guarded rangeIdx⟩,
  ⟨"internal/adapters/objectsetlist.go", "NewClusterObjectSetList", "assert", 1,
    .startupOnly schemeOnly⟩,
  ⟨"internal/adapters/objectsetlist.go", "NewClusterObjectSetList", "panic", 1,
    .startupOnly schemeOnly⟩,
  ⟨"internal/adapters/objectsetlist.go", "NewObjectSetList", "assert", 1,
    .startupOnly schemeOnly⟩,
  ⟨"internal/adapters/objectsetlist.go", "NewObjectSetList", "panic", 1,
    .startupOnly schemeOnly⟩,
  ⟨"internal/adapters/objectsetlist.go", "ObjectSetList.GetItems", "index", 2,
    .guarded rangeIdx⟩,
  ⟨"internal/adapters/objectslice.go", "NewClusterObjectSlice", "assert", 1,
    .startupOnly schemeOnly⟩,
  ⟨"internal/adapters/objectslice.go", "NewClusterObjectSlice", "panic", 1,
    .startupOnly schemeOnly⟩,
  ⟨"internal/adapters/objectslice.go", "NewObjectSlice", "assert", 1,
    .startupOnly schemeOnly⟩,
  ⟨"internal/adapters/objectslice.go", "NewObjectSlice", "panic", 1,
    .startupOnly schemeOnly⟩,
  ⟨"internal/adapters/objectslicelist.go", "ClusterObjectSliceList.GetItems", "index", 2,
    .guarded rangeIdx⟩,
  ⟨"internal/adapters/objectslicelist.go", "NewClusterObjectSliceList", "assert", 1,
    .startupOnly schemeOnly⟩,
  ⟨"internal/adapters/objectslicelist.go", "NewClusterObjectSliceList", "panic", 1,
    .startupOnly schemeOnly⟩,
  ⟨"internal/adapters/objectslicelist.go", "NewObjectSliceList", "assert", 1,
    .startupOnly schemeOnly⟩,
  ⟨"internal/adapters/objectslicelist.go", "NewObjectSliceList", "panic", 1,
    .startupOnly schemeOnly⟩,
  ⟨"internal/adapters/objectslicelist.go", "ObjectSliceList.GetItems", "index", 2,
    .guarded rangeIdx⟩,
  ⟨"internal/adapters/objecttemplate.go", "NewGenericClusterObjectTemplate", "assert", 1,
    .startupOnly schemeOnly⟩,
  ⟨"internal/adapters/objecttemplate.go", "NewGenericClusterObjectTemplate", "panic", 1,
    .startupOnly schemeOnly⟩,
  ⟨"internal/adapters/objecttemplate.go", "NewGenericObjectTemplate", "assert", 1,
    .startupOnly schemeOnly⟩,
  ⟨"internal/adapters/objecttemplate.go", "NewGenericObjectTemplate", "panic", 1,
    .startupOnly schemeOnly⟩,
  ⟨"internal/adapters/package.go", "NewGenericClusterPackage", "assert", 1,
    .startupOnly schemeOnly⟩,
  ⟨"internal/adapters/package.go", "NewGenericClusterPackage", "panic", 1,
    .startupOnly schemeOnly⟩,
  ⟨"internal/adapters/package.go", "NewGenericPackage", "assert", 1,
    .startupOnly schemeOnly⟩,
  ⟨"internal/adapters/package.go", "NewGenericPackage", "panic", 1,
    .startupOnly schemeOnly⟩,
  ⟨"internal/cmd/client.go", "ObjectDeployment.CurrentRevision", "assert", 1,
    .guarded "kubectl-package client wrapper: obj was stored by the wrapper's own constructor from a typed Get (ObjectDeployment or ClusterObjectDeployment); the Cluster variant is tested first"⟩,
  ⟨"internal/cmd/client.go", "ObjectDeployment.ObjectSets", "mapsink", 1,
    .guarded "labels.SelectorFromSet only ranges over the label set (a nil set selects everything)"⟩,
  ⟨"internal/cmd/client.go", "ObjectSet.Revision", "assert", 1,
    .guarded "kubectl-package client wrapper: obj comes from a typed (Cluster)ObjectSetList item; the Cluster variant is tested first"⟩,
  ⟨"internal/cmd/client.go", "ObjectSet.getConditions", "assert", 1,
    .guarded "kubectl-package client wrapper: obj comes from a typed (Cluster)ObjectSetList item; the Cluster variant is tested first"⟩,
  ⟨"internal/cmd/client.go", "ObjectSetList.FindRevision", "index", 1,
    .guarded "idx is the result of slices.IndexFunc on the same slice and idx < 0 returns before"⟩,
  ⟨"internal/cmd/client.go", "Package.CurrentRevision", "assert", 1,
    .guarded "kubectl-package client wrapper: obj was stored by the wrapper's own constructor from a typed Get (Package or ClusterPackage); the Cluster variant is tested first"⟩,
  ⟨"internal/cmd/client.go", "findObjectSets", "index", 2,
    .guarded rangeIdx⟩,
  ⟨"internal/cmd/kickstart/kickstart.go", "Kickstarter.getInput", "panic", 1,
    .guarded "CLI only (kubectl package kickstart): deferred panic when closing an HTTP response body fails; no package content or cluster object state involved"⟩,
  ⟨"internal/cmd/pause.go", "Client.PackageSetPaused", "mapsink", 2,
    .guarded setterStores⟩,
  ⟨"internal/cmd/pause.go", "Client.PackageSetPaused", "mapwrite", 1,
    .guarded nilChecked⟩,
  ⟨"internal/cmd/pause.go", "Client.PackageSetPaused", "panic", 1,
    .guarded "CLI only: kind is a literal chosen by the two cobra sub-commands (\"package\" / \"clusterpackage\"), never user data"⟩,
  ⟨"internal/cmd/tree.go", "Tree.getConfig", "index", 1,
    .guarded "Template[0] in the switch case `len(pkg.Manifest.Test.Template) > 0`"⟩,
  ⟨"internal/cmd/tree.go", "Tree.getTemplateContext", "index", 1,
    .guarded "Template[0] in the switch case `len(pkg.Manifest.Test.Template) > 0`"⟩,
  ⟨"internal/cmd/update.go", "Update.GenerateLockData", "index", 1,
    .guarded rangeIdx⟩,
  ⟨"internal/controllers/controllers.go", "AddDynamicCacheLabel", "mapsink", 1,
    .guarded setterStores⟩,
  ⟨"internal/controllers/controllers.go", "AddDynamicCacheLabel", "mapwrite", 1,
    .guarded nilChecked⟩,
  ⟨"internal/controllers/controllers.go", "RemoveDynamicCacheLabel", "mapsink", 1,
    .guarded (setterStores ++ "; the preceding delete(labels, k) is fine on a nil map")⟩,
  ⟨"internal/controllers/hostedclusters/hypershift/v1beta1/zz_generated.deepcopy.go", "HostedClusterList.DeepCopyInto", "index", 2,
    .guarded ("generated deepcopy: " ++ rangeIdx)⟩,
  ⟨"internal/controllers/hostedclusters/hypershift/v1beta1/zz_generated.deepcopy.go", "HostedClusterStatus.DeepCopyInto", "index", 2,
    .guarded ("generated deepcopy: " ++ rangeIdx)⟩,
  ⟨"internal/controllers/objectdeployments/adapter_objectset.go", "newObjectSetGetter", "panic", 1,
    .startupOnly "type switch over the ObjectSetAccessor implementations; the controllers only construct ObjectSetAdapter / ClusterObjectSetAdapter through the factory chosen at start-up"⟩,
  ⟨"internal/controllers/objectdeployments/adapter_objectset.go", "objectIdentifiers", "index", 2,
    .guarded rangeIdx⟩,
  ⟨"internal/controllers/objectdeployments/adapter_objectset.go", "objectSetGetterMock.getActivelyReconciledObjects", "assert", 1,
    .guarded "test double (testify mock) living in a non-test file; only constructed for *adaptermocks.ObjectSetMock"⟩,
  ⟨"internal/controllers/objectdeployments/adapter_objectset.go", "objectSetGetterMock.getObjects", "assert", 1,
    .guarded "test double (testify mock) living in a non-test file; only constructed for *adaptermocks.ObjectSetMock"⟩,
  ⟨"internal/controllers/objectdeployments/adapter_objectset.go", "objectSetsByRevisionAscending.Less", "index", 2,
    .guarded sortIdx⟩,
  ⟨"internal/controllers/objectdeployments/adapter_objectset.go", "objectSetsByRevisionAscending.Swap", "index", 4,
    .guarded sortIdx⟩,
  ⟨"internal/controllers/objectdeployments/archive_reconciler.go", "archiveReconciler.objectSetsToBeArchived", "index", 2,
    .guarded "allObjectSets[j] with j from len-1 down to 0; allObjectSets[j-1] under `if j > 0`"⟩,
  ⟨"internal/controllers/objectdeployments/archive_reconciler.go", "archiveReconciler.objectSetsToBeArchived", "slice", 1,
    .guarded "allObjectSets[:j] with 0 <= j < len"⟩,
  ⟨"internal/controllers/objectdeployments/new_revision_reconciler.go", "latestRevisionNumber", "index", 1,
    .guarded "prevObjectSets[len-1] after `if len(prevObjectSets) == 0 { return 0 }`"⟩,
  ⟨"internal/controllers/objectdeployments/new_revision_reconciler.go", "newRevisionReconciler.newObjectSetFromDeployment", "mapsink", 2,
    .guarded setterStores⟩,
  ⟨"internal/controllers/objectdeployments/new_revision_reconciler.go", "newRevisionReconciler.newObjectSetFromDeployment", "mapwrite", 2,
    .guarded "GetLabels()[k] / GetAnnotations()[k] directly below `if Get…() == nil { Set…(map[string]string{}) }` on a typed (Cluster)ObjectSet, whose getter returns the stored map"⟩,
  ⟨"internal/controllers/objectdeployments/objectset_reconciler.go", "objectSetReconciler.Reconcile", "index", 1,
    .guarded "objectSets[len-1] under `if len(objectSets) > 0`"⟩,
  ⟨"internal/controllers/objectdeployments/objectset_reconciler.go", "objectSetReconciler.Reconcile", "slice", 1,
    .guarded "objectSets[0:len-1] under `if len(objectSets) > 0`"⟩,
  ⟨"internal/controllers/objectdeployments/objectset_reconciler.go", "objectSetReconciler.setObjectDeploymentStatus", "index", 1,
    .guarded "prevObjectSets[0] under `if len(prevObjectSets) > 0`"⟩,
  ⟨"internal/controllers/objectsetphases/objectsetphase_adapter.go", "newGenericClusterObjectSetPhase", "assert", 1,
    .startupOnly schemeOnly⟩,
  ⟨"internal/controllers/objectsetphases/objectsetphase_adapter.go", "newGenericClusterObjectSetPhase", "panic", 1,
    .startupOnly schemeOnly⟩,
  ⟨"internal/controllers/objectsetphases/objectsetphase_adapter.go", "newGenericObjectSetPhase", "assert", 1,
    .startupOnly schemeOnly⟩,
  ⟨"internal/controllers/objectsetphases/objectsetphase_adapter.go", "newGenericObjectSetPhase", "panic", 1,
    .startupOnly schemeOnly⟩,
  ⟨"internal/controllers/objectsets/adapter_objectsetphase.go", "GenericClusterObjectSetPhase.SetPhase", "mapwrite", 1,
    .guarded nilChecked⟩,
  ⟨"internal/controllers/objectsets/adapter_objectsetphase.go", "GenericObjectSetPhase.SetPhase", "mapwrite", 1,
    .guarded nilChecked⟩,
  ⟨"internal/controllers/objectsets/adapter_objectsetphase.go", "newGenericClusterObjectSetPhase", "assert", 1,
    .startupOnly schemeOnly⟩,
  ⟨"internal/controllers/objectsets/adapter_objectsetphase.go", "newGenericClusterObjectSetPhase", "panic", 1,
    .startupOnly schemeOnly⟩,
  ⟨"internal/controllers/objectsets/adapter_objectsetphase.go", "newGenericObjectSetPhase", "assert", 1,
    .startupOnly schemeOnly⟩,
  ⟨"internal/controllers/objectsets/adapter_objectsetphase.go", "newGenericObjectSetPhase", "panic", 1,
    .startupOnly schemeOnly⟩,
  ⟨"internal/controllers/objectsets/objectsetphases_reconciler.go", "objectSetPhasesReconciler.reconcile", "slice", 1,
    .guarded "phases[i+1:] with i an index of `range phases`: i + 1 ≤ len(phases) (fix C09-a)"⟩,
  ⟨"internal/controllers/objectsets/objectsetphases_reconciler.go", "reverse", "index", 4,
    .guarded "two-pointer loop `for i, j := 0, len(s)-1; i < j` keeps 0 <= i < j < len(s)"⟩,
  ⟨"internal/controllers/objectsets/objectsliceload_reconciler.go", "objectSliceLoadReconciler.Reconcile", "index", 1,
    .guarded rangeIdx⟩,
  ⟨"internal/controllers/objectsets/remotephase_reconciler.go", "addRemoteObjectSetPhase", "index", 2,
    .guarded rangeIdx⟩,
  ⟨"internal/controllers/objectsets/remotephase_reconciler.go", "objectSetRemotePhaseReconciler.desiredObjectSetPhase", "mapsink", 2,
    .guarded setterStores⟩,
  ⟨"internal/controllers/objectsets/remotephase_reconciler.go", "objectSetRemotePhaseReconciler.setPaused", "panic", 1,
    .guarded "json.Marshal of a literal map[string]any holding one string and one bool cannot fail"⟩,
  ⟨"internal/controllers/objecttemplate/template_reconciler.go", "RelaxedJSONPathExpression", "index", 3,
    .modelled "Pko.Model.Panic.relaxedFrom (submatches[1] twice, submatches[2]; behind len(submatches) != 3)"⟩,
  ⟨"internal/controllers/objecttemplate/template_reconciler.go", "copySourceItem", "index", 1,
    .modelled "Pko.Model.Panic.copyTail (vslice[0] behind len(vslice) == 1)"⟩,
  ⟨"internal/controllers/objecttemplate/template_reconciler.go", "copySourceItem", "mapsink", 2,
    .guarded "jsonpath Execute(&buf, sourceObj.Object) only reads; unstructured.SetNestedField(sourcesConfig, …) WRITES into sourcesConfig: the only caller chain (templateReconciler.Reconcile -> getValuesFromSources) passes a fresh `map[string]any{}` (Pko.Model.Panic.setNested models the write on an allocated map)"⟩,
  ⟨"internal/controllers/objecttemplate/template_reconciler.go", "templateReconciler.Reconcile", "mapsink", 6,
    .guarded mergeStores⟩,
  ⟨"internal/controllers/objecttemplate/template_reconciler.go", "templateReconciler.templateObject", "mapsink", 2,
    .guarded mergeStores⟩,
  ⟨"internal/controllers/objecttemplate/template_reconciler.go", "updateStatusConditionsFromOwnedObject", "mapsink", 3,
    .guarded nestedRead⟩,
  ⟨"internal/controllers/phase_reconciler.go", "PhaseReconciler.ReconcilePhase", "index", 2,
    .guarded rangeIdx⟩,
  ⟨"internal/controllers/phase_reconciler.go", "PhaseReconciler.desiredObject", "mapsink", 1,
    .guarded setterStores⟩,
  ⟨"internal/controllers/phase_reconciler.go", "PhaseReconciler.desiredObject", "mapwrite", 3,
    .guarded "labels is tested for nil and allocated (`if labels == nil { labels = map[string]string{} }`) before the three writes"⟩,
  ⟨"internal/controllers/phase_reconciler.go", "defaultAdoptionChecker.isControlledByPreviousRevision", "panic", 1,
    .startupOnly "apiutil.GVKForObject(prev.ClientObject(), scheme) on a typed (Cluster)ObjectSet created by PKO's own factory: fails only if the kind is missing from the compiled-in scheme"⟩,
  ⟨"internal/controllers/phase_reconciler.go", "defaultPatcher.Patch", "mapsink", 1,
    .guarded "unstructured.RemoveNestedField(patch.Object, \"status\") only deletes (fine on a nil map); patch is a DeepCopy of the desired object"⟩,
  ⟨"internal/controllers/phase_reconciler.go", "defaultPatcher.fixFieldManagers", "mapsink", 1,
    .guarded "oldFieldOwners is a package-level sets.New(…) (allocated at init) that csaupgrade only reads"⟩,
  ⟨"internal/controllers/phase_reconciler.go", "mapConditions", "mapsink", 1,
    .guarded nestedRead⟩,
  ⟨"internal/controllers/phase_reconciler.go", "mergeKeysFrom", "mapwrite", 1,
    .guarded nilChecked⟩,
  ⟨"internal/controllers/phase_reconciler.go", "setObjectRevision", "mapsink", 1,
    .guarded setterStores⟩,
  ⟨"internal/controllers/phase_reconciler.go", "setObjectRevision", "mapwrite", 1,
    .guarded nilChecked⟩,
  ⟨"internal/controllers/previous_revision_lookup.go", "PreviousRevisionLookup.Lookup", "index", 1,
    .guarded rangeIdx⟩,
  ⟨"internal/packages/internal/packagedeploy/adapter_objectsetlist.go", "GenericClusterObjectSetList.GetItems", "index", 2,
    .guarded rangeIdx⟩,
  ⟨"internal/packages/internal/packagedeploy/adapter_objectsetlist.go", "GenericObjectSetList.GetItems", "index", 2,
    .guarded rangeIdx⟩,
  ⟨"internal/packages/internal/packagedeploy/adapter_objectsetlist.go", "newGenericClusterObjectSetList", "assert", 1,
    .startupOnly schemeOnly⟩,
  ⟨"internal/packages/internal/packagedeploy/adapter_objectsetlist.go", "newGenericClusterObjectSetList", "panic", 1,
    .startupOnly schemeOnly⟩,
  ⟨"internal/packages/internal/packagedeploy/adapter_objectsetlist.go", "newGenericObjectSetList", "assert", 1,
    .startupOnly schemeOnly⟩,
  ⟨"internal/packages/internal/packagedeploy/adapter_objectsetlist.go", "newGenericObjectSetList", "panic", 1,
    .startupOnly schemeOnly⟩,
  ⟨"internal/packages/internal/packagedeploy/chunking.go", "EachObjectChunker.Chunk", "index", 1,
    .guarded rangeIdx⟩,
  ⟨"internal/packages/internal/packagedeploy/deployment_reconciler.go", "DeploymentReconciler.Reconcile", "index", 1,
    .guarded rangeIdx⟩,
  ⟨"internal/packages/internal/packagedeploy/deployment_reconciler.go", "DeploymentReconciler.Reconcile", "mapsink", 6,
    .guarded mergeStores⟩,
  ⟨"internal/packages/internal/packagedeploy/deployment_reconciler.go", "DeploymentReconciler.Reconcile", "mapwrite", 1,
    .guarded "annotations is the result of labels.Merge, which always returns a freshly allocated labels.Set"⟩,
  ⟨"internal/packages/internal/packagedeploy/deployment_reconciler.go", "DeploymentReconciler.chunkPhase", "index", 1,
    .guarded rangeIdx⟩,
  ⟨"internal/packages/internal/packageimport/fs.go", "walker", "mapwrite", 1,
    .guarded "files is the `packagetypes.Files{}` its only caller FromFS allocates on the line before"⟩,
  ⟨"internal/packages/internal/packageimport/kubekeychain/kubekeychain.go", "newFromPullSecrets", "mapwrite", 1,
    .guarded "keyring.creds is allocated with make(…) in the composite literal that creates keyring in the same function"⟩,
  ⟨"internal/packages/internal/packageimport/kubekeychain/kubekeychain.go", "newFromPullSecrets", "slice", 1,
    .guarded "effectivePath[3:] only after strings.HasPrefix(effectivePath, \"/v2/\") or \"/v1/\" (length >= 4)"⟩,
  ⟨"internal/packages/internal/packageimport/kubekeychain/kubekeychain.go", "toAuthenticator", "index", 1,
    .guarded "configs[0]: the only caller returns authn.Anonymous before when len(auths) == 0"⟩,
  ⟨"internal/packages/internal/packageimport/kubekeychain/kubekeychain.go", "urlsMatch", "index", 1,
    .guarded "targetURLParts[k] with k ranging over globURLParts after `len(globURLParts) != len(targetURLParts)` returned"⟩,
  ⟨"internal/packages/internal/packageimport/request_manager.go", "RequestManager.handleRequest", "mapwrite", 1,
    .guarded "r.inFlight is allocated with make(…) by the only constructor NewRequestManager"⟩,
  ⟨"internal/packages/internal/packagemanifestvalidation/configuration.go", "AdmitPackageConfiguration", "mapsink", 2,
    .modelled "Pko.Model.TreeConfig.admitConfig: pruning.Prune(configuration, …) only reads and deletes; defaulting.Default(configuration, s) WRITES `x[k] = default` for every top-level property with a default whose key is missing = the panic branch of `admitConfig` on the nil map (assignment to entry in nil map).  Callers: (*Tree).RenderPackage passes the result of getConfig, proved allocated (Pko.Props.C19.getConfig_ok_nonnil, no_panic_treeRenderPackage; exercised by stream cli); TemplateTestValidator.runTestCase and PackageDeployer.Deploy pass `map[string]any{}` + json.Unmarshal(Raw, &m) under `Config != nil` (read from the code: Raw of a decoded *runtime.RawExtension is never the literal null, the only input for which encoding/json resets a map to nil)"⟩,
  ⟨"internal/packages/internal/packagemanifestvalidation/manifest.go", "ValidatePackageManifest", "panic", 1,
    .guarded "panic(err) on an error of ValidatePackageConfiguration = apiextensions ConvertJSONSchemaProps of spec.config.openAPIV3Schema; only reached when validatePackageManifestConfig reported no error for that schema (`len(configErrors) == 0`). NOT PROVED: relies on the apiextensions CRD-schema validation rejecting everything the converter rejects; exercised by the exploration stream `structure`"⟩,
  ⟨"internal/packages/internal/packagemanifestvalidation/private.go", "validatePackageConfigurationBySchema", "mapsink", 1,
    .guarded "apiextensions validation.ValidateCustomResource only reads the configuration (a nil map validates like an empty object)"⟩,
  ⟨"internal/packages/internal/packagemanifestvalidation/private.go", "validateSchemaStuffWithXPrefixedName", "index", 2,
    .guarded "copied apiextensions validation code: i ranges over the compilation results, one per schema.XValidations entry"⟩,
  ⟨"internal/packages/internal/packagemanifestvalidation/private.go", "validatorAdapter.Validate", "panic", 1,
    .guarded "only called by apiextensions validation.ValidateCustomResource, which passes no options in the vendored version (constant call shape, independent of input)"⟩,
  ⟨"internal/packages/internal/packagerender/celctx/cel.go", "CelCtx.evaluate", "assert", 1,
    .checkedGuard "out.Value().(bool)" "unless !reflect.DeepEqual(out.Type(), cel.BoolType)"
      "out is the ref.Val the program evaluated to; control reaches the assertion only when its RUN-TIME type is cel.BoolType, and a cel-go value of BoolType is types.Bool, whose Value() is a Go bool.  A check of the STATIC output type of the AST would not do: every template-context variable is declared map(string, any), so `config.x` has static type dyn and any run-time type (exercised by the render stream's dyn-typed CEL conditions)"⟩,
  ⟨"internal/packages/internal/packagerender/celctx/cel.go", "newCelCtx", "mapwrite", 1,
    .guarded "ctxMap comes from unpackContext = structToMap(tmplCtx): the JSON round trip of the STRUCT PackageRenderContext is always a JSON object, which json.Unmarshal decodes into an allocated map (an error returns before)"⟩,
  ⟨"internal/packages/internal/packagerender/celctx/cel.go", "structToMap", "nilmap", 1,
    .guarded "`var result map[string]any` is filled by json.Unmarshal(data, &result) where data is json.Marshal of a struct value (a JSON object, never null): allocated on return unless err != nil; see newCelCtx"⟩,
  ⟨"internal/packages/internal/packagerender/conditionmap.go", "parseConditionMapAnnotation", "index", 5,
    .modelled "Pko.Model.Panic.parseParts (parts[0], parts[1] twice each) and Pko.Model.Panic.parseLines (outputMappings[i])"⟩,
  ⟨"internal/packages/internal/packagerender/objects.go", "RenderObjects", "mapwrite", 1,
    .guarded "pathObject is a named result allocated on the first line of the function"⟩,
  ⟨"internal/packages/internal/packagerender/objects.go", "RenderObjectsWithFilter", "index", 3,
    .guarded "paths[i] with i counting the keys of the map paths was sized from; paths[i], paths[j] inside the sort.Slice callback"⟩,
  ⟨"internal/packages/internal/packagerender/objects.go", "filterWithCEL", "mapwrite", 3,
    .guarded "pathFilteredIndex is a named result allocated before the loop; pathObjectMap is only written for keys obtained by ranging over it (a nil map has none)"⟩,
  ⟨"internal/packages/internal/packagerender/objects.go", "parseObjects", "mapsink", 3,
    .guarded mergeStores⟩,
  ⟨"internal/packages/internal/packagerender/objectsettemplate.go", "phaseCollector.AddObjects", "index", 1,
    .guarded ("&objs[i]: " ++ rangeIdx)⟩,
  ⟨"internal/packages/internal/packagerender/objectsettemplate.go", "phaseCollector.AddObjects", "mapsink", 1,
    .guarded setterStores⟩,
  ⟨"internal/packages/internal/packagerender/objectsettemplate.go", "phaseCollector.AddObjects", "nilmap", 1,
    .guarded "deliberate: empty annotations are replaced by nil for semantic equality; afterwards the map is only handed to SetAnnotations, which stores it"⟩,
  ⟨"internal/packages/internal/packagerender/objectsettemplate.go", "phaseCollector.AddObjects", "panic", 1,
    .modelled "Pko.Model.Panic.addObjects (explicit panic on a condition-map parse error; unreachable behind Pko.Model.Panic.renderGate, the check added to parseObjects by fix C19-c)"⟩,
  ⟨"internal/packages/internal/packagerender/objectsettemplate.go", "phaseCollector.Collect", "index", 3,
    .guarded "entries[i], entries[j] inside the sort.Slice callback; phases[i] with phases := make(…, len(entries)) and i ranging over entries"⟩,
  ⟨"internal/packages/internal/packagerender/objectsettemplate.go", "phaseCollector.addObjects", "mapwrite", 1,
    .guarded "the receiver is only created by newPhaseCollector (make(phaseCollector)); the write is behind a successful lookup `entry, ok := c[phaseName]`, impossible on a nil map"⟩,
  ⟨"internal/packages/internal/packagerender/template.go", "RenderTemplates", "mapwrite", 1,
    .guarded "pkg.Files[path] only for paths collected by ranging over pkg.Files itself (rendered is filled inside `for path, content := range pkg.Files`), so the map is non-nil whenever the loop body runs"⟩,
  ⟨"internal/packages/internal/packagerender/template.go", "workaroundnovalue", "assert", 2,
    .guarded "actualCtx is the JSON round trip of the Go struct PackageRenderContext: \"package\" and \"package.metadata\" are struct fields without omitempty, hence always JSON objects"⟩,
  ⟨"internal/packages/internal/packagerender/template.go", "workaroundnovalue", "mapwrite", 2,
    .guarded "metadata is the result of the type assertion .(map[string]any) on a decoded JSON object (see the assert entry of this function): json.Unmarshal allocates object maps"⟩,
  ⟨"internal/packages/internal/packagestructure/conversion.go", "ManifestFromFile", "index", 3,
    .guarded ("gvks[0]: scheme.ObjectKinds returns an error instead of an empty list; versions[i]/groupVersions[i]: " ++ rangeIdx)⟩,
  ⟨"internal/packages/internal/packagestructure/default.go", "init", "panic", 1,
    .startupOnly "package init: AddToScheme of PKO's own API groups"⟩,
  ⟨"internal/packages/internal/packagestructure/structure.go", "StructuralLoader.LoadComponent", "nilmap", 1,
    .guarded "`var cFiles packagetypes.Files` is assigned in both branches of the if/else that follows (rootFiles / componentFiles, which allocate) and only read afterwards"⟩,
  ⟨"internal/packages/internal/packagestructure/structure.go", "StructuralLoader.load", "index", 1,
    .guarded "parts[1] of strings.SplitN(path, \"/\", 3) after `len(parts) == 2` and `len(parts) < 3` both returned errors"⟩,
  ⟨"internal/packages/internal/packagestructure/structure.go", "StructuralLoader.load", "mapwrite", 1,
    .guarded "componentFiles is a composite literal of the function (grouped var declaration) and componentFiles[componentName] is allocated two lines above when missing"⟩,
  ⟨"internal/packages/internal/packagevalidation/objectvalidation.go", "ObjectLabelsValidator.validate", "mapsink", 1,
    .guarded "apimachinery validation.ValidateLabels only ranges over the labels"⟩,
  ⟨"internal/preflight/dryrun.go", "DryRun.Check", "assert", 2,
    .guarded "obj.DeepCopyObject().(*unstructured.Unstructured) / .(client.Object): every caller (PhaseReconciler via CheckAllInPhase, objecttemplate reconciler) passes *unstructured.Unstructured, whose DeepCopyObject returns the same type"⟩,
  ⟨"internal/preflight/preflight.go", "CheckAll", "assert", 1,
    .guarded "DeepCopyObject() of a client.Object returns the same concrete type, which implements client.Object"⟩,
  ⟨"internal/preflight/preflight.go", "CheckAllInPhase", "index", 1,
    .guarded "objs[i] with i ranging over phase.Objects; the only caller builds objs := make(…, len(phase.Objects))"⟩,
  ⟨"internal/preflight/preflight.go", "Error.Error", "index", 1,
    .guarded rangeIdx⟩,
  ⟨"internal/preflight/preflight.go", "addPositionToViolations", "index", 1,
    .guarded rangeIdx⟩,
  ⟨"internal/preflight/preflight.go", "phaseFromContext", "assert", 1,
    .checkedGuard "phaseI.(corev1alpha1.ObjectSetTemplatePhase)" "unless phaseI == nil"
      "nil (no value stored) returns before; a non-nil value under the unexported context key is only ever stored by NewContextWithPhase with that type (read from the code)"⟩,
  ⟨"internal/probing/parse.go", "Parse", "index", 1,
    .guarded rangeIdx⟩,
  ⟨"internal/utils/hash.go", "DeepHashObject", "panic", 1,
    .guarded "Fprintf into a hash.Hash: hash writers never return an error"⟩,
  ⟨"internal/utils/imageurl.go", "ImageURLWithOverride", "panic", 1,
    .guarded "default branch of a type switch over name.Reference after name.ParseReference succeeded: go-containerregistry only returns name.Tag or name.Digest"⟩,
  ⟨"pkg/probing/cel.go", "CELProbe.probe", "assert", 1,
    .guarded "val.Value().(bool): NewCELProbe rejects every rule whose checked output type is not cel.BoolType, and evaluation errors return before"⟩,
  ⟨"pkg/probing/condition.go", "ConditionProbe.probe", "mapsink", 2,
    .guarded nestedRead⟩,
  ⟨"pkg/probing/fieldsequal.go", "FieldsEqualProbe.probe", "mapsink", 2,
    .guarded nestedRead⟩,
  ⟨"pkg/probing/observedgeneration.go", "ObservedGenerationProbe.Probe", "mapsink", 1,
    .guarded nestedRead⟩,
  ⟨"pkg/probing/probe.go", "toUnstructured", "panic", 1,
    .guarded "only for typed objects: PKO probes *unstructured.Unstructured, for which probeUnstructured* take the fast path; DefaultUnstructuredConverter fails only for non-JSON-serialisable Go values"⟩,
  ⟨"pkg/probing/selectors.go", "LabelSelector.Probe", "mapsink", 1,
    .guarded "labels.Selector.Matches only reads the label set"⟩
]

def expectedSites : List (String × String × String) := expected.flatMap Entry.sites

/-- Functions with a `checkedGuard` entry and the guard rows expected for them. -/
def guardedFns : List (String × String) := expected.flatMap Entry.guardFn
def expectedGuardRows : List (String × String × String × String) := expected.flatMap Entry.guardRows

/-- Potential panic sites on the untrusted-input path that the SYNTACTIC census cannot see
(nil-interface call, nil-pointer dereference, a nil-map write inside third-party code), recorded by
hand.  (The `copySourceItem` nil-map write that used to be listed here is now the census row
`copySourceItem / mapsink`.) -/
def nonSyntactic : List Entry := [
  ⟨"internal/packages/internal/packagedeploy/deployer.go", "validateUnique", "nil-interface-call", 2,
    .fixedElsewhere "C16 (finding C16-b = C19-d): NewClusterPackageDeployer leaves PackageDeployer.uncachedClient nil; validateConstraints -> validateUnique calls uncachedClient.List on it for a manifest with a uniqueInScope constraint"⟩,
  ⟨"k8s.io/apiextensions-apiserver/pkg/apiserver/schema/defaulting/algorithm.go", "Default", "nil-map-write", 1,
    .modelled "Pko.Model.TreeConfig.admitConfig: `x[k] = runtime.DeepCopyJSONValue(prop.Default.Object)` on the map PKO passes in (census row AdmitPackageConfiguration / mapsink); unreachable from `kubectl package tree` by Pko.Props.C19.no_panic_treeRenderPackage"⟩,
  ⟨"internal/packages/internal/packageimport/oci.go", "FromOCI", "nil-pointer-dereference", 1,
    .modelled "Pko.Model.Panic.fromOCI: hdr.Name after `tarReader.Next()` returned a non-EOF error (truncated / corrupted layer while a skipped entry's data is pending). Found by the exploration stream `import`, fixed by findings/C19-e (error return before hdr is used). The same pattern remains in internal/packages/internal/packagekickstart/olm.go (ImportOLMBundleImage, IsOLMBundleImage; CLI `kubectl package kickstart`, outside the scanned packages)"⟩
]

end Pko.Model.PanicCensusExpect
