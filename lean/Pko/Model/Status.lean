/-
Status conditions and controlled-object references, as far as the modelled code and the
properties look at them (shared by the phase, ObjectSet and delegated-phase models).
-/
namespace Pko.Model.Status

/-- A status condition. -/
structure Cond where
  type : String
  status : String      -- "True" | "False" | "Unknown"
  reason : String
  obsGen : Nat
  msg : String         -- only meaningful for Available=False/ProbeFailure: the failing phase's name
  deriving DecidableEq, Repr, Inhabited

/-- `meta.SetStatusCondition`: update in place or append. -/
def setCond (cs : List Cond) (c : Cond) : List Cond :=
  if cs.any (·.type = c.type) then cs.map fun x => if x.type = c.type then c else x
  else cs ++ [c]

def removeCond (cs : List Cond) (t : String) : List Cond := cs.filter (·.type ≠ t)
def condTrue (cs : List Cond) (t : String) : Bool := cs.any fun c => c.type = t && c.status = "True"
def findCond (cs : List Cond) (t : String) : Option Cond := cs.find? (·.type = t)

/-- `ControlledObjectReference` -/
structure CRef where
  kind : String
  ns : String
  name : String
  deriving DecidableEq, Repr, Inhabited

end Pko.Model.Status
