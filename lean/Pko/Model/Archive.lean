/-
Model of the ObjectDeployment controller's archival / history-pruning decision logic
(property C08, part (a)).  Core Lean only.

Go ↔ model
* `internal/controllers/objectdeployments/archive_reconciler.go`
    `archiveReconciler.Reconcile`            ↦ `reconcile`
    `objectSetsToBeArchived`                 ↦ `scan` (the `for j := len-1; j >= 0; j--` loop, run on the
                                               reversed slice so that the head is `allObjectSets[j]`)
    `archiveAllLaterRevisions`  (case 1)     ↦ `case1`
    `intermediateRevisionCanBeArchived` (2/3)↦ `pairStep` (+ `iterErr`: its error return)
    `revisionObjects`                        ↦ `revisionObjects` (inline objects + the objects of every
                                               referenced ObjectSlice, loaded with `client.Get`; a slice
                                               that cannot be loaded is an error)
    `ensurePaused`                           ↦ `ensurePaused`
    `markObjectSetsForArchival`              ↦ `markLoop`
    `garbageCollectRevisions`                ↦ `gc` / `gcLoop`
    `intersection`                           ↦ `keysIntersect`
* `adapter_objectset.go`
    `getActivelyReconciledObjects`           ↦ `activelyReconciled` (archived ⇒ `[]`, nil ⇒ "not reported")
    `getObjects` / `objectIdentifiers`       ↦ field `objects`: the objects INLINE in `spec.phases[*].objects`
                                               (namespace defaulting already applied); the objects that
                                               live in the ObjectSlices the phases reference
                                               (`spec.phases[*].slices`) are `sliced`
    `objectSetsByRevisionAscending` + `sort.Sort` ↦ `sortAsc` (see there)
* `objectset_reconciler.go`, `objectdeployment_controller.go:listObjectSetsByRevision`
    listing sort, revision-0 delay, current/previous split, pause propagation ↦ `osr`, `propagate`
* `internal/adapters/objectset.go`: `IsArchived/IsSpecPaused` read `spec.lifecycleState`,
  `IsStatusPaused/IsAvailable` read the `Paused` / `Available` status conditions (status `True`,
  **observedGeneration is not consulted**), `GetPausedByParent` = Paused ∧ annotation.

* `metadata.deletionTimestamp` of a listed ObjectSet ↦ `Rev.terminating`.  No line of the pass reads
  it: a revision deleted in an earlier round whose teardown has not finished is listed, sorted,
  counted in `len(previousObjectSets)` and sent `Delete` again like any other.  Multi-round
  histories (prune, revision still terminating, prune again) are `Pko.Model.ArchiveHist`.

`archiveReconciler` as wired by `newGenericObjectDeploymentController` (scheme + ObjectSlice factory
of the controller's scope); with a nil factory (unit tests of the package) only inline objects count.

The output of a pass is the ordered list of client writes it issues (`Write`) plus whether the pass
returned an error.  Nothing else of the pass is observable to the API.  The functions are plain
functions of the listed revisions, so part (b) (whole-system schedules) can call `osr` as the
ObjectDeployment step on whatever revision list its store holds.
-/
namespace Pko.Model.Archive

/-- Identity of a managed object: `group/kind/namespace/name` (`UniqueIdentifier`). -/
abbrev Key := Nat

/-- `spec.lifecycleState` of an ObjectSet. -/
inductive Lifecycle where
  | active | paused | archived
  deriving DecidableEq, Repr, Inhabited

/-- Exactly what the deployment controller reads of one ObjectSet revision. -/
structure Rev where
  /-- `metadata.name`: the identity a client write is addressed to. -/
  id : Nat
  /-- `status.revision` (int64). -/
  rev : Int
  /-- `IsAvailable()`: condition `Available` is `True`. -/
  available : Bool
  /-- `IsStatusPaused()`: condition `Paused` is `True`. -/
  statusPaused : Bool
  /-- `spec.lifecycleState`. -/
  lc : Lifecycle
  /-- annotation `package-operator.run/paused-by-parent: "true"` present. -/
  pbp : Bool
  /-- `status.controllerOf`; `none` = nil slice ("not reported yet"). -/
  controllerOf : Option (List Key)
  /-- keys of the objects listed INLINE in `spec.phases[*].objects`. -/
  objects : List Key
  /-- annotation `package-operator.run/hash` equals the deployment's `status.templateHash`. -/
  hashMatch : Bool
  /-- `metadata.deletionTimestamp` is set: the ObjectSet was deleted in an earlier round (by history
  pruning or by anybody else), its teardown has not finished, a finalizer keeps it in the API and
  it is **still listed**.  No function of the pass reads it: `garbageCollectRevisions` counts a
  terminating revision in `len(previousObjectSets)`, sends `Delete` to it again and decrements
  `numToDelete` for it like for any other revision. -/
  terminating : Bool := false
  /-- keys of the objects of the revision that are NOT inline: they live in the (Cluster)ObjectSlice
  objects named by `spec.phases[*].slices` (packages > 1 MiB, or the EachObject chunking strategy),
  in phase order.  The ObjectSet stored in the API keeps them there: only the ObjectSet controller
  inlines them, in memory, for its own pass (`objectSliceLoadReconciler`).  The revision *contains*
  `objects ++ sliced` (`Rev.allObjects`). -/
  sliced : List Key := []
  /-- some ObjectSlice named by `spec.phases[*].slices` does not exist (a `Get` returns NotFound):
  what else the revision contains cannot be determined. -/
  sliceMissing : Bool := false
  deriving DecidableEq, Repr, Inhabited

/-- Everything the revision contains: the inline objects and the objects of its ObjectSlices. -/
def Rev.allObjects (r : Rev) : List Key := r.objects ++ r.sliced

def Rev.archived (r : Rev) : Bool := r.lc == .archived      -- IsArchived
def Rev.specPaused (r : Rev) : Bool := r.lc == .paused      -- IsSpecPaused
def Rev.pausedByParent (r : Rev) : Bool := r.lc == .paused && r.pbp   -- GetPausedByParent

/-- A write sent to the API server, named after the state the ObjectSet is updated to. -/
inductive Write where
  | pause (id : Nat)      -- Update, lifecycleState = Paused (no paused-by-parent annotation)
  | ppause (id : Nat)     -- Update, lifecycleState = Paused + paused-by-parent annotation
  | activate (id : Nat)   -- Update, lifecycleState = Active
  | archive (id : Nat)    -- Update, lifecycleState = Archived
  | delete (id : Nat)     -- Delete of the ObjectSet
  deriving DecidableEq, Repr, Inhabited

/-! ### `sort.Sort(objectSetsByRevisionAscending(..))`

`Less(i,j) = rev i < rev j`.  For slices of at most 12 elements Go's `sort.Sort` is a plain
insertion sort, which is stable; `sortAsc` is the stable ascending sort (ties keep their relative
order).  For longer slices with equal revisions Go's order of the tied elements is unspecified
and not modelled (revisions are unique by C07). -/

def insertAsc (x : Rev) : List Rev → List Rev
  | [] => [x]
  | y :: ys => if x.rev ≤ y.rev then x :: y :: ys else y :: insertAsc x ys

def sortAsc (l : List Rev) : List Rev := l.foldr insertAsc []

/-! ### archive_reconciler.go -/

/-- `ensurePaused` (l.192-209): returns the writes and the `isPaused` result. An already
status-paused revision needs nothing; a spec-paused one is awaited; otherwise `SetPaused()` +
`client.Update`.  `SetPaused` only sets `lifecycleState`, so a stale paused-by-parent annotation
survives and the object sent looks paused-by-parent. -/
def ensurePaused (o : Rev) : List Write × Bool :=
  if o.statusPaused then ([], true)
  else if o.specPaused then ([], false)
  else ([if o.pbp then .ppause o.id else .pause o.id], false)

/-- `archiveAllLaterRevisions(currentLatest, allObjectSets[:j])` (l.126-151), case 1. -/
def case1 (latest : Rev) : List Rev → List Write × List Rev
  | [] => ([], [])
  | p :: ps =>
    let r := case1 latest ps
    if p.archived then r
    else if p.rev < latest.rev then
      let e := ensurePaused p
      (e.1 ++ r.1, if e.2 then p :: r.2 else r.2)
    else r

/-- `intersection(a, b)`: the items of `b` whose identifier occurs in `a`. -/
def keysIntersect (a b : List Key) : List Key := b.filter (fun k => a.contains k)

/-- `getActivelyReconciledObjects` (adapter_objectset.go l.35-58). -/
def activelyReconciled (p : Rev) : Option (List Key) :=
  if p.archived then some [] else p.controllerOf

/-- `revisionObjects(ctx, objectSet)`: the identifiers of ALL objects of the revision — `getObjects()`
(inline) followed by the objects of every ObjectSlice named in `spec.phases[*].slices`, each loaded
with `client.Get` in the ObjectSet's namespace and namespace-defaulted like the inline ones.  `none`
= a `Get` failed (the slice does not exist): the function returns that error. -/
def revisionObjects (l : Rev) : Option (List Key) :=
  if l.sliceMissing then none else some l.allObjects

/-- `intermediateRevisionCanBeArchived(previousRevision, currentLatestRevision)` once
`revisionObjects(currentLatestRevision)` has succeeded (for its error return see `iterErr`). -/
def pairStep (p l : Rev) : List Write × Bool :=
  match activelyReconciled p with
  | none => ([], false)                       -- controllerOf not reported yet
  | some act =>
    if (keysIntersect l.allObjects act).isEmpty && !p.available then ensurePaused p
    else ([], false)

/-- The loop iteration for `p = allObjectSets[j-1]`, `l = allObjectSets[j]` ends the whole pass with
an error: it reaches `intermediateRevisionCanBeArchived` (previous revision not archived, revision
numbers in order) and the first thing that does — loading the objects of the latest revision —
fails.  Nothing is written in that iteration. -/
def iterErr (p l : Rev) : Bool :=
  !p.archived && !decide (l.rev ≤ p.rev) && (revisionObjects l).isNone

/-- Body of one loop iteration of `objectSetsToBeArchived` below the case-1 test, for `j > 0`
(l.94-121): `l = allObjectSets[j]`, `p = allObjectSets[j-1]`. -/
def pairIter (p l : Rev) : List Write × List Rev :=
  if p.archived then ([], [])                 -- "Already archived dont do anything"
  else if l.rev ≤ p.rev then ([], [])         -- "Sanity check"
  else
    let s := pairStep p l
    (s.1, if s.2 then [p] else [])

/-- `objectSetsToBeArchived` (l.72-124) on the **descending** list (`allObjectSets` reversed):
the head is `allObjectSets[j]`, the tail reversed is `allObjectSets[:j]`.  Returns the pause
writes issued on the way and `objectSetsToArchive` in the order the Go code builds it (up to the
iteration that fails, if one does: `scanErr`). -/
def scan : List Rev → List Write × List Rev
  | [] => ([], [])
  | l :: rest =>
    if l.available then case1 l rest.reverse           -- case 1: early return
    else
      match rest with
      | [] => ([], [])
      | p :: _ =>
        if iterErr p l then ([], [])                   -- error return: no further iteration runs
        else
          let h := pairIter p l
          let r := scan rest
          (h.1 ++ r.1, h.2 ++ r.2)

/-- `objectSetsToBeArchived` returns an error (same traversal as `scan`): some iteration reached
before a case-1 early return fails to load the objects of its latest revision.  The caller then
drops the result and returns the error; the pause writes `scan` lists were issued before. -/
def scanErr : List Rev → Bool
  | [] => false
  | l :: rest =>
    if l.available then false
    else
      match rest with
      | [] => false
      | p :: _ => iterErr p l || scanErr rest

/-- The loop of `garbageCollectRevisions` (l.236-245).  Every visited revision is sent a `Delete` and
counted, whether or not it is already terminating (`p.terminating` is not consulted). -/
def gcLoop : Int → List Rev → List Write
  | _, [] => []
  | n, p :: ps => if n ≤ 0 then [] else .delete p.id :: gcLoop (n - 1) ps

/-- `defaultRevisionLimit`. -/
def defaultLimit : Int := 10

/-- `garbageCollectRevisions(previousObjectSets, objectDeployment)` (l.225-248):
`numToDelete = len(prev) - limit`, limit = 10 when `spec.revisionHistoryLimit` is nil. -/
def gc (prev : List Rev) (limit : Option Int) : List Write :=
  gcLoop ((prev.length : Int) - limit.getD defaultLimit) prev

def Write.id : Write → Nat
  | .pause i | .ppause i | .activate i | .archive i | .delete i => i

/-- `markObjectSetsForArchival` loop (l.57-68) over the ascending-sorted `objectsToArchive`.
`gone` = names already removed from the API during this pass (only when the ObjectSets carry no
finalizer, `fin = false`): an `Update` of such an object fails with NotFound and aborts the pass
(the attempted write is still listed); a `Delete` of it returns NotFound, which is ignored. -/
def markLoop (prev : List Rev) (limit : Option Int) (fin : Bool) :
    List Rev → List Nat → List Write × Bool
  | [], _ => ([], false)
  | o :: os, gone =>
    let upd := !o.archived && o.statusPaused
    if upd && gone.contains o.id then ([.archive o.id], true)
    else
      let g := gc prev limit
      let gone' := if fin then gone else gone ++ g.map Write.id
      let r := markLoop prev limit fin os gone'
      ((if upd then [.archive o.id] else []) ++ g ++ r.1, r.2)

/-- `archiveReconciler.Reconcile(ctx, currentObjectSet, prevObjectSets, objectDeployment)`.

`append(prevObjectSets, currentObjectSet)` is sorted in place.  In the controller
`prevObjectSets = objectSets[0:len-1]` shares its backing array with the appended slice
(objectset_reconciler.go l.63), so after the sort `prevObjectSets` is the first `len(prev)`
elements of the sorted slice (`prev'`); on a listing that is already sorted this is `prev`. -/
def reconcile (prev : List Rev) (cur : Option Rev) (limit : Option Int) (fin : Bool) :
    List Write × Bool :=
  match cur with
  | none => ([], false)
  | some c =>
    let all := sortAsc (prev ++ [c])
    let prev' := all.take prev.length
    let s := scan all.reverse
    if scanErr all.reverse then (s.1, true)          -- "errored when trying to compute objects for archival"
    else if s.2.isEmpty then (s.1, false)
    else
      let m := markLoop prev' limit fin (sortAsc s.2) []
      (s.1 ++ m.1, m.2)

/-! ### objectset_reconciler.go -/

/-- The pause-propagation loop (l.72-93): writes and the objects as mutated in memory. -/
def propagate (odPaused : Bool) : List Rev → List Write × List Rev
  | [] => ([], [])
  | o :: os =>
    let r := propagate odPaused os
    if o.archived then (r.1, o :: r.2)
    else if odPaused != o.pausedByParent then
      if odPaused then (.ppause o.id :: r.1, { o with lc := .paused, pbp := true } :: r.2)
      else (.activate o.id :: r.1, { o with lc := .active, pbp := false } :: r.2)
    else (r.1, o :: r.2)

/-- `objectSetReconciler.Reconcile` with the archive reconciler as its only sub-reconciler, fed by
`listObjectSetsByRevision` (which sorts the API listing ascending by `status.revision`). -/
def osr (listing : List Rev) (odPaused : Bool) (limit : Option Int) (fin : Bool) :
    List Write × Bool :=
  let objectSets := sortAsc listing
  if objectSets.any (fun o => o.rev == 0) then ([], false)   -- wait for all revisions to be reported
  else
    let hasCur := match objectSets.getLast? with
      | some m => m.hashMatch
      | none => false
    let p := propagate odPaused objectSets
    if odPaused then (p.1, false)                            -- sub-reconcilers skipped when paused
    else if hasCur then
      let r := reconcile p.2.dropLast p.2.getLast? limit fin
      (p.1 ++ r.1, r.2)
    else
      let r := reconcile p.2 none limit fin
      (p.1 ++ r.1, r.2)

/-- One scenario of the correspondence harness. -/
structure Input where
  /-- `true`: through `objectSetReconciler.Reconcile` (`revs` = API listing in any order);
  `false`: `archiveReconciler.Reconcile` directly (`revs` = `objectSets` slice as passed). -/
  ctrl : Bool
  revs : List Rev
  /-- direct mode: the last element of `revs` is `currentObjectSet` (else it is nil). -/
  hasCur : Bool
  /-- ctrl mode: `spec.paused` of the deployment. -/
  odPaused : Bool
  /-- `spec.revisionHistoryLimit` (nil = none). -/
  limit : Option Int
  /-- ObjectSets carry a finalizer (Delete only marks them) or not (Delete removes them). -/
  fin : Bool

def Input.prev (i : Input) : List Rev := if i.hasCur then i.revs.dropLast else i.revs
def Input.cur (i : Input) : Option Rev := if i.hasCur then i.revs.getLast? else none

def run (i : Input) : List Write × Bool :=
  if i.ctrl then osr i.revs i.odPaused i.limit i.fin
  else reconcile i.prev i.cur i.limit i.fin

end Pko.Model.Archive
