/-
Model of the `include` template function of `transform.SprigFuncs`
(internal/transform/transformfiles_funcs.go) — the only place where package content can make
Package Operator recurse: a template that includes itself, directly or through others.

    includedNames := map[string]int{}
    include(name, data):
        if v, ok := includedNames[name]; ok { if v > recursionDepth { return error }; includedNames[name]++ }
        else { includedNames[name] = 1 }
        err := t.ExecuteTemplate(&buf, name, data)
        includedNames[name]--
        return buf.String(), err

A template body is abstracted to the sequence of things that matter here: text it emits and
includes it performs (conditionals / arguments are resolved: a scenario's body IS the sequence the
execution goes through; what the model must get right is the counter discipline and the order).
An absent map entry and an entry 0 behave alike (`0 > recursionDepth` is false, `= 1` is `0 + 1`),
so the counters are a total function.  Core Lean only.
-/
namespace Pko.Model.Include

inductive Instr where
  | emit                 -- some text
  | incl (n : Nat)       -- {{ include "t<n>" . }}
  deriving DecidableEq, Repr, Inhabited

/-- the templates of the package, by index; an index beyond the list is an unknown template name. -/
abbrev Prog := List (List Instr)

abbrev Counts := Nat → Nat

def bump (c : Counts) (n : Nat) : Counts := fun m => if m = n then c m + 1 else c m
def unbump (c : Counts) (n : Nat) : Counts := fun m => if m = n then c m - 1 else c m

inductive Res where
  | ok (c : Counts) (emitted : Nat)
  | guard                -- ErrExceededIncludeRecursion
  | noTemplate           -- ExecuteTemplate: no such template
  | fuel                 -- (model only) the nesting budget given to the evaluator ran out

/-- one instruction of a body; `inner` executes the body of an included template. -/
def step (p : Prog) (limit : Nat) (inner : Counts → List Instr → Res) : Res → Instr → Res
  | .ok c e, .emit => .ok c (e + 1)
  | .ok c e, .incl n =>
    match p[n]? with
    | none => .noTemplate
    | some b =>
      if c n > limit then .guard
      else
        match inner (bump c n) b with
        | .ok c' e' => .ok (unbump c' n) (e + e')
        | r => r
  | r, _ => r

/-- execute a body with nesting budget `fuel` (structural in `fuel`: every include spends one). -/
def run (p : Prog) (limit : Nat) : Nat → Counts → List Instr → Res
  | 0, c, l => l.foldl (step p limit fun _ _ => .fuel) (.ok c 0)
  | fuel + 1, c, l => l.foldl (step p limit (run p limit fuel)) (.ok c 0)

/-- `recursionDepth` of the Go code. -/
def recursionDepth : Nat := 1000

/-- how deep includes can nest at most from counters `c`, with `N` templates: every include raises one
counter that is at most `limit` before (otherwise the guard fires), so each template contributes at
most `limit + 1 - c n` nested includes … -/
def budget (N limit : Nat) (c : Counts) : Nat :=
  ((List.range N).map fun n => limit + 1 - c n).sum

/-- … hence the budget a whole render needs: `N * (limit + 1)` from fresh counters. -/
def renderBudget (p : Prog) (limit : Nat) : Nat := budget p.length limit (fun _ => 0)

/-- what the harness observes of executing template `t<n>` from fresh counters. -/
def observe (p : Prog) (limit : Nat) (entry : List Instr) : String :=
  match run p limit (renderBudget p limit) (fun _ => 0) entry with
  | .ok _ e => s!"ok {e}"
  | .guard => "err recursion"
  | .noTemplate => "err notemplate"
  | .fuel => "MODEL-OUT-OF-FUEL"

end Pko.Model.Include
