/-
Specification of availability probing, written from the sentence of property C17 — NOT from the
control flow of `pkg/probing`:

  "An object passes an ObjectSet's probes iff every probe whose kind and label selector match it
   passes; objects matched by no probe pass, and all failing probes are reported.  For a selected
   object, a status that declares an observedGeneration (object-wide or per condition) different
   from metadata.generation never passes, fieldsEqual fails on missing fields, CEL rules must be
   boolean, and probing does not change the object."

It shares with the model only the vocabulary for reading an unstructured object
(`nestedField`, `generation`, `getLabels`, `groupKind`, `semEq`, message decorations) and the
syntax validators of the API machinery.  Everything about *composition* (which probes apply,
what passing means, which messages are reported, in which order, which probe lists are rejected)
is defined here declaratively with `all` / `find?` / `filterMap` / `flatMap`.
The last section is the predicate the C17 monitor evaluates on implementation outputs.
-/
import Pko.Model.Probe

namespace Pko.Model.ProbeSpec
open Pko.Model.Probe

/-! ## which objects an ObjectSetProbe selects -/

/-- one `matchExpressions` entry holds for a label set. -/
def exprHolds (ls : List (String × String)) (e : MatchExpr) : Bool :=
  if e.op = "In" then (ls.lookup e.key).any (fun v => e.vals.contains v)
  else if e.op = "NotIn" then (ls.lookup e.key).all (fun v => !e.vals.contains v)
  else if e.op = "Exists" then (ls.lookup e.key).isSome
  else if e.op = "DoesNotExist" then (ls.lookup e.key).isNone
  else false

/-- a label selector matches: every matchLabels pair is present and every expression holds. -/
def labelSelMatches (s : LabelSel) (ls : List (String × String)) : Bool :=
  s.matchLabels.all (fun p => ls.lookup p.1 == some p.2) && s.matchExprs.all (exprHolds ls)

/-- "whose kind and label selector match it". -/
def selects (sp : Spec) (obj : JVal) : Bool :=
  (match sp.kind with
   | none => true
   | some gk => decide (gk = groupKind obj)) &&
  (match sp.selector with
   | none => true
   | some s => labelSelMatches s (getLabels obj))

/-! ## up-to-date status -/

/-- the observedGeneration a JSON object declares (an integer field), if any. -/
def declaredObservedGeneration (o : JVal) (path : List String) : Option Int :=
  match nestedField o path with
  | .found (.int g) => some g
  | _ => none

/-- the status as a whole is outdated: it declares an observedGeneration ≠ metadata.generation. -/
def statusOutdated (obj : JVal) : Bool :=
  match declaredObservedGeneration obj ["status", "observedGeneration"] with
  | some g => g != generation obj
  | none => false

/-! ## when a single probe fails, and with which message -/

def strField (k : String) (kvs : List (String × JVal)) : Option String :=
  match lookupKey k kvs with
  | some (.str s) => some s
  | _ => none

/-- an entry of `.status.conditions` that is a map reporting some *other* condition type. -/
def otherCondition (type : String) : JVal → Bool
  | .obj kvs => strField "type" kvs != some type
  | _ => false

/-- Condition probe: `.status.conditions` must be a list; the first entry that is not
"a map for another type" decides: it must be a map (of the probed type), must not declare a stale
observedGeneration, and must have the probed status. -/
def conditionFailure (type status : String) (obj : JVal) : Option String :=
  (fun o : Option String => o.map (condMsg type status)) <|
  match nestedField obj ["status", "conditions"] with
  | .found (.arr conds) =>
    match conds.find? (fun c => !otherCondition type c) with
    | none => some "not reported"
    | some (.obj kvs) =>
      if (declaredObservedGeneration (.obj kvs) ["observedGeneration"]).any (· != generation obj)
      then some "outdated"
      else if strField "status" kvs == some status then none else some "wrong status"
    | some _ => some "malformed"
  | .found _ => some "malformed"
  | _ => some "missing .status.conditions"

/-- value under a dotted path, if the path can be walked. -/
def fieldAt (obj : JVal) (path : String) : Option JVal :=
  match nestedField obj (splitPath path) with
  | .found v => some v
  | _ => none

/-- FieldsEqual probe: both fields must exist and be semantically equal. -/
def fieldsEqualFailure (a b : String) (obj : JVal) : Option String :=
  (fun o : Option String => o.map (feMsg a b)) <|
  match fieldAt obj a, fieldAt obj b with
  | none, _ => some ("\"" ++ a ++ "\" missing")
  | some _, none => some ("\"" ++ b ++ "\" missing")
  | some va, some vb =>
    if semEq va vb then none else some ("\"" ++ goFmt va ++ "\" != \"" ++ goFmt vb ++ "\"")

/-- CEL probe: the rule must evaluate to `true`. -/
def celFailure (O : Oracle) (rule message : String) (obj : JVal) : Option String :=
  match O.eval rule obj with
  | .val true => none
  | .val false => some message
  | .err e => some ("CEL program failed: " ++ e)

/-- `none` = the probe passes, `some m` = it fails and reports `m`. -/
def leafFailure (O : Oracle) (obj : JVal) : Leaf → Option String
  | .fieldsEqual a b => fieldsEqualFailure a b obj
  | .condition t s => conditionFailure t s obj
  | .cel r m => celFailure O r m obj

/-! ## the probes an ObjectSetProbe configures -/

/-- a probe entry configures at most one check (fieldsEqual, else condition, else cel). -/
def leafOf (c : ProbeCfg) : Option Leaf :=
  match c.fieldsEqual, c.condition, c.cel with
  | some (a, b), _, _ => some (.fieldsEqual a b)
  | none, some (t, s), _ => some (.condition t s)
  | none, none, some (r, m) => some (.cel r m)
  | none, none, none => none

def leafs (sp : Spec) : List Leaf := sp.probes.filterMap leafOf

/-! ## passing, and what is reported -/

/-- a selected object passes one ObjectSetProbe: status not outdated and every probe passes. -/
def PassesAll (O : Oracle) (sp : Spec) (obj : JVal) : Prop :=
  statusOutdated obj = false ∧ ∀ l ∈ leafs sp, leafFailure O obj l = none

/-- **The property's first sentence**: every probe that selects the object passes. -/
def Passes (O : Oracle) (specs : List Spec) (obj : JVal) : Prop :=
  ∀ sp ∈ specs, selects sp obj = true → PassesAll O sp obj

/-- executable version of `PassesAll` / `Passes`. -/
def passesAllB (O : Oracle) (sp : Spec) (obj : JVal) : Bool :=
  !statusOutdated obj && (leafs sp).all (fun l => (leafFailure O obj l).isNone)

def passesB (O : Oracle) (specs : List Spec) (obj : JVal) : Bool :=
  specs.all (fun sp => !selects sp obj || passesAllB O sp obj)

/-- what one ObjectSetProbe reports for an object: nothing if it does not select it; the single
message ".status outdated" if the status is outdated; else the message of every failing probe. -/
def specFailures (O : Oracle) (obj : JVal) (sp : Spec) : List String :=
  if selects sp obj then
    if statusOutdated obj then [".status outdated"]
    else (leafs sp).filterMap (leafFailure O obj)
  else []

/-- "all failing probes are reported": in list order. -/
def failures (O : Oracle) (specs : List Spec) (obj : JVal) : List String :=
  specs.flatMap (specFailures O obj)

/-! ## which probe lists are rejected -/

/-- a LabelSelector is well-formed: known operators, value counts fitting the operator,
syntactically valid keys and values. -/
def exprValid (e : MatchExpr) : Bool :=
  validKey e.key && e.vals.all validValue &&
  ((e.op = "In" || e.op = "NotIn") && !e.vals.isEmpty ||
   (e.op = "Exists" || e.op = "DoesNotExist") && e.vals.isEmpty)

def selectorValid (s : LabelSel) : Bool :=
  s.matchLabels.all (fun p => validKey p.1 && validValue p.2) && s.matchExprs.all exprValid

/-- a CEL probe is rejected unless its rule is a valid *boolean* rule. -/
def celError (O : Oracle) (i : Nat) : Leaf → Option ParseErr
  | .cel r _ =>
    match O.compile r with
    | .ok => none
    | .notBool => some (.celType i)
    | .error => some (.celOther i)
  | _ => none

/-- why ObjectSetProbe number `i` is rejected, if it is: its first CEL rule that is not a valid
boolean rule, else an ill-formed label selector. -/
def specError (O : Oracle) (i : Nat) (sp : Spec) : Option ParseErr :=
  match (leafs sp).findSome? (celError O i) with
  | some e => some e
  | none =>
    match sp.selector with
    | some s => if selectorValid s then none else some (.selector i)
    | none => none

/-- the error of a probe list: that of its first rejected ObjectSetProbe. -/
def firstError (O : Oracle) : Nat → List Spec → Option ParseErr
  | _, [] => none
  | i, sp :: rest => (specError O i sp).orElse fun _ => firstError O (i + 1) rest

/-! ## the monitored predicate -/

/-- What an implementation run produced for one scenario. -/
inductive Out where
  | parseErr (e : ParseErr)
  | result (ok : Bool) (pure : Bool) (msgs : List String)
  | other (text : String)     -- panic, unparsable line
  deriving Inhabited

def errStr : ParseErr → String
  | .celType i => s!"probe#{i}/celtype"
  | .celOther i => s!"probe#{i}/cel"
  | .selector i => s!"selector#{i}"

/-- C17 on one implementation output: rejected iff the spec rejects (in particular non-boolean CEL
rules are rejected as such); otherwise the object is unchanged, the verdict is the conjunction over
the selecting probes and the messages are exactly the failures, in order. -/
def checkOut (O : Oracle) (specs : List Spec) (obj : JVal) : Out → String
  | .other t => s!"bad output {t}"
  | .parseErr e =>
    match firstError O 0 specs with
    | some e' => if e = e' then "ok" else s!"bad parse-error want={errStr e'} got={errStr e}"
    | none => s!"bad parse-rejected valid probes got={errStr e}"
  | .result ok pure msgs =>
    match firstError O 0 specs with
    | some e' => s!"bad parse-accepted invalid probes want={errStr e'}"
    | none =>
      if !pure then "bad purity object changed by probing"
      else if ok != passesB O specs obj then
        s!"bad verdict want={passesB O specs obj} got={ok}"
      -- the property asks that ALL failing probes are reported; the wording of a message is not
      -- part of it (a reworded message only shows up in the model/implementation trace diff)
      else if msgs.length != (failures O specs obj).length then
        s!"bad messages want={failures O specs obj} got={msgs}"
      else "ok"

/-- What the model produces for a scenario. -/
def modelOut (O : Oracle) (specs : List Spec) (obj : JVal) : Out :=
  match parse O specs with
  | .error e => .parseErr e
  | .ok p => .result (p obj).1 true (p obj).2

end Pko.Model.ProbeSpec
