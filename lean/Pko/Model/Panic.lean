/-
Model for property C19 ("no package content or cluster object state can crash PKO").

The PKO functions that destructure untrusted data, each with an explicit three-valued outcome
`ok | err | panic`.  The `panic` constructor is used exactly where the Go code can panic:
single-value type assertion, index / slice expression, explicit `panic(`, nil-map write,
nil-interface call.  A Go site that is protected by a preceding check is STILL written as a
panicking operation here (`idx`, `setNested … []`, `if i < n … else .panic`); that the check makes it
unreachable is what `Pko.Props.C19` proves.

Modelled (Go source → Lean def):
* internal/controllers/phase_reconciler.go `mapConditions`                        → `mapConditions`
* internal/controllers/objecttemplate/template_reconciler.go
    `updateStatusConditionsFromOwnedObject`                                        → `updateStatus`
    `RelaxedJSONPathExpression`                                                    → `relaxedFrom`, `relaxedJSONPath`
    `copySourceItem`                                                               → `copySourceItem`
* internal/packages/internal/packagerender/conditionmap.go `parseConditionMapAnnotation` → `parseCM`
* internal/packages/internal/packagerender/objectsettemplate.go `phaseCollector.AddObjects`/`Collect`
                                                                                   → `addObjects`, `collect`
* internal/packages/internal/packagerender/objects.go `parseObjects` (the condition-map gate added
  by fix C19-c) + `RenderObjectSetTemplateSpec`                                    → `renderGate`, `renderPackage`

* internal/packages/internal/packageimport/oci.go `FromOCI` (read loop over abstract tar events) → `fromOCI`
* internal/packages/internal/packagerender/celctx/cel.go `CelCtx.evaluate` (run-time result-type check +
  `out.Value().(bool)`) → `celEvaluate`; internal/packages/internal/packagerender/objects.go `filterWithCEL`
  for ONE expression at one of the three places package content can carry CEL
  (`package-operator.run/condition`, `spec.filters.conditions[]`, `spec.filters.paths[]`) → `celPlace`;
  the evaluated fragment of CEL (bool literal, field selection, `!`, `?:`) → `celEval`

The model is of the FIXED tree (findings/C19-a, C19-b, C19-c, C19-e applied).  The pre-fix shapes of
the defective spots are kept in the section `Legacy` so that the witnesses stay checkable.

Leaves that are NOT PKO code are modelled by their documented result shape only: encoding/json
(decoding into `[]metav1.Condition`), apimachinery `unstructured.Nested*` / `SetNestedField`,
`regexp.FindStringSubmatch` (arbitrary result in the theorems, the concrete regexp in the driver),
client-go jsonpath (only plain dotted field paths).
Core Lean only.
-/
namespace Pko.Model.Panic

/-- JSON as the Go side holds it after `k8s.io/apimachinery/pkg/util/json.Unmarshal`:
integral numbers are `int64` (`int`), every other number is a `float64` (`frac`). -/
inductive JVal where
  | null
  | bool (b : Bool)
  | int (i : Int)
  | frac
  | str (s : String)
  | arr (xs : List JVal)
  | obj (kvs : List (String × JVal))
  deriving Inhabited

/-- Result of a Go call: returned normally, returned an error, or panicked. -/
inductive Outcome (α : Type) where
  | ok (a : α)
  | err
  | panic
  deriving Repr, DecidableEq

namespace Outcome
def map {α β} (f : α → β) : Outcome α → Outcome β
  | ok a => ok (f a) | err => err | panic => panic
def bind {α β} (x : Outcome α) (f : α → Outcome β) : Outcome β :=
  match x with
  | ok a => f a | err => err | panic => panic
def isPanic {α} : Outcome α → Bool
  | panic => true | _ => false
/-- forget the payload (JSON payloads have no decidable equality) -/
def void {α} (x : Outcome α) : Outcome Unit := x.map (fun _ => ())
end Outcome
open Outcome (ok err panic)

/-- Go `xs[i]`: panics when `i` is out of range. -/
def idx {α} (xs : List α) (i : Nat) : Outcome α :=
  match xs[i]? with
  | some x => .ok x
  | none => .panic

/-- Go map read `m[k]` (never panics, also on a nil map). -/
def lookup {α} (kvs : List (String × α)) (k : String) : Option α :=
  (kvs.find? (fun kv => kv.1 == k)).map (·.2)

/-- Go map write `m[k] = v` on a non-nil map. -/
def insert {α} (kvs : List (String × α)) (k : String) (v : α) : List (String × α) :=
  if kvs.any (fun kv => kv.1 == k) then kvs.map (fun kv => if kv.1 == k then (k, v) else kv)
  else kvs ++ [(k, v)]

/-! ### apimachinery `unstructured.Nested*` (leaf, result shape only) -/

/-- `(val, found, err)` of `unstructured.NestedFieldNoCopy`. -/
inductive Nested (α : Type) where
  | found (v : α)
  | missing
  | err

/-- `unstructured.NestedFieldNoCopy(obj, fields...)`: a `nil` on the way means "not found", a
non-map on the way is an error. -/
def nested : JVal → List String → Nested JVal
  | v, [] => .found v
  | .null, _ :: _ => .missing
  | .obj kvs, f :: fs =>
    match lookup kvs f with
    | none => .missing
    | some v => nested v fs
  | _, _ :: _ => .err

/-- `unstructured.NestedInt64`: found values must be `int64`. -/
def nestedInt64 (o : JVal) (fields : List String) : Nested Int :=
  match nested o fields with
  | .found (.int i) => .found i
  | .found _ => .err
  | .missing => .missing
  | .err => .err

/-- `(*Unstructured).GetGeneration()`: 0 unless `.metadata.generation` is an int64. -/
def getGeneration (o : JVal) : Int :=
  match nestedInt64 o ["metadata", "generation"] with
  | .found i => i
  | _ => 0

/-- `(*Unstructured).GetAnnotations()` = `NestedStringMap(obj,"metadata","annotations")` with every
failure mapped to a nil map. -/
def getAnnotations (o : JVal) : Option (List (String × String)) :=
  match nested o ["metadata", "annotations"] with
  | .found (.obj kvs) => kvs.mapM (fun kv => match kv.2 with | .str s => some (kv.1, s) | _ => none)
  | _ => none

/-- `meta.SetStatusCondition` restricted to (type, status): update in place or append. -/
def setCond (cs : List (String × String)) (t st : String) : List (String × String) :=
  insert cs t st

/-! ### `mapConditions` (internal/controllers/phase_reconciler.go) -/

/-- The part of `metav1.Condition` that `mapConditions` reads. -/
structure Cond where
  type : String := ""
  status : String := ""
  og : Int := 0
  deriving Repr

/-- encoding/json into a `string` field: absent / null keep the zero value, a non-string is an
`UnmarshalTypeError` (`none`). -/
def decStr (kvs : List (String × JVal)) (k : String) : Option String :=
  match lookup kvs k with
  | none => some ""
  | some .null => some ""
  | some (.str s) => some s
  | some _ => none

/-- encoding/json into an `int64` field (the value was re-marshalled from int64 / float64). -/
def decInt (kvs : List (String × JVal)) (k : String) : Option Int :=
  match lookup kvs k with
  | none => some 0
  | some .null => some 0
  | some (.int i) => some i
  | some _ => none

def isDigit (c : Char) : Bool := '0' ≤ c && c ≤ '9'

/-- Conservative recogniser of the RFC 3339 literals the generators use (`YYYY-MM-DDTHH:MM:SSZ`,
digits only checked for shape).  `metav1.Time.UnmarshalJSON` = `time.Parse(time.RFC3339, s)`. -/
def validTime (s : String) : Bool :=
  match s.toList with
  | [y1, y2, y3, y4, '-', m1, m2, '-', d1, d2, 'T', h1, h2, ':', n1, n2, ':', s1, s2, 'Z'] =>
    [y1, y2, y3, y4, m1, m2, d1, d2, h1, h2, n1, n2, s1, s2].all isDigit
  | _ => false

/-- `lastTransitionTime`: null / absent fine, otherwise must be an RFC 3339 string. -/
def decTime (kvs : List (String × JVal)) (k : String) : Bool :=
  match lookup kvs k with
  | none => true
  | some .null => true
  | some (.str s) => validTime s
  | some _ => false

/-- `json.Unmarshal` of one list element into `metav1.Condition`. -/
def decodeCond : JVal → Option Cond
  | .null => some {}
  | .obj kvs =>
    match decStr kvs "type", decStr kvs "status", decStr kvs "reason", decStr kvs "message",
          decInt kvs "observedGeneration", decTime kvs "lastTransitionTime" with
    | some t, some s, some _, some _, some g, true => some { type := t, status := s, og := g }
    | _, _, _, _, _, _ => none
  | _ => none

/-- `json.Unmarshal(j, &objectConditions)` with `objectConditions []metav1.Condition`. -/
def decodeConds : JVal → Option (List Cond)
  | .null => some []
  | .arr xs => xs.mapM decodeCond
  | _ => none

/-- `conditionTypeMap[src]` after the map was filled in order (later mappings overwrite). -/
def lookupLast (maps : List (String × String)) (k : String) : Option String :=
  lookup maps.reverse k

/-- `mapConditions(ctx, owner, conditionMappings, actualObject)`; result = (type, status) of the
owner's conditions afterwards (owner starts without conditions).
There is no assertion, index expression or explicit panic in this function. -/
def mapConditions (maps : List (String × String)) (o : JVal) : Outcome (List (String × String)) :=
  if maps.isEmpty then .ok []
  else
    match nested o ["status", "conditions"] with
    | .err => .err
    | .missing => .ok []
    | .found raw =>
      match decodeConds raw with
      | none => .err
      | some conds =>
        let gen := getGeneration o
        .ok (conds.foldl (fun acc c =>
          if (c.og != (0 : Int)) && (c.og != gen) then acc
          else match lookupLast maps c.type with
            | none => acc
            | some d => setCond acc d c.status) [])

/-! ### `updateStatusConditionsFromOwnedObject` (objecttemplate/template_reconciler.go) -/

/-- `v, ok := x.(string)` -/
def asStr : Option JVal → Option String
  | some (.str s) => some s
  | _ => none

/-- One iteration of the loop over `.status.conditions` (FIXED code: the four assertions are of the
comma-ok form; `type` and `status` are required, `reason` and `message` optional). -/
def updCond (gen : Int) (acc : List (String × String)) : JVal → Outcome (List (String × String))
  | .obj kvs =>
    match nestedInt64 (.obj kvs) ["observedGeneration"] with
    | .err => .err
    | r =>
      let cog : Int := match r with | .found i => i | _ => 0
      if gen != cog then .ok acc
      else match asStr (lookup kvs "type"), asStr (lookup kvs "status") with
        | some t, some s => .ok (setCond acc t s)
        | _, _ => .err
  | _ => .err

def updLoop (gen : Int) : List (String × String) → List JVal → Outcome (List (String × String))
  | acc, [] => .ok acc
  | acc, c :: cs =>
    match updCond gen acc c with
    | .ok acc' => updLoop gen acc' cs
    | .err => .err
    | .panic => .panic

/-- `updateStatusConditionsFromOwnedObject(ctx, objectTemplate, existingObj)`; `tgen` is the
ObjectTemplate's generation. -/
def updateStatus (tgen : Int) (o : JVal) : Outcome (List (String × String)) :=
  match nestedInt64 o ["status", "observedGeneration"] with
  | .err => .err
  | r =>
    let outdated : Bool := match r with | .found g => g != tgen | _ => false
    if outdated then .ok []
    else
      match nested o ["status", "conditions"] with
      | .err => .err
      | .missing => .ok []
      | .found (.arr conds) => updLoop (getGeneration o) [] conds
      | .found _ => .err

/-! ### `RelaxedJSONPathExpression` and `copySourceItem` -/

/-- `RelaxedJSONPathExpression(pathExpression)` given the result `sm` of
`jsonRegexp.FindStringSubmatch(pathExpression)`; returns the field spec (the Go code wraps it in
`{.…}`).  `submatches[1]`, `submatches[2]` are index expressions. -/
def relaxedFrom (key : String) (sm : Option (List String)) : Outcome String :=
  if key.isEmpty then .ok key
  else match sm with
    | none => .err
    | some l =>
      if l.length != 3 then .err
      else (idx l 1).bind fun g1 =>
        if g1.length != 0 then (idx l 1).map (fun f => "{." ++ f ++ "}")
        else (idx l 2).map (fun f => "{." ++ f ++ "}")

def noBrace (cs : List Char) : Bool := cs.all (fun c => c != '{' && c != '}')

/-- group of `\.?([^{}]+)` on a brace-free non-empty text (leftmost-first: the dot is consumed
unless nothing would remain). -/
def dotGroup : List Char → List Char
  | '.' :: c :: cs => c :: cs
  | cs => cs

/-- `jsonRegexp.FindStringSubmatch` for `^\{\.?([^{}]+)\}$|^\.?([^{}]+)$` (used by the driver). -/
def regexSubmatch (s : String) : Option (List String) :=
  let cs := s.toList
  match cs with
  | '{' :: rest =>
    match rest.reverse with
    | '}' :: innerRev =>
      let inner := innerRev.reverse
      if !inner.isEmpty && noBrace inner then some [s, String.ofList (dotGroup inner), ""] else none
    | _ => none
  | _ => if !cs.isEmpty && noBrace cs then some [s, "", String.ofList (dotGroup cs)] else none

def relaxedJSONPath (key : String) : Outcome String := relaxedFrom key (regexSubmatch key)

/-- Go `strings.Split(s, sep)` for a one-character separator: never returns an empty slice. -/
def splitChars (sep : Char) : List Char → List (List Char)
  | [] => [[]]
  | c :: cs =>
    if c = sep then [] :: splitChars sep cs
    else match splitChars sep cs with
      | [] => [[c]]
      | h :: t => (c :: h) :: t

def splitStr (sep : Char) (s : String) : List String := (splitChars sep s.toList).map String.ofList

/-- client-go jsonpath `{.a.b.c}` on unstructured content (`evalField`): every step needs a map
holding the key; `nil`, scalars and slices give "x is not found". -/
def jsonPathGet : JVal → List String → Option JVal
  | v, [] => some v
  | .obj kvs, f :: fs =>
    match lookup kvs f with
    | none => none
    | some v => jsonPathGet v fs
  | _, _ :: _ => none

/-- apimachinery `unstructured.SetNestedField(obj, value, fields...)`.  `fields[:len(fields)-1]`
panics for an empty `fields`. -/
def setNested : List (String × JVal) → JVal → List String → Outcome (List (String × JVal))
  | _, _, [] => .panic
  | m, v, [f] => .ok (insert m f v)
  | m, v, f :: g :: fs =>
    match lookup m f with
    | some (.obj sub) => (setNested sub v (g :: fs)).map (fun s => insert m f (.obj s))
    | some _ => .err
    | none => (setNested [] v (g :: fs)).map (fun s => insert m f (.obj s))

/-- The tail of `copySourceItem` once jsonpath delivered `results` (JSON output enabled: the
buffer holds the JSON array of the results; a one-element array is unwrapped — `vslice[0]`), FIXED
code: `strings.HasPrefix(item.Destination, ".")` instead of `item.Destination[0]`. -/
def copyTail (results : List JVal) (dest : String) (cfg : List (String × JVal)) :
    Outcome (List (String × JVal)) :=
  let value : Outcome JVal := if results.length == 1 then idx results 0 else .ok (.arr results)
  value.bind fun v =>
    match dest.toList with
    | '.' :: trimmed => setNested cfg v ((splitChars '.' trimmed).map String.ofList)
    | _ => .err

/-- `copySourceItem(item, sourceObj, sourcesConfig)` for keys whose field spec is a plain dotted
path `path?` (`none` = jsonpath parse/execute error or empty template ⇒ error return). -/
def copySourceItemWith (relaxed : Outcome String) (found : Option JVal) (dest : String)
    (cfg : List (String × JVal)) : Outcome (List (String × JVal)) :=
  relaxed.bind fun _ =>
    match found with
    | none => .err
    | some v => copyTail [v] dest cfg

/-- segments `[a-z]+` only (what the precise generator emits) -/
def simplePath (spec : String) : Option (List String) :=
  match spec.toList with
  | '{' :: '.' :: rest =>
    match rest.reverse with
    | '}' :: innerRev =>
      let segs := splitChars '.' innerRev.reverse
      if segs.all (fun s => !s.isEmpty && s.all (fun c => 'a' ≤ c && c ≤ 'z')) then some (segs.map String.ofList)
      else none
    | _ => none
  | _ => none

/-- Full `copySourceItem` on the modelled key grammar; `none` when the key is outside it. -/
def copySourceItem (key dest : String) (src : JVal) (cfg : List (String × JVal)) :
    Option (Outcome (List (String × JVal))) :=
  match relaxedJSONPath key with
  | .ok spec =>
    if spec.isEmpty then some .err   -- empty template: nothing printed, json.Unmarshal("") fails
    else (simplePath spec).map fun p => copySourceItemWith (.ok spec) (jsonPathGet src p) dest cfg
  | .err => some .err
  | .panic => some .panic

/-! ### `parseConditionMapAnnotation` -/

structure Mapping where
  src : String
  dst : String
  deriving Repr, DecidableEq

/-- `unicode.IsSpace` on Latin-1 (what `strings.TrimSpace` strips). -/
def isGoSpace (c : Char) : Bool :=
  c == ' ' || c == '\t' || c == '\n' || c == '\r' || c.val == 0x0b || c.val == 0x0c || c.val == 0x85 || c.val == 0xa0

def trimGo (cs : List Char) : List Char :=
  ((cs.dropWhile isGoSpace).reverse.dropWhile isGoSpace).reverse

/-- `strings.SplitN(s, "=>", 2)`: one or two parts. -/
def splitArrow : List Char → List (List Char)
  | [] => [[]]
  | '=' :: '>' :: rest => [[], rest]
  | c :: cs =>
    match splitArrow cs with
    | [a, b] => [c :: a, b]
    | [a] => [c :: a]
    | _ => [[c]]

/-- Loop body of `parseConditionMapAnnotation` given `parts := strings.SplitN(rawMapping,"=>",2)`.
`parts[0]`, `parts[1]` are index expressions. -/
def parseParts (parts : List (List Char)) : Outcome Mapping :=
  if parts.length != 2 then .err
  else (idx parts 0).bind fun p0 =>
    if p0.length == 0 then .err
    else (idx parts 1).bind fun p1 =>
      if p1.length == 0 then .err
      else (idx parts 0).bind fun q0 => (idx parts 1).map fun q1 =>
        { src := String.ofList (trimGo q0), dst := String.ofList (trimGo q1) }

/-- The loop `for i, rawMapping := range inputMappings { … outputMappings[i] = … }` with
`len(outputMappings) = n`. -/
def parseLines (n : Nat) : Nat → List (List Char) → Outcome (List Mapping)
  | _, [] => .ok []
  | i, l :: ls =>
    match parseParts (splitArrow l) with
    | .ok m => if i < n then (parseLines n (i + 1) ls).map (m :: ·) else .panic
    | .err => .err
    | .panic => .panic

/-- `parseConditionMapAnnotation(obj)`; `cm` = value of the annotation
`package-operator.run/condition-map` (`none`: annotation absent or annotations unreadable). -/
def parseCM : Option String → Outcome (List Mapping)
  | none => .ok []
  | some s =>
    let lines := splitChars '\n' (trimGo s.toList)
    parseLines lines.length 0 lines

/-! ### `phaseCollector.AddObjects` / `Collect`, and the render pipeline -/

def phaseKey : String := "package-operator.run/phase"
def cmKey : String := "package-operator.run/condition-map"

/-- what `AddObjects` reads of one package object: `object.GetAnnotations()` -/
abbrev PObj := Option (List (String × String))

def cmOf (o : PObj) : Option String := o.bind (fun a => lookup a cmKey)
def phaseOf (o : PObj) : String := (o.bind (fun a => lookup a phaseKey)).getD ""

/-- `AddObjects`: per object the phase it is filed under and its number of condition mappings.
`if err != nil { panic(err) }` is the explicit panic of objectsettemplate.go. -/
def addObjects : List PObj → Outcome (List (String × Nat))
  | [] => .ok []
  | o :: os =>
    match parseCM (cmOf o) with
    | .err => .panic
    | .panic => .panic
    | .ok ms => (addObjects os).map (fun rest => (phaseOf o, ms.length) :: rest)

/-- phase names as keys of the collector map; a later duplicate overwrites the index. -/
def dedupLast : List String → List String
  | [] => []
  | p :: ps => if ps.contains p then dedupLast ps else p :: dedupLast ps

/-- `Collect()`: non-empty phases in manifest order; objects of unknown phases were dropped. -/
def collect (phases : List String) (filed : List (String × Nat)) : List (String × List Nat) :=
  (dedupLast phases).filterMap fun p =>
    let xs := (filed.filter (fun e => e.1 == p)).map (·.2)
    if xs.isEmpty then none else some (p, xs)

/-- The gate added to `parseObjects` by fix C19-c: every object's condition-map annotation must
parse, otherwise rendering returns a ViolationError. -/
def renderGate : List PObj → Outcome Unit
  | [] => .ok ()
  | o :: os =>
    match parseCM (cmOf o) with
    | .ok _ => renderGate os
    | .err => .err
    | .panic => .panic

/-- `RenderPackageInstance` (objects stage) followed by `RenderObjectSetTemplateSpec`. -/
def renderPackage (phases : List String) (objs : List PObj) : Outcome (List (String × List Nat)) :=
  match renderGate objs with
  | .ok _ => (addObjects objs).map (collect phases)
  | .err => .err
  | .panic => .panic

/-! ### `packageimport.FromOCI` (read loop only) -/

/-- What `tarReader.Next()` followed by the body of the loop can observe for one entry. -/
inductive TarNext where
  | entry (skipped : Bool) (dataOk : Bool)  -- header read; entry skipped (outside package/, dot file) or its data read
  | eof                                      -- `io.EOF`
  | error                                    -- any other error: `hdr == nil`
  deriving Repr, DecidableEq

/-- `FromOCI`'s loop over the extracted image (FIXED code, findings/C19-e: a non-EOF error of
`Next()` returns an error before `hdr` is used).  Result = number of files kept; an exhausted
list stands for `io.EOF`. -/
def fromOCI : List TarNext → Nat → Outcome Nat
  | [], n => if n == 0 then .err else .ok n
  | .eof :: _, n => if n == 0 then .err else .ok n
  | .error :: _, _ => .err
  | .entry true _ :: rest, n => fromOCI rest n
  | .entry false true :: rest, n => fromOCI rest (n + 1)
  | .entry false false :: _, _ => .err

/-! ### CEL conditions (celctx.CelCtx.evaluate, packagerender.filterWithCEL) -/

/-- The fragment of CEL the correspondence run generates: every template-context variable is
declared `map(string, any)`, so a field selection has STATIC type dyn and any RUN-TIME type. -/
inductive CelExpr where
  | lit (b : Bool)
  | get (path : List String)          -- config.a.b
  | not (e : CelExpr)                 -- !(e)
  | tern (c x y : CelExpr)            -- (c ? x : y)
  deriving Repr, Inhabited

/-- Field selection through JSON objects; a missing key or a selection from a non-object is an
evaluation error (`none`). -/
def celGet : JVal → List String → Option JVal
  | v, [] => some v
  | .obj kvs, k :: r =>
    match lookup kvs k with
    | some v => celGet v r
    | none => none
  | _, _ :: _ => none

/-- Evaluation against the context (`none` = CEL evaluation error: no such key, no such overload). -/
def celEval (ctx : JVal) : CelExpr → Option JVal
  | .lit b => some (.bool b)
  | .get p => celGet ctx p
  | .not e =>
    match celEval ctx e with
    | some (.bool b) => some (.bool (!b))
    | _ => none
  | .tern c x y =>
    match celEval ctx c with
    | some (.bool true) => celEval ctx x
    | some (.bool false) => celEval ctx y
    | _ => none

/-- `CelCtx.evaluate` after compilation: `v` = what the program evaluated to.
The assertion `out.Value().(bool)` is written as a panicking operation; the run-time type check
in front of it is what makes it unreachable (`no_panic_celEvaluate`). -/
def celEvaluate (v : Option JVal) : Outcome Bool :=
  match v with
  -- programEval returned an error: ErrProgramEvaluation
  | none => .err
  | some v =>
    -- if !reflect.DeepEqual(out.Type(), cel.BoolType) { return false, ErrInvalidReturnType }
    let isBool := match v with | .bool _ => true | _ => false
    if !isBool then .err
    else
      -- return out.Value().(bool), nil
      match v with
      | .bool b => .ok b
      | _ => .panic

/-- One expression at one place, in a package of two objects in one file (the first one carries
the annotation): number of objects rendered. `ann`: the object is kept iff true; `cond`: the named
condition is evaluated by `celctx.New` and referenced by the annotation; `path`: false excludes the
whole file. -/
def celPlace (place : String) (ctx : JVal) (e : CelExpr) : Outcome Nat :=
  (celEvaluate (celEval ctx e)).map fun b => if b then 2 else if place == "path" then 0 else 1

/-- NOT the code: `CelCtx.evaluate` with the result-type check done on the STATIC output type of
the checked AST instead (`staticOk` = the static type is bool or dyn).  Kept to state why the
run-time check is needed (`Props.C19.static_result_check_insufficient`). -/
def celEvaluateStaticCheck (staticOk : Bool) (v : Option JVal) : Outcome Bool :=
  if !staticOk then .err
  else match v with
    | none => .err
    | some (.bool b) => .ok b
    | some _ => .panic

/-! ### Legacy: the defective spots as they were BEFORE findings/C19-{a,b,c}/fix.diff -/
namespace Legacy

/-- `x.(string)` single-value form -/
def mustStr : Option JVal → Outcome String
  | some (.str s) => .ok s
  | _ => .panic

/-- pre-fix loop body: `condMap["type"].(string)`, `["status"]`, `["reason"]`, `["message"]`. -/
def updCond (gen : Int) (acc : List (String × String)) : JVal → Outcome (List (String × String))
  | .obj kvs =>
    match nestedInt64 (.obj kvs) ["observedGeneration"] with
    | .err => .err
    | r =>
      let cog : Int := match r with | .found i => i | _ => 0
      if gen != cog then .ok acc
      else (mustStr (lookup kvs "type")).bind fun t => (mustStr (lookup kvs "status")).bind fun s =>
        (mustStr (lookup kvs "reason")).bind fun _ => (mustStr (lookup kvs "message")).map fun _ =>
          setCond acc t s
  | _ => .err

/-- pre-fix destination check: `string(item.Destination[0]) != "."`. -/
def copyTail (results : List JVal) (dest : String) (cfg : List (String × JVal)) :
    Outcome (List (String × JVal)) :=
  let value : Outcome JVal := if results.length == 1 then idx results 0 else .ok (.arr results)
  value.bind fun v => (idx dest.toList 0).bind fun c =>
    if c != '.' then .err
    else setNested cfg v ((splitChars '.' (dest.toList.drop 1)).map String.ofList)

/-- pre-fix pipeline: no gate in `parseObjects`. -/
def renderPackage (phases : List String) (objs : List PObj) : Outcome (List (String × List Nat)) :=
  (addObjects objs).map (collect phases)

/-- pre-fix read loop: only `io.EOF` was checked, `hdr.Name` dereferences a nil header. -/
def fromOCI : List TarNext → Nat → Outcome Nat
  | [], n => if n == 0 then .err else .ok n
  | .eof :: _, n => if n == 0 then .err else .ok n
  | .error :: _, _ => .panic
  | .entry true _ :: rest, n => fromOCI rest n
  | .entry false true :: rest, n => fromOCI rest (n + 1)
  | .entry false false :: _, _ => .err

end Legacy

end Pko.Model.Panic
