/-
Specification for property C07, written from the property's sentence over what an observer of the
API sees of ONE step of a history: the ObjectSets before and after (the truth in the store, not
what a controller's cache showed), the ObjectSet create requests issued, the collision counter.
Nothing here refers to the model's control flow (`plan`, `odPass`, `osPass`); only the data types
`OSet`, `Req`, `Op` are shared.  The driver's `monitor` evaluates `stepOK` on every step of an
implementation trace; `Pko.Props.C07.model_satisfies_monitor` proves it holds on every step of
every history of the model.
-/
import Pko.Model.Deployment
namespace Pko.Model.DeploymentSpec
open Pko.Model.Deployment

/-- What is observed after a step. -/
structure Obs where
  res : String            -- result of the controller pass ("ok", "e:…", "-" for environment steps)
  reqs : List Req         -- ObjectSet create requests issued during the step
  cc : Nat                -- status.collisionCount
  th : Option Nat         -- status.templateHash
  sets : List OSet        -- every ObjectSet in the store

/-- What was observed before the step (the part of the previous observation the property needs). -/
structure Before where
  cc : Nat
  sets : List OSet

/-- What the observer knows from the history so far. -/
structure Ctx where
  template : Nat          -- the deployment's template when the step starts
  paused : Bool
  epochCreates : Nat      -- ObjectSets created since the template last changed

/-- The deployment's ObjectSets among `l`. -/
def mems (l : List OSet) : List OSet := l.filter (·.member)

/-- Create requests that took effect (with or without the caller learning of it). -/
def succ (o : Obs) : List Req := o.reqs.filter (fun r => r.outcome == .ok || r.outcome == .lost)

/-- "unique revision numbers". -/
def RevisionsUnique (post : Obs) : Prop :=
  ∀ a ∈ mems post.sets, ∀ b ∈ mems post.sets, a.rev ≠ 0 → a.rev = b.rev → a.serial = b.serial

/-- a reported revision number never changes. -/
def SetOnce (pre : Before) (post : Obs) : Prop :=
  ∀ a ∈ pre.sets, ∀ b ∈ post.sets, a.serial = b.serial → a.rev ≠ 0 → b.rev = a.rev

/-- "whose revision number becomes strictly greater than all of theirs". -/
def NewGreater (pre : Before) (post : Obs) : Prop :=
  ∀ a ∈ pre.sets, ∀ b ∈ post.sets, a.serial = b.serial → a.member = true → a.rev = 0 → b.rev ≠ 0 →
    ∀ m ∈ mems post.sets, m.serial ≠ b.serial → m.rev < b.rev

/-- "none is created while an existing one has not reported its revision or while the template has
no phases" – and only when unpaused and the newest ObjectSet does not match the template. -/
def CreateOnlyWhen (ctx : Ctx) (pre : Before) (post : Obs) : Prop :=
  ∀ r ∈ succ post, ctx.paused = false ∧ ctx.template ≠ 0 ∧ (∀ m ∈ mems pre.sets, m.rev ≠ 0) ∧
    (∀ m ∈ mems pre.sets, (∀ m' ∈ mems pre.sets, m'.rev ≤ m.rev) → m.hash ≠ r.obj.hash)

/-- "whose spec equals the template, whose previous list names every existing ObjectSet of the
deployment" – and the object shows up in the store as requested, not reporting a revision. -/
def CreatedRight (ctx : Ctx) (pre : Before) (post : Obs) : Prop :=
  ∀ r ∈ succ post, r.obj.spec = ctx.template ∧ r.obj.hash = r.obj.name ∧
    (∀ n ∈ r.obj.prev, ∃ m ∈ mems pre.sets, m.name = n) ∧ (∀ m ∈ mems pre.sets, m.name ∈ r.obj.prev) ∧
    r.obj.prev.length = (mems pre.sets).length ∧
    (∃ o ∈ post.sets, o.name = r.obj.name ∧ (∀ p ∈ pre.sets, p.serial ≠ o.serial) ∧ o.spec = r.obj.spec ∧
      o.prev = r.obj.prev ∧ o.rev = 0 ∧ o.member = true ∧ o.owned = true ∧ o.archived = false)

/-- "exactly one new ObjectSet is created" (upper half; `Progress` is the lower half). -/
def OnePerTemplate (ctx : Ctx) (post : Obs) : Prop := ctx.epochCreates + (succ post).length ≤ 1

/-- `conf` is an OLDER revision of the deployment: it reports a revision and another ObjectSet of the
deployment reports a higher one.  A clash with such an ObjectSet is a roll-back to an earlier
template, not the create-not-yet-visible window (the ObjectSet "just created" is never older than
an ObjectSet the deployment already lists). -/
def OlderRevision (pre : Before) (conf : OSet) : Prop :=
  conf.rev ≠ 0 ∧ ∃ m ∈ mems pre.sets, conf.rev < m.rev

/-- "A name clash with an ObjectSet that is archived or has a different spec is never resolved by
reusing it: the collision counter is bumped" – and neither is a clash with an ObjectSet that is
not the newest revision, whatever its spec ("so rolling back to an earlier template yields a new
revision": the ObjectSet of the earlier template may still be live, with an equal spec). -/
def ClashNeverReused (ctx : Ctx) (pre : Before) (post : Obs) : Prop :=
  ∀ r ∈ post.reqs, r.outcome = .exists →
    ∃ conf ∈ pre.sets, conf.name = r.obj.name ∧
      ((conf.archived = true ∨ conf.spec ≠ ctx.template ∨ OlderRevision pre conf) →
        post.res = "ok" → post.cc = pre.cc + 1)

/-- The hash / objectSet / newRevision part of a pass of the ObjectDeployment controller leaves every
existing ObjectSet as it is (nothing is adopted, re-labelled, un-archived or re-specified) and adds
one object per effective create.  (The pass's last sub-reconciler, archiveReconciler – property
C08 – may archive old revisions; the harness reports those writes as separate `arch` steps.) -/
def Untouched (pre : Before) (post : Obs) : Prop :=
  post.sets.take pre.sets.length = pre.sets ∧
  post.sets.length = pre.sets.length + (succ post).length

/-- The collision counter only grows, one at a time. -/
def CounterMonotone (pre : Before) (post : Obs) : Prop := pre.cc ≤ post.cc ∧ post.cc ≤ pre.cc + 1

/-- Lower half of "exactly one": an undisturbed pass (fresh list, no API fault) of an unpaused
deployment with phases, all of whose ObjectSets report a revision and whose newest ObjectSet does
not carry the template hash, issues a create request. -/
def Progress (ctx : Ctx) (pre : Before) (post : Obs) : Prop :=
  ctx.paused = false → ctx.template ≠ 0 → post.res = "ok" → (∀ m ∈ mems pre.sets, m.rev ≠ 0) →
    ∀ tH, post.th = some tH → (∀ m ∈ mems pre.sets, (∀ m' ∈ mems pre.sets, m'.rev ≤ m.rev) → m.hash ≠ tH) →
      post.reqs ≠ []

/-- Environment steps and ObjectSet-controller passes create nothing and leave the counter alone. -/
def Quiet (pre : Before) (post : Obs) : Prop := post.reqs = [] ∧ post.cc = pre.cc

/-- The one way a completed pass may leave a needed ObjectSet uncreated without bumping the counter:
the create clashed with a live ObjectSet of equal spec that carries this deployment's controller
reference but NOT its selector labels, so the deployment never lists it (labels stripped by a third
party; outside the environment assumption "foreign ObjectSets do not carry the deployment's
identity", reported by the check's notes).  The code takes it for its own, slowly cached create. -/
def OwnedUnlabelledClash (ctx : Ctx) (pre : Before) (post : Obs) : Prop :=
  ∃ r ∈ post.reqs, r.outcome = .exists ∧
    ∃ conf ∈ pre.sets, conf.name = r.obj.name ∧ conf.member = false ∧ conf.owned = true ∧
      conf.archived = false ∧ conf.spec = ctx.template

/-- Liveness per pass ("exactly one new ObjectSet is created … the collision counter is bumped and a
fresh ObjectSet is created"): a pass that completes (any cache view) for an unpaused deployment with
phases, all of whose ObjectSets report a revision and whose newest ObjectSet does not carry the
template hash, either creates exactly one ObjectSet (`CreatedRight`: spec = template, previous =
all existing) or bumps the collision counter – it may not do nothing. -/
def PassActs (ctx : Ctx) (pre : Before) (post : Obs) : Prop :=
  ctx.paused = false → ctx.template ≠ 0 → post.res = "ok" → (∀ m ∈ mems pre.sets, m.rev ≠ 0) →
    ∀ tH, post.th = some tH → (∀ m ∈ mems pre.sets, (∀ m' ∈ mems pre.sets, m'.rev ≤ m.rev) → m.hash ≠ tH) →
      (succ post).length = 1 ∨ post.cc = pre.cc + 1 ∨ OwnedUnlabelledClash ctx pre post

instance (post : Obs) : Decidable (RevisionsUnique post) := by unfold RevisionsUnique; infer_instance
instance (pre : Before) (post : Obs) : Decidable (SetOnce pre post) := by unfold SetOnce; infer_instance
instance (pre : Before) (post : Obs) : Decidable (NewGreater pre post) := by unfold NewGreater; infer_instance
instance (ctx : Ctx) (pre : Before) (post : Obs) : Decidable (CreateOnlyWhen ctx pre post) := by
  unfold CreateOnlyWhen; infer_instance
instance (ctx : Ctx) (pre : Before) (post : Obs) : Decidable (CreatedRight ctx pre post) := by
  unfold CreatedRight; infer_instance
instance (ctx : Ctx) (post : Obs) : Decidable (OnePerTemplate ctx post) := by unfold OnePerTemplate; infer_instance
instance (pre : Before) (conf : OSet) : Decidable (OlderRevision pre conf) := by
  unfold OlderRevision; infer_instance
instance (ctx : Ctx) (pre : Before) (post : Obs) : Decidable (ClashNeverReused ctx pre post) := by
  unfold ClashNeverReused; infer_instance
instance (ctx : Ctx) (pre : Before) (post : Obs) : Decidable (OwnedUnlabelledClash ctx pre post) := by
  unfold OwnedUnlabelledClash; infer_instance
instance (pre : Before) (post : Obs) : Decidable (Untouched pre post) := by unfold Untouched; infer_instance
instance (pre : Before) (post : Obs) : Decidable (CounterMonotone pre post) := by unfold CounterMonotone; infer_instance
instance (pre : Before) (post : Obs) : Decidable (Quiet pre post) := by unfold Quiet; infer_instance

/-- `Progress` quantifies over `tH`; it is decided on the one value `post.th` can hold. -/
def progressB (ctx : Ctx) (pre : Before) (post : Obs) : Bool :=
  match post.th with
  | none => true
  | some tH =>
    !(ctx.paused = false ∧ ctx.template ≠ 0 ∧ post.res = "ok" ∧ (∀ m ∈ mems pre.sets, m.rev ≠ 0) ∧
      (∀ m ∈ mems pre.sets, (∀ m' ∈ mems pre.sets, m'.rev ≤ m.rev) → m.hash ≠ tH)) || !post.reqs.isEmpty

/-- `PassActs` quantifies over `tH`; it is decided on the one value `post.th` can hold. -/
def passActsB (ctx : Ctx) (pre : Before) (post : Obs) : Bool :=
  match post.th with
  | none => true
  | some tH =>
    !(ctx.paused = false ∧ ctx.template ≠ 0 ∧ post.res = "ok" ∧ (∀ m ∈ mems pre.sets, m.rev ≠ 0) ∧
      (∀ m ∈ mems pre.sets, (∀ m' ∈ mems pre.sets, m'.rev ≤ m.rev) → m.hash ≠ tH)) ||
    decide ((succ post).length = 1 ∨ post.cc = pre.cc + 1 ∨ OwnedUnlabelledClash ctx pre post)

/-- Is `op` an undisturbed ObjectDeployment pass? -/
def undisturbed : Option Op → Bool
  | some (.od .none .fresh false) => true
  | _ => false

def isOd : Option Op → Bool
  | some (.od _ _ _) => true
  | _ => false

/-- The property on one step: `none` = holds, `some kind` = the clause that fails. -/
def stepOK (ctx : Ctx) (pre : Before) (op : Option Op) (post : Obs) : Option String :=
  if ¬ RevisionsUnique post then some "revision-duplicate"
  else if ¬ SetOnce pre post then some "revision-changed"
  else if ¬ NewGreater pre post then some "revision-not-greater"
  else if ¬ CreateOnlyWhen ctx pre post then some "create-not-allowed"
  else if ¬ CreatedRight ctx pre post then some "created-wrong"
  else if ¬ OnePerTemplate ctx post then some "one-per-template"
  else if ¬ ClashNeverReused ctx pre post then some "clash-not-bumped"
  else if ¬ CounterMonotone pre post then some "counter-not-monotone"
  else if isOd op ∧ ¬ Untouched pre post then some "objectset-modified"
  else if ¬ isOd op ∧ ¬ Quiet pre post then some "create-outside-pass"
  else if undisturbed op ∧ progressB ctx pre post = false then some "no-create"
  else if isOd op ∧ passActsB ctx pre post = false then some "pass-did-nothing"
  else none

end Pko.Model.DeploymentSpec
