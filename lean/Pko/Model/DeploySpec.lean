/-
Specification side of property C16, written from the property's sentence and NOT from the
control flow of `Deploy`:

  "If a package image cannot be pulled or loaded, fails structural or object validation, its
   configuration violates the manifest's schema, or a platform, version or uniqueness constraint
   of the manifest is not met, the ObjectDeployment is not created or changed; pull failures are
   shown as Unpacked=False, load failures and unmet constraints in the Package's Invalid
   condition.  A Package whose spec is unchanged is neither re-pulled nor re-rendered, and a
   changed image, config or component always results in an ObjectDeployment template equal to a
   fresh render of the new spec."

`checkDeploy` / `checkStep` / `checkRun` evaluate that sentence on OBSERVATIONS (what the Go
harness prints about the real code); they return the list of violated clauses.  The drivers'
`monitor` is exactly these functions applied to the parsed implementation trace.
Core Lean only.
-/
import Pko.Model.Deploy
namespace Pko.Model.DeploySpec
open Pko.Model.Deploy

/-- Every platform / version / uniqueness constraint is met. -/
def constraintsMet (L : Leaves) : Bool :=
  L.cons.all (· == .met) && (L.uniq == .absent || L.uniq == .one)

/-- All constraints could be evaluated and at least one is not met. -/
def constraintsUnmet (L : Leaves) : Bool :=
  L.cons.all (· != .err) && L.uniq != .listErr && L.uniq != .zero &&
    (L.cons.any (· == .unmet) || L.uniq == .many)

/-- The package (image × config × component) is valid and admissible in this environment. -/
def admissible (L : Leaves) : Bool :=
  L.load && constraintsMet L && L.cfgJson && L.admission == .ok && L.images && L.render && L.desired

/-- What the harness reports about one `Deploy` call. -/
structure DObs (T : Type) where
  err : Bool
  inv : Inv
  writes : List Write
  od : OD T
  reconciled : Bool
  deriving DecidableEq, Repr

def clause (bad : Bool) (name : String) : List String := if bad then [name] else []

/-- The property's sentence for one `Deploy` call: `t` = fresh render of the spec, `od` = the
ObjectDeployment before the call, `f` = API fault injected into the deployment reconciler. -/
def checkDeploy {T : Type} [DecidableEq T] (t : T) (L : Leaves) (f : RFault) (od : OD T)
    (o : DObs T) : List String :=
  clause (!admissible L && (o.writes != [] || o.od != od || o.reconciled)) "invalid-rolled-out" ++
  clause (!L.load && (o.err || o.inv != .loadError)) "load-failure-not-reported" ++
  clause (L.load && constraintsUnmet L && (o.err || o.inv != .constraintsFailed)) "unmet-constraint-not-reported" ++
  clause (admissible L && f == .none &&
      (o.err || o.od != some (some t) || o.inv != .none || !o.writes.contains .update)) "valid-not-rolled-out" ++
  -- "... always results in an ObjectDeployment template equal to a fresh render of the new spec":
  -- whenever Deploy reports success (nil, so the caller records the spec as rolled out) — under
  -- ANY API fault or interleaving — what is stored is the fresh render, written by an Update
  clause (admissible L && !o.err && (o.od != some (some t) || !o.writes.contains .update))
    "nil-but-template-not-fresh" ++
  -- third-party interleavings are no API errors: below the retry budget Deploy succeeds
  clause (admissible L && f.conflicts < retrySteps && f == .conflict f.conflicts && o.err)
    "conflict-below-budget-not-retried"

/-- Observed annotations and labels of the stored ObjectDeployment. -/
structure MObs where
  ann : KV
  lab : KV
  deriving DecidableEq, Repr

/-- "… and annotations / labels are the merge": when `Deploy` of an admissible package reports
success, the stored ObjectDeployment carries every annotation (`dAnn`, except the derived change
cause) and label (`dLab`) of the desired object, every annotation / label `landed` that third
parties wrote while `Deploy` ran, and every annotation / label it had before (`pre`) under keys
that neither the package nor those third parties wrote. -/
def checkMeta {T : Type} (L : Leaves) (dAnn dLab : KV) (landed : List String) (pre : MObs)
    (o : DObs T) (m : MObs) : List String :=
  let ok := admissible L && !o.err
  clause (ok && dAnn.any (fun kv => kv.1 != "cc" && m.ann.lookup kv.1 != dAnn.lookup kv.1))
    "annotations-not-merged" ++
  clause (ok && dLab.any (fun kv => m.lab.lookup kv.1 != dLab.lookup kv.1)) "labels-not-merged" ++
  clause (ok && landed.any (fun k => m.ann.lookup k != some "x" || m.lab.lookup k != some "x"))
    "third-party-metadata-lost" ++
  clause (ok && (pre.ann.any (fun kv => kv.1 != "cc" && (dAnn.lookup kv.1).isNone && !landed.contains kv.1 &&
                    m.ann.lookup kv.1 != pre.ann.lookup kv.1) ||
                 pre.lab.any (fun kv => (dLab.lookup kv.1).isNone && !landed.contains kv.1 &&
                    m.lab.lookup kv.1 != pre.lab.lookup kv.1)))
    "prior-metadata-lost"

/-- What the harness reports after one reconcile pass (persisted state of the API + calls made). -/
structure PObs (H T : Type) where
  res : Res
  pulls : Nat
  deploys : Nat
  writes : List Write
  od : OD T
  hash : Option H          -- persisted status.unpackedHash
  unpacked : Option Bool   -- persisted Unpacked condition
  invalid : Inv            -- persisted Invalid condition
  deriving DecidableEq, Repr

/-- No fault at all in this pass. -/
def clean (F : Faults) : Bool := F == {}

/-- A fault after the ObjectDeployment has been updated: the status of the pass is lost. -/
def late (F : Faults) : Bool := F.odGet2 || F.status || F.recon == .late

/-- The property's sentence for one pass.  `ph`, `pod` = persisted unpackedHash and
ObjectDeployment before the pass; `strong` = neither this pass nor any earlier one of the history
was hit by a fault that loses a status write after the deployment changed, and this pass is
fault-free. -/
def checkStep {H T : Type} [DecidableEq H] [DecidableEq T] (hash : Spec → H) (render : Spec → T)
    (L : Leaves) (F : Faults) (spec : Spec) (ph : Option H) (pod : OD T) (strong : Bool)
    (o : PObs H T) : List String :=
  let recorded : Bool := ph == some (hash spec)
  clause ((!admissible L || F.pull) && (o.writes != [] || o.od != pod)) "invalid-rolled-out" ++
  clause (F.pull && !recorded && !F.pkgGet && !F.odGet0 && !F.status && o.unpacked != some false)
    "pull-failure-not-shown" ++
  clause (clean F && !recorded && !L.load && o.invalid != .loadError) "load-failure-not-persisted" ++
  clause (clean F && !recorded && L.load && constraintsUnmet L && o.invalid != .constraintsFailed)
    "unmet-constraint-not-persisted" ++
  -- "a Package whose spec is unchanged is neither re-pulled nor re-rendered" also for packages that
  -- turned out invalid: the pass that reports Invalid records the hash, so the next pass is a no-op
  clause (clean F && !recorded && (!L.load || constraintsUnmet L) && o.hash != some (hash spec))
    "invalid-hash-not-recorded" ++
  clause (recorded && (o.pulls != 0 || o.deploys != 0 || o.writes != [] || o.od != pod || o.hash != ph))
    "unchanged-spec-touched" ++
  clause (clean F && !recorded && admissible L &&
      (o.od != some (some (render spec)) || o.hash != some (hash spec) || !o.writes.contains .update))
    "changed-spec-not-fresh" ++
  clause (strong && admissible L && o.od != some (some (render spec))) "stale-template" ++
  -- a pass that records the hash of an admissible spec (so that it is never rendered again) has
  -- left the fresh render in the ObjectDeployment — under ANY fault or interleaving of the pass
  clause (o.hash != ph && admissible L && o.od != some (some (render spec))) "recorded-but-template-not-fresh" ++
  clause (o.hash != ph &&
      (o.hash != some (hash spec) || o.pulls != 1 || F.pkgGet || F.odGet0 || F.pull || F.env || F.odGet2 ||
        F.status))
    "hash-recorded-without-processing"

/-- Monitor state while walking a history. -/
structure MState (H T : Type) where
  spec : Spec
  ph : Option H
  pod : OD T
  lateSeen : Bool
  idx : Nat

/-- Walk a history and its observations (`none` for an edit, `some o` for a pass); result =
violated clauses with the index of the step. Observations that do not line up with the history
are reported as `shape`. -/
def checkRun {H T : Type} [DecidableEq H] [DecidableEq T] (hash : Spec → H) (render : Spec → T)
    (W : Spec → Leaves) : MState H T → List Op → List (Option (PObs H T)) → List (Nat × String)
  | _, [], [] => []
  | m, .edit s :: ops, none :: obs =>
    checkRun hash render W { m with spec := s, idx := m.idx + 1 } ops obs
  | m, .pass F :: ops, some o :: obs =>
    let ls := m.lateSeen || late F
    (checkStep hash render (W m.spec) F m.spec m.ph m.pod (!ls && clean F) o).map (fun c => (m.idx, c)) ++
      checkRun hash render W { m with ph := o.hash, pod := o.od, lateSeen := ls, idx := m.idx + 1 } ops obs
  | m, _, _ => [(m.idx, "shape")]

/-- Observation of a model pass. -/
def obsOf {H T : Type} (r : PassRes H T) : PObs H T :=
  { res := r.res, pulls := r.pulls, deploys := r.deploys, writes := r.writes, od := r.store.od,
    hash := r.store.status.unpackedHash, unpacked := r.store.status.unpacked,
    invalid := r.store.status.invalid }

def dobsOf {T : Type} (d : DRes T) : DObs T :=
  { err := d.err, inv := d.inv, writes := d.writes, od := d.od, reconciled := d.reconciled }

end Pko.Model.DeploySpec
