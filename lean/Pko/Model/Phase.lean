/-
Model of `internal/controllers/phase_reconciler.go` (PhaseReconciler: ReconcilePhase,
TeardownPhase, reconcilePhaseObject, reconcileObject, defaultPatcher, defaultAdoptionChecker,
desiredObject), of `internal/preflight/*` as composed by the controllers, and of the two owner
strategies of boxcutter `ownerhandling` v0.1.0 (native / annotation).  Core Lean only.

One model step = one API call; third-party operations (`EnvOp`) can be scheduled before any
PKO write ("between PKO's read and its write"), see `World`.
-/
import Pko.Kube.Store
import Pko.Model.Status

namespace Pko.Model.Phase
open Pko.Kube Pko.Model.Status

inductive Strategy where
  | native | annotation
  deriving DecidableEq, Repr, Inhabited

/-- The ObjectSet / ObjectSetPhase on whose behalf a phase is reconciled (`PhaseObjectOwner`). -/
structure Owner where
  group : String
  kind : String
  ns : String
  name : String
  uid : String
  rev : Nat
  paused : Bool
  pkgLabel : String      -- the owner's package label, copied onto objects ("" = none)
  deriving DecidableEq, Repr, Inhabited

def Owner.ref (o : Owner) (ctrl : Bool) : ORef := ⟨o.group, o.kind, o.name, o.uid, ctrl⟩

/-- Identity of an owner as the dynamic cache records it (`dynamiccache.OwnerReference`, built by
`Cache.ownerRef`: group/kind, uid, name, namespace). -/
structure WRef where
  group : String
  kind : String
  ns : String
  name : String
  uid : String
  deriving DecidableEq, Repr, Inhabited

def Owner.wref (o : Owner) : WRef := ⟨o.group, o.kind, o.ns, o.name, o.uid⟩

/-- boxcutter `referSameObject`: group, kind, name and uid. -/
def sameObj (a b : ORef) : Bool :=
  a.group == b.group && a.kind == b.kind && a.name == b.name && a.uid == b.uid

/-- controller-runtime `controllerutil.referSameObject`: group, kind, name (uid ignored). -/
def sameObjNoUID (a b : ORef) : Bool :=
  a.group == b.group && a.kind == b.kind && a.name == b.name

def refs (st : Strategy) (o : Obj) : List ORef :=
  match st with | .native => o.owners | .annotation => o.annOwners

def setRefs (st : Strategy) (o : Obj) (rs : List ORef) : Obj :=
  match st with | .native => { o with owners := rs } | .annotation => { o with annOwners := rs }

def isOwner (st : Strategy) (r : ORef) (o : Obj) : Bool := (refs st o).any (sameObj r)
def isController (st : Strategy) (r : ORef) (o : Obj) : Bool :=
  (refs st o).any fun x => sameObj r x && x.ctrl
def hasController (st : Strategy) (o : Obj) : Bool := (refs st o).any (·.ctrl)

def releaseController (st : Strategy) (o : Obj) : Obj :=
  setRefs st o ((refs st o).map fun r => { r with ctrl := false })

/-- replace the first element satisfying `p` or append. -/
def upsert (p : ORef → Bool) (r : ORef) : List ORef → List ORef
  | [] => [r]
  | x :: xs => if p x then r :: xs else x :: upsert p r xs

/-- `SetControllerReference`. `none` = error (AlreadyOwned / namespace validation). -/
def setControllerReference (st : Strategy) (ow : Owner) (objNs : String) (o : Obj) : Option Obj :=
  let r := ow.ref true
  match st with
  | .native =>
    -- validateOwner
    if ow.ns ≠ "" ∧ objNs ≠ ow.ns then none
    else match o.owners.find? (·.ctrl) with
      | some ex => if sameObjNoUID ex r then some { o with owners := upsert (sameObjNoUID · r) r o.owners } else none
      | none => some { o with owners := upsert (sameObjNoUID · r) r o.owners }
  | .annotation =>
    if o.annOwners.any (fun x => !sameObj r x && x.ctrl) then none
    else some { o with annOwners := upsert (sameObj r) r o.annOwners }

/-- boxcutter `remove(s, i)`: overwrite index `i` with the last element and drop the last
(order is not preserved). -/
def swapRemove (l : List ORef) (i : Nat) : List ORef :=
  match l.getLast? with
  | none => []
  | some last => (l.set i last).dropLast

/-- `RemoveOwner`: remove the first reference to the owner, boxcutter style. -/
def removeFirst (p : ORef → Bool) (l : List ORef) : List ORef :=
  match l.findIdx? p with
  | some i => swapRemove l i
  | none => l

/-- A declared previous revision (`PreviousObjectSet`): its identity and its remote phases. -/
structure Prev where
  kind : String              -- "ObjectSet" | "ClusterObjectSet"
  name : String              -- "" when the referenced revision no longer exists
  uid : String
  remotes : List (String × String)   -- (name, uid) of ObjectSetPhases in status.remotePhases
  deriving DecidableEq, Repr, Inhabited

def pkoGroup : String := "package-operator.run"

/-- `isControlledByPreviousRevision`. -/
def controlledByPrevious (st : Strategy) (o : Obj) (prev : List Prev) : Bool :=
  prev.any fun p =>
    isController st ⟨pkoGroup, p.kind, p.name, p.uid, true⟩ o ||
    p.remotes.any fun (rn, ru) =>
      let rk := if p.kind.startsWith "Cluster" then "ClusterObjectSetPhase" else "ObjectSetPhase"
      isController st ⟨pkoGroup, rk, rn, ru, true⟩ o

/-- collisionProtection of a phase object; anything other than the three names behaves like
`Prevent` (the `switch` falls through). -/
inductive CP where
  | prevent | ifNoController | none
  deriving DecidableEq, Repr, Inhabited

inductive CheckRes where
  | adopt              -- needsAdoption = true
  | skip               -- needsAdoption = false, no error
  | errRevision        -- revision annotation does not parse: plain error
  | errNotOwned        -- ObjectNotOwnedByPreviousRevisionError
  | errRevCollision    -- RevisionCollisionError
  deriving DecidableEq, Repr, Inhabited

def revNum : Rev → Nat
  | .num n => n
  | _ => 0

/-- `defaultAdoptionChecker.Check`, branch by branch. `force` = PKO_FORCE_ADOPTION set. -/
def check (st : Strategy) (ow : Owner) (force : Bool) (o : Obj) (prev : List Prev) (cp : CP) : CheckRes :=
  if isController st (ow.ref true) o then .skip
  else if o.rev = .garbage then .errRevision
  else if revNum o.rev > ow.rev then .skip
  else
    let cp := if force || o.pkgLabel == "package-operator" then CP.none else cp
    if cp = .none then .adopt
    else if cp = .ifNoController && !hasController st o then .adopt
    else if !controlledByPrevious st o prev then .errNotOwned
    else if revNum o.rev = ow.rev then .errRevCollision
    else .adopt

/-- What the scripted admission (server-side dry run) says about an object. -/
inductive DryRun where
  | accept
  | reject      -- API status error with one of the reasons preflight.DryRun turns into a violation
  | error       -- any other error: preflight returns it (pass aborted)
  deriving DecidableEq, Repr, Inhabited

/-- One object of a phase as listed in the spec (`ObjectSetObject`). -/
structure PObj where
  kind : String
  ns : String            -- namespace as written in the spec ("" = defaulted to the owner's)
  name : String
  cp : CP
  payload : String
  presetOwnerRef : Bool  -- the spec'd object carries metadata.ownerReferences of its own
  dryRun : DryRun
  deriving DecidableEq, Repr, Inhabited

/-- Which preflight checkers a controller flavour composes (inside `APIExistence`). -/
structure Flavour where
  nsEscalation : Bool
  noOwnerRefs : Bool
  dryRun : Bool
  deriving DecidableEq, Repr, Inhabited

structure Cfg where
  st : Strategy
  flavour : Flavour
  scope : String → Scope        -- REST mapper: kind ↦ scope
  force : Bool                  -- PKO_FORCE_ADOPTION
  -- REST mapper, per pass: kinds whose lookup is answered with an error that is NOT NoMatch
  -- (API discovery degraded).  The scope the API server enforces (`scope`) is unaffected.
  mapErr : String → Bool := fun _ => false

/-- namespace of the desired object after `desiredObject`'s defaulting. -/
def desiredNs (ow : Owner) (p : PObj) : String := if p.ns = "" then ow.ns else p.ns

/-- store key of a phase object (cluster-scoped kinds: the API ignores the namespace). -/
def keyOf (cfg : Cfg) (ow : Owner) (p : PObj) : Key :=
  { kind := p.kind, ns := if cfg.scope p.kind = .cluster then "" else desiredNs ow p, name := p.name }

/-- Result of the composed preflight checker for one object: number of violations or error.
`inPhase`: called through `CheckAllInPhase` (the phase is in the context). -/
inductive PF where
  | ok | violation | error
  deriving DecidableEq, Repr, Inhabited

/-- NoOwnerReferences violated.  (after the C04-a fix) like DryRun it guards writing the
desired state only and skips itself during teardown. -/
def vOwner (cfg : Cfg) (inPhase : Bool) (p : PObj) : Bool := cfg.flavour.noOwnerRefs && inPhase && p.presetOwnerRef

/-- NamespaceEscalation violated.  (after the C11-a fix) the scope is checked also when the
namespace equals the owner's: the API ignores metadata.namespace on cluster-scoped kinds. -/
def vNs (cfg : Cfg) (ow : Owner) (phaseClass : String) (inPhase : Bool) (p : PObj) : Bool :=
  cfg.flavour.nsEscalation &&
  (if ow.ns = "" then false
   else if inPhase && phaseClass ≠ "" then false
   else if desiredNs ow p ≠ "" && desiredNs ow p ≠ ow.ns then true
   else cfg.scope p.kind ≠ .namespaced)

/-- Is the DryRun checker consulted?  (after the C04-a fix) not during teardown — the only
caller without the phase in the context: whether the desired state would still be accepted is
irrelevant for an object that is going to be deleted. -/
def dryActive (cfg : Cfg) (inPhase : Bool) : Bool := cfg.flavour.dryRun && inPhase

def preflightObj (cfg : Cfg) (ow : Owner) (phaseClass : String) (inPhase : Bool) (p : PObj) : PF :=
  -- APIExistence does its RESTMapper lookup FIRST: any error but NoMatch is returned as it is
  -- (`default: return nil, err`) — no sub-checker, NamespaceEscalation included, is consulted
  if cfg.mapErr p.kind then .error
  -- APIExistence: unknown API ⇒ violation, sub-checkers not run
  else if cfg.scope p.kind = .unknown then .violation
  -- preflight.List runs every checker; an error from DryRun aborts
  else if dryActive cfg inPhase && p.dryRun = .error then .error
  else if vOwner cfg inPhase p || vNs cfg ow phaseClass inPhase p || (dryActive cfg inPhase && p.dryRun = .reject) then .violation
  else .ok

/-- `CheckAllInPhase`: `error` if any checker errors before …; the Go loop returns at the first
error, violations are collected otherwise. -/
def preflightPhase (cfg : Cfg) (ow : Owner) (phaseClass : String) (ps : List PObj) : PF :=
  let rs := ps.map (preflightObj cfg ow phaseClass true)
  -- the loop stops at the first error, regardless of earlier violations
  if rs.any (· = .error) then .error
  else if rs.any (· = .violation) then .violation
  else .ok

/-! ### World: store + scheduled third-party operations -/

/-- A non-dry-run write request issued by PKO, as observed at the API. -/
inductive Event where
  | apply (k : Key) (created changed : Bool)
  | merge (k : Key) (changed : Bool) (owners : List ORef) (res : Option ApiErr)
  | delete (k : Key) (preUID preRV : Nat) (res : Option ApiErr)
  deriving Repr, Inhabited

/-- An ObjectSetPhase / ClusterObjectSetPhase API object (a delegated phase). -/
structure OPhase where
  name : String
  uid : String
  gen : Nat
  rv : Nat
  deleting : Bool
  finCached : Bool
  ctrlName : String           -- controlling ObjectSet (ownerReference with controller=true)
  ctrlUID : String
  pkgLabel : String
  paused : Bool               -- spec.paused
  revision : Nat              -- spec.revision
  previous : List String      -- spec.previous
  objs : List PObj            -- spec.objects
  conds : List Cond           -- status.conditions
  controllerOf : List CRef    -- status.controllerOf
  finOrphan : Bool := false   -- (S1B) "orphan" finalizer: the phase object is being deleted with orphan propagation
  deriving DecidableEq, Repr, Inhabited

/-- A write on an ObjectSetPhase object. -/
inductive PhaseEvent where
  | create (name : String) (res : Option ApiErr)
  | pausePatch (name : String) (paused : Bool) (res : Option ApiErr)
  | delete (name : String) (res : Option ApiErr)
  | finalizerPatch (name : String) (add : Bool) (res : Option ApiErr)
  | statusUpdate (name : String) (res : Option ApiErr) (conds : List Cond) (controllerOf : List CRef)
  -- full update (`client.Update`) of the phase object: only issued by the remote-phase teardown when
  -- the ObjectSet's namespace is in deletion (`Pko.Model.RemoteNs`)
  | update (name : String) (res : Option ApiErr)
  deriving Repr, Inhabited

structure World where
  store : Store
  writes : Nat                       -- number of PKO writes issued so far
  env : List (Nat × EnvOp)           -- third-party op scheduled right before PKO write number n
  events : List Event                -- log (newest last)
  -- delegated phases (only touched by the Remote model; invisible to the phase reconciler)
  phases : String → Option OPhase := fun _ => none
  phaseEvents : List PhaseEvent := []
  remoteRefs : List (String × String) := []   -- RemotePhaseReferences collected during a pass
  applied : List (Key × Obj) := []            -- result of every apply, parallel to the apply events
  -- GHOST state for C10 (crash points).  No model function reads these fields except `tick`;
  -- they never influence what a pass does.  `gw` counts the write requests PKO has issued in
  -- this pass; when request number `crashAt` is about to be issued, `snap` keeps the state as it
  -- is at that moment: the state a crash (or a failed / lost call) at that point leaves behind.
  gw : Nat := 0
  crashAt : Option Nat := none
  snap : Option (Store × (String → Option OPhase)) := none
  -- GHOST (sys stream, refused writes): one entry per write request of the pass, in order: how many
  -- writes on managed objects (`writes`) and on phase objects (`phaseEvents`) had been issued
  -- before it.  Never read by the model (only by `Pko.Drv.SysCommon.refusedStep`).
  ticks : List (Nat × Nat) := []
  -- IN-MEMORY state of the operator PROCESS (not a ghost: `World.started` reads it; lost by a
  -- restart): `informerReferences` of `internal/dynamiccache.Cache` as (kind, owner) pairs — an
  -- informer for a kind exists iff some pair names the kind.  Maintained by `World.watch` /
  -- `World.free` / `World.restart` only.
  watched : List (String × WRef) := []
  -- GHOST (C10, taken together with `snap`): the registrations as they are when write request number
  -- `crashAt` is about to be issued — what a process that survives the failed call still holds.
  snapW : Option (List (String × WRef)) := none

/-- GHOST: called once per write request PKO issues, right before it. -/
def World.tick (w : World) : World :=
  { w with gw := w.gw + 1,
           snap := if w.crashAt = some w.gw && w.snap.isNone then some (w.store, w.phases) else w.snap,
           snapW := if w.crashAt = some w.gw && w.snap.isNone then some w.watched else w.snapW,
           ticks := w.ticks ++ [(w.writes, w.phaseEvents.length)] }

/-- Run the third-party operations scheduled before the next PKO write. -/
def World.beforeWrite (w : World) : World :=
  let w := w.tick
  let due := w.env.filter (·.1 = w.writes)
  { w with store := due.foldl (fun s e => s.env e.2) w.store, writes := w.writes + 1 }

def World.log (w : World) (e : Event) : World := { w with events := w.events ++ [e] }

/-- what PKO applies for a phase object. -/
def appliedFor (cfg : Cfg) (ow : Owner) (p : PObj) (owners : List ORef) : Applied :=
  { owners := owners
    annOwners := match cfg.st with | .annotation => some [ow.ref true] | .native => none
    rev := ow.rev, pkgLabel := ow.pkgLabel, payload := p.payload }

def World.apply (w : World) (k : Key) (a : Applied) : World × Obj :=
  let w := w.beforeWrite
  let before := w.store.get k
  let (s, o, created) := w.store.apply k a
  let changed : Bool := match before with | some b => decide (b ≠ o) | none => true
  ({ w with store := s, applied := w.applied ++ [(k, o)] }.log (.apply k created changed), o)

/-- The availability probe used by the harness: Ready=True, and a declared observedGeneration
must equal metadata.generation. -/
def probeOk (o : Obj) : Bool :=
  o.ready && (match o.obsGen with | none => true | some g => g == o.gen)

inductive ObjRes where
  | actual (o : Obj)       -- object to be probed
  | missing                -- NotFound while paused: recorded as probe failure
  | errCollision (rev : Bool)
  | err
  deriving Repr, Inhabited

/-! ### The dynamic cache's per-process registrations (`internal/dynamiccache/cache.go`) -/

/-- `Cache.Watch(owner, obj)`: the informer of the object's kind is created if nobody watches the
kind yet, and the owner is remembered as one of its users (`informerReferences[gvk][ownerRef]`). -/
def World.watch (w : World) (ow : Owner) (kind : String) : World :=
  { w with watched := if w.watched.contains (kind, ow.wref) then w.watched else w.watched ++ [(kind, ow.wref)] }

/-- `Cache.Free(owner)`: every reference of the owner is dropped; a kind without references loses
its informer (`delete(c.informerReferences, gvk)`). -/
def World.free (w : World) (r : WRef) : World :=
  { w with watched := w.watched.filter fun e => e.2 ≠ r }

/-- Operator restart: the dynamic cache lives in the memory of the process. -/
def World.restart (w : World) : World := { w with watched := [] }

/-- `_, ok := c.informerReferences[gvk]` — the condition under which `Cache.Get` / `Cache.List`
do NOT answer `CacheNotStartedError`. -/
def World.started (w : World) (kind : String) : Bool := w.watched.any fun e => e.1 == kind

/-- cache read of a started kind: fresh, but only objects carrying the cache label. -/
def cacheGet (s : Store) (k : Key) : Option Obj :=
  match s.get k with
  | some o => if o.cacheLabel then some o else none
  | none => none

/-- The object `reconcileObject` looks at: cache first, uncached API read second. -/
def seen (w : World) (k : Key) : Option Obj :=
  match cacheGet w.store k with
  | some o => some o
  | none => w.store.get k          -- uncached read

/-- `reconcileObject` after the reads: `none` = the object does not exist. -/
def reconcileObjectWith (cfg : Cfg) (ow : Owner) (prev : List Prev) (p : PObj) (w : World) (k : Key) :
    Option Obj → World × ObjRes
  | none =>
    -- create with the controller reference set on the desired object
    let owners := match cfg.st with | .native => [ow.ref true] | .annotation => []
    let (w, o) := w.apply k (appliedFor cfg ow p owners)
    (w, .actual o)
  | some cur =>
    match check cfg.st ow cfg.force cur prev p.cp with
    | .errRevision => (w, .err)
    | .errNotOwned => (w, .errCollision false)
    | .errRevCollision => (w, .errCollision true)
    | r =>
      let updated? : Option Obj :=
        if r = .adopt then
          -- validateOwner looks at the namespace of the object as read from the API:
          -- "" for cluster-scoped kinds, whatever the spec said
          setControllerReference cfg.st ow k.ns (releaseController cfg.st { cur with rev := .num ow.rev })
        else some cur
      match updated? with
      | none => (w, .err)
      | some updated =>
        if isController cfg.st (ow.ref true) updated then
          -- defaultPatcher: SSA apply of the desired object carrying updated's ownerReferences
          let (w, o) := w.apply k (appliedFor cfg ow p updated.owners)
          (w, .actual o)
        else (w, .actual updated)

/-- `reconcileObject`: `dynamicCache.Get` first — any error but NotFound ends the step, in
particular `CacheNotStartedError` when nobody in this process called `Watch` for the kind. -/
def reconcileObject (cfg : Cfg) (ow : Owner) (prev : List Prev) (p : PObj) (w : World) : World × ObjRes :=
  if w.started p.kind then
    reconcileObjectWith cfg ow prev p w (keyOf cfg ow p) (seen w (keyOf cfg ow p))
  else (w, .err)

/-- the paused branch of `reconcilePhaseObject`: the object is only looked up, through the dynamic
cache ("looking up object while paused").  NotFound is reported as a missing object by the
caller; every other error — `CacheNotStartedError` — ends the step. -/
def pausedLookup (p : PObj) (w : World) (k : Key) : World × ObjRes :=
  if w.started p.kind then
    match cacheGet w.store k with
    | some o => (w, .actual o)
    | none => (w, .missing)
  else (w, .err)

/-- `reconcilePhaseObject`. -/
def reconcilePhaseObject (cfg : Cfg) (ow : Owner) (prev : List Prev) (p : PObj) (w : World) : World × ObjRes :=
  -- SetControllerReference(owner, desiredObj): desired has no references (or preflight stopped us)
  if cfg.st = .native ∧ ow.ns ≠ "" ∧ desiredNs ow p ≠ ow.ns then (w, .err)
  else
    -- "Ensure to watch this type of object." — BEFORE any read through the cache, paused or not
    let w := w.watch ow p.kind
    if ow.paused then pausedLookup p w (keyOf cfg ow p)
    else reconcileObject cfg ow prev p w

inductive Outcome where
  | ok (failed : List String)        -- names of objects failing probes / missing
  | preflight
  | collision (rev : Bool)
  | err
  deriving Repr, Inhabited, DecidableEq

/-- `ReconcilePhase`: preflight everything, then object by object; first error aborts. -/
def reconcilePhase (cfg : Cfg) (ow : Owner) (prev : List Prev) (phaseClass : String)
    (ps : List PObj) (w : World) : World × Outcome :=
  match preflightPhase cfg ow phaseClass ps with
  | .error => (w, .err)
  | .violation => (w, .preflight)
  | .ok =>
    let rec go (ps : List PObj) (w : World) (failed : List String) : World × Outcome :=
      match ps with
      | [] => (w, .ok failed)
      | p :: rest =>
        match reconcilePhaseObject cfg ow prev p w with
        | (w, .actual o) => go rest w (if probeOk o then failed else failed ++ [p.name])
        | (w, .missing) => go rest w (failed ++ [p.name])
        | (w, .errCollision r) => (w, .collision r)
        | (w, .err) => (w, .err)
    go ps w []

/-! ### Teardown -/

inductive TRes where
  | done | notDone | err
  deriving Repr, Inhabited, DecidableEq

/-- `teardownPhaseObject`. -/
def teardownPhaseObject (cfg : Cfg) (ow : Owner) (p : PObj) (w : World) : World × TRes :=
  match preflightObj cfg ow "" false p with
  | .error => (w, .err)
  | .violation => (w, .done)
  | .ok =>
    -- "Ensure to watch this type of object, also during teardown!" (the process may have restarted)
    let w := w.watch ow p.kind
    let k := keyOf cfg ow p
    match w.store.get k with           -- uncached read
    | none => (w, .done)
    | some cur =>
      if !isController cfg.st (ow.ref true) cur then
        if !isOwner cfg.st (ow.ref true) cur then (w, .done)
        else
          -- co-owner: drop our native owner reference and the cache label (merge patch).
          -- RemoveOwner works on a scratch object that only carries the native references:
          -- with the annotation strategy it finds nothing to remove.
          let owners := match cfg.st with
            | .native => removeFirst (sameObj (ow.ref true)) cur.owners
            | .annotation => cur.owners
          let w := w.beforeWrite
          let before := w.store.get k
          let (s, r) := w.store.mergeOwnersPatch k owners
          match r with
          | .ok o => ({ w with store := s }.log (.merge k (decide (before ≠ some o)) owners none), .done)
          | .error e => ({ w with store := s }.log (.merge k false owners (some e)), .err)
      else
        let w := w.beforeWrite
        let (s, r) := w.store.delete k cur.uid cur.rv
        match r with
        | .ok () => ({ w with store := s }.log (.delete k cur.uid cur.rv none), .notDone)
        | .error .notFound => ({ w with store := s }.log (.delete k cur.uid cur.rv (some .notFound)), .done)
        | .error e => ({ w with store := s }.log (.delete k cur.uid cur.rv (some e)), .err)

/-- `TeardownPhase`: every object is processed; done only if all are; first error aborts. -/
def teardownPhase (cfg : Cfg) (ow : Owner) (ps : List PObj) (w : World) : World × TRes :=
  let rec go (ps : List PObj) (w : World) (allDone : Bool) : World × TRes :=
    match ps with
    | [] => (w, if allDone then .done else .notDone)
    | p :: rest =>
      match teardownPhaseObject cfg ow p w with
      | (w, .err) => (w, .err)
      | (w, .done) => go rest w allDone
      | (w, .notDone) => go rest w false
  go ps w true

end Pko.Model.Phase
