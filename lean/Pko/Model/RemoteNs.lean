/-
The remote-phase teardown with the ObjectSet's NAMESPACE as the controller's (cached) client sees
it — `objectSetRemotePhaseReconciler.Teardown`,
`internal/controllers/objectsets/remotephase_reconciler.go`, the block
"If ObjectSet is namespace-scoped check if that namespace is already in the process of being deleted":

* `client.Get` of the Namespace fails (NotFound: the cache does not hold it) ⇒ the error is the
  phase's error: nothing is deleted, the pass ends with it;
* the Namespace is in deletion ⇒ every finalizer is taken off the phase object with a full
  `client.Update` (a phase object in deletion is gone with that); `return err != nil, err`: not done;
* otherwise the plain teardown (`Pko.Model.Remote.remoteTeardown`).

The Namespace is an API object like any other: it lives in the store under `nsKey`, `deleting` =
it carries a deletionTimestamp.  Histories whose namespace is never touched run
`Pko.Model.Remote.remotes` itself (see `remoteTeardownNs_live`).  Core Lean only.
-/
import Pko.Model.Remote

namespace Pko.Model.RemoteNs
open Pko.Kube Pko.Model.Phase Pko.Model.ObjectSet Pko.Model.Remote

def nsKey (ns : String) : Key := ⟨"Namespace", "", ns⟩

/-- the Namespace object of a scenario as the harness creates it (a fixture: no uid / resourceVersion
of the store's counters). -/
def nsObj : Obj :=
  { uid := 0, rv := 0, gen := 1, owners := [], annOwners := [], rev := .absent, cacheLabel := false,
    pkgLabel := "", payload := "", ready := false, obsGen := none, finalizer := false, deleting := false }

/-- does the client see the namespace, and not in deletion? -/
def nsLive (st : Store) (ns : String) : Bool :=
  ns = "" || (match st.get (nsKey ns) with | some n => !n.deleting | none => false)

/-- `objectSetRemotePhaseReconciler.Teardown`. -/
def remoteTeardownNs (o : OSet) (ph : PhaseSpec) (w : World) : World × TRes :=
  let n := phaseName o ph
  match w.phases n with
  | none => (w, .done)
  | some cur =>
    if cur.ctrlName ≠ o.name ∨ cur.ctrlUID ≠ o.uid then (w, .done)
    else if o.ns = "" then remoteTeardown o ph w
    else match w.store.get (nsKey o.ns) with
      | none => (w, .err)
      | some nso =>
        if !nso.deleting then remoteTeardown o ph w
        else
          -- SetFinalizers(nil); client.Update with the resourceVersion just read
          let w := w.tick
          let w := { w with phaseEvents := w.phaseEvents ++ [PhaseEvent.update n none] }
          if cur.deleting then (setPhase w n none, .notDone)
          else if !cur.finCached && !cur.finOrphan then (w, .notDone)      -- nothing to strip: a no-op write
          else
            let (w, rv) := freshRV w
            (setPhase w n (some { cur with finCached := false, finOrphan := false, rv := rv }), .notDone)

def remotesNs : Remotes := { remotes with tear := remoteTeardownNs }

end Pko.Model.RemoteNs
