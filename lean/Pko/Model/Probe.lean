/-
Model of availability probing: `pkg/probing` (probe.go, selectors.go, observedgeneration.go,
condition.go, fieldsequal.go, cel.go) and `internal/probing/parse.go`.  Core Lean only.

Go ↔ model:
* `*unstructured.Unstructured` content (what `json.Unmarshal`/the API machinery produces: nil, bool,
  int64, float64, string, []any, map[string]any) ↦ `JVal`.  A float64 is carried as its Go `%v`
  rendering (injective on the finite non-negative-zero floats the harness generates), so equality
  of floats is equality of the renderings and no float arithmetic is needed.
* `probing.Prober` (an interface with one method `Probe(obj) (bool, []string)`) ↦ `Prober`, a
  function `JVal → Bool × List String`.  The wrappers (`And`, `GroupKindSelector`, `LabelSelector`,
  `ObservedGenerationProbe`) are functions from probers to probers, exactly as the Go structs embed
  a `Prober`.  The object is never written: purity holds by construction here and is checked by
  deep equality on the Go side.
* cel-go is an opaque leaf: `Oracle.compile` says what `NewCELProbe(rule, _)` returns for a rule,
  `Oracle.eval` what `Program.Eval({"self": obj})` yields.  The harness records both from the real
  library for every (rule, object) pair of a scenario.
* the `k8s.io/apimachinery` helpers the probers call (`unstructured.Nested*`, `GetLabels`,
  `GetGeneration`, `GroupVersionKind`, `LabelSelectorAsSelector`, `labels.Requirement.Matches`,
  `equality.Semantic.DeepEqual`, `fmt` `%v`/`%q`) are transcribed in the first sections.
-/
namespace Pko.Model.Probe

/-! ## JSON values and the `unstructured` helpers -/

/-- Content of an unstructured object. -/
inductive JVal where
  | null
  | bool (b : Bool)
  | int (i : Int)            -- int64
  | float (repr : String)    -- float64, by its `%v` rendering
  | str (s : String)
  | arr (xs : List JVal)
  | obj (kvs : List (String × JVal))   -- map[string]any (keys unique)
  deriving Inhabited

/-- `m[field]` on a `map[string]any`. -/
def lookupKey (k : String) : List (String × JVal) → Option JVal
  | [] => none
  | (k', v) :: r => if k' = k then some v else lookupKey k r

/-- Result triple `(val, found, err)` of `unstructured.NestedFieldNoCopy`. -/
inductive Nested where
  | found (v : JVal)   -- found = true,  err = nil
  | notFound           -- found = false, err = nil
  | err                -- found = false, err ≠ nil (a non-map on the way)
  deriving Inhabited

/-- `unstructured.NestedFieldNoCopy(obj, fields...)` (helpers.go:55-72): a `nil` on the way is
"not found" without error, any other non-map is an error; the final value may be anything,
including `nil`. -/
def nestedField : JVal → List String → Nested
  | v, [] => .found v
  | .null, _ :: _ => .notFound
  | .obj kvs, f :: fs =>
    match lookupKey f kvs with
    | none => .notFound
    | some v => nestedField v fs
  | _, _ :: _ => .err

/-- `unstructured.NestedInt64`: `some i` iff `err == nil && found` (the value is an int64);
a value of any other type (float64, string, nil, …) is an *error*, i.e. `none`. -/
def nestedInt64 (o : JVal) (p : List String) : Option Int :=
  match nestedField o p with
  | .found (.int i) => some i
  | _ => none

/-- `getNestedString`: the string or `""` (not found / error / not a string). -/
def nestedString (o : JVal) (p : List String) : String :=
  match nestedField o p with
  | .found (.str s) => s
  | _ => ""

/-- `(*Unstructured).GetGeneration`: `metadata.generation` if it is an int64, else 0. -/
def generation (o : JVal) : Int := (nestedInt64 o ["metadata", "generation"]).getD 0

/-- Inner loop of `NestedStringMap`: fails as a whole on the first non-string value. -/
def stringMap : List (String × JVal) → Option (List (String × String))
  | [] => some []
  | (k, .str s) :: r => (stringMap r).map ((k, s) :: ·)
  | _ :: _ => none

/-- `(*Unstructured).GetLabels`: `NestedStringMap(metadata.labels)` with the error dropped, so a
missing / `null` / non-map `labels` and a map holding any non-string value all give no labels. -/
def getLabels (o : JVal) : List (String × String) :=
  match nestedField o ["metadata", "labels"] with
  | .found (.obj kvs) => (stringMap kvs).getD []
  | _ => []

/-- Generic `strings.Split(s, sep)` for a one-character separator (never returns `[]`). -/
def splitOnChar (sep : Char) : List Char → List (List Char)
  | [] => [[]]
  | c :: cs =>
    if c = sep then [] :: splitOnChar sep cs
    else match splitOnChar sep cs with
      | [] => [[c]]
      | h :: t => (c :: h) :: t

/-- Group part of `schema.ParseGroupVersion(apiVersion)`; `none` = error (more than one `/`). -/
def parseGroup (apiVersion : String) : Option String :=
  let cs := apiVersion.toList
  if cs = [] ∨ cs = ['/'] then some ""
  else match splitOnChar '/' cs with
    | [_] => some ""
    | [g, _] => some (String.ofList g)
    | _ => none

/-- `obj.GetObjectKind().GroupVersionKind().GroupKind()` for an unstructured object
(unstructured.go:430-437): an unparsable apiVersion yields the *empty* GroupVersionKind. -/
def groupKind (o : JVal) : String × String :=
  match parseGroup (nestedString o ["apiVersion"]) with
  | none => ("", "")
  | some g => (g, nestedString o ["kind"])

/-! ## `fmt` and `equality.Semantic.DeepEqual` on JSON values -/

def insertKV (p : String × String) : List (String × String) → List (String × String)
  | [] => [p]
  | q :: r => if p.1 < q.1 then p :: q :: r else q :: insertKV p r

/-- `fmt` prints maps with sorted keys (internal/fmtsort). -/
def sortKVs : List (String × String) → List (String × String)
  | [] => []
  | p :: r => insertKV p (sortKVs r)

mutual
/-- `fmt.Sprintf("%v", v)` for a JSON value. -/
def goFmt : JVal → String
  | .null => "<nil>"
  | .bool b => if b then "true" else "false"
  | .int i => toString i
  | .float r => r
  | .str s => s
  | .arr xs => "[" ++ " ".intercalate (goFmtArr xs) ++ "]"
  | .obj kvs => "map[" ++ " ".intercalate ((sortKVs (goFmtKVs kvs)).map fun p => p.1 ++ ":" ++ p.2) ++ "]"
def goFmtArr : List JVal → List String
  | [] => []
  | x :: xs => goFmt x :: goFmtArr xs
def goFmtKVs : List (String × JVal) → List (String × String)
  | [] => []
  | (k, v) :: r => (k, goFmt v) :: goFmtKVs r
end

mutual
/-- `equality.Semantic.DeepEqual(a, b)` on JSON values (third_party/forked/golang/reflect
deep_equal.go): different dynamic types are unequal (int64 1 ≠ float64 1), `nil` only equals
`nil`, slices element-wise, maps: same length and every key of the left one is in the right one
with an equal value. (None of the registered semantic funcs applies to these types; nil-vs-empty
does not arise because decoded JSON has no nil slices/maps.) -/
def semEq : JVal → JVal → Bool
  | .null, .null => true
  | .bool a, .bool b => a == b
  | .int a, .int b => a == b
  | .float a, .float b => a == b
  | .str a, .str b => a == b
  | .arr xs, .arr ys => semEqArr xs ys
  | .obj xs, .obj ys => xs.length == ys.length && semEqKVs xs ys
  | _, _ => false
def semEqArr : List JVal → List JVal → Bool
  | [], [] => true
  | x :: xs, y :: ys => semEq x y && semEqArr xs ys
  | _, _ => false
def semEqKVs : List (String × JVal) → List (String × JVal) → Bool
  | [], _ => true
  | (k, v) :: r, ys =>
    (match lookupKey k ys with
     | some w => semEq v w
     | none => false) && semEqKVs r ys
end

def hexDigit (n : Nat) : Char := (Nat.toDigits 16 n).getD 0 '0'

/-- `strconv.Quote` (what `%q` prints) for strings of printable characters: `"` and `\` are
escaped, ASCII control characters use the Go escapes; other characters are copied (assumed
printable — the harness only generates such). -/
def goQuote (s : String) : String :=
  let esc (c : Char) : List Char :=
    if c = '"' then ['\\', '"'] else if c = '\\' then ['\\', '\\']
    else if c = '\n' then ['\\', 'n'] else if c = '\t' then ['\\', 't'] else if c = '\r' then ['\\', 'r']
    else if c.toNat = 7 then ['\\', 'a'] else if c.toNat = 8 then ['\\', 'b']
    else if c.toNat = 12 then ['\\', 'f'] else if c.toNat = 11 then ['\\', 'v']
    else if c.toNat < 32 ∨ c.toNat = 127 then ['\\', 'x', hexDigit (c.toNat / 16), hexDigit (c.toNat % 16)]
    else [c]
  String.ofList (['"'] ++ s.toList.flatMap esc ++ ['"'])

/-! ## Label selectors (`metav1.LabelSelectorAsSelector`, `labels.Requirement`) -/

/-- `metav1.LabelSelectorRequirement` as written in the ObjectSet (operator is free text). -/
structure MatchExpr where
  key : String
  op : String
  vals : List String
  deriving Inhabited

/-- `metav1.LabelSelector`. `matchLabels` is a Go map: its iteration order is irrelevant for the
result (all requirements must hold / any invalid one is an error). -/
structure LabelSel where
  matchLabels : List (String × String)
  matchExprs : List MatchExpr
  deriving Inhabited

inductive SelOp where
  | in | notIn | exists | doesNotExist
  deriving DecidableEq, Inhabited

/-- `labels.Requirement` (`Equals` from matchLabels behaves exactly like `In` with one value). -/
structure Req where
  key : String
  op : SelOp
  vals : List String
  deriving Inhabited

def isAlnum (c : Char) : Bool := c.isAlphanum
def isLowerAlnum (c : Char) : Bool := c.isLower || c.isDigit

/-- `^([A-Za-z0-9][-A-Za-z0-9_.]*)?[A-Za-z0-9]$` (validation.qualifiedNameFmt). -/
def matchQName : List Char → Bool
  | [] => false
  | [c] => isAlnum c
  | c :: rest =>
    isAlnum c && rest.all (fun d => isAlnum d || d = '-' || d = '_' || d = '.') &&
      (match rest.getLast? with | some l => isAlnum l | none => false)

/-- `^[a-z0-9]([-a-z0-9]*[a-z0-9])?$` (validation.dns1123LabelFmt). -/
def matchDNSLabel : List Char → Bool
  | [] => false
  | [c] => isLowerAlnum c
  | c :: rest =>
    isLowerAlnum c && rest.all (fun d => isLowerAlnum d || d = '-') &&
      (match rest.getLast? with | some l => isLowerAlnum l | none => false)

/-- `len(validation.IsDNS1123Subdomain(s)) == 0`. -/
def validDNSSubdomain (cs : List Char) : Bool :=
  cs.length ≤ 253 && (splitOnChar '.' cs).all matchDNSLabel

/-- `len(validation.IsQualifiedName(key)) == 0` (labels.validateLabelKey). -/
def validKey (key : String) : Bool :=
  match splitOnChar '/' key.toList with
  | [name] => name.length ≤ 63 && matchQName name
  | [pfx, name] => pfx ≠ [] && validDNSSubdomain pfx && name.length ≤ 63 && matchQName name
  | _ => false

/-- `len(validation.IsValidLabelValue(v)) == 0` (labels.validateLabelValue). -/
def validValue (v : String) : Bool :=
  let cs := v.toList
  cs.length ≤ 63 && (cs = [] || matchQName cs)

/-- the per-operator value-count rule of `labels.NewRequirement` (selector.go:182-206). -/
def valueCountOk : SelOp → List String → Bool
  | .in, vals => vals.length ≠ 0
  | .notIn, vals => vals.length ≠ 0
  | .exists, vals => vals.length = 0
  | .doesNotExist, vals => vals.length = 0

/-- `labels.NewRequirement(key, op, vals)`; `none` = error. -/
def newRequirement (key : String) (op : SelOp) (vals : List String) : Option Req :=
  if validKey key && valueCountOk op vals && vals.all validValue then some ⟨key, op, vals⟩ else none

def parseOp : String → Option SelOp
  | "In" => some .in
  | "NotIn" => some .notIn
  | "Exists" => some .exists
  | "DoesNotExist" => some .doesNotExist
  | _ => none

/-- first loop of `LabelSelectorAsSelector`: `NewRequirement(k, Equals, [v])`. -/
def matchLabelsReqs : List (String × String) → Option (List Req)
  | [] => some []
  | (k, v) :: r =>
    -- Equals needs exactly one value, which holds by construction
    if validKey k && validValue v then (matchLabelsReqs r).map (⟨k, .in, [v]⟩ :: ·) else none

/-- second loop of `LabelSelectorAsSelector`. -/
def matchExprsReqs : List MatchExpr → Option (List Req)
  | [] => some []
  | e :: r =>
    match parseOp e.op with
    | none => none     -- "... is not a valid label selector operator"
    | some op =>
      match newRequirement e.key op e.vals with
      | none => none
      | some q => (matchExprsReqs r).map (q :: ·)

/-- `metav1.LabelSelectorAsSelector(ps)` for `ps != nil`; `some []` is `labels.Everything()`. -/
def labelSelectorAsSelector (s : LabelSel) : Option (List Req) :=
  if s.matchLabels.length + s.matchExprs.length = 0 then some []
  else
    match matchLabelsReqs s.matchLabels with
    | none => none
    | some a =>
      match matchExprsReqs s.matchExprs with
      | none => none
      | some b => some (a ++ b)

/-- `labels.Set.Has` / `Get`. -/
def labelsGet (k : String) : List (String × String) → Option String
  | [] => none
  | (k', v) :: r => if k' = k then some v else labelsGet k r

/-- `Requirement.hasValue`. -/
def hasValue (v : String) : List String → Bool
  | [] => false
  | x :: xs => if x = v then true else hasValue v xs

/-- `Requirement.Matches` (labels/selector.go:236-280), the four operators a LabelSelector can hold. -/
def Req.matches (r : Req) (ls : List (String × String)) : Bool :=
  match r.op with
  | .in => match labelsGet r.key ls with
    | none => false
    | some v => hasValue v r.vals
  | .notIn => match labelsGet r.key ls with
    | none => true
    | some v => !hasValue v r.vals
  | .exists => (labelsGet r.key ls).isSome
  | .doesNotExist => !(labelsGet r.key ls).isSome

/-- `internalSelector.Matches`: all requirements. -/
def selectorMatches : List Req → List (String × String) → Bool
  | [], _ => true
  | r :: rs, ls => if !r.matches ls then false else selectorMatches rs ls

/-! ## pkg/probing -/

abbrev Result := Bool × List String
/-- `probing.Prober`. -/
abbrev Prober := JVal → Result

/-- Loop of `And.Probe` (probe.go:24-29): messages of failing probers are appended. -/
def andLoop : List Prober → JVal → List String → List String
  | [], _, acc => acc
  | p :: ps, obj, acc =>
    let r := p obj
    if !r.1 then andLoop ps obj (acc ++ r.2) else andLoop ps obj acc

/-- `And.Probe` (probe.go:23-34): fails iff some message was collected. -/
def andProbe (ps : List Prober) : Prober := fun obj =>
  let allMsgs := andLoop ps obj []
  if allMsgs.length > 0 then (false, allMsgs) else (true, [])

/-- `probeUnstructuredSingleMsg` (probe.go:44-54). -/
def singleMsg (r : Bool × String) : Result :=
  if r.1 then (true, []) else (false, [r.2])

/-- `GroupKindSelector.Probe` (selectors.go:19-28): non-matching objects pass. -/
def groupKindSelector (p : Prober) (group kind : String) : Prober := fun obj =>
  if (group, kind) = groupKind obj then p obj else (true, [])

/-- `LabelSelector.Probe` (selectors.go:41-49): non-matching objects pass. -/
def labelSelector (p : Prober) (reqs : List Req) : Prober := fun obj =>
  if !selectorMatches reqs (getLabels obj) then (true, []) else p obj

/-- `ObservedGenerationProbe.Probe` (observedgeneration.go:18-26). -/
def observedGenerationProbe (p : Prober) : Prober := fun obj =>
  match nestedInt64 obj ["status", "observedGeneration"] with
  | some og => if og ≠ generation obj then (false, [".status outdated"]) else p obj
  | none => p obj

/-- `cond[k] == v` / `cond[k] != v` in condition.go compare an `any` with a string: a missing key
(nil) or a value of another type is different from every string. -/
def fieldIsStr (k v : String) (cond : List (String × JVal)) : Bool :=
  match lookupKey k cond with
  | some (.str t) => t == v
  | _ => false

/-- condition.go:49-53: `NestedInt64(cond, "observedGeneration")` gives err == nil && ok and the
value differs from the object's generation. -/
def condStale (cond : List (String × JVal)) (gen : Int) : Bool :=
  match nestedInt64 (.obj cond) ["observedGeneration"] with
  | some og => og ≠ gen
  | none => false

/-- Loop body of `ConditionProbe.probe` (condition.go:40-63). -/
def condLoop (type status : String) (gen : Int) : List JVal → Bool × String
  | [] => (false, "not reported")
  | .obj cond :: rest =>
    if !fieldIsStr "type" type cond then condLoop type status gen rest   -- not the type we probe for
    else if condStale cond gen then (false, "outdated")
    else if fieldIsStr "status" status cond then (true, "")
    else (false, "wrong status")
  | _ :: _ => (false, "malformed")   -- "no idea what this is supposed to be"

/-- the deferred message decoration of `ConditionProbe.probe` (condition.go:23-29). -/
def condMsg (type status msg : String) : String :=
  "condition " ++ goQuote type ++ " == " ++ goQuote status ++ ": " ++ msg

/-- `ConditionProbe.probe` (condition.go:22-64). -/
def conditionProbeRaw (type status : String) (obj : JVal) : Bool × String :=
  let r : Bool × String :=
    match nestedField obj ["status", "conditions"] with
    | .err => (false, "missing .status.conditions")
    | .notFound => (false, "missing .status.conditions")
    | .found (.arr conds) => condLoop type status (generation obj) conds
    | .found _ => (false, "malformed")
  if r.1 then r else (false, condMsg type status r.2)

/-- `strings.Split(strings.Trim(path, "."), ".")` (fieldsequal.go:25-26). -/
def splitPath (path : String) : List String :=
  let trimmed := ((path.toList.dropWhile (· = '.')).reverse.dropWhile (· = '.')).reverse
  (splitOnChar '.' trimmed).map String.ofList

/-- the deferred message decoration of `FieldsEqualProbe.probe` (fieldsequal.go:28-34). -/
def feMsg (a b msg : String) : String :=
  "\"" ++ a ++ "\" == \"" ++ b ++ "\": " ++ msg

/-- `FieldsEqualProbe.probe` (fieldsequal.go:24-50); `NestedFieldCopy` = `NestedFieldNoCopy` + copy. -/
def fieldsEqualRaw (a b : String) (obj : JVal) : Bool × String :=
  let r : Bool × String :=
    match nestedField obj (splitPath a) with
    | .found va =>
      match nestedField obj (splitPath b) with
      | .found vb =>
        if !semEq va vb then (false, "\"" ++ goFmt va ++ "\" != \"" ++ goFmt vb ++ "\"")
        else (true, "")
      | _ => (false, "\"" ++ b ++ "\" missing")
    | _ => (false, "\"" ++ a ++ "\" missing")
  if r.1 then r else (false, feMsg a b r.2)

/-- What `NewCELProbe(rule, _)` returns. -/
inductive CelCompile where
  | ok        -- a program
  | notBool   -- `ErrCELInvalidEvaluationType` (output type is not bool)
  | error     -- env / compile / program error
  deriving DecidableEq, Inhabited

/-- What `Program.Eval({"self": obj})` returns for a rule that compiled to a bool program. -/
inductive CelRes where
  | val (b : Bool)
  | err (msg : String)
  deriving Inhabited

/-- cel-go as a parameter. -/
structure Oracle where
  compile : String → CelCompile
  eval : String → JVal → CelRes

/-- `CELProbe.probe` (cel.go:68-77). -/
def celRaw (O : Oracle) (rule message : String) (obj : JVal) : Bool × String :=
  match O.eval rule obj with
  | .err e => (false, "CEL program failed: " ++ e)
  | .val b => (b, message)

/-- The three leaf prober structs (`FieldsEqualProbe`, `ConditionProbe`, `CELProbe`) as data. -/
inductive Leaf where
  | fieldsEqual (a b : String)
  | condition (type status : String)
  | cel (rule message : String)
  deriving Inhabited

/-- Their `Probe` methods. -/
def leafProbe (O : Oracle) : Leaf → Prober
  | .fieldsEqual a b => fun obj => singleMsg (fieldsEqualRaw a b obj)
  | .condition t s => fun obj => singleMsg (conditionProbeRaw t s obj)
  | .cel r m => fun obj => singleMsg (celRaw O r m obj)

/-! ## internal/probing/parse.go -/

/-- `corev1alpha1.Probe`: three optional configs. -/
structure ProbeCfg where
  condition : Option (String × String)    -- type, status
  fieldsEqual : Option (String × String)  -- fieldA, fieldB
  cel : Option (String × String)          -- rule, message
  deriving Inhabited

/-- `corev1alpha1.ObjectSetProbe` (with its `ProbeSelector` inlined). -/
structure Spec where
  probes : List ProbeCfg
  kind : Option (String × String)   -- group, kind
  selector : Option LabelSel
  deriving Inhabited

inductive ParseErr where
  | celType (i : Nat)    -- "parsing probe #i": ErrCELInvalidEvaluationType
  | celOther (i : Nat)   -- "parsing probe #i": any other NewCELProbe error
  | selector (i : Nat)   -- "parsing selector of probe #i"
  deriving DecidableEq, Inhabited

/-- Loop of `ParseProbes` (parse.go:66-103): the `switch` gives FieldsEqual precedence over
Condition over CEL; a probe with no known config is skipped; the first CEL compile error aborts. -/
def parseProbesLoop (O : Oracle) : List ProbeCfg → Except CelCompile (List Leaf)
  | [] => .ok []
  | c :: cs =>
    match c.fieldsEqual with
    | some (a, b) => (parseProbesLoop O cs).map (Leaf.fieldsEqual a b :: ·)
    | none =>
      match c.condition with
      | some (t, s) => (parseProbesLoop O cs).map (Leaf.condition t s :: ·)
      | none =>
        match c.cel with
        | some (rule, msg) =>
          match O.compile rule with
          | .ok => (parseProbesLoop O cs).map (Leaf.cel rule msg :: ·)
          | e => .error e
        | none => parseProbesLoop O cs

/-- `ParseProbes` (parse.go:64-106): the list is always wrapped in the observedGeneration guard. -/
def parseProbes (O : Oracle) (cfgs : List ProbeCfg) : Except CelCompile Prober :=
  (parseProbesLoop O cfgs).map fun leafs =>
    observedGenerationProbe (andProbe (leafs.map (leafProbe O)))

/-- `ParseSelector` (parse.go:38-61): kind selector inside, label selector outside. -/
def parseSelector (kind : Option (String × String)) (selector : Option LabelSel) (p : Prober) :
    Option Prober :=
  let p := match kind with
    | some (g, k) => groupKindSelector p g k
    | none => p
  match selector with
  | some ls =>
    match labelSelectorAsSelector ls with
    | none => none
    | some reqs => some (labelSelector p reqs)
  | none => some p

/-- Loop body of `Parse` (parse.go:20-31) for element number `i`: probes first, then selector. -/
def parseOne (O : Oracle) (i : Nat) (sp : Spec) : Except ParseErr Prober :=
  match parseProbes O sp.probes with
  | .error .notBool => .error (.celType i)
  | .error _ => .error (.celOther i)
  | .ok p =>
    match parseSelector sp.kind sp.selector p with
    | none => .error (.selector i)
    | some p' => .ok p'

/-- Loop of `Parse` (parse.go:18-32), `i` = index of the head; the first error aborts. -/
def parseLoop (O : Oracle) : Nat → List Spec → Except ParseErr (List Prober)
  | _, [] => .ok []
  | i, sp :: rest =>
    match parseOne O i sp with
    | .error e => .error e
    | .ok p => (parseLoop O (i + 1) rest).map (p :: ·)

/-- `Parse` (parse.go:16-34). -/
def parse (O : Oracle) (specs : List Spec) : Except ParseErr Prober :=
  (parseLoop O 0 specs).map andProbe

end Pko.Model.Probe
