/-
Finer-grained model of `internal/packages/internal/packageimport/request_manager.go`: the
statements of `handleResponse` are separate steps and `inFlightLock` is explicit, so that the
window *inside* the broadcast (after the lock was taken, between two sends, before the entry is
deleted) is a state of the machine.  Core Lean only.

```
func (r *RequestManager) handleResponse(image string, res response) {
    r.inFlightLock.Lock()                        -- lockResp   (the range expression
    defer r.inFlightLock.Unlock()                               r.inFlight[image] is evaluated once)
    for _, recv := range r.inFlight[image] {     -- sendOne    (one iteration: DeepCopy + send)
        ...
    }
    delete(r.inFlight, image)                    -- unlockResp (delete, then the deferred Unlock)
}
func (r *RequestManager) handleRequest(...) {
    r.inFlightLock.Lock()                        -- request    (blocks while the lock is held;
    defer r.inFlightLock.Unlock()                               the whole body is one step)
    ...
}
```

That both methods take the lock as their first statement, release it only by the deferred
`Unlock` and touch `r.inFlight` nowhere else is read off the source on every run
(`Pko.Gen.ReqMgrLocks`, compared with the expectation in `Pko.Props.C20.locks_cover_bodies`).

`Pko.Props.C20` shows that this machine linearises to the lock-atomic one (`ReqMgr`): a request
attempted while a broadcast holds the lock does not happen, and finishing the broadcast in
progress (`settled`) always yields a state of the atomic machine.
-/
import Pko.Model.ReqMgr
namespace Pko.Model.ReqMgrFine
open Pko.Model.ReqMgr

/-- A `handleResponse` call that holds `inFlightLock` and is inside its loop. -/
structure Broadcast where
  img : Image
  res : Result
  /-- receivers of the entry the loop has not sent to yet -/
  todo : List Recv
  deriving Repr

structure FState where
  base : State
  /-- `some b`: `inFlightLock` is held by the `handleResponse` call `b` -/
  bc : Option Broadcast

inductive FOp where
  /-- the whole of `handleRequest` (needs the lock) -/
  | request (c : Caller) (img : Image)
  /-- `handleResponse(img, res)`: `Lock()`, evaluate `r.inFlight[image]` -/
  | lockResp (img : Image) (res : Result)
  /-- one iteration of the loop -/
  | sendOne
  /-- `delete(r.inFlight, image)` and the deferred `Unlock()` -/
  | unlockResp
  deriving Repr

def finit : FState := { base := init, bc := none }

/-- one loop iteration: `recv <- response{DeepCopy or nil, err}` -/
def sendTo (b : State) (r : Recv) (res : Result) : State :=
  { b with delivered := deliver b.delivered [(r, { res := res, copy := copyOf res b.nextTok })]
           nextTok := bump res b.nextTok }

/-- `delete(r.inFlight, image)`; the goroutine ends after the deferred unlock -/
def release (b : State) (img : Image) : State :=
  { b with inFlight := fun i => if i = img then none else b.inFlight i
           running := fun i => if i = img then b.running i - 1 else b.running i }

/-- One step; a step that cannot be taken (lock held by somebody else, no pull goroutine, loop
finished / not finished) leaves the state unchanged - the goroutine stays where it is. -/
def fstep (s : FState) : FOp → FState
  | .request c img =>
    match s.bc with
    | none => { s with base := request s.base c img }
    | some _ => s
  | .lockResp img res =>
    match s.bc with
    | none =>
      if 0 < s.base.running img then
        { s with bc := some { img := img, res := res, todo := (s.base.inFlight img).getD [] } }
      else s
    | some _ => s
  | .sendOne =>
    match s.bc with
    | some ⟨img, res, r :: rest⟩ => { base := sendTo s.base r res, bc := some ⟨img, res, rest⟩ }
    | _ => s
  | .unlockResp =>
    match s.bc with
    | some ⟨img, _, []⟩ => { base := release s.base img, bc := none }
    | _ => s

/-- what a step puts on receiver channels -/
def fout (s : FState) : FOp → List (Recv × Response)
  | .sendOne =>
    match s.bc with
    | some ⟨_, res, r :: _⟩ => [(r, { res := res, copy := copyOf res s.base.nextTok })]
    | _ => []
  | _ => []

/-- run a list of steps, collecting what is sent -/
def frunOut (s : FState) : List FOp → List (Recv × Response) × FState
  | [] => ([], s)
  | op :: ops =>
    let r := frunOut (fstep s op) ops
    (fout s op ++ r.1, r.2)

def frun (s : FState) (ops : List FOp) : FState := (frunOut s ops).2

/-- `k` loop iterations (fewer if the loop ends earlier) -/
def sendN (k : Nat) (s : FState) : List (Recv × Response) × FState :=
  frunOut s (List.replicate k .sendOne)

/-- The rest of a broadcast: remaining sends, delete, goroutine ends. -/
def finish (b : State) (img : Image) (res : Result) (todo : List Recv) : State :=
  { b with delivered := deliver b.delivered (sends res todo b.nextTok)
           inFlight := fun i => if i = img then none else b.inFlight i
           running := fun i => if i = img then b.running i - 1 else b.running i
           nextTok := sendsEnd res todo b.nextTok }

/-- The state once the broadcast in progress (if any) has run to its end. -/
def settled (s : FState) : State :=
  match s.bc with
  | none => s.base
  | some b => finish s.base b.img b.res b.todo

/-- The steps of the lock-atomic machine a fine step amounts to (its linearisation point:
a request when it gets the lock, a broadcast when `handleResponse` gets the lock). -/
def lin (s : FState) : FOp → List Op
  | .request c img => if s.bc.isNone then [.request c img] else []
  | .lockResp img res => if s.bc.isNone then [.complete img res] else []
  | .sendOne => []
  | .unlockResp => []

def linRun (s : FState) : List FOp → List Op
  | [] => []
  | op :: ops => lin s op ++ linRun (fstep s op) ops

/-- pull functions still executing for image `i`, as the harness counts them (the pull of a
broadcast in progress has returned) -/
def pulling (s : FState) (i : Image) : Nat :=
  match s.bc with
  | none => s.base.running i
  | some b => if i = b.img then s.base.running i - 1 else s.base.running i

end Pko.Model.ReqMgrFine
