/-
Composition of the ObjectDeployment level with the ObjectSet level (property C08, part (b)):
one pass of the ObjectDeployment controller on the ObjectSets of the whole-system state `Sys`.

Nothing of the ObjectDeployment controller is re-modelled here.  The pass is the EXISTING model
`Pko.Model.Archive.osr` (objectset_reconciler.go + archive_reconciler.go), fed with revision records
built from the ObjectSets as they are in the API — exactly the fields the adapters read:

* `status.revision`, `spec.lifecycleState`, the paused-by-parent annotation (`OSet.pbp`);
* `IsAvailable()` / `IsStatusPaused()`: condition `Available` / `Paused` has status `True`
  (`observedGeneration` is not consulted);
* `status.controllerOf` (`nil` when empty: the list is `omitempty`, an empty report reads back as
  "not reported"), `getObjects()` = the objects inline in `spec.phases[*].objects`, namespace
  defaulted to the ObjectSet's namespace — compared by `UniqueIdentifier()` = group/kind/namespace/name;
* the template-hash annotation equals `status.templateHash` of the ObjectDeployment: the ObjectSet's
  template is the ObjectDeployment's template (`Sys.od.template`; the harness stamps every ObjectSet
  with the hash the real hashing code computes for its own template).

The writes of the pass (`client.Update` of an ObjectSet read in this pass's listing: no conflict) are
then applied to the stored ObjectSets like any other spec edit of a third party: resourceVersion is
bumped, generation as well when `spec.lifecycleState` changes.  Core Lean only.
-/
import Pko.Model.ObjectSet
import Pko.Model.Archive

namespace Pko.Model.Handover
open Pko.Kube Pko.Model.Phase Pko.Model.Status Pko.Model.ObjectSet

/-- `UniqueIdentifier()` of the objects inline in the phases (`objectIdentifiers`: objects without
namespace default to the ObjectSet's namespace — also those of cluster-scoped kinds). -/
def specIds (o : OSet) : List String :=
  (o.phases.flatMap (·.objs)).map fun p => s!"{p.kind}/{if p.ns = "" then o.ns else p.ns}/{p.name}"

/-- `UniqueIdentifier()` of the entries of `status.controllerOf`. -/
def reportedIds (o : OSet) : List String := o.controllerOf.map fun c => s!"{c.kind}/{c.ns}/{c.name}"

def lcOf : ObjectSet.Lifecycle → Archive.Lifecycle
  | .active => .active
  | .paused => .paused
  | .archived => .archived

/-- the ObjectSets of the ObjectDeployment as `client.List` returns them (`names`: the listing order),
each with its position in `names` as identity. -/
def listing (names : List String) (s : Sys) : List (Nat × OSet) :=
  names.zipIdx.filterMap fun (n, i) => (s.sets n).map fun o => (i, o)

/-- every object identifier that occurs in the listing (keys of `Archive.Rev` are positions in it). -/
def idUniverse (l : List (Nat × OSet)) : List String :=
  (l.flatMap fun x => specIds x.2 ++ reportedIds x.2).eraseDups

/-- What the ObjectDeployment controller reads of one ObjectSet. -/
def revOf (univ : List String) (tmpl : List PhaseSpec) (i : Nat) (o : OSet) : Archive.Rev :=
  { id := i
    rev := (o.revision : Int)
    available := condTrue o.conds "Available"
    statusPaused := condTrue o.conds "Paused"
    lc := lcOf o.lifecycle
    pbp := o.pbp
    controllerOf := if o.controllerOf.isEmpty then none else some ((reportedIds o).map univ.idxOf)
    objects := (specIds o).map univ.idxOf
    hashMatch := decide (o.phases = tmpl)
    terminating := o.deleting }

def revsOf (names : List String) (s : Sys) : List Archive.Rev :=
  let l := listing names s
  l.map fun x => revOf (idUniverse l) s.od.template x.1 x.2

/-- the stored ObjectSet after `client.Update` with the object the pass holds in memory. -/
def writeTo (w : Archive.Write) (c : OSet) : OSet :=
  match w with
  | .pause _ => { c with lifecycle := .paused }
  | .ppause _ => { c with lifecycle := .paused, pbp := true }
  | .activate _ => { c with lifecycle := .active, pbp := false }
  | .archive _ => { c with lifecycle := .archived }
  | .delete _ => c

/-- apply one write of the pass to the API state. -/
def applyWrite (names : List String) (s : Sys) (w : Archive.Write) : Sys :=
  match names[w.id]? with
  | none => s
  | some n =>
    match w with
    | .delete _ => s.applySetEnv (.delete n false)
    | _ =>
      match s.sets n with
      | none => s
      | some c => s.thirdPartyStore c (writeTo w c) (decide ((writeTo w c).lifecycle ≠ c.lifecycle))

/-- One pass of the ObjectDeployment controller (revisionHistoryLimit unset): the new state, the
ordered writes, and whether the pass returned an error. -/
def odPass (names : List String) (s : Sys) : Sys × List Archive.Write × Bool :=
  let r := Archive.osr (revsOf names s) s.od.paused none true
  (r.1.foldl (applyWrite names) s, r.1, r.2)

end Pko.Model.Handover
