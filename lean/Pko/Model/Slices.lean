/-
Model of an ObjectSet controller pass for an ObjectSet whose phases reference ObjectSlices:
* `internal/controllers/objectsets/objectsliceload_reconciler.go`
    `objectSliceLoadReconciler.Reconcile`                      ↦ `loadPhase`, `loadPhases`
* `internal/controllers/objectsets/objectset_controller.go`
    `sliceLoadingTeardownHandler.Teardown` (load, then the wrapped teardown; a load error aborts
    the teardown; skipped for an ObjectSet carrying the `orphan` finalizer; only reached while the
    cached finalizer is present)                               ↦ the tearing arm of `reconcileSliced`
    `GenericObjectSetController.Reconcile` with the reconciler chain
    revision → slice load → phases                             ↦ the active arm of `reconcileSliced`
Everything else (finalizer, revision, phases, teardown, status) is `Pko.Model.ObjectSet`, applied to
the in-memory ObjectSet with the slice objects inlined; what is PERSISTED keeps the stored spec
(finalizer patches and status updates never write spec.phases).
Not modelled: the ownerReference Update of a slice that does not list the ObjectSet as owner yet
(property C14 covers it; the generated histories start from rolled-out ObjectSets whose slices
are owned).  Core Lean only.
-/
import Pko.Model.ObjectSet

namespace Pko.Model.Slices
open Pko.Kube Pko.Model.Phase Pko.Model.ObjectSet Pko.Model.Status

/-- inner loop of `objectSliceLoadReconciler.Reconcile` for one phase: Get every referenced slice
in order (`none` = the Get failed: NotFound), append its objects to the phase. -/
def loadPhase (slices : List (String × List PObj)) (ph : PhaseSpec) : List String → Option PhaseSpec
  | [] => some ph
  | n :: rest =>
    match slices.lookup n with
    | none => none
    | some objs => loadPhase slices { ph with objs := ph.objs ++ objs } rest

/-- `objectSliceLoadReconciler.Reconcile`: phases in order; `refs` = `phase.Slices` per phase. -/
def loadPhases (slices : List (String × List PObj)) : List PhaseSpec → List (List String) → Option (List PhaseSpec)
  | [], _ => some []
  | ph :: phs, refs =>
    match loadPhase slices ph (refs.headD []) with
    | none => none
    | some ph' =>
      match loadPhases slices phs refs.tail with
      | none => none
      | some rest => some (ph' :: rest)

/-- `GenericObjectSetController.Reconcile` for the ObjectSet called `name` whose phases reference
the ObjectSlices `refs` (per phase, in order). -/
def reconcileSliced (cfg : Cfg) (rm : Remotes) (refs : List (List String)) (name : String) (s : Sys) : Sys × Res :=
  match s.sets name with
  | none => (s, .ok)
  | some mem =>
    if condTrue mem.conds "Archived" then (s, .ok)
    else if mem.deleting || mem.lifecycle = .archived then
      -- handleDeletionAndArchival: Teardown only with the cached finalizer;
      -- sliceLoadingTeardownHandler: no load for an orphaned ObjectSet, a load error aborts
      if mem.finCached && !mem.finOrphan then
        match loadPhases s.slices mem.phases refs with
        | none => (s, .err)
        | some phs => deletionOrArchival cfg rm s { mem with phases := phs }
      else deletionOrArchival cfg rm s mem
    else
      match s.setFinalizer mem true with
      | (s, .error _) => (s, .err)
      | (s, .ok mem) =>
        match revisionStep s mem with
        | (s, .error .requeue) => finish s mem .requeue
        | (s, .error _) => (s, .err)
        | (s, .ok mem) =>
          -- a load error is returned unchanged by UpdateObjectSetOrPhaseStatusFromError: no status update
          match loadPhases s.slices mem.phases refs with
          | none => (s, .err)
          | some phs => activePhases cfg rm s { mem with phases := phs }

end Pko.Model.Slices
