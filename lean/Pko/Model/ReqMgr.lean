/-
Model of `internal/packages/internal/packageimport/request_manager.go`
(`RequestManager.handleRequest` / `handleResponse`, and the receive in `Pull`) as a lock-atomic
state machine.  Core Lean only.

Go ↔ model:
* `inFlight map[string][]chan<- response`   ↦ `inFlight : Image → Option (List Recv)`
  (`none` = key absent: `handleRequest` tests key *presence*, so presence is modelled).
* `recv := make(chan response, 1)`          ↦ a fresh receiver identity `nextRecv` (channels made by
  `make` are pairwise distinct); everything ever sent on it is kept in `delivered recv`, so that
  "a second send would block / a caller got two answers" is expressible (`delivered` is a history,
  the theorem `each_receiver_at_most_one_response` shows the buffer of 1 is never exceeded).
* the goroutine `go func(){ pullImage(..); handleResponse(..) }()` ↦ `running img` = goroutines
  started by `handleRequest` for `img` whose `handleResponse` has not run yet.  The pull itself
  happens outside the lock, between a `request` step and the `complete` step that ends it.
* `res.RawPackage.DeepCopy()`               ↦ a fresh object identity (token) `nextTok` per copy, so
  aliasing between the packages handed to different callers is expressible.
* `handleRequest` and `handleResponse` hold `inFlightLock` for their whole body, so one call = one
  step.  `complete img res` can only happen when a pull goroutine for `img` exists
  (`enabled`: `0 < running img`); a disabled step leaves the state unchanged.
* `started` and `callerOf` are history (ghost) variables used to observe the machine: pulls started
  so far per image, and which caller (`Pull` invocation) owns a receiver.
-/
namespace Pko.Model.ReqMgr

abbrev Image := Nat
abbrev Caller := Nat
/-- identity of a receiver channel created by `handleRequest` -/
abbrev Recv := Nat
/-- identity of a `*RawPackage` object in memory -/
abbrev Tok := Nat

/-- What the pull function returned: a package (abstract content) or an error. -/
inductive Result where
  | pkg (content : Nat)
  | err (e : Nat)
  deriving DecidableEq, Repr, Inhabited

/-- One value sent on a receiver channel: `response{RawPackage, Err}`.
`copy` is the identity of the `*RawPackage` in the response (`none` = nil, error case). -/
structure Response where
  res : Result
  copy : Option Tok
  deriving DecidableEq, Repr, Inhabited

inductive Op where
  /-- the whole of `handleRequest(ctx, img)` called from `Pull` by caller `c` -/
  | request (c : Caller) (img : Image)
  /-- the pull for `img` returned `res`; the whole of `handleResponse(img, res)` -/
  | complete (img : Image) (res : Result)
  deriving DecidableEq, Repr, Inhabited

structure State where
  inFlight : Image → Option (List Recv)
  running : Image → Nat
  started : Image → Nat
  delivered : Recv → List Response
  callerOf : Recv → Caller
  nextRecv : Recv
  nextTok : Tok

def init : State :=
  { inFlight := fun _ => none, running := fun _ => 0, started := fun _ => 0,
    delivered := fun _ => [], callerOf := fun _ => 0, nextRecv := 0, nextTok := 0 }

/-- `handleRequest`, under the lock:
```
if _, inFlight := r.inFlight[image]; !inFlight { go func(){ pull; handleResponse }() }
recv := make(chan response, 1)
r.inFlight[image] = append(r.inFlight[image], recv)
return recv
``` -/
def request (s : State) (c : Caller) (img : Image) : State :=
  let fresh : Bool := (s.inFlight img).isNone
  let r := s.nextRecv
  { s with
    running := fun i => if i = img then (if fresh then s.running i + 1 else s.running i) else s.running i
    started := fun i => if i = img then (if fresh then s.started i + 1 else s.started i) else s.started i
    inFlight := fun i => if i = img then some ((s.inFlight img).getD [] ++ [r]) else s.inFlight i
    callerOf := fun x => if x = r then c else s.callerOf x
    nextRecv := r + 1 }

/-- The pointer put into one response: `nil` for an error, a fresh deep copy otherwise. -/
def copyOf : Result → Tok → Option Tok
  | .pkg _, t => some t
  | .err _, _ => none

/-- Allocation counter after one loop iteration. -/
def bump : Result → Tok → Tok
  | .pkg _, t => t + 1
  | .err _, t => t

/-- The sends of the loop in `handleResponse`:
```
for _, recv := range r.inFlight[image] {
    var rawPkg *RawPackage
    if res.RawPackage != nil { rawPkg = res.RawPackage.DeepCopy() }
    recv <- response{RawPackage: rawPkg, Err: res.Err}
}
``` -/
def sends (res : Result) : List Recv → Tok → List (Recv × Response)
  | [], _ => []
  | r :: rs, t => (r, { res := res, copy := copyOf res t }) :: sends res rs (bump res t)

/-- Allocation counter after the whole loop. -/
def sendsEnd (res : Result) : List Recv → Tok → Tok
  | [], t => t
  | _ :: rs, t => sendsEnd res rs (bump res t)

/-- Channel histories after the sends `out`. -/
def deliver (d : Recv → List Response) (out : List (Recv × Response)) : Recv → List Response :=
  fun r => d r ++ (out.filter (fun p => p.1 = r)).map (·.2)

/-- What `handleResponse(img, res)` sends, in the state `s`. -/
def completeOut (s : State) (img : Image) (res : Result) : List (Recv × Response) :=
  sends res ((s.inFlight img).getD []) s.nextTok

/-- `handleResponse`, under the lock: broadcast, then `delete(r.inFlight, image)`; afterwards the
goroutine ends. -/
def complete (s : State) (img : Image) (res : Result) : State :=
  { s with
    delivered := deliver s.delivered (completeOut s img res)
    inFlight := fun i => if i = img then none else s.inFlight i
    running := fun i => if i = img then s.running i - 1 else s.running i
    nextTok := sendsEnd res ((s.inFlight img).getD []) s.nextTok }

/-- A request can always happen; `handleResponse(img, _)` is only ever called by a pull goroutine
started for `img`. -/
def enabled (s : State) : Op → Bool
  | .request _ _ => true
  | .complete img _ => decide (0 < s.running img)

def apply (s : State) : Op → State
  | .request c img => request s c img
  | .complete img res => complete s img res

/-- One step; a disabled operation does not happen (state unchanged). -/
def step (s : State) (op : Op) : State := if enabled s op then apply s op else s

def run (s : State) (ops : List Op) : State := ops.foldl step s

/-- Number of responses in `l` whose package pointer is shared with another response of `l`
(what the harness measures by mutating each returned `Files` map and looking at the others). -/
def aliasCount (l : List Response) : Nat :=
  (l.filter fun a => match a.copy with
    | some t => decide (1 < (l.filter fun b => b.copy = some t).length)
    | none => false).length

/-- Observation of one step, as the correspondence harness sees it. -/
structure Obs where
  happened : Bool                      -- the step was enabled
  started : List Nat                   -- pull-function invocations so far, per image `< n`
  inflight : List Nat                  -- pull goroutines alive, per image `< n`
  returned : List (Caller × Result)    -- `Pull` calls that returned in this step, with what
  aliased : Nat                        -- returned packages sharing memory with another one
  deriving DecidableEq, Repr

def obsStep (n : Nat) (s : State) (op : Op) : Obs :=
  let s' := step s op
  let out : List (Recv × Response) := match op with
    | .request _ _ => []
    | .complete img res => if enabled s op then completeOut s img res else []
  { happened := enabled s op
    started := (List.range n).map s'.started
    inflight := (List.range n).map s'.running
    returned := out.map fun p => (s.callerOf p.1, p.2.res)
    aliased := aliasCount (out.map (·.2)) }

end Pko.Model.ReqMgr
