/-
C14: histories.  The scenario language of the "deploy" stream (chunk a phase, reconcile a desired template,
environment creates / deletes ObjectSets), the model's run over it, and the specification's run over the
observations (what `Pko.Drv.C14.monitor` evaluates on implementation traces).  Core Lean only.
-/
import Pko.Model.Chunk
import Pko.Model.ChunkSpec
namespace Pko.Model.ChunkRun
open Pko.Model.Chunk Pko.Model.ChunkSpec

inductive Op where
  | chunk (phases : List (List Obj))    -- call the chunker on each phase (no API involved)
  | deploy (phases : List (List Obj))   -- `DeploymentReconciler.Reconcile` with these desired phases
  | deployF (f : DFault) (phases : List (List Obj))   -- the same, hit by the API fault `f`
  | snap                                -- environment: new ObjectSet revision from the current template
  | delos (i : Nat)                     -- environment: the i-th ObjectSet is gone from the API
  | life (i : Nat) (l : Life)           -- environment: `.spec.lifecycleState` of the i-th ObjectSet is set
  | markdel (i : Nat)                   -- environment: the i-th ObjectSet gets a deletionTimestamp, still exists
  deriving Repr

inductive Obs (Name : Type) where
  | chunk (outs : List ChunkObs)
  | deploy (o : DeployObs Name)
  | env                                 -- snap / delos: nothing of the code under test to observe
  | stuck                               -- model only: the collision loop ran out of fuel

section
variable {Name : Type} [DecidableEq Name]

/-- The model's step. -/
def modelStep (limit : Nat) (strat : Strategy) (hash : List Obj → Nat → Name) (w : World Name) :
    Op → World Name × Obs Name
  | .chunk phases => (w, .chunk (phases.map fun p => observeChunk (chunk limit strat p)))
  | .deploy desired =>
    match reconcile limit strat hash w desired with
    | none => (w, .stuck)
    | some (w', ok, del) => (w', .deploy { ok, tmpl := w'.deploy, deleted := del, store := w'.slices })
  | .deployF f desired =>
    match reconcileF limit strat hash f w desired with
    | none => (w, .stuck)
    | some (w', ok, del) => (w', .deploy { ok, tmpl := w'.deploy, deleted := del, store := w'.slices })
  | .snap => (snap w, .env)
  | .delos i => (delos w i, .env)
  | .life i l => (setLife w i l, .env)
  | .markdel i => (markDeleting w i, .env)

def modelRun (limit : Nat) (strat : Strategy) (hash : List Obj → Nat → Name) :
    World Name → List Op → List (Obs Name)
  | _, [] => []
  | w, op :: ops =>
    let (w', ob) := modelStep limit strat hash w op
    ob :: modelRun limit strat hash w' ops

def stateOf (w : World Name) : SpecState Name := { tmpl := w.deploy, store := w.slices, objectSets := w.objectSets }

/-- The specification's step: judge one observation and track what is observable of the API. -/
def specStep (isHashOf : Name → List Obj → Bool) (limit : Nat) (strat : Strategy) (s : SpecState Name) :
    Op → Obs Name → SpecState Name × Bool
  | .chunk phases, .chunk outs =>
    (s, phases.length == outs.length && (phases.zip outs).all fun po => chunkOk limit strat po.1 po.2)
  | .deploy desired, .deploy o => ({ s with tmpl := o.tmpl, store := o.store }, deployOk isHashOf s desired o)
  | .deploy _, .stuck => (s, true)
  | .deployF f desired, .deploy o => ({ s with tmpl := o.tmpl, store := o.store }, deployOkF isHashOf f s desired o)
  | .deployF _ _, .stuck => (s, true)
  | .snap, .env =>
    (match s.tmpl with
     | none => s
     | some t => { s with objectSets := s.objectSets ++ [{ phases := t }] }, true)
  | .delos i, .env => ({ s with objectSets := s.objectSets.eraseIdx i }, true)
  -- an ObjectSet whose lifecycle state changes / that is being deleted still EXISTS
  | .life i l, .env => ({ s with objectSets := modifyAt (fun os => { os with life := l }) s.objectSets i }, true)
  | .markdel i, .env => ({ s with objectSets := modifyAt (fun os => { os with deleting := true }) s.objectSets i }, true)
  | _, _ => (s, false)

def checkRun (isHashOf : Name → List Obj → Bool) (limit : Nat) (strat : Strategy) :
    SpecState Name → List Op → List (Obs Name) → Bool
  | _, [], [] => true
  | s, op :: ops, ob :: obs =>
    let (s', ok) := specStep isHashOf limit strat s op ob
    ok && checkRun isHashOf limit strat s' ops obs
  | _, _, _ => false

end
end Pko.Model.ChunkRun
