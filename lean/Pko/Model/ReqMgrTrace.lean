/-
How a C20 scenario (what the Go harness executes) is run on a machine - the model of the Go code
or the specification - and what is observed.  Core Lean only; shared by the driver
(`Pko.Drv.C20`, which only adds JSON decoding and string rendering) and by the theorem
`Pko.Props.C20.model_trace_eq_spec_trace`.

Scenario steps:
* `req c i`  : caller `c` calls `Pull(image i)`.  A caller still blocked in an earlier `Pull` cannot
               call again: the step is skipped (record `b`).
* `done i e` : the pull in flight for image `i` returns (package, or error if `e`); record `d`, or
               `n` if no pull for `i` is in flight (disabled step).
* at the end every pull still in flight is completed with a package, in image order (records `D`),
  and the number of callers still waiting is reported.
-/
import Pko.Model.ReqMgr
import Pko.Model.ReqMgrSpec
namespace Pko.Model.ReqMgrTrace
open Pko.Model.ReqMgr
open Pko.Model.ReqMgrSpec (Spec)

/-- number of images the harness reports on -/
def nImg : Nat := 2

inductive SStep where
  | req (c : Caller) (i : Image)
  | done (i : Image) (err : Bool)
  | bad
  deriving DecidableEq, Repr

/-- One record of the printed trace. -/
inductive Rec where
  | step (tag : String) (o : Obs)
  | bad
  | fin (waiting : Nat)
  deriving DecidableEq, Repr

/-- A machine a scenario can be run on. -/
structure Machine (σ : Type) where
  init : σ
  step : σ → Op → σ
  obs : Nat → σ → Op → Obs
  view : σ → Spec

def modelMachine : Machine State :=
  { init := Pko.Model.ReqMgr.init, step := Pko.Model.ReqMgr.step, obs := Pko.Model.ReqMgr.obsStep,
    view := Pko.Model.ReqMgrSpec.abs }

def specMachine : Machine Spec :=
  { init := Pko.Model.ReqMgrSpec.init, step := Pko.Model.ReqMgrSpec.step,
    obs := Pko.Model.ReqMgrSpec.obsStep, view := id }

/-- requests that have not been answered -/
def waiting (v : Spec) : List Recv := (List.range v.next).filter fun r => (v.answers r).isEmpty

/-- caller `c` is blocked in `Pull` -/
def busy (v : Spec) (c : Caller) : Bool := (waiting v).any fun r => v.callerOf r == c

/-- payload identifying "result of pull number `gen` of image `i`" -/
def payload (i gen : Nat) : Nat := i * 1000 + gen

/-- Observation of a scenario step that does not reach the request manager at all. -/
def idleObs (v : Spec) : Obs :=
  { happened := false
    started := (List.range nImg).map v.started
    inflight := (List.range nImg).map fun i => if (v.pull i).isSome then 1 else 0
    returned := [], aliased := 0 }

def stepRec {σ : Type} (m : Machine σ) (s : σ) : SStep → Rec × σ
  | .req c i =>
    if busy (m.view s) c then (.step "b" (idleObs (m.view s)), s)
    else (.step "q" (m.obs nImg s (.request c i)), m.step s (.request c i))
  | .done i err =>
    let g := (m.view s).started i
    let res := if err then Result.err (payload i g) else Result.pkg (payload i g)
    let o := m.obs nImg s (.complete i res)
    (.step (if o.happened then "d" else "n") o, m.step s (.complete i res))
  | .bad => (.bad, s)

def runSteps {σ : Type} (m : Machine σ) (s : σ) : List SStep → List Rec × σ
  | [] => ([], s)
  | st :: sts =>
    let r := stepRec m s st
    let rest := runSteps m r.2 sts
    (r.1 :: rest.1, rest.2)

def drain {σ : Type} (m : Machine σ) (s : σ) : List Image → List Rec × σ
  | [] => ([], s)
  | i :: is =>
    if ((m.view s).pull i).isSome then
      let op := Op.complete i (.pkg (payload i ((m.view s).started i)))
      let rest := drain m (m.step s op) is
      (.step "D" (m.obs nImg s op) :: rest.1, rest.2)
    else drain m s is

/-- The whole trace of a scenario. -/
def trace {σ : Type} (m : Machine σ) (steps : List SStep) : List Rec :=
  let a := runSteps m m.init steps
  let b := drain m a.2 (List.range nImg)
  a.1 ++ b.1 ++ [.fin (waiting (m.view b.2)).length]

end Pko.Model.ReqMgrTrace
