/-
How a C20 scenario (what the Go harness executes) is run on a machine - the model of the Go code
or the specification - and what is observed.  Core Lean only; shared by the driver
(`Pko.Drv.C20`, which only adds JSON decoding and string rendering) and by the theorem
`Pko.Props.C20.model_trace_eq_spec_trace`.

Scenario steps:
* `req c i`  : caller `c` calls `Pull(image i)`.  A caller still blocked in an earlier `Pull` cannot
               call again: the step is skipped (record `b`).
* `done i e` : the pull in flight for image `i` returns (package, or error if `e`); record `d`, or
               `n` if no pull for `i` is in flight (disabled step).
* `park i e k mid` : like `done i e`, but the broadcast is observed from the inside: the harness
               parks the real `handleResponse` after its first `k` sends (record `P`: the callers
               answered so far), lets the requests `mid` arrive while it is parked (one record each:
               `w` = issued, `b` = not issued because that caller is still blocked in `Pull` or
               because a request for that image is already pending), lets the broadcast finish and
               waits until the requests issued meanwhile have gone through (record `U`).  On the
               model of the Go code (`ReqMgrFine`) these are separate steps; the specification
               only says what must have happened by `U` (`collapse`).
* `cancel c` : the context caller `c` passed to `Pull` is cancelled.  MODELLED BEHAVIOUR of the code
               that exists: `Pull` ignores its context once the request is registered
               (`res := <-r.handleRequest(ctx, image)`), the pull goroutine is not stopped either -
               the step changes nothing: the in-flight table is as it was and the caller is still
               answered when the pull completes.  Record `x` (the caller is blocked in `Pull`: a
               context in use is cancelled) or `y` (nothing to cancel).
* at the end every pull still in flight is completed with a package, in image order (records `D`),
  and the number of callers still waiting is reported.

The number `n` of images the harness scripts and reports on is a parameter of the scenario (any
number: the model has no bound on the images in flight at the same time).
-/
import Pko.Model.ReqMgr
import Pko.Model.ReqMgrSpec
import Pko.Model.ReqMgrFine
namespace Pko.Model.ReqMgrTrace
open Pko.Model.ReqMgr
open Pko.Model.ReqMgrSpec (Spec)
open Pko.Model.ReqMgrFine (FState fstep sendN pulling)

/-- number of images the harness reports on when the scenario does not say -/
def nImgDefault : Nat := 2

inductive SStep where
  | req (c : Caller) (i : Image)
  | done (i : Image) (err : Bool)
  | park (i : Image) (err : Bool) (k : Nat) (mid : List (Caller × Image))
  | cancel (c : Caller)
  | bad
  deriving DecidableEq, Repr

/-- One record of the printed trace. -/
inductive Rec where
  | step (tag : String) (o : Obs)
  | bad
  | fin (waiting : Nat)
  deriving DecidableEq, Repr

/-- What one scenario step prints: one record, or the records of a parked broadcast. -/
inductive Grp where
  | one (r : Rec)
  /-- observation at the parking point, one record per request arriving meanwhile, observation
  after the broadcast has finished and the requests issued meanwhile went through -/
  | park (p : Obs) (mids : List Rec) (u : Obs)
  deriving DecidableEq, Repr

/-- the printed records of a step -/
def flat : Grp → List Rec
  | .one r => [r]
  | .park p mids u => .step "P" p :: mids ++ [.step "U" u]

/-- What a parked broadcast amounts to once it is over - the only thing the property talks about:
the pulls started / in flight afterwards, everybody answered by the broadcast (before or after
the parking point), and how many of the packages handed out share memory. -/
def collapse : Grp → Rec
  | .one r => r
  | .park p _ u =>
    .step "U" { happened := true, started := u.started, inflight := u.inflight,
                returned := p.returned ++ u.returned, aliased := p.aliased + u.aliased }

/-- requests that have not been answered -/
def waiting (v : Spec) : List Recv := (List.range v.next).filter fun r => (v.answers r).isEmpty

/-- caller `c` is blocked in `Pull` -/
def busy (v : Spec) (c : Caller) : Bool := (waiting v).any fun r => v.callerOf r == c

/-- caller `c` is still blocked in `Pull` while the broadcast for image `i` is parked after its
first `k` sends (`v` = the state before the broadcast) -/
def busyParked (v : Spec) (i : Image) (k : Nat) (c : Caller) : Bool :=
  (waiting v).any fun r => v.callerOf r == c && !(((v.pull i).getD []).take k).contains r

/-- Which of the requests arriving during a parked broadcast are issued: not those of callers
still blocked in `Pull` (or in an earlier request of this list), and at most one per image (the
order in which several goroutines blocked on the mutex get it is not determined).
`(issued, caller, image)` per request. -/
def midPlan (v : Spec) (i : Image) (k : Nat) :
    List (Caller × Image) → List Caller → List Image → List (Bool × Caller × Image)
  | [], _, _ => []
  | (c, j) :: rest, pc, pi =>
    if busyParked v i k c || pc.contains c || pi.contains j then
      (false, c, j) :: midPlan v i k rest pc pi
    else (true, c, j) :: midPlan v i k rest (c :: pc) (j :: pi)

/-- the requests of a plan that are issued, as operations -/
def planOps (plan : List (Bool × Caller × Image)) : List Op :=
  (plan.filter (·.1)).map fun p => Op.request p.2.1 p.2.2

/-- A machine a scenario can be run on. -/
structure Machine (σ : Type) where
  init : σ
  step : σ → Op → σ
  obs : Nat → σ → Op → Obs
  view : σ → Spec
  /-- a parked completion (only called when a pull for the image is in flight) -/
  park : Nat → σ → Image → Result → Nat → List (Caller × Image) → Grp × σ

/-- observation of a fine-grained state in which nothing is being returned -/
def fineIdleObs (n : Nat) (f : FState) : Obs :=
  { happened := false
    started := (List.range n).map f.base.started
    inflight := (List.range n).map (pulling f)
    returned := [], aliased := 0 }

/-- A parked completion on the model of the Go code, statement by statement (`ReqMgrFine`):
`handleResponse` takes the lock, runs `k` loop iterations, is parked; the requests arriving now
call `handleRequest`; the loop runs to its end, the entry is deleted, the lock released; the
requests that were attempted meanwhile call `handleRequest` (again: they were blocked in
`Lock()`).  Nothing here assumes that the attempts during the broadcast fail - that is what
`fstep` says, because the lock is held. -/
def parkModel (n : Nat) (s : State) (i : Image) (res : Result) (k : Nat) (mid : List (Caller × Image)) :
    Grp × State :=
  let plan := midPlan (Pko.Model.ReqMgrSpec.abs s) i k mid [] []
  let f1 := fstep { base := s, bc := none } (.lockResp i res)
  let a := sendN k f1
  let f2 := a.2
  let pObs : Obs :=
    { happened := true
      started := (List.range n).map f2.base.started
      inflight := (List.range n).map (pulling f2)
      returned := a.1.map fun p => (s.callerOf p.1, p.2.res)
      aliased := aliasCount (a.1.map (·.2)) }
  let attempt := fun (f : FState) (p : Bool × Caller × Image) =>
    if p.1 then fstep f (.request p.2.1 p.2.2) else f
  let f3 := plan.foldl attempt f2
  let mids := plan.map fun p => Rec.step (if p.1 then "w" else "b") (fineIdleObs n f2)
  let b := sendN (((s.inFlight i).getD []).length) f3
  let f5 := fstep b.2 .unlockResp
  let f6 := plan.foldl attempt f5
  let uObs : Obs :=
    { happened := true
      started := (List.range n).map f6.base.started
      inflight := (List.range n).map (pulling f6)
      returned := b.1.map fun p => (s.callerOf p.1, p.2.res)
      aliased := aliasCount ((a.1 ++ b.1).map (·.2)) }
  (.park pObs mids uObs, f6.base)

/-- A parked completion according to the specification: by the time it is over, the pull has
completed - everybody who waited for it has its result, once - and every request that arrived
meanwhile has been served *after* it (a fresh pull for the same image, the usual rules for
another one); nothing handed out shares memory. -/
def parkSpec (n : Nat) (sp : Spec) (i : Image) (res : Result) (k : Nat) (mid : List (Caller × Image)) :
    Grp × Spec :=
  let plan := midPlan sp i k mid [] []
  let sp2 := Pko.Model.ReqMgrSpec.run (Pko.Model.ReqMgrSpec.step sp (.complete i res)) (planOps plan)
  (.one (.step "U"
    { happened := true
      started := (List.range n).map sp2.started
      inflight := (List.range n).map fun j => if (sp2.pull j).isSome then 1 else 0
      returned := ((sp.pull i).getD []).map fun r => (sp.callerOf r, res)
      aliased := 0 }), sp2)

def modelMachine : Machine State :=
  { init := Pko.Model.ReqMgr.init, step := Pko.Model.ReqMgr.step, obs := Pko.Model.ReqMgr.obsStep,
    view := Pko.Model.ReqMgrSpec.abs, park := parkModel }

def specMachine : Machine Spec :=
  { init := Pko.Model.ReqMgrSpec.init, step := Pko.Model.ReqMgrSpec.step,
    obs := Pko.Model.ReqMgrSpec.obsStep, view := id, park := parkSpec }

/-- payload identifying "result of pull number `gen` of image `i`" -/
def payload (i gen : Nat) : Nat := i * 1000 + gen

/-- Observation of a scenario step that does not reach the request manager at all. -/
def idleObs (n : Nat) (v : Spec) : Obs :=
  { happened := false
    started := (List.range n).map v.started
    inflight := (List.range n).map fun i => if (v.pull i).isSome then 1 else 0
    returned := [], aliased := 0 }

def stepRec {σ : Type} (n : Nat) (m : Machine σ) (s : σ) : SStep → Grp × σ
  | .req c i =>
    if busy (m.view s) c then (.one (.step "b" (idleObs n (m.view s))), s)
    else (.one (.step "q" (m.obs n s (.request c i))), m.step s (.request c i))
  | .done i err =>
    let g := (m.view s).started i
    let res := if err then Result.err (payload i g) else Result.pkg (payload i g)
    let o := m.obs n s (.complete i res)
    (.one (.step (if o.happened then "d" else "n") o), m.step s (.complete i res))
  | .park i err k mid =>
    let g := (m.view s).started i
    let res := if err then Result.err (payload i g) else Result.pkg (payload i g)
    if ((m.view s).pull i).isSome then m.park n s i res k mid
    else (.one (.step "n" (idleObs n (m.view s))), s)
  | .cancel c =>
    -- `Pull` does not look at its context while it waits, and nothing else does: no effect
    (.one (.step (if busy (m.view s) c then "x" else "y") (idleObs n (m.view s))), s)
  | .bad => (.one .bad, s)

def runSteps {σ : Type} (n : Nat) (m : Machine σ) (s : σ) : List SStep → List Grp × σ
  | [] => ([], s)
  | st :: sts =>
    let r := stepRec n m s st
    let rest := runSteps n m r.2 sts
    (r.1 :: rest.1, rest.2)

def drain {σ : Type} (n : Nat) (m : Machine σ) (s : σ) : List Image → List Grp × σ
  | [] => ([], s)
  | i :: is =>
    if ((m.view s).pull i).isSome then
      let op := Op.complete i (.pkg (payload i ((m.view s).started i)))
      let rest := drain n m (m.step s op) is
      (.one (.step "D" (m.obs n s op)) :: rest.1, rest.2)
    else drain n m s is

/-- The whole trace of a scenario, step by step. -/
def traceG {σ : Type} (n : Nat) (m : Machine σ) (steps : List SStep) : List Grp :=
  let a := runSteps n m m.init steps
  let b := drain n m a.2 (List.range n)
  a.1 ++ b.1 ++ [.one (.fin (waiting (m.view b.2)).length)]

/-- The records printed for a scenario. -/
def trace {σ : Type} (n : Nat) (m : Machine σ) (steps : List SStep) : List Rec :=
  (traceG n m steps).flatMap flat

/-- What the property is judged on: parked broadcasts are looked at once they are over. -/
def traceC {σ : Type} (n : Nat) (m : Machine σ) (steps : List SStep) : List Rec :=
  (traceG n m steps).map collapse

def SStep.isPark : SStep → Bool
  | .park .. => true
  | _ => false

end Pko.Model.ReqMgrTrace
