/-
Model for property C19, CLI side: configuration resolution of `kubectl package tree`.

Go source → Lean def (internal/cmd/tree.go unless stated otherwise):
* `(*Tree).getConfig`            → `getConfig` (`tcLoop` = the `for … range Test.Template` loop of the
                                    `--config-testcase` case, which neither breaks on the first match
                                    nor is followed by a live "not found" check)
* `(*Tree).getTemplateContext`   → `getTemplateContext`
* `(*Tree).RenderPackage`        → `renderPackage` (getConfig → AdmitPackageConfiguration → scope choice →
                                    RenderPackageInstance reduced to the checks that decide ok / error for
                                    the package family of the harness: scope validator, manifest validator)
* internal/packages/internal/packagemanifestvalidation/configuration.go `AdmitPackageConfiguration`
                                 → `admitConfig` (no schema: delete every key; schema: pruning.Prune,
                                    defaulting.Default, validation)

A Go `map[string]any` is modelled as far as this property needs it: `nil` or allocated, with its
key set.  The ONE panic branch of this file sits where the Go code can panic on this path:
`defaulting.Default` (k8s apiextensions, called by `AdmitPackageConfiguration`) assigns
`x[k] = default` for every top-level property with a default whose key is missing — on a nil map
that is "assignment to entry in nil map".  Reads, `range` and `delete` on a nil map are fine in Go
(`pruning.Prune`, the no-schema branch, validation).  `Template[0]` is written with the panicking
`idx` although it sits behind `len(Template) > 0`.

Leaves, by result shape only:
* `os.ReadFile`: file there or not.
* apimachinery `yaml.Unmarshal(data, &config)` (sigs.k8s.io/yaml → JSON → `Decode(&obj)` with `obj`
  an interface holding the pointer): a document that is a mapping is merged into the map
  (allocating it when nil); a null / empty / comment-only document leaves the target UNTOUCHED;
  any other document (scalar, sequence) and anything that is not YAML is an error.
* `encoding/json.Unmarshal(raw, &config)`: a JSON object is merged into the map (allocating it
  when nil); the literal `null` SETS THE MAP TO nil; everything else is an error.
* decoding `context.config` (`*runtime.RawExtension`) from the manifest: key absent or `null` gives
  a nil pointer, everything else the raw bytes — `Raw` is never the literal `null`
  (`decodeConfig`).
Core Lean only.
-/
import Pko.Model.Panic

namespace Pko.Model.TreeConfig
open Pko.Model.Panic (Outcome idx)
open Pko.Model.Panic.Outcome (ok err panic)

/-- Go `map[string]any`, as far as nil-map writes care. -/
inductive GoMap where
  | nil
  | mk (keys : List String)
  deriving Repr, DecidableEq

def GoMap.keys : GoMap → List String
  | .nil => []
  | .mk ks => ks

/-- Shape of a YAML / JSON document. -/
inductive Doc where
  | obj (keys : List String)   -- mapping / JSON object
  | null                       -- null, empty or comment-only document / JSON `null`
  | other                      -- scalar, sequence
  | garbage                    -- does not parse
  deriving Repr, DecidableEq

def addKeys (ks new : List String) : List String :=
  new.foldl (fun acc k => if acc.contains k then acc else acc ++ [k]) ks

/-- `encoding/json.Unmarshal(raw, &m)`; `none` = error. -/
def jsonUnmarshal (m : GoMap) : Doc → Option GoMap
  | .obj ks => some (.mk (addKeys m.keys ks))
  | .null => some .nil
  | _ => none

/-- apimachinery `yaml.Unmarshal(data, &m)`; `none` = error. -/
def yamlUnmarshal (m : GoMap) : Doc → Option GoMap
  | .obj ks => some (.mk (addKeys m.keys ks))
  | .null => some m
  | _ => none

/-- `context.package` of a test template as far as `tree` reads it. -/
structure TplPkg where
  name : String := ""
  ns : String := ""
  deriving Repr, DecidableEq

/-- `manifests.PackageManifestTestCaseTemplate` after decoding: `config = none` is the nil
`*runtime.RawExtension`. -/
structure TestTpl where
  name : String
  config : Option Doc
  pkg : TplPkg := {}
  deriving Repr

/-- `context.config` as WRITTEN in manifest.yaml (`none` = key absent) → the decoded pointer. -/
def decodeConfig : Option Doc → Option Doc
  | some .null => none
  | c => c

/-- `--config-path`. -/
inductive CfgPath where
  | notGiven
  | missing           -- os.ReadFile fails
  | file (d : Doc)
  deriving Repr

/-- `RenderPackageConfig`. -/
structure Opts where
  configPath : CfgPath := .notGiven
  testcase : String := ""
  cluster : Bool := false
  deriving Repr

/-- Result of the `for _, test := range pkg.Manifest.Test.Template` loop of the testcase case. -/
inductive LoopRes where
  | ret (m : GoMap)     -- `return config, nil` inside the loop (matching template without config)
  | fail                -- `return nil, err` inside the loop (json.Unmarshal failed)
  | fall (m : GoMap)    -- loop ran to its end
  deriving Repr

/-- The loop: no `break`, so EVERY template with the selected name is visited in order. -/
def tcLoop (tc : String) : List TestTpl → GoMap → LoopRes
  | [], m => .fall m
  | t :: ts, m =>
    if t.name != tc then tcLoop tc ts m
    else match t.config with
      | none => .ret m
      | some raw =>
        match jsonUnmarshal m raw with
        | none => .fail
        | some m' => tcLoop tc ts m'

/-- `(*Tree).getConfig`, with the initial value of `config` as a parameter (`getConfig` below fixes
it to the `map[string]any{}` of the code). -/
def getConfigFrom (init : GoMap) (tpls : List TestTpl) (o : Opts) : Outcome GoMap :=
  match o.configPath with
  | .missing => .err                                     -- case cfg.ConfigPath != "": ReadFile error
  | .file d =>
    match yamlUnmarshal init d with
    | none => .err
    | some m => .ok m                                    -- falls out of the switch: return config, nil
  | .notGiven =>
    if o.testcase != "" then                             -- case cfg.ConfigTestcase != ""
      match tcLoop o.testcase tpls init with
      | .ret m => .ok m
      | .fail => .err
      | .fall m =>
        if m = .nil then .err                            -- `if config == nil { …not found }`
        else .ok m
    else if tpls.length > 0 then                         -- case len(Template) > 0
      (idx tpls 0).bind fun t =>
        match t.config with
        | none => .ok init
        | some raw =>
          match jsonUnmarshal init raw with
          | none => .err
          | some m => .ok m
    else .ok init

def getConfig (tpls : List TestTpl) (o : Opts) : Outcome GoMap :=
  getConfigFrom (.mk []) tpls o

/-- `(*Tree).getTemplateContext`: the package name / namespace the tree is rendered for. -/
def getTemplateContext (tpls : List TestTpl) (o : Opts) : Outcome TplPkg :=
  if o.testcase != "" then
    .ok (tpls.foldl (fun acc t => if t.name != o.testcase then acc else t.pkg) { name := "name", ns := "namespace" })
  else if tpls.length > 0 then
    (idx tpls 0).map (·.pkg)
  else .ok { name := "name", ns := "namespace" }

/-- One top-level property of `spec.config.openAPIV3Schema` (all of type string in the harness). -/
structure SProp where
  name : String
  hasDefault : Bool := false
  required : Bool := false
  deriving Repr, DecidableEq

/-- `spec.config.openAPIV3Schema`: `none` = not set. -/
abbrev Schema := Option (List SProp)

/-- required properties all present -/
def validKeys (props : List SProp) (ks : List String) : Bool :=
  props.all fun p => !p.required || ks.contains p.name

/-- Result of admission: the map after prune + default, and whether validation passed. -/
structure Admitted where
  m : GoMap
  valid : Bool
  deriving Repr, DecidableEq

/-- `AdmitPackageConfiguration`. -/
def admitConfig (m : GoMap) : Schema → Outcome Admitted
  | none =>
    -- `for k := range configuration { delete(configuration, k) }` — fine on a nil map
    .ok ⟨(match m with | .nil => .nil | .mk _ => .mk []), true⟩
  | some props =>
    -- pruning.Prune: drop keys that are not properties (reads / deletes only)
    let pruned := m.keys.filter fun k => props.any (·.name == k)
    -- defaulting.Default: `x[k] = default` for every property with a default whose key is missing
    let missing := (props.filter fun p => p.hasDefault && !pruned.contains p.name).map (·.name)
    match m with
    | .nil =>
      if missing.isEmpty then .ok ⟨.nil, validKeys props []⟩
      else .panic                                         -- assignment to entry in nil map
    | .mk _ =>
      let ks := addKeys pruned missing
      .ok ⟨.mk ks, validKeys props ks⟩

/-- `ValidatePackageManifest` as far as the harness's package family can fail it: every test
template's config must unmarshal into a map and carry the required properties (no defaulting). -/
def manifestValid (schema : Schema) (tpls : List TestTpl) : Bool :=
  tpls.all fun t =>
    match t.config with
    | none => (match schema with | none => true | some props => validKeys props [])
    | some (.obj ks) => (match schema with | none => true | some props => validKeys props ks)
    | some _ => false

/-- `(*Tree).RenderPackage` after loading: ok, error or panic. -/
def renderPackage (scopes : List String) (schema : Schema) (tpls : List TestTpl) (o : Opts) : Outcome Unit :=
  (getTemplateContext tpls o).bind fun ctx =>
  (getConfig tpls o).bind fun cfg =>
  (admitConfig cfg schema).bind fun a =>
    if !a.valid then .err
    else
      let scope := if o.cluster || ctx.ns.isEmpty then "Cluster" else "Namespaced"
      if !scopes.contains scope then .err                 -- PackageScopeValidator
      else if !manifestValid schema tpls then .err        -- PackageManifestValidator
      else .ok ()

end Pko.Model.TreeConfig
