/-
Multi-round histories of one ObjectDeployment and its revisions (properties C08 and C09, the
ObjectDeployment level).  Core Lean only.

A history is a sequence of operations on a small store of ObjectSets.  The ONLY piece of
package-operator in it is the ObjectDeployment controller's pass `Archive.osr`
(`objectSetReconciler.Reconcile` + `archiveReconciler.Reconcile`, model in `Pko.Model.Archive`),
run on whatever the store lists at that moment; everything else is the environment:

* the API server applying the pass's writes (`applyWs`): an `Update` replaces `spec.lifecycleState`
  and the paused-by-parent annotation by what the pass sent; a `Delete` of an ObjectSet that carries
  a finalizer only sets its deletionTimestamp — the ObjectSet **stays listed** (terminating) until
  its teardown finishes (`Op.finish`) — and removes it at once otherwise; a second `Delete` of a
  terminating ObjectSet changes nothing; an `Update`/`Delete` of a name that is gone changes nothing
  (NotFound);
* a roll-out: a new revision appears (`Op.new`), the template hash moves to it;
* the ObjectSet controllers reporting status (`Op.status`: Available / Paused conditions,
  `controllerOf`, and the revision number of a revision that had none);
* third parties: editing `spec.lifecycleState` and the paused-by-parent annotation of a revision
  independently of each other (`Op.edit`), deleting a revision (`Op.del`), pausing / un-pausing the
  ObjectDeployment (`Op.pause`), changing `spec.revisionHistoryLimit` (`Op.limit`);
* a revision's objects live inline in its ObjectSet and/or in ObjectSlices its phases reference
  (`Rev.objects` / `Rev.sliced`; real (Cluster)ObjectSlice objects in the harness's store).

Go side: `harness/C08/zz_verif_c08_hist_test.go` executes the same operations on real
`corev1alpha1.ObjectSet` objects in an in-memory `client.Client` and runs the REAL
`objectSetReconciler.Reconcile` for every `Op.od`; it prints what it *observes* in its store before
and after every pass, which is what the monitors (`ArchiveSpec.verdict` per pass for C08,
`PauseSpec.verdict` for C09) are evaluated on.
-/
import Pko.Model.Archive
namespace Pko.Model.ArchiveHist
open Pko.Model.Archive

inductive Op where
  /-- one pass of the ObjectDeployment controller -/
  | od
  /-- a new revision is rolled out; `rev0`: it has not reported `status.revision` yet; `obj` are its
  inline objects, `sl` the objects it keeps in ObjectSlices, `sm`: it also references an ObjectSlice
  that does not exist -/
  | new (rev0 av sp : Bool) (co : Option (List Key)) (obj : List Key) (sl : List Key := []) (sm : Bool := false)
  /-- the ObjectSet controller of revision `i` reports status -/
  | status (i : Nat) (av sp : Bool) (co : Option (List Key))
  /-- third party: set `spec.lifecycleState` (if `some`) and the annotation (if `some`) of `i` -/
  | edit (i : Nat) (lc : Option Lifecycle) (pbp : Option Bool)
  /-- third party deletes revision `i` -/
  | del (i : Nat)
  /-- teardown of the terminating revision `i` finishes: its finalizer is removed, it is gone -/
  | finish (i : Nat)
  /-- `spec.paused` of the ObjectDeployment -/
  | pause (b : Bool)
  /-- `spec.revisionHistoryLimit` -/
  | limit (l : Option Int)
  deriving Repr, Inhabited

structure State where
  /-- the ObjectSets of the deployment in the order the API lists them (creation order),
  terminating ones included -/
  revs : List Rev
  /-- name of the next ObjectSet -/
  next : Nat
  /-- highest revision number handed out so far (C07: revision numbers are unique and grow) -/
  hi : Int
  odPaused : Bool
  limit : Option Int
  /-- ObjectSets carry a finalizer -/
  fin : Bool
  deriving Repr, Inhabited

/-- Effect of one write on the stored ObjectSet it is addressed to; `none` = removed. -/
def upd (fin : Bool) : Write → Rev → Option Rev
  | .pause _, r => some { r with lc := .paused }
  | .ppause _, r => some { r with lc := .paused, pbp := true }
  | .activate _, r => some { r with lc := .active, pbp := false }
  | .archive _, r => some { r with lc := .archived }
  | .delete _, r => if fin then some { r with terminating := true } else none

def applyW (fin : Bool) (revs : List Rev) (w : Write) : List Rev :=
  revs.filterMap (fun r => if r.id = w.id then upd fin w r else some r)

/-- The API server applying the ordered writes of a pass. -/
def applyWs (fin : Bool) (ws : List Write) (revs : List Rev) : List Rev :=
  ws.foldl (applyW fin) revs

/-- What a pass of the ObjectDeployment controller does on the current store. -/
def odOut (s : State) : List Write × Bool := osr s.revs s.odPaused s.limit s.fin

def setStatus (hi : Int) (i : Nat) (av sp : Bool) (co : Option (List Key)) (r : Rev) : Rev :=
  if r.id = i then
    { r with available := av, statusPaused := sp, controllerOf := co,
             rev := if r.rev == 0 then hi + 1 else r.rev }
  else r

def step (s : State) : Op → State
  | .od => { s with revs := applyWs s.fin (odOut s).1 s.revs }
  | .new rev0 av sp co obj sl sm =>
    let r : Rev := { id := s.next, rev := if rev0 then 0 else s.hi + 1, available := av,
                     statusPaused := sp, lc := .active, pbp := false, controllerOf := co,
                     objects := obj, hashMatch := true, terminating := false,
                     sliced := sl, sliceMissing := sm }
    { s with revs := s.revs.map (fun o => { o with hashMatch := false }) ++ [r],
             next := s.next + 1, hi := if rev0 then s.hi else s.hi + 1 }
  | .status i av sp co =>
    let assigns := s.revs.any (fun r => r.id == i && r.rev == 0)
    { s with revs := s.revs.map (setStatus s.hi i av sp co),
             hi := if assigns then s.hi + 1 else s.hi }
  | .edit i lc pbp =>
    { s with revs := s.revs.map (fun r =>
        if r.id = i then { r with lc := lc.getD r.lc, pbp := pbp.getD r.pbp } else r) }
  | .del i => { s with revs := applyW s.fin s.revs (.delete i) }
  | .finish i => { s with revs := s.revs.filter (fun r => !(r.id == i && r.terminating)) }
  | .pause b => { s with odPaused := b }
  | .limit l => { s with limit := l }

def run (s : State) (ops : List Op) : State := ops.foldl step s

/-- What is observed of one pass. -/
structure PassObs where
  pre : List Rev
  odPaused : Bool
  limit : Option Int
  writes : List Write
  err : Bool
  post : List Rev
  deriving Repr

/-- The observations of all passes of a history, and the final store. -/
def observe : State → List Op → List PassObs × List Rev
  | s, [] => ([], s.revs)
  | s, op :: ops =>
    let s' := step s op
    let r := observe s' ops
    match op with
    | .od => (⟨s.revs, s.odPaused, s.limit, (odOut s).1, (odOut s).2, s'.revs⟩ :: r.1, r.2)
    | _ => r

/-- The `Archive.Input` a pass of the history corresponds to (controller entry point). -/
def inputOf (pre : List Rev) (odPaused : Bool) (limit : Option Int) (fin : Bool) : Input :=
  { ctrl := true, revs := pre, hasCur := false, odPaused := odPaused, limit := limit, fin := fin }

end Pko.Model.ArchiveHist
