/-
Specification of package rendering, written from the sentence of property C13 (no loops, no maps
being mutated, no iteration order): which objects must come out, where, in which order, and when
rendering must fail.  It reuses only the per-item leaf-level functions of the model
(`parseObjects`, `isExcluded`, `finalize`, `validateObjects`, the path predicates and `pathLe`).

  "Every object that passes validation and the CEL/path filters appears exactly once, in the phase
   its phase annotation names, with phases in manifest order, objects in stable path-then-document
   order, package labels added and Package Operator control annotations removed."
-/
import Pko.Model.Render
namespace Pko.Model.RenderSpec
open Pko.Model.Render

/-- Output of every template, under the path without the template suffix. -/
def rendered (files : List File) : GoMap Path Docs :=
  (files.filter fun f => isTemplate f.path).map fun f => (stripSuffix f.path, f.out)

/-- The files after templating: the original files, those shadowed by a template output replaced. -/
def finalFiles (files : List File) : GoMap Path Docs :=
  (fileMap files).filter (fun e => !(((rendered files).map fun r => r.1).contains e.1)) ++ rendered files

/-- The files objects are read from: YAML files that are not template helpers. -/
def candidates (pkg : Pkg) : GoMap Path Docs :=
  (finalFiles pkg.files).filter fun e => !isHelper e.1 && isYAML e.1

/-- Non-empty documents of a file, package labels added. -/
def objectsOf (pkg : Pkg) (d : Docs) : List Obj :=
  (d.objs.filter fun o => !o.empty).map fun o =>
    { o with labels := mergeLabels o.labels (commonLabels pkg.name pkg.inst) }

/-- path ↦ objects, for the files that contain any. -/
def parsed (pkg : Pkg) : GoMap Path (List Obj) :=
  (candidates pkg).filterMap fun e =>
    if (objectsOf pkg e.2).length != 0 then some (e.1, objectsOf pkg e.2) else none

/-- Conditional paths whose expression is false (their globs exclude files). -/
def ignored (pkg : Pkg) : List Nat :=
  ((withIdx 0 pkg.cpaths).filter fun e => e.2.res == 0).map fun e => e.1

def pathDecision (pkg : Pkg) (p : Path) : Except Err Bool := isExcluded (rowOf pkg.globs p) (ignored pkg)

/-- An object passes the CEL filter: no condition annotation, or it evaluates to true. -/
def kept (o : Obj) : Bool := !hasAnn o celAnn || o.cel == 1

/-- The condition annotation of the object does not evaluate to a boolean. -/
def celBroken (o : Obj) : Bool := hasAnn o celAnn && !(o.cel == 1 || o.cel == 2)

def entryBroken (pkg : Pkg) (e : Path × List Obj) : Bool :=
  match pathDecision pkg e.1 with
  | .error _ => true
  | .ok true => false
  | .ok false => e.2.any celBroken

/-- When rendering must fail, and in which stage. -/
def mustFail (pkg : Pkg) : Option Err :=
  if !pkg.celCtxOk then some .celctx
  else if pkg.files.any (fun f => isTemplate f.path && !f.tmplParses) then some .tmplparse
  else if pkg.files.any (fun f => isTemplate f.path && !f.tmplExecs) then some .tmplexec
  else if (candidates pkg).any (fun e => !e.2.ok) then some .yaml
  else if pkg.validate && !validateObjects pkg.phases (parsed pkg) then some .validate
  else if pkg.cpaths.any (fun cp => cp.res == 2) then some .condpath
  else if (parsed pkg).any (entryBroken pkg) then some .filter
  else none

/-- Files that pass the path filter, with the objects that pass the CEL filter. -/
def filtered (pkg : Pkg) : GoMap Path (List Obj) :=
  (parsed pkg).filterMap fun e =>
    match pathDecision pkg e.1 with
    | .ok false => some (e.1, e.2.filter kept)
    | _ => none

/-- All surviving objects in path-then-document order. -/
def survivors (pkg : Pkg) : List Obj :=
  (((filtered pkg).map fun e => e.1).mergeSort pathLe |>.map fun p => ((filtered pkg).lookup p).getD []).flatten

/-- Phases in manifest order; each with the survivors naming it, finalised; empty phases dropped. -/
def specPhases (pkg : Pkg) : List Phase :=
  pkg.phases.filterMap fun n =>
    let os := ((survivors pkg).filter fun o => phaseOf o == n).map finalize
    if os.length != 0 then some { name := n, objs := os } else none

def spec (pkg : Pkg) : Except Err (List Phase) :=
  match mustFail pkg with
  | some e => .error e
  | none => .ok (specPhases pkg)

end Pko.Model.RenderSpec
