/-
Specification side of property C14, written from the property's sentence (not from the Go code):

  "Chunking splits each phase's objects into slices whose in-order concatenation equals the original list, with
   slice names determined by content and a colliding name never reused for different content.  An ObjectSet that
   references slices rolls out, reports status and tears down exactly like the same ObjectSet with the objects
   inline, and slice garbage collection never deletes a slice still referenced by the deployment template or by
   any existing ObjectSet."

Every predicate here is a `Bool` function of what can be OBSERVED of one operation (the harness prints exactly
these observations of the real code); `Pko.Drv.C14.monitor` evaluates them on implementation traces and
`Pko.Props.C14` proves that the model's observations satisfy them for all inputs.  Core Lean only.
-/
import Pko.Model.Chunk
namespace Pko.Model.ChunkSpec
open Pko.Model.Chunk

/-! ### chunkers -/

/-- What a chunker returned. -/
inductive ChunkObs where
  | err
  | bypass                 -- no chunks: the phase stays inline
  | chunks (cs : Chunks)   -- at least one chunk
  deriving DecidableEq, Repr

def objSize (o : Obj) : Nat := o.size.getD 0
def total (l : List Obj) : Nat := (l.map objSize).sum

/-- "Something overflowed": walking the objects in order there is an object that does not fit on top of a
non-empty running total.  (`k` objects precede it.) -/
def overflows (limit : Nat) (objs : List Obj) : Bool :=
  (List.range objs.length).any fun k => decide (0 < total (objs.take k)) && decide (limit < total (objs.take (k + 1)))

def chunksOk (limit : Nat) (strat : Strategy) (objs : List Obj) (cs : Chunks) : Bool :=
  !cs.isEmpty && decide (cs.flatten = objs) && cs.all (fun c => !c.isEmpty) &&
  match strat with
  | .noop => false
  | .each => cs.all fun c => c.length == 1
  | .binpack =>
    objs.all (fun o => o.size.isSome) && overflows limit objs &&
    cs.all fun c => decide (total c ≤ limit) || c.any fun o => decide (limit < objSize o)

/-- The chunker's answer is right: a lossless, order preserving split into non-empty chunks; bypass exactly when
nothing overflowed (BinpackNextFit) / there is nothing to chunk (EachObject) / always (NoOp); every chunk within the
limit unless one of its objects alone exceeds it; an error exactly when an object cannot be measured. -/
def chunkOk (limit : Nat) (strat : Strategy) (objs : List Obj) : ChunkObs → Bool
  | .err => strat == .binpack && objs.any fun o => o.size.isNone
  | .bypass =>
    match strat with
    | .noop => true
    | .each => objs.isEmpty
    | .binpack => objs.all (fun o => o.size.isSome) && !overflows limit objs
  | .chunks cs => chunksOk limit strat objs cs

/-- How a chunker's Go return value `(chunks, err)` is observed. -/
def observeChunk : Option Chunks → ChunkObs
  | none => .err
  | some [] => .bypass
  | some cs => .chunks cs

section
variable {Name : Type} [DecidableEq Name]

/-! ### one `DeploymentReconciler.Reconcile` -/

/-- What is observable of the API before a reconcile. -/
structure SpecState (Name : Type) where
  tmpl : Option (Template Name)
  store : Store Name
  objectSets : List (OSet Name)   -- ALL ObjectSets that exist, in whatever lifecycle / deletion state

/-- What is observable after it. -/
structure DeployObs (Name : Type) where
  ok : Bool
  tmpl : Option (Template Name)
  deleted : List Name      -- Delete calls
  store : Store Name

/-- Lossless: after a successful reconcile the template decodes — against the slices that exist now — to exactly
the desired phases — the same objects in the same order, each equal to the original IN EVERY FIELD of the
ObjectSetObject (`Obj` equality covers the fingerprint of collisionProtection / conditionMappings / payload) —,
and every slice it references is controlled by the deployment. -/
def lossless (desired : List (List Obj)) (o : DeployObs Name) : Bool :=
  !o.ok ||
  match o.tmpl with
  | none => false
  | some t =>
    decide (decode o.store t = some desired) &&
    (refs t).all fun n => match getSlice o.store n with | some s => s.ctl | none => false

/-- A failed reconcile leaves the template alone (an absent deployment was pre-created empty) and deletes nothing. -/
def failSafe (s : SpecState Name) (o : DeployObs Name) : Bool :=
  o.ok || (decide (o.tmpl = some (s.tmpl.getD [])) && o.deleted.isEmpty)

/-- Names are determined by content: every slice that appeared is named by the hash of its own content (at some
collision count), is controlled by the deployment and carries its label. -/
def namedByContent (isHashOf : Name → List Obj → Bool) (s : SpecState Name) (o : DeployObs Name) : Bool :=
  o.store.all fun e =>
    (getSlice s.store e.1).isSome ||
    match getSlice o.store e.1 with
    | some sl => isHashOf e.1 sl.objects && sl.ctl && sl.lbl
    | none => true

/-- A name in use is never reused for different content: slices that existed are unchanged (or gone). -/
def noReuse (s : SpecState Name) (o : DeployObs Name) : Bool :=
  s.store.all fun e =>
    match getSlice s.store e.1, getSlice o.store e.1 with
    | some a, some b => a == b
    | _, _ => true

/-- Equal content, equal name: the slice names a successful reconcile puts into the template are a function
of the slices' content. -/
def sameContentSameName (o : DeployObs Name) : Bool :=
  !o.ok ||
  match o.tmpl with
  | none => true
  | some t =>
    (refs t).all fun n => (refs t).all fun m =>
      match getSlice o.store n, getSlice o.store m with
      | some a, some b => !(a.objects == b.objects) || n == m
      | _, _ => true

/-- GC safety: every slice that was deleted or disappeared is referenced neither by the template (as it is now)
nor by ANY existing ObjectSet — active, paused, archived in spec, being deleted: as long as the object exists its
teardown / a rollback needs the slices —, and was in GC scope (carried the owner label). -/
def gcSafe (s : SpecState Name) (o : DeployObs Name) : Bool :=
  let gone := o.deleted ++ (names s.store).filter fun n => (getSlice o.store n).isNone
  let referenced := refs (o.tmpl.getD []) ++ s.objectSets.flatMap osRefs
  gone.all fun n =>
    !referenced.contains n &&
    match getSlice s.store n with
    | some sl => sl.lbl
    | none => true

/-- The template the API holds decodes — against the slices that exist now — to exactly the desired phases, and
every slice it references is controlled by the deployment (the body of `lossless`). -/
def tmplLossless (desired : List (List Obj)) (o : DeployObs Name) : Bool :=
  match o.tmpl with
  | none => false
  | some t =>
    decide (decode o.store t = some desired) &&
    (refs t).all fun n => match getSlice o.store n with | some s => s.ctl | none => false

/-- Fail-safe under an API fault: a failed reconcile deletes nothing, and the template the API holds afterwards is
the one it held before (an absent deployment stays absent or was pre-created empty) — or, when the fault struck
after the Update had been stored, a complete lossless encoding of the desired phases: never something in between. -/
def failSafeF (f : DFault) (s : SpecState Name) (desired : List (List Obj)) (o : DeployObs Name) : Bool :=
  o.ok || (o.deleted.isEmpty &&
    (decide (o.tmpl = s.tmpl) || decide (o.tmpl = some (s.tmpl.getD [])) || (f.afterUpdate && tmplLossless desired o)))

/-- "… never deletes a slice still referenced by the deployment template", read on the API: if every slice
referenced by the template STORED in the API existed before the call, every slice referenced by the template
stored afterwards exists — whether the call succeeded or failed, whatever fault hit it. -/
def storedLoadable (s : SpecState Name) (o : DeployObs Name) : Bool :=
  !(decode s.store (s.tmpl.getD [])).isSome || (decode o.store (o.tmpl.getD [])).isSome

/-- The specification of one `Reconcile` hit by the API fault `f`. -/
def deployOkF (isHashOf : Name → List Obj → Bool) (f : DFault) (s : SpecState Name) (desired : List (List Obj))
    (o : DeployObs Name) : Bool :=
  lossless desired o && failSafeF f s desired o && namedByContent isHashOf s o && noReuse s o &&
  sameContentSameName o && gcSafe s o && storedLoadable s o

def deployOk (isHashOf : Name → List Obj → Bool) (s : SpecState Name) (desired : List (List Obj))
    (o : DeployObs Name) : Bool :=
  lossless desired o && failSafe s o && namedByContent isHashOf s o && noReuse s o &&
  sameContentSameName o && gcSafe s o

/-! ### the slice loader -/

structure LoadObs (Name : Type) where
  ok : Bool
  phases : List (List Obj)
  updates : List Name

/-- Loading inverts the encoding: success exactly when every referenced slice exists, and then every phase
holds its inline objects followed by the slices' objects in reference order; every referenced slice ends up
owned by the ObjectSet. -/
def loadOk (st : Store Name) (t : Template Name) (o : LoadObs Name) : Bool :=
  match decode st t with
  | none => !o.ok
  | some d =>
    o.ok && decide (o.phases = d) &&
    (refs t).all fun n => (match getSlice st n with | some s => s.owned | none => false) || o.updates.contains n

/-! ### the ObjectSet controller, sliced vs. inline -/

/-- What is compared between the sliced ObjectSet and its inline twin: the result, every call that hands a phase
to the in-process worker or (delegated phases) to an ObjectSetPhase object — with the objects handed over —, and
the status the ObjectSet reports (Archived, Available, InTransition conditions, finalizer). -/
def visible (o : CtlOut Name) : CRes × List Call × Option Bool × Bool × Option Bool × Bool :=
  (o.res, o.calls, o.archived, o.finalizerRemoved, o.available, o.inTransition)

/-- Transparency: the sliced run shows exactly what the run of the same ObjectSet with the objects inline
shows; if a referenced slice is missing the controller must fail without acting. -/
def ctlOk (st : Store Name) (t : Template Name) (sliced inline : CtlOut Name) : Bool :=
  match decode st t with
  | none =>
    sliced.res == .err && sliced.calls.isEmpty && !sliced.finalizerRemoved && sliced.archived.isNone &&
    sliced.available.isNone && !sliced.inTransition
  | some _ => visible sliced == visible inline

/-- The inline twin of a sliced ObjectSet (all phases without class). -/
def inlineTwin (d : List (List Obj)) : Template Name := d.map fun objs => { objects := objs, slices := [] }

/-- The inline twin of the sliced ObjectSet `t` that decodes to `d`: every phase keeps its class, holds all its
objects inline and references no slice. -/
def inlineTwinOf (t : Template Name) (d : List (List Obj)) : Template Name :=
  (t.zip d).map fun pd => { objects := pd.2, slices := [], cls := pd.1.cls }

end
end Pko.Model.ChunkSpec
