/-
Specification side of property C18, written from the property's sentence and NOT from the Go
control flow:

  "The object produced by an ObjectTemplate always equals the template rendered with the current
   values of its source objects and environment: a change to any source re-renders it, and
   missing optional sources are retried.  A missing required source, an unparsable template or a
   source or target outside the template's namespace leaves the target object unwritten and is
   reported through the Invalid condition; deleting the ObjectTemplate releases its watches."

* `admissible`  – which object references an ObjectTemplate may use (bounds);
* `specGather`  – the template input as a function of the CURRENT objects (no controller state);
* `Obs`         – what can be observed of one reconcile pass from outside (result class, persisted
                  Invalid condition, API write log, objects afterwards, cache watch set);
* `checkPass`   – the property as an executable predicate on (state before the pass, observation).
                  The driver's monitor evaluates it on the IMPLEMENTATION's trace; `Pko.Props.C18`
                  proves that the model satisfies it for every world.
* `mustEnqueue` – when a change to an object has to enqueue the ObjectTemplate.
-/
import Pko.Model.Template

namespace Pko.Model.TemplateSpec
open Pko.Model.Template

/-- May an ObjectTemplate living in namespace `ownerNs` ("" = ClusterObjectTemplate) refer to /
produce an object of `kind` in namespace `objNs` ("" = not given)?  The API must exist, the
manifest must not bring its own owner references; a namespaced template stays inside its
namespace and uses namespaced kinds only; a cluster template must name the namespace of a
namespaced object (there is no default). -/
def admissible (scope : String → Scope) (ownerNs kind objNs : String) (hasOwner : Bool) : Bool :=
  decide (scope kind ≠ .unknown) && !hasOwner &&
  (if ownerNs = "" then !(decide (scope kind = .namespaced) && decide (objNs = ""))
   else decide (scope kind = .namespaced) && (decide (objNs = "") || decide (objNs = ownerNs)))

/-- The value of a source as the template sees it: the object as stored, carrying the cache label
(the controller labels every source it uses). -/
def seen (o : Obj) : Obj := { o with label := true }

/-- The template input computed from the current objects: sources in order; a reference out of
bounds, a missing required source or a failing item copy is a source error; a missing optional
source is skipped and asks for a retry. -/
def specGather {T : Type} (L : Leaves T) (spec : Spec T) (objs : Objs) :
    List Source → Config → Bool → GatherRes
  | [], cfg, retry => .ok cfg retry
  | src :: rest, cfg, retry =>
    if admissible L.scope spec.ns src.kind src.ns false then
      match objs (srcKey L spec src) with
      | none => if src.optional then specGather L spec objs rest cfg true else .srcErr true
      | some o =>
        match copyItems L (srcKey L spec src) (seen o) src.items cfg with
        | none => .srcErr false
        | some cfg' => specGather L spec objs rest cfg' retry
    else .srcErr false

/-- Where the templated object has to be: the template's namespace overrides the manifest's. -/
def targetKey {T : Type} (L : Leaves T) (spec : Spec T) (r : Rendered) : Key :=
  norm L.scope ⟨r.kind, if spec.ns = "" then r.ns else spec.ns, r.name⟩

/-- Observation of one reconcile pass. -/
structure Obs where
  out : Outcome
  invalid : Invalid                       -- Invalid condition as PERSISTED after the pass
  writes : List Write                     -- every non-dry-run mutating request of the pass
  objs : Key → Option (Data × Bool)       -- objects after the pass: payload, cache label
  watches : List (String × Owner)         -- cache watch set after the pass

def isTargetWrite (x : Write) : Bool := decide (x.verb = .create) || decide (x.verb = .update)

/-- No create/update was sent and no object's payload changed. -/
def untouched (keys : List Key) (before : Objs) (obs : Obs) : Bool :=
  obs.writes.all (fun x => !isTargetWrite x) &&
  keys.all (fun k => decide ((obs.objs k).map (·.1) = (before k).map (·.data)))

/-- Writes of a namespaced template stay in its namespace and on namespaced kinds. -/
def bounded {T : Type} (L : Leaves T) (spec : Spec T) (obs : Obs) : Bool :=
  decide (spec.ns = "") ||
  obs.writes.all (fun x => decide (x.key = tmplKey spec) ||
    (decide (x.key.ns = spec.ns) && decide (L.scope x.key.kind = .namespaced)))

/-- "A change to any source re-renders it": after a good pass the cache watches the kind of every
source for the template and every source object that exists carries the cache label (so the
label-restricted informer sees its changes). -/
def sourcesObserved {T : Type} (L : Leaves T) (spec : Spec T) (obs : Obs) : Bool :=
  spec.sources.all fun src =>
    decide ((src.kind, Owner.tmpl) ∈ obs.watches) &&
    (match obs.objs (srcKey L spec src) with | some p => p.2 | none => true)

def retried (retry : Bool) (obs : Obs) : Bool :=
  !retry || decide (obs.out = .requeueOpt) || decide (obs.out = .err)

/-- The property for a pass over a live (not deleting) ObjectTemplate. -/
def checkLive {T : Type} (L : Leaves T) (spec : Spec T) (keys : List Key)
    (objs : Objs) (env : String) (obs : Obs) : Bool :=
  bounded L spec obs &&
  match specGather L spec objs spec.sources [] false with
  | .srcErr _ =>
    -- out-of-bounds / missing required source (or an item that cannot be copied)
    decide (obs.invalid = .source) && untouched keys objs obs
  | .ok cfg retry =>
    match L.render spec.template cfg env with
    | .templateErr => decide (obs.invalid = .template) && untouched keys objs obs && retried retry obs
    | .unmarshalErr => decide (obs.invalid = .template) && untouched keys objs obs && retried retry obs
    | .ok r =>
      if admissible L.scope spec.ns r.kind r.ns r.hasOwner then
        if obs.out = .err then
          -- only acceptable when the API itself refused the write of the templated object
          obs.writes.any (fun x => decide (x.key = targetKey L spec r) && x.failed)
        else
          decide (obs.invalid = .none) &&
          decide (obs.objs (targetKey L spec r) = some (r.data, true)) &&
          retried retry obs && sourcesObserved L spec obs
      else
        decide (obs.invalid = .source) && untouched keys objs obs && retried retry obs

/-- The property for one reconcile pass started in world `w`. -/
def checkPass {T : Type} (L : Leaves T) (spec : Spec T) (keys : List Key) (w : World) (obs : Obs) : Bool :=
  match w.tmpl with
  | none => true
  | some t =>
    if t.deleting then obs.watches.all (fun e => decide (e.2 ≠ Owner.tmpl))
    else checkLive L spec keys w.objs w.env obs

/-- What an outside observer sees of a pass of the MODEL (`PassRes`). -/
def observe (r : PassRes) : Obs :=
  { out := r.out,
    invalid := match r.world.tmpl with | some t => t.status.invalid | none => .none,
    writes := r.writes,
    objs := fun k => (r.world.objs k).map fun o => (o.data, o.label),
    watches := r.world.watches }

/-- A change `before → after` of an object of `kind` that the label-restricted informer can see
must enqueue the ObjectTemplate if the template watches the kind. -/
def mustEnqueue (watches : List (String × Owner)) (kind : String) (before after : Option Obj) : Bool :=
  let lab := fun (o : Option Obj) => match o with | some x => x.label | none => false
  (lab before || lab after) && decide (before ≠ after) && decide ((kind, Owner.tmpl) ∈ watches)

end Pko.Model.TemplateSpec
