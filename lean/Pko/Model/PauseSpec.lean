/-
Specification for property C09 at the ObjectDeployment level, written from the property's sentence,
NOT from the code:

  "Pausing an ObjectDeployment pauses every non-archived revision and keeps them paused while the
   parent is paused; un-pausing releases exactly the revisions the parent paused."

Everything here is a decidable predicate on what is OBSERVED of one pass of the ObjectDeployment
controller: the revisions listed before the pass (`pre`), `spec.paused` of the parent, the ordered
writes of the pass, and the revisions in the store after the pass (`post`).  No reference to
`propagate`, `osr`, sorting or to how the store applies writes.

Vocabulary
* non-archived: `spec.lifecycleState ≠ Archived`.
* **marked** (carries the parent's marker): `spec.lifecycleState = Paused` together with the
  annotation `package-operator.run/paused-by-parent: "true"` — the record the parent leaves on a
  revision it paused.  The annotation on a revision that is not Paused marks nothing.
* a pass is **gated** when a listed revision has not reported `status.revision` yet: the controller
  delays every action (objectset_reconciler.go l.43-48); the property's obligations start with the
  first pass after the number is reported (reading note in `Pko.Props.C09`).
-/
import Pko.Model.Archive
namespace Pko.Model.PauseSpec
open Pko.Model.Archive

def Marked (r : Rev) : Prop := r.lc = .paused ∧ r.pbp = true

instance (r : Rev) : Decidable (Marked r) := by unfold Marked; infer_instance

/-- a listed revision does not report its revision number yet -/
def gated (pre : List Rev) : Bool := pre.any (fun r => r.rev == 0)

/-- ObjectSet names are unique (API server). -/
def Names (pre : List Rev) : Prop := (pre.map (·.id)).Nodup

instance (pre : List Rev) : Decidable (Names pre) := by unfold Names; infer_instance

/-! ### a pass of a PAUSED ObjectDeployment -/

/-- hands-off: the only thing a paused parent sends is the parent-pause (Paused + marker), and
only to non-archived revisions; in particular it neither archives nor prunes nor re-activates. -/
def PausedWrites (pre : List Rev) (ws : List Write) : Prop :=
  ∀ w ∈ ws, ∃ r ∈ pre, w = .ppause r.id ∧ r.archived = false

/-- no revision disappears in a paused pass -/
def NothingLost (pre post : List Rev) : Prop := ∀ r ∈ pre, ∃ q ∈ post, q.id = r.id

/-- "pauses every non-archived revision and keeps them paused while the parent is paused":
after the pass every non-archived revision is Paused — whatever anybody did to its lifecycleState
or its annotation before the pass. -/
def AllPaused (pre post : List Rev) : Prop :=
  ∀ r ∈ pre, r.archived = false → ∀ q ∈ post, q.id = r.id → q.lc = .paused

/-- a revision the parent had to pause (it was not Paused before the pass) carries the parent's
marker afterwards — the record that lets un-pausing release "exactly the revisions the parent
paused".  (Nothing is demanded here of a revision that was Paused already; the code marks those
too, `Pko.Props.C09.od_pause_marks_all_non_archived` / `foreign_pause_taken_over_witness`.) -/
def ParentPauseMarked (pre post : List Rev) : Prop :=
  ∀ r ∈ pre, r.archived = false → r.lc ≠ .paused → ∀ q ∈ post, q.id = r.id → Marked q

/-- what the code establishes (stronger than both): every non-archived revision is marked -/
def AllMarked (pre post : List Rev) : Prop :=
  ∀ r ∈ pre, r.archived = false → ∀ q ∈ post, q.id = r.id → Marked q

theorem AllMarked.allPaused {pre post : List Rev} (h : AllMarked pre post) : AllPaused pre post :=
  fun r hr hna q hq hid => (h r hr hna q hq hid).1

theorem AllMarked.parentPauseMarked {pre post : List Rev} (h : AllMarked pre post) :
    ParentPauseMarked pre post :=
  fun r hr hna _ q hq hid => h r hr hna q hq hid

/-- archived revisions stay archived -/
def ArchivedStay (pre post : List Rev) : Prop :=
  ∀ r ∈ pre, r.archived = true → ∀ q ∈ post, q.id = r.id → q.lc = .archived

/-! ### a pass of an UN-PAUSED ObjectDeployment -/

/-- "releases exactly the revisions the parent paused": the revisions that are set Active are
exactly the non-archived marked ones. -/
def ReleasedExactly (pre : List Rev) (ws : List Write) : Prop :=
  (∀ i, Write.activate i ∈ ws → ∃ r ∈ pre, r.id = i ∧ r.archived = false ∧ Marked r) ∧
  (∀ r ∈ pre, r.archived = false → Marked r → Write.activate r.id ∈ ws)

/-- a released revision has lost the marker -/
def MarkerLost (pre post : List Rev) : Prop :=
  ∀ r ∈ pre, r.archived = false → Marked r → ∀ q ∈ post, q.id = r.id → q.pbp = false

/-- a revision paused by someone else (Paused, no marker) is not released: it is not Active
afterwards (it stays Paused, or the roll-out archives it — property C08). -/
def ForeignPauseKept (pre post : List Rev) : Prop :=
  ∀ r ∈ pre, r.lc = .paused → r.pbp = false → ∀ q ∈ post, q.id = r.id → q.lc ≠ .active

instance (pre : List Rev) (ws : List Write) : Decidable (PausedWrites pre ws) := by
  unfold PausedWrites; infer_instance
instance (pre post : List Rev) : Decidable (NothingLost pre post) := by unfold NothingLost; infer_instance
instance (pre post : List Rev) : Decidable (AllPaused pre post) := by unfold AllPaused; infer_instance
instance (pre post : List Rev) : Decidable (ParentPauseMarked pre post) := by
  unfold ParentPauseMarked; infer_instance
instance (pre post : List Rev) : Decidable (ArchivedStay pre post) := by unfold ArchivedStay; infer_instance
instance (pre post : List Rev) : Decidable (MarkerLost pre post) := by unfold MarkerLost; infer_instance
instance (pre post : List Rev) : Decidable (ForeignPauseKept pre post) := by
  unfold ForeignPauseKept; infer_instance

/-- `activate` targets of a write list -/
def acts : List Write → List Nat
  | [] => []
  | .activate i :: ws => i :: acts ws
  | _ :: ws => acts ws

theorem mem_acts {ws : List Write} {i : Nat} : i ∈ acts ws ↔ Write.activate i ∈ ws := by
  induction ws with
  | nil => simp [acts]
  | cons w ws ih => cases w <;> simp [acts, ih]

/-- decidable form of `ReleasedExactly` (quantifies over the activate writes present) -/
def releasedExactlyB (pre : List Rev) (ws : List Write) : Bool :=
  (acts ws).all (fun i => pre.any (fun r => r.id == i && !r.archived && decide (Marked r))) &&
  pre.all (fun r => !(!r.archived && decide (Marked r)) || (acts ws).contains r.id)

theorem releasedExactlyB_iff (pre : List Rev) (ws : List Write) :
    releasedExactlyB pre ws = true ↔ ReleasedExactly pre ws := by
  unfold releasedExactlyB ReleasedExactly
  simp only [Bool.and_eq_true, List.all_eq_true, List.any_eq_true, beq_iff_eq, Bool.not_eq_true',
    decide_eq_true_eq, Bool.or_eq_true, Bool.not_eq_true', List.contains_iff_mem, mem_acts]
  constructor
  · rintro ⟨h1, h2⟩
    refine ⟨fun i hi => ?_, fun r hr hna hm => ?_⟩
    · obtain ⟨r, hr, ⟨he, hna⟩, hm⟩ := h1 i hi
      exact ⟨r, hr, he, hna, hm⟩
    · rcases h2 r hr with h | h
      · simp [hna, hm] at h
      · exact h
  · rintro ⟨h1, h2⟩
    refine ⟨fun i hi => ?_, fun r hr => ?_⟩
    · obtain ⟨r, hr, he, hna, hm⟩ := h1 i hi
      exact ⟨r, hr, ⟨he, hna⟩, hm⟩
    · by_cases hc : r.archived = false ∧ Marked r
      · exact Or.inr (h2 r hr hc.1 hc.2)
      · left
        by_cases hna : r.archived = false
        · have : ¬ Marked r := fun hm => hc ⟨hna, hm⟩
          simp [hna, this]
        · simp [hna]

/-- The monitored predicate for one observed pass. -/
def Ok (pre : List Rev) (odPaused : Bool) (ws : List Write) (post : List Rev) : Prop :=
  Names pre → gated pre = false →
    if odPaused then
      PausedWrites pre ws ∧ NothingLost pre post ∧ AllPaused pre post ∧ ParentPauseMarked pre post ∧
        ArchivedStay pre post
    else
      ReleasedExactly pre ws ∧ MarkerLost pre post ∧ ForeignPauseKept pre post

/-- first revision of `pre` violating a per-revision clause, for the verdict text -/
def firstBad (pre : List Rev) (p : Rev → Bool) : String :=
  match pre.find? (fun r => !p r) with
  | some r => s!"id={r.id}"
  | none => "id=?"

/-- Monitor verdict for one pass: `"ok"` or the clause that fails and the revision it fails for. -/
def verdict (pre : List Rev) (odPaused : Bool) (ws : List Write) (post : List Rev) : String :=
  if ¬ Names pre then "bad duplicate-name"
  else if gated pre then "ok"
  else if odPaused then
    if ¬ PausedWrites pre ws then "bad paused-parent-writes-other-than-parent-pause"
    else if ¬ NothingLost pre post then "bad paused-parent-lost-revision"
    else if ¬ AllPaused pre post then
      "bad paused-parent-leaves-revision-not-paused " ++
        firstBad pre (fun r => r.archived || post.all (fun q => q.id != r.id || q.lc == .paused))
    else if ¬ ParentPauseMarked pre post then
      "bad paused-parent-pause-without-marker " ++
        firstBad pre (fun r => r.archived || r.lc == .paused || post.all (fun q => q.id != r.id || decide (Marked q)))
    else if ¬ ArchivedStay pre post then "bad paused-parent-changed-archived-revision"
    else "ok"
  else
    if releasedExactlyB pre ws = false then "bad unpause-not-exactly-marked"
    else if ¬ MarkerLost pre post then
      "bad unpause-marker-kept " ++
        firstBad pre (fun r => r.archived || !decide (Marked r) || post.all (fun q => q.id != r.id || !q.pbp))
    else if ¬ ForeignPauseKept pre post then
      "bad unpause-released-foreign-pause " ++
        firstBad pre (fun r => !(r.lc == .paused && !r.pbp) || post.all (fun q => q.id != r.id || q.lc != .active))
    else "ok"

theorem verdict_ok_of_Ok {pre : List Rev} {odPaused : Bool} {ws : List Write} {post : List Rev}
    (hn : Names pre) (h : Ok pre odPaused ws post) : verdict pre odPaused ws post = "ok" := by
  unfold verdict
  simp only [hn, not_true_eq_false, ↓reduceIte]
  cases hg : gated pre
  · have := h hn hg
    cases odPaused
    · simp only [Bool.false_eq_true, ↓reduceIte] at this ⊢
      obtain ⟨h1, h2, h3⟩ := this
      have hb := (releasedExactlyB_iff pre ws).mpr h1
      simp [hb, h2, h3]
    · simp only [↓reduceIte] at this ⊢
      obtain ⟨h1, h2, h3, h4, h5⟩ := this
      simp [h1, h2, h3, h4, h5]
  · simp

end Pko.Model.PauseSpec
