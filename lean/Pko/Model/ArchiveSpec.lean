/-
Specification for property C08 (a), written from the property's sentence, NOT from the code:

  "An ObjectDeployment archives a revision only after that revision has confirmed it is paused,
   and only if a newer revision is Available or the revision itself is unavailable and controls
   nothing that the next newer revision contains; the newest revision is never archived, and
   history pruning deletes only the oldest revisions beyond revisionHistoryLimit, never the
   current one."

"contains" = every object of the revision, inline in the ObjectSet or in one of the ObjectSlices its
phases reference (C14: an ObjectSet that references ObjectSlices behaves exactly like the same
ObjectSet with the objects inline).

Everything here is a predicate on (revision states of the scenario, write list).  No scan, no sort:
"newer", "next newer", "oldest" are expressed by comparing `status.revision` numbers and counting.
All predicates are decidable; the driver's monitor is `verdict` evaluated on the write list the
REAL Go code produced.
-/
import Pko.Model.Archive
namespace Pko.Model.ArchiveSpec
open Pko.Model.Archive

/-- `y` is a *next newer* revision of `r` among `all`: it is newer (strictly higher
`status.revision`) and no revision of `all` lies strictly between.  With unique revision numbers
there is at most one. -/
def IsNextNewer (all : List Rev) (r y : Rev) : Prop :=
  r.rev < y.rev ∧ ∀ z ∈ all, r.rev < z.rev → y.rev ≤ z.rev

/-- "controls nothing that … contains": `status.controllerOf` is reported and shares no key with
`objs`.  An unreported (`nil`) controllerOf does not count as "controls nothing". -/
def ControlsNothingIn : Option (List Key) → List Key → Prop
  | none, _ => False
  | some l, objs => ∀ k ∈ l, k ∉ objs

instance (all : List Rev) (r y : Rev) : Decidable (IsNextNewer all r y) := by
  unfold IsNextNewer; infer_instance

instance (co : Option (List Key)) (objs : List Key) : Decidable (ControlsNothingIn co objs) :=
  match co with
  | none => isFalse (by simp [ControlsNothingIn])
  | some l => inferInstanceAs (Decidable (∀ k ∈ l, k ∉ objs))

/-- "controls nothing that the revision `y` contains".  What `y` contains is ALL its objects: the
ones inline in `spec.phases[*].objects` and the ones in the ObjectSlices its phases reference
(`Rev.allObjects`) — where an object of a revision is stored makes no difference to what the
revision is going to adopt.  When one of the referenced ObjectSlices does not exist, what else `y`
contains is unknown: then only a revision that controls nothing at all "controls nothing that `y`
contains". -/
def ControlsNothingOf (co : Option (List Key)) (y : Rev) : Prop :=
  ControlsNothingIn co y.allObjects ∧ (y.sliceMissing = true → co = some [])

instance (co : Option (List Key)) (y : Rev) : Decidable (ControlsNothingOf co y) := by
  unfold ControlsNothingOf; infer_instance

/-- The condition under which the property's sentence allows revision `r` to be archived, given
all revisions `all` of the deployment as read by the pass. -/
def Justified (all : List Rev) (r : Rev) : Prop :=
  r.statusPaused = true ∧                                    -- it has confirmed it is paused
  (∃ y ∈ all, r.rev < y.rev) ∧                               -- it is not the newest
  ((∃ y ∈ all, r.rev < y.rev ∧ y.available = true) ∨         -- a newer revision is Available
   (r.available = false ∧                                    -- or: itself unavailable, and
    ∃ y ∈ all, IsNextNewer all r y ∧ ControlsNothingOf r.controllerOf y))

instance (all : List Rev) (r : Rev) : Decidable (Justified all r) := by
  unfold Justified IsNextNewer; infer_instance

/-- An `archive` write addressed to name `id` is allowed. -/
def ArchiveOK (all : List Rev) (id : Nat) : Prop := ∃ r ∈ all, r.id = id ∧ Justified all r

instance (all : List Rev) (id : Nat) : Decidable (ArchiveOK all id) := by
  unfold ArchiveOK; infer_instance

/-- A `delete` addressed to name `id` is allowed: `id` names a previous revision that is among
the `|prev| − revisionHistoryLimit` oldest ones (fewer than that many previous revisions are
strictly older).  Nothing may be deleted when `|prev| ≤ limit`. Default limit 10 (CRD default).
`prev` is every previous revision the pass listed — a revision that is still terminating from an
earlier pruning round is listed, takes one of the `|prev|` places and counts as an older revision;
skipping over it must not make the pass reach for a newer one. -/
def DeleteOK (prev : List Rev) (limit : Option Int) (id : Nat) : Prop :=
  ∃ p ∈ prev, p.id = id ∧
    ((prev.countP (fun q => decide (q.rev < p.rev)) : Nat) : Int) < (prev.length : Int) - limit.getD 10

instance (prev : List Rev) (limit : Option Int) (id : Nat) : Decidable (DeleteOK prev limit id) := by
  unfold DeleteOK; infer_instance

/-- Names deleted by a write list. -/
def dels : List Write → List Nat
  | [] => []
  | .delete i :: ws => i :: dels ws
  | _ :: ws => dels ws

/-- Pruning proceeds from the oldest end without gaps: when a previous revision is deleted, every
older previous revision is deleted in the same pass or is already on its way out (it is listed with
a deletionTimestamp: an earlier round deleted it and its teardown has not finished).  The sentence
does not ask for a second `Delete` of a terminating revision — it asks that nothing *newer* than a
kept revision goes. -/
def GcClosed (prev : List Rev) (ds : List Nat) : Prop :=
  ∀ p ∈ prev, p.id ∈ ds → ∀ q ∈ prev, q.rev < p.rev → q.id ∈ ds ∨ q.terminating = true

instance (prev : List Rev) (ds : List Nat) : Decidable (GcClosed prev ds) := by
  unfold GcClosed; infer_instance

/-! "current" and "previous" as the specification sees them.

* direct call of the archive reconciler: whatever the caller passed.
* through the controller: the current revision is the revision with the highest `status.revision`
  provided its hash annotation matches the deployment's template hash; every other listed
  revision is a previous one. -/

def isMax (revs : List Rev) (m : Rev) : Bool := revs.all (fun y => decide (y.rev ≤ m.rev))

def specCur (i : Input) : Option Rev :=
  if i.ctrl then
    match i.revs.find? (isMax i.revs) with
    | some m => if m.hashMatch then some m else none
    | none => none
  else i.cur

def specPrev (i : Input) : List Rev :=
  if i.ctrl then
    match specCur i with
    | some c => i.revs.filter (fun r => r.id != c.id)
    | none => i.revs
  else i.prev

/-- Inputs on which "oldest" and "current" are well defined: names unique; revision numbers
unique; for a direct call additionally the slice is sorted with the current revision last (what
`listObjectSetsByRevision` + objectset_reconciler.go l.56-66 guarantee). -/
def WF (i : Input) : Prop :=
  (i.revs.map (·.id)).Nodup ∧
  (if i.ctrl then i.revs.Pairwise (fun a b => a.rev ≠ b.rev)
   else i.revs.Pairwise (fun a b => a.rev < b.rev))

instance (i : Input) : Decidable (WF i) := by
  unfold WF; infer_instance

/-- What the property's sentence demands of a single write. -/
def WriteOK (i : Input) : Write → Prop
  | .archive id => ArchiveOK i.revs id
  | .delete id => WF i → DeleteOK (specPrev i) i.limit id ∧ ∀ c, specCur i = some c → c.id ≠ id
  | _ => True

instance (i : Input) (w : Write) : Decidable (WriteOK i w) := by
  cases w <;> unfold WriteOK <;> infer_instance

/-- The whole monitored predicate. -/
def Ok (i : Input) (ws : List Write) : Prop :=
  (∀ w ∈ ws, WriteOK i w) ∧ (WF i → GcClosed (specPrev i) (dels ws))

instance (i : Input) (ws : List Write) : Decidable (Ok i ws) := by
  unfold Ok; infer_instance

def kindOf : Write → String
  | .pause _ => "pause" | .ppause _ => "ppause" | .activate _ => "activate"
  | .archive _ => "archive" | .delete _ => "delete"

/-- Why the `archive` write addressed to `id` is not allowed (diagnosis only; `verdict` decides
with `WriteOK`).  The first listed revision of that name is explained. -/
def whyNotArchive (all : List Rev) (id : Nat) : String :=
  match all.find? (fun r => r.id == id) with
  | none => "archived-a-name-that-is-not-listed"
  | some r =>
    if r.statusPaused = false then "archived-before-it-confirmed-it-is-paused"
    else if ¬ (∃ y ∈ all, r.rev < y.rev) then "archived-the-newest-revision"
    else if r.available = true then "archived-while-Available-and-no-newer-revision-is-Available"
    else
      match all.find? (fun y => decide (IsNextNewer all r y)) with
      | none => "archived-without-a-next-newer-revision"
      | some y =>
        match r.controllerOf with
        | none => "archived-before-it-reported-controllerOf"
        | some co =>
          match co.find? (fun k => y.allObjects.contains k) with
          | some k =>
            "archived-although-next-newer-revision-contains-an-object-it-still-controls key=" ++ toString k ++
              " next=" ++ toString y.id ++
              (if y.objects.contains k then " (inline)" else " (in-an-ObjectSlice-of-the-next-newer-revision)")
          | none =>
            if y.sliceMissing then
              "archived-while-it-still-controls-objects-and-an-ObjectSlice-of-the-next-newer-revision-is-missing next=" ++
                toString y.id
            else "archived-without-justification"

/-- Monitor verdict for a write list: `"ok"` or the first offending write. -/
def verdict (i : Input) (ws : List Write) : String :=
  match ws.find? (fun w => !decide (WriteOK i w)) with
  | some w =>
    "bad " ++ kindOf w ++ " id=" ++ toString w.id ++
      (match w with | .archive id => " " ++ whyNotArchive i.revs id | _ => "")
  | none => if WF i → GcClosed (specPrev i) (dels ws) then "ok" else "bad gc-gap"

end Pko.Model.ArchiveSpec
