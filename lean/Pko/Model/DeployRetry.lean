/-
Refined model of `DeploymentReconciler.Reconcile` (property C16): the ObjectDeployment as the API
server stores it — resourceVersion, template, annotations, labels —, the API server's optimistic
locking, third-party writes interleaved with the reconciler's calls, and the
`retry.RetryOnConflict(retry.DefaultRetry, func() error { … })` loop around the Update:

    merge annotations (+ change cause) and labels of desired into actual, set the template,
    Update; on 409 Conflict: Get the latest object INTO `actualDeploy` (overwriting everything that
    was assigned to it before, as a real client does) and run the closure again — at most
    `retry.DefaultRetry.Steps` = 5 times.

Go ↔ model
* `internal/packages/internal/packagedeploy/deployment_reconciler.go`
    closure body before `r.client.Update`      ↦ `prepare`
    `getChangeCause`                           ↦ `changeCause`
    `retry.RetryOnConflict` + closure          ↦ `retryLoop`
    `DeploymentReconciler.Reconcile`           ↦ `reconcileObj`
* k8s.io/apimachinery `labels.Merge`           ↦ `merge`
* API server (harness/C16/shared `Client`): Update with optimistic locking ↦ `srvUpdate`,
  a third-party write ↦ `tpWrite`.

`reconcileObj` is shown (Props.C16 `reconcileObj_refines`) to refine `Pko.Model.Deploy.reconcile`,
the coarse model the Package-controller model is built on.  Core Lean only.
-/
import Pko.Model.Deploy
namespace Pko.Model.DeployRetry
open Pko.Model.Deploy

/-- `labels.Merge(a, b)`: a copy of `a` overwritten by the entries of `b`
(association list, first entry of a key wins on lookup). -/
def merge (a b : KV) : KV := b ++ a

/-- The ObjectDeployment as stored / held in memory. `tpl = none` is the empty template of the
pre-create. -/
structure Obj (T : Type) where
  rv : Nat
  tpl : Option T
  ann : KV
  lab : KV
  deriving DecidableEq, Repr

/-- Keys of the abstract vocabulary (see `verifc16.KVID`): package-source-image, package-config,
change-cause annotations. -/
def kImg : String := "img"
def kCfg : String := "cfg"
def kCause : String := "cc"

/-- `getChangeCause(actual, desired)` over the annotations. -/
def changeCause (actual desired : KV) : String :=
  let img := mget actual kImg != mget desired kImg
  let cfg := mget actual kCfg != mget desired kCfg
  if img && cfg then "img+cfg"
  else if img then "img"
  else if cfg then "cfg"
  else mget actual kCause   -- retain old message

/-- The closure body up to the Update: what is sent to the API server given the in-memory
`actual` object (annotations merged + change cause, labels merged, template set). -/
def prepare {T : Type} (t : T) (desired actual : Obj T) : Obj T :=
  { actual with
    ann := (kCause, changeCause actual.ann desired.ann) :: merge actual.ann desired.ann
    lab := merge actual.lab desired.lab
    tpl := some t }

/-- A third party writes the stored object: one more annotation and label, new resourceVersion. -/
def tpWrite {T : Type} (s : Obj T) (key : String) : Obj T :=
  { s with rv := s.rv + 1, ann := (key, "x") :: s.ann, lab := (key, "x") :: s.lab }

/-- All third-party writes of one gap between two calls of the reconciler. -/
def tpWrites {T : Type} (s : Obj T) (keys : List String) : Obj T := keys.foldl tpWrite s

/-- Update with optimistic locking: refused (`none` = 409 Conflict, nothing stored) unless the
request is based on the stored resourceVersion. -/
def srvUpdate {T : Type} (srv o : Obj T) : Option (Obj T) :=
  if o.rv = srv.rv then some { o with rv := srv.rv + 1 } else none

structure LoopRes (T : Type) where
  srv : Obj T
  writes : List Write
  err : Bool
  deriving DecidableEq, Repr

/-- `retry.RetryOnConflict`: `steps` attempts left; `ws` = for each coming attempt the keys third
parties write between the reconciler's last read and that Update; `aliased` = `actualDeploy` IS
`desiredDeploy` (the branch that pre-created the object), so the re-Get also replaces what is
merged in; `actual` = the in-memory object, `srv` = the stored one. -/
def retryLoop {T : Type} (t : T) (aliased : Bool) (desired : Obj T) :
    Nat → List (List String) → Obj T → Obj T → LoopRes T
  | 0, _, _, srv => ⟨srv, [], true⟩
  | k + 1, ws, actual, srv =>
    let srv1 := tpWrites srv (ws.headD [])
    let a1 := prepare t (if aliased then actual else desired) actual
    match srvUpdate srv1 a1 with
    | some s' => ⟨s', [.update], false⟩
    | none =>
      -- IsConflict: r.client.Get(ctx, key, actualDeploy.ClientObject()) overwrites the object
      let r := retryLoop t aliased desired k ws.tail srv1 srv1
      ⟨r.srv, .updateConflict :: r.writes, r.err⟩

/-- Server state after the third-party writes of the first gaps. -/
def afterGaps {T : Type} (s : Obj T) (ws : List (List String)) : Obj T := ws.foldl tpWrites s

/-- What ends up stored when the closure runs on the in-memory copy `latest` of the stored object
and the Update is accepted. -/
def storedFrom {T : Type} (t : T) (aliased : Bool) (desired latest : Obj T) : Obj T :=
  { prepare t (if aliased then latest else desired) latest with rv := latest.rv + 1 }

structure RecRes (T : Type) where
  srv : Option (Obj T)
  writes : List Write
  err : Bool
  deriving DecidableEq, Repr

/-- The interleaving a fault `conflict n` stands for: one third-party write (key `key i`) before
each of the first `n` Updates. -/
def gapsOf (key : Nat → String) (f : RFault) : List (List String) :=
  (List.range f.conflicts).map fun i => [key i]

/-- `DeploymentReconciler.Reconcile` (NoOp chunker) on the refined state. `desired` carries the
annotations / labels of `desiredObjectDeployment`; its `rv`/`tpl` are not used. -/
def reconcileObj {T : Type} (t : T) (desired : Obj T) (srv : Option (Obj T)) (f : RFault)
    (key : Nat → String) : RecRes T :=
  if f = .get then ⟨srv, [], true⟩
  else match srv with
    | none =>
      if f = .create then ⟨none, [.createFail], true⟩
      else
        -- desiredDeploy.SetTemplateSpec({}); Create; actualDeploy = desiredDeploy
        let created : Obj T := { desired with tpl := none, rv := 1 }
        if f = .update then ⟨some created, [.create, .updateFail], true⟩
        else
          let r := retryLoop t true created retrySteps (gapsOf key f) created created
          ⟨some r.srv, .create :: r.writes, r.err || f = .late⟩
    | some s =>
      if f = .update then ⟨some s, [.updateFail], true⟩
      else
        let r := retryLoop t false desired retrySteps (gapsOf key f) s s
        ⟨some r.srv, r.writes, r.err || f = .late⟩

/-- Forget resourceVersion and metadata. -/
def absOD {T : Type} (s : Option (Obj T)) : OD T := s.map (·.tpl)

/-- `Deploy` on the refined state: the decision logic is the one of `deploy`; the stored object
is what `reconcileObj` leaves when the deployment reconciler is reached. -/
def deployObj {T : Type} (t : T) (desired : Obj T) (L : Leaves) (f : RFault) (inv : Inv)
    (srv : Option (Obj T)) (key : Nat → String) : DRes T × Option (Obj T) :=
  let d := deploy t L f inv (absOD srv)
  (d, if d.reconciled then (reconcileObj t desired srv f key).srv else srv)

end Pko.Model.DeployRetry
