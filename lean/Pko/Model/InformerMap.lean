/-
Model of `internal/dynamiccache/informer_map.go` (`InformerMap.Get/Delete/addInformerToMap`)
and its composition with `Cache` (`internal/dynamiccache/cache.go`).  Core Lean only.

`Pko.Model.Cache` abstracts the informer map to `infs : Kind → Option Bool`.  Here the informer
map is modelled itself, with the informers it *started* kept forever (stopped or not), so that
"an informer that was once started keeps running although nobody owns the kind" is expressible.

Go ↔ model (informer_map.go):
* `informers map[GVK]mapEntry`                    ↦ `IM.map  : Kind → Option Nat`
* every `go e.Informer.Run(e.StopCh)` ever issued ↦ `IM.infs : Nat → Option Inf` (ids = start order,
  `next` = number of informers started so far); `Inf.stopped` = `close(e.StopCh)` happened,
  `Inf.synced` = `Informer.HasSynced()` (monotone).
* `InformerMap.Get`: entry found → (if not yet synced: wait; on timeout return an error, the entry
  STAYS in the map and keeps running) ; not found → `addInformerToMap`:
  `createListWatch`/`RESTMapping` fail (`Fail.get`) → error, nothing created, nothing started;
  otherwise entry stored + informer started, then wait for sync; on timeout (`Fail.sync`) an error
  is returned and the entry STAYS in the map with its informer running.
* `InformerMap.Delete`: entry absent → nothing; else `close(StopCh)` + `delete(informers, gvk)`.
* Contexts: `Get(ctx, …)` uses the caller's `ctx` ONLY to bound the wait for the first sync (`Fail.sync`);
  `addInformerToMap(_ context.Context, …)` ignores it: the informer runs until `StopCh` is closed and
  its LIST/WATCH requests are issued under `context.Background()` (`createListWatch(context.Background(), gvk)`).
  The lifetime of call contexts and the context captured by each informer are modelled in the layer
  `Pko.Model.InformerLive` on top of this model (`Pko.Props.C12Live`: an informer in the map is live).
-/
import Pko.Model.Cache
namespace Pko.Model.InformerMap
open Pko.Model.Cache (Kind Owner Fail Res insertOwner rest)

/-- informer ids are plain naturals (start order) -/
abbrev InfId := Nat

/-- One informer that was started at some point. -/
structure Inf where
  kind : Kind
  stopped : Bool
  synced : Bool
  deriving DecidableEq, Repr, Inhabited

structure IM where
  map : Kind → Option Nat
  infs : Nat → Option Inf
  next : Nat

def IM.init : IM := { map := fun _ => none, infs := fun _ => none, next := 0 }

def IM.setInf (m : IM) (id : Nat) (v : Inf) : IM :=
  { m with infs := fun i => if i = id then some v else m.infs i }

/-- `HasSynced()` turned true for informer `id`. -/
def IM.markSynced (m : IM) (id : Nat) : IM :=
  { m with infs := fun i => if i = id then (m.infs i).map (fun x => { x with synced := true }) else m.infs i }

def IM.isSynced (m : IM) (id : Nat) : Bool :=
  match m.infs id with | some x => x.synced | none => false

/-- `addInformerToMap` after the REST mapping succeeded: store the entry and start the informer. -/
def IM.start (m : IM) (k : Kind) : IM :=
  { map := fun k' => if k' = k then some m.next else m.map k'
    infs := fun i => if i = m.next then some { kind := k, stopped := false, synced := false } else m.infs i
    next := m.next + 1 }

/-- `InformerMap.Get`.  Result `some id` = informer `id` returned (synced); `none` = error. -/
def IM.get (m : IM) (k : Kind) (f : Fail) : IM × Option Nat :=
  match m.map k with
  | some id =>
    if m.isSynced id then (m, some id)
    else if f = .sync then (m, none)              -- timeout waiting for sync; entry stays
    else (m.markSynced id, some id)
  | none =>
    if f = .get then (m, none)                    -- no REST mapping: nothing created
    else
      let m' := m.start k
      if f = .sync then (m', none)                -- started, then timeout; entry stays, informer runs
      else (m'.markSynced m.next, some m.next)

/-- `InformerMap.Delete`. -/
def IM.delete (m : IM) (k : Kind) : IM :=
  match m.map k with
  | none => m
  | some id =>
    { m with
      map := fun k' => if k' = k then none else m.map k'
      infs := fun i => if i = id then (m.infs i).map (fun x => { x with stopped := true }) else m.infs i }

/-! ### Composition: the real `Cache` on top of the real `InformerMap` -/

structure State where
  refs : Kind → Option (List Owner)
  im : IM
  handlers : Nat → Bool      -- `cacheSource.handleNewInformer` attached the controller handlers

def init : State := { refs := fun _ => none, im := IM.init, handlers := fun _ => false }

def setRefs (s : State) (k : Kind) (v : Option (List Owner)) : State :=
  { s with refs := fun k' => if k' = k then v else s.refs k' }

/-- `Cache.Watch` over the modelled informer map (cache.go, `Watch`). -/
def watch (s : State) (o : Owner) (k : Kind) (f : Fail) : State × Res :=
  match s.refs k with
  | some os => (setRefs s k (some (insertOwner o os)), .ok)
  | none =>
    match s.im.get k f with
    | (im', none) => ({ s with im := im'.delete k }, .err)        -- roll-back: informerMap.Delete
    | (im', some id) =>
      if f = .handler then ({ s with im := im'.delete k }, .err)  -- handleNewInformer failed → roll-back
      else ({ refs := fun k' => if k' = k then some [o] else s.refs k'
              im := im'
              handlers := fun i => if i = id then true else s.handlers i }, .ok)

/-- Kinds that lose their last owner when `o` is freed. -/
def dropped (s : State) (o : Owner) (k : Kind) : Bool :=
  match s.refs k with
  | some os => o ∈ os && (rest o os).isEmpty
  | none => false

/-- `Cache.Free`: `informerMap.Delete` for every kind whose owner set becomes empty (the Go code
ranges over a map; deletions of different kinds commute, so they are modelled at once). -/
def free (s : State) (o : Owner) : State :=
  { refs := fun k => match s.refs k with
      | some os => if o ∈ os then (match rest o os with | [] => none | os' => some os') else some os
      | none => none
    im :=
      { map := fun k => if dropped s o k then none else s.im.map k
        infs := fun i => match s.im.infs i with
          | some x => if dropped s o x.kind && s.im.map x.kind == some i then some { x with stopped := true } else some x
          | none => none
        next := s.im.next }
    handlers := s.handlers }

/-- `Cache.Get` / `Cache.List` over the modelled informer map. -/
def get (s : State) (k : Kind) (f : Fail) : State × Res :=
  match s.refs k with
  | none => (s, .notStarted)
  | some _ =>
    match s.im.get k f with
    | (im', none) => ({ s with im := im' }, .err)
    | (im', some _) => ({ s with im := im' }, .ok)

open Pko.Model.Cache (Op) in
def step (s : State) : Op → State × Res
  | .watch o k f => watch s o k f
  | .free o => (free s o, .ok)
  | .get k f => get s k f
  | .owners _ => (s, .ok)

open Pko.Model.Cache (Op) in
def run (s : State) (ops : List Op) : State := ops.foldl (fun s op => (step s op).1) s

def owners (s : State) (k : Kind) : List Owner := (s.refs k).getD []

/-- Informer `id` was started for kind `k` and its stop channel has not been closed. -/
def Running (s : State) (id : Nat) (k : Kind) : Prop :=
  ∃ x, s.im.infs id = some x ∧ x.kind = k ∧ x.stopped = false

/-- Executable form of `Running`. -/
def isRunning (s : State) (k : Kind) (id : Nat) : Bool :=
  match s.im.infs id with
  | some x => x.kind == k && !x.stopped
  | none => false

/-- Executable: ids of the informers of kind `k` that were started and not stopped. -/
def runningIds (s : State) (k : Kind) : List Nat :=
  (List.range s.im.next).filter (isRunning s k)

/-- Executable: number of informers ever started for kind `k` (= LIST calls issued by reflectors
that list exactly once). -/
def startedCount (s : State) (k : Kind) : Nat :=
  ((List.range s.im.next).filter fun id =>
    match s.im.infs id with
    | some x => x.kind == k
    | none => false).length

/-- Executable: number of informers of kind `k` that synced (their reflector got past LIST and
opened a WATCH stream). -/
def syncedCount (s : State) (k : Kind) : Nat :=
  ((List.range s.im.next).filter fun id =>
    match s.im.infs id with
    | some x => x.kind == k && x.synced
    | none => false).length

/-- Executable: number of informers of kind `k` that got the controller handlers attached. -/
def handlerCount (s : State) (k : Kind) : Nat :=
  ((List.range s.im.next).filter fun id =>
    match s.im.infs id with
    | some x => x.kind == k && s.handlers id
    | none => false).length

end Pko.Model.InformerMap
