/-
Specification side of property C11 for ObjectTemplates, written from the property's sentences and
NOT from the Go control flow:

  "No object … is created or patched unless [it] passed preflight — its API exists, it carries no
   ownerReferences of its own, it satisfies the namespace rule … ObjectTemplates never create,
   modify or delete cluster-scoped objects or objects in another namespace."

The object an ObjectTemplate writes is the template RENDERED with the values its sources hold at the
time of the pass; kind, namespace and ownerReferences of that object are template output.  So the
verdict that licenses the write of a pass is the verdict on the object rendered in THAT pass:

* `checkLiveNs` – one pass over a live ObjectTemplate, judged from outside (`Obs`): every write
  stays inside the template's namespace (`bounded`); and unless the object rendered from the CURRENT
  sources and environment is admissible, no create / update leaves the process, no payload changes,
  and an inadmissible rendering is reported through `Invalid` (reason SourceError);
* `checkPassNs` – the same for any pass (a pass over a deleting / vanished template only has to
  stay in bounds).

`Pko.Props.C11Tmpl` proves that the model's passes satisfy `checkPassNs` in every world — whatever
happened before (there is no state a verdict could be remembered in).
-/
import Pko.Model.TemplateSpec

namespace Pko.Model.TemplateNsSpec
open Pko.Model.Template Pko.Model.TemplateSpec

/-- What the current sources and environment make of the template. -/
inductive Rendering where
  | none                       -- no manifest: source error, template error, not a manifest
  | inadmissible (r : Rendered)
  | admissible (r : Rendered)
  deriving Repr, Inhabited

def renderingOf {T : Type} (L : Leaves T) (spec : Spec T) (objs : Objs) (env : String) : Rendering :=
  match specGather L spec objs spec.sources [] false with
  | .srcErr _ => .none
  | .ok cfg _ =>
    match L.render spec.template cfg env with
    | .ok r => if admissible L.scope spec.ns r.kind r.ns r.hasOwner then .admissible r else .inadmissible r
    | _ => .none

def checkLiveNs {T : Type} (L : Leaves T) (spec : Spec T) (keys : List Key)
    (objs : Objs) (env : String) (obs : Obs) : Bool :=
  bounded L spec obs &&
  match renderingOf L spec objs env with
  | .none => untouched keys objs obs
  | .inadmissible _ => decide (obs.invalid = .source) && untouched keys objs obs
  | .admissible _ => true

def checkPassNs {T : Type} (L : Leaves T) (spec : Spec T) (keys : List Key) (w : World) (obs : Obs) : Bool :=
  bounded L spec obs &&
  match w.tmpl with
  | none => true
  | some t => if t.deleting then true else checkLiveNs L spec keys w.objs w.env obs

end Pko.Model.TemplateNsSpec
