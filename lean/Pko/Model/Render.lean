/-
Model of the package rendering pipeline (property C13), core Lean only.

Mirrors, function by function,
  internal/packages/internal/packagerender/template.go   RenderTemplates  (WITH the C13-a fix: rendered
        files are collected in a separate map and merged into pkg.Files after the loop)
  internal/packages/internal/packagerender/objects.go    RenderObjects, parseObjects, commonLabels,
        filterWithCEL, filterWithCELAnnotation, computeIgnoredPaths, isExcluded, RenderObjectsWithFilter
  internal/packages/internal/packagevalidation/objectvalidation.go  DefaultObjectValidators (failure status)
  internal/packages/internal/packagerender/objectsettemplate.go     newPhaseCollector, AddObjects, Collect
  internal/packages/internal/packagerender/instance.go   RenderPackageInstance

What is modelled is the STRUCTURE: which files are visited, skipped, overwritten, filtered, in which
order things are concatenated and collected.  The leaves are data attached to the input by the Go
side (`harness/C13` computes them with the real leaf functions):
  * text/template + sprig + getFile/getFileGlob + cel:   `File.tmplParses`, `File.tmplExecs`, `File.out`
    (result of executing the template against the ORIGINAL files)
  * YAML document splitting / unmarshalling:              `Docs` (`File.own`, `File.out`)
  * CEL evaluation:                                       `Pkg.celCtxOk`, `CPath.res`, `Obj.cel`
  * doublestar glob matching:                             `Pkg.globs`
  * per-object validators (GVK, labels) and the key of the duplicate validator: `Obj.valid`, `Obj.key`

A Go `map` is an association list with distinct keys; `m[k] = v` is `mapSet` (drop the old entry, add
the new one - the position is irrelevant because:) every `for k, v := range m` iterates over
`σ n _ m`, an ARBITRARY permutation chosen by the iteration-order oracle `σ` for loop number `n`.
-/
namespace Pko.Model.Render

/-- File paths are lists of characters (so that suffix / sort-key reasoning is plain list reasoning). -/
abbrev Path := List Char
/-- `map[string]string` (labels, annotations). -/
abbrev KV := List (String × String)
/-- A Go map with keys `κ`. -/
abbrev GoMap (κ β : Type) := List (κ × β)

/-- Error classes of the pipeline, one per stage (the harness maps Go errors to the same classes). -/
inductive Err where
  | celctx | tmplparse | tmplexec | yaml | validate | condpath | filter
  deriving DecidableEq, Repr, Inhabited

/-! ## Leaves -/

/-- One YAML document as read by `yaml.Unmarshal` into `unstructured.Unstructured`. -/
structure Obj where
  id : Int          -- identity given by the Go side (fingerprint of the content without labels/annotations)
  empty : Bool      -- `len(obj.Object) == 0`
  labels : KV
  anns : KV
  cel : Nat         -- leaf: evaluation of the condition annotation: 0 n/a, 1 true, 2 false, 3 error
  valid : Bool      -- leaf: ObjectGVKValidator and ObjectLabelsValidator accept it
  key : String      -- leaf: "<GroupKind> <namespace>/<name>" of ObjectDuplicateValidator
  deriving DecidableEq, Repr, Inhabited

/-- YAML reading of one file's bytes: all documents, or not valid YAML. -/
structure Docs where
  ok : Bool
  objs : List Obj
  deriving DecidableEq, Repr, Inhabited

/-- One entry of `pkg.Files` with the leaf results that depend only on this file and the ORIGINAL files. -/
structure File where
  path : Path
  tmplParses : Bool   -- `templ.New(path).Parse(content)` succeeds
  tmplExecs : Bool    -- `templ.ExecuteTemplate(path)` succeeds
  own : Docs          -- YAML reading of the file's own bytes
  out : Docs          -- YAML reading of the template output
  deriving Repr, Inhabited

/-- `spec.filters.paths[i]`: glob + leaf result of its CEL expression (0 false, 1 true, 2 error). -/
structure CPath where
  res : Nat
  deriving Repr, Inhabited

structure Pkg where
  name : String                    -- manifest.Name
  inst : String                    -- tmplCtx.Package.Name
  phases : List String             -- manifest.Spec.Phases[*].Name
  celCtxOk : Bool                  -- leaf: celctx.New(conditions, tmplCtx) succeeds
  cpaths : List CPath
  globs : GoMap Path (List Nat)    -- leaf: path ↦ doublestar.PathMatch per conditional path (0 no, 1 yes, 2 error)
  validate : Bool                  -- DefaultObjectValidators (true) or nil (false)
  files : List File                -- pkg.Files
  deriving Repr, Inhabited

/-- Object as it ends up in the ObjectSetTemplateSpec. -/
structure OutObj where
  id : Int
  labels : KV
  anns : Option KV      -- `none` = nil map
  deriving DecidableEq, Repr, Inhabited

structure Phase where
  name : String
  objs : List OutObj
  deriving DecidableEq, Repr, Inhabited

/-! ## Go maps and range loops -/

/-- `m[k] = v`. -/
def mapSet {κ β : Type} [BEq κ] (m : GoMap κ β) (k : κ) (v : β) : GoMap κ β :=
  m.filter (fun e => !(e.1 == k)) ++ [(k, v)]

/-- `delete(m, k)`. -/
def mapDel {κ β : Type} [BEq κ] (m : GoMap κ β) (k : κ) : GoMap κ β :=
  m.filter (fun e => !(e.1 == k))

/-- What one iteration of a range loop does to the map being built / mutated. -/
inductive Upd (κ β : Type) where
  | set (k : κ) (v : β)
  | del (k : κ)
  | skip

def Upd.apply {κ β : Type} [BEq κ] (m : GoMap κ β) : Upd κ β → GoMap κ β
  | .set k v => mapSet m k v
  | .del k => mapDel m k
  | .skip => m

/-- `for _, a := range l { u, err := step(a); if err != nil { return err }; apply u to m }`. -/
def rangeLoop {α κ β : Type} [BEq κ] (step : α → Except Err (Upd κ β)) :
    List α → GoMap κ β → Except Err (GoMap κ β)
  | [], m => .ok m
  | a :: r, m =>
    match step a with
    | .error e => .error e
    | .ok u => rangeLoop step r (u.apply m)

/-- Iteration-order oracle: loop number ↦ the order in which a map's entries are visited. -/
def Oracle := Nat → (α : Type) → List α → List α

/-- The oracle only permutes. -/
def Oracle.Valid (σ : Oracle) : Prop := ∀ n α (l : List α), (σ n α l).Perm l

def Oracle.ident : Oracle := fun _ _ l => l

/-! ## Path predicates (packagetypes/files.go, filepath.Base / filepath.Ext) -/

def tmplSuffix : List Char := ['.', 'g', 'o', 't', 'm', 'p', 'l']

/-- `packagetypes.IsTemplateFile`. -/
def isTemplate (p : Path) : Bool := tmplSuffix.isSuffixOf p

/-- `packagetypes.StripTemplateSuffix`. -/
def stripSuffix (p : Path) : Path :=
  if isTemplate p then p.take (p.length - tmplSuffix.length) else p

/-- `filepath.Base` (paths in a package have no trailing slash). -/
def baseName (p : Path) : Path := (p.reverse.takeWhile (fun c => c != '/')).reverse

/-- `strings.HasPrefix(filepath.Base(path), "_")`. -/
def isHelper (p : Path) : Bool :=
  match baseName p with
  | c :: _ => c == '_'
  | [] => false

/-- `packagetypes.IsYAMLFile`: `filepath.Ext(path)` is `.yml` or `.yaml`. -/
def isYAML (p : Path) : Bool :=
  ['.', 'y', 'a', 'm', 'l'].isSuffixOf p || ['.', 'y', 'm', 'l'].isSuffixOf p

/-! ## RenderTemplates (template.go, fixed) -/

/-- first loop: `templ.New(path).Parse(content)` for every template file. -/
def parseStep (f : File) : Except Err (Upd Path Docs) :=
  if isTemplate f.path && !f.tmplParses then .error .tmplparse else .ok .skip

/-- second loop: execute every template, `rendered[StripTemplateSuffix(path)] = buf.Bytes()`. -/
def execStep (f : File) : Except Err (Upd Path Docs) :=
  if !isTemplate f.path then .ok .skip
  else if !f.tmplExecs then .error .tmplexec
  else .ok (.set (stripSuffix f.path) f.out)

/-- third loop (the fix): `pkg.Files[path] = content` for every rendered file. -/
def mergeStep (e : Path × Docs) : Except Err (Upd Path Docs) := .ok (.set e.1 e.2)

/-- `pkg.Files` as a map path ↦ (YAML reading of the) content. -/
def fileMap (files : List File) : GoMap Path Docs := files.map fun f => (f.path, f.own)

def renderTemplates (σ : Oracle) (celCtxOk : Bool) (files : List File) : Except Err (GoMap Path Docs) :=
  -- celTemplateFunction: celctx.New
  if !celCtxOk then .error .celctx else
  match rangeLoop parseStep (σ 0 _ files) ([] : GoMap Path Docs) with
  | .error e => .error e
  | .ok _ =>
    match rangeLoop execStep (σ 1 _ files) ([] : GoMap Path Docs) with
    | .error e => .error e
    | .ok rendered => rangeLoop mergeStep (σ 2 _ rendered) (fileMap files)

/-! ## RenderObjects (objects.go) -/

def pkgLabel : String := "package-operator.run/package"
def instLabel : String := "package-operator.run/instance"

/-- `commonLabels`. -/
def commonLabels (name inst : String) : KV := [(pkgLabel, name), (instLabel, inst)]

/-- `labels.Merge(a, b)`: `b` wins. -/
def mergeLabels (a b : KV) : KV := a.filter (fun kv => !(b.any fun kv' => kv'.1 == kv.1)) ++ b

/-- `parseObjects`: invalid YAML fails; empty documents are dropped; package labels are merged in. -/
def parseObjects (name inst : String) (d : Docs) : Except Err (List Obj) :=
  if !d.ok then .error .yaml
  else .ok ((d.objs.filter fun o => !o.empty).map fun o =>
    { o with labels := mergeLabels o.labels (commonLabels name inst) })

/-- loop body of `RenderObjects`. -/
def objectsStep (name inst : String) (e : Path × Docs) : Except Err (Upd Path (List Obj)) :=
  if isHelper e.1 then .ok .skip            -- skip template helper files
  else if !isYAML e.1 then .ok .skip        -- skip non YAML files
  else match parseObjects name inst e.2 with
    | .error err => .error err
    | .ok objs => if objs.length != 0 then .ok (.set e.1 objs) else .ok .skip

def phaseAnn : String := "package-operator.run/phase"
def condMapAnn : String := "package-operator.run/condition-map"
def collisionAnn : String := "package-operator.run/collision-protection"
def celAnn : String := "package-operator.run/condition"

/-- `annotations[PackagePhaseAnnotation]` ("" when absent). -/
def phaseOf (o : Obj) : String := (o.anns.lookup phaseAnn).getD ""

def allObjs (po : GoMap Path (List Obj)) : List Obj := (po.map fun e => e.2).flatten

/-- `DefaultObjectValidators` accept the objects: every validator visits every object and all errors
are joined, so only the failure status is modelled.  GVK/labels are leaves; the phase-annotation
validator is modelled (non-empty and named in the manifest); duplicates by key. -/
def validateObjects (phases : List String) (po : GoMap Path (List Obj)) : Bool :=
  (allObjs po).all (fun o => o.valid && (phaseOf o != "" && phases.contains (phaseOf o)))
    && decide ((allObjs po).map fun o => o.key).Nodup

def renderObjects (σ : Oracle) (pkg : Pkg) (fm : GoMap Path Docs) : Except Err (GoMap Path (List Obj)) :=
  match rangeLoop (objectsStep pkg.name pkg.inst) (σ 3 _ fm) ([] : GoMap Path (List Obj)) with
  | .error e => .error e
  | .ok po => if pkg.validate && !validateObjects pkg.phases po then .error .validate else .ok po

/-! ## filterWithCEL (objects.go) -/

/-- `computeIgnoredPaths`: indices of the conditional paths whose expression is false. -/
def computeIgnoredPaths : List (Nat × CPath) → Except Err (List Nat)
  | [] => .ok []
  | (i, cp) :: r =>
    if cp.res == 2 then .error .condpath
    else match computeIgnoredPaths r with
      | .error e => .error e
      | .ok rest => .ok (if cp.res == 0 then i :: rest else rest)

def withIdx {α : Type} : Nat → List α → List (Nat × α)
  | _, [] => []
  | n, a :: r => (n, a) :: withIdx (n + 1) r

/-- `isExcluded`: first glob (of the ignored ones, in order) that errors or matches decides. -/
def isExcluded (row : List Nat) : List Nat → Except Err Bool
  | [] => .ok false
  | i :: r =>
    match row.getD i 0 with
    | 2 => .error .filter
    | 1 => .ok true
    | _ => isExcluded row r

def hasAnn (o : Obj) (k : String) : Bool := o.anns.any fun kv => kv.1 == k

/-- `filterWithCELAnnotation`. -/
def filterAnn : List Obj → Except Err (List Obj)
  | [] => .ok []
  | o :: r =>
    if !hasAnn o celAnn then
      match filterAnn r with | .error e => .error e | .ok f => .ok (o :: f)
    else match o.cel with
      | 1 => (match filterAnn r with | .error e => .error e | .ok f => .ok (o :: f))
      | 2 => filterAnn r
      | _ => .error .filter

def rowOf (globs : GoMap Path (List Nat)) (p : Path) : List Nat := (globs.lookup p).getD []

/-- loop body of `filterWithCEL`. -/
def filterStep (globs : GoMap Path (List Nat)) (excl : List Nat) (e : Path × List Obj) :
    Except Err (Upd Path (List Obj)) :=
  match isExcluded (rowOf globs e.1) excl with
  | .error err => .error err
  | .ok true => .ok (.del e.1)
  | .ok false =>
    match filterAnn e.2 with
    | .error err => .error err
    | .ok f => .ok (.set e.1 f)

def filterWithCEL (σ : Oracle) (pkg : Pkg) (po : GoMap Path (List Obj)) : Except Err (GoMap Path (List Obj)) :=
  if !pkg.celCtxOk then .error .celctx else
  match computeIgnoredPaths (withIdx 0 pkg.cpaths) with
  | .error e => .error e
  | .ok excl => rangeLoop (filterStep pkg.globs excl) (σ 4 _ po) po   -- mutates the map it ranges over

/-! ## RenderObjectsWithFilter: path sort and concatenation -/

/-- `strings.ReplaceAll(path, "/", "\x00")` as a list of code points. -/
def sortKey (p : Path) : List Nat := p.map fun c => if c = '/' then 0 else c.toNat

/-- lexicographic `≤` on code points (Go string comparison). -/
def lexLe : List Nat → List Nat → Bool
  | [], _ => true
  | _ :: _, [] => false
  | a :: r, b :: s => a < b || (a == b && lexLe r s)

def pathLe (p q : Path) : Bool := lexLe (sortKey p) (sortKey q)

/-- Paths are map keys, hence distinct: `sort.Slice` with `<` on the keys and a merge sort with `≤`
give the same, unique, ascending list. -/
def sortedPaths (σ : Oracle) (po : GoMap Path (List Obj)) : List Path :=
  ((σ 5 _ po).map fun e => e.1).mergeSort pathLe

def concatObjects (po : GoMap Path (List Obj)) (paths : List Path) : List Obj :=
  (paths.map fun p => (po.lookup p).getD []).flatten

def renderObjectsWithFilter (σ : Oracle) (pkg : Pkg) (fm : GoMap Path Docs) : Except Err (List Obj) :=
  match renderObjects σ pkg fm with
  | .error e => .error e
  | .ok po =>
    match filterWithCEL σ pkg po with
    | .error e => .error e
    | .ok po' => .ok (concatObjects po' (sortedPaths σ po'))

/-! ## Phase collector (objectsettemplate.go) -/

def ctrlAnns : List String := [phaseAnn, condMapAnn, collisionAnn, celAnn]

/-- `AddObjects` per object: delete the four control annotations, nil for an empty map. -/
def finalize (o : Obj) : OutObj :=
  let anns := o.anns.filter fun kv => !(ctrlAnns.contains kv.1)
  { id := o.id, labels := o.labels, anns := if anns.length == 0 then none else some anns }

abbrev Collector := GoMap String (Nat × List OutObj)

/-- `newPhaseCollector`: `collector[phase.Name] = {Index: idx}` in manifest order. -/
def newPhaseCollector (phases : List String) : Collector :=
  (withIdx 0 phases).foldl (fun c e => mapSet c e.2 (e.1, [])) []

/-- `addObjects`: append to the entry of the phase; objects of an unknown phase are silently dropped. -/
def addObject (c : Collector) (o : Obj) : Collector :=
  if c.any (fun e => e.1 == phaseOf o) then
    c.map fun e => if e.1 == phaseOf o then (e.1, (e.2.1, e.2.2 ++ [finalize o])) else e
  else c

/-- `Collect`: drop empty phases, sort by manifest index. -/
def collect (σ : Oracle) (c : Collector) : List Phase :=
  let entries := (σ 6 _ c).filter fun e => e.2.2.length != 0
  (entries.mergeSort fun a b => decide (a.2.1 ≤ b.2.1)).map fun e => { name := e.1, objs := e.2.2 }

/-- `RenderObjectSetTemplateSpec` (phases only). -/
def renderObjectSetTemplateSpec (σ : Oracle) (phases : List String) (objs : List Obj) : List Phase :=
  collect σ (objs.foldl addObject (newPhaseCollector phases))

/-! ## RenderPackageInstance + RenderObjectSetTemplateSpec -/

def render (σ : Oracle) (pkg : Pkg) : Except Err (List Phase) :=
  match renderTemplates σ pkg.celCtxOk pkg.files with
  | .error e => .error e
  | .ok fm =>
    match renderObjectsWithFilter σ pkg fm with
    | .error e => .error e
    | .ok objs => .ok (renderObjectSetTemplateSpec σ pkg.phases objs)

end Pko.Model.Render
