/-
Property C13 — Package rendering is deterministic and loses or duplicates no object.

Theorems are about `Pko.Model.Render` (the model of RenderPackageInstance + RenderObjectSetTemplateSpec
WITH the C13-a fix: rendered files are merged into pkg.Files after all templates ran) and
`Pko.Model.RenderSpec` (the specification written from the property's sentence).  They hold for every
package (any number of files, documents, phases, conditional paths), every outcome of the leaves
(template execution, YAML, CEL, globs, validators: arbitrary data attached to the input) and EVERY
iteration order of every Go map range in the pipeline (`σ : Oracle`, one arbitrary permutation per loop).

Hypotheses the proofs force (`WellFormed`), all true of real packages:
  * file paths are distinct                      (pkg.Files is a Go map),
  * no file path contains a NUL character        (the path sort replaces `/` by NUL: with a NUL in a
                                                  path two different paths could compare equal and
                                                  `sort.Slice`, which is not stable, could order them either way),
  * phase names are unique                       (rejected otherwise by manifest validation,
                                                  packagemanifestvalidation/manifest.go "must be unique").
Assumptions about the leaves, recorded in checks/C13.json: a template's output is a function of
its path and the ORIGINAL files/context (true after the C13-a fix when template names are defined at
most once; the allowed sprig functions are argued pure from `allowlist_pure` /
`allowlist_order_stable`, not proved).
-/
import Pko.Model.Render
import Pko.Model.RenderSpec
import Pko.Lemmas.C13Main
import Pko.Lemmas.C13Conserve
import Pko.Gen.SprigAllow
import Pko.Drv.C13

namespace Pko.Props.C13
open Pko.Model.Render Pko.Model.RenderSpec Pko.Lemmas.C13 List

/-! ## Determinism -/

/-- The pipeline computes exactly the specified result — the same `Except` value, i.e. the same
failure status, the same error class and the same phases — whatever the order of the file list and
whatever order each of the seven map ranges iterates in. -/
theorem render_eq_spec (σ : Oracle) (hσ : σ.Valid) (pkg : Pkg) (hw : WellFormed pkg)
    (files' : List File) (h : files' ~ pkg.files) :
    render σ { pkg with files := files' } = spec pkg :=
  Pko.Lemmas.C13.render_eq_spec σ hσ pkg hw files' h

/-- `render_perm_invariant`: for every two permutations of the file list and every two choices of
iteration orders the result AND the failure status are equal. -/
theorem render_perm_invariant (σ τ : Oracle) (hσ : σ.Valid) (hτ : τ.Valid) (pkg : Pkg) (hw : WellFormed pkg)
    (files₁ files₂ : List File) (h₁ : files₁ ~ pkg.files) (h₂ : files₂ ~ pkg.files) :
    render σ { pkg with files := files₁ } = render τ { pkg with files := files₂ } := by
  rw [render_eq_spec σ hσ pkg hw files₁ h₁, render_eq_spec τ hτ pkg hw files₂ h₂]

/-- the failure status alone, spelled out -/
theorem render_fails_iff (σ τ : Oracle) (hσ : σ.Valid) (hτ : τ.Valid) (pkg : Pkg) (hw : WellFormed pkg)
    (files₁ files₂ : List File) (h₁ : files₁ ~ pkg.files) (h₂ : files₂ ~ pkg.files) :
    (render σ { pkg with files := files₁ }).isOk = (render τ { pkg with files := files₂ }).isOk := by
  rw [render_perm_invariant σ τ hσ hτ pkg hw files₁ files₂ h₁ h₂]

/-- Rendering fails exactly in the specified situations. -/
theorem render_fails_iff_mustFail (σ : Oracle) (hσ : σ.Valid) (pkg : Pkg) (hw : WellFormed pkg) :
    (∃ e, render σ pkg = .error e) ↔ mustFail pkg ≠ none := by
  have : render σ pkg = spec pkg := render_eq_spec σ hσ pkg hw pkg.files (Perm.refl _)
  rw [this, spec]
  cases mustFail pkg <;> simp

/-! ## Hash -/

/-- `utils.ComputeFNV32Hash`: FNV of a deep print with sorted map keys — a hash function applied
to an injective printer of the template (collisions of `fnv` are outside the model). -/
structure Hasher where
  print : List Phase → String
  print_inj : ∀ a b, print a = print b → a = b
  fnv : String → UInt32

def Hasher.hash (H : Hasher) (t : List Phase) : UInt32 := H.fnv (H.print t)

theorem hash_eq_of_template_eq (H : Hasher) {t₁ t₂ : List Phase} (h : t₁ = t₂) : H.hash t₁ = H.hash t₂ := by
  rw [h]

/-- A changed hash (a new revision) implies a changed template. -/
theorem template_ne_of_hash_ne (H : Hasher) {t₁ t₂ : List Phase} (h : H.hash t₁ ≠ H.hash t₂) : t₁ ≠ t₂ :=
  fun e => h (hash_eq_of_template_eq H e)

/-- Repeated renders of an unchanged package have identical hashes. -/
theorem hash_stable (H : Hasher) (σ τ : Oracle) (hσ : σ.Valid) (hτ : τ.Valid) (pkg : Pkg) (hw : WellFormed pkg)
    (files₁ files₂ : List File) (h₁ : files₁ ~ pkg.files) (h₂ : files₂ ~ pkg.files) :
    (render σ { pkg with files := files₁ }).map H.hash = (render τ { pkg with files := files₂ }).map H.hash := by
  rw [render_perm_invariant σ τ hσ hτ pkg hw files₁ files₂ h₁ h₂]

/-! ## Conservation -/

/-- no control annotation survives; an object never carries an empty (non-nil) annotation map;
all other annotations are kept -/
theorem finalize_annotations (o : Obj) :
    (∀ kvs, (finalize o).anns = some kvs → kvs ≠ [] ∧ (∀ kv ∈ kvs, kv.1 ∉ ctrlAnns)
        ∧ kvs = o.anns.filter (fun kv => !(ctrlAnns.contains kv.1))) ∧
    ((finalize o).anns = none → ∀ kv ∈ o.anns, kv.1 ∈ ctrlAnns) := by
  constructor
  · intro kvs h
    simp only [finalize] at h
    split at h
    · simp at h
    · rename_i hl
      cases h
      refine ⟨?_, ?_, rfl⟩
      · intro hx; apply hl; rw [hx]; rfl
      · intro kv hkv
        have := (mem_filter.mp hkv).2
        simpa using this
  · intro h kv hkv
    simp only [finalize] at h
    split at h
    · rename_i hl
      have hnil : o.anns.filter (fun kv => !(ctrlAnns.contains kv.1)) = [] := by simpa using hl
      have := filter_eq_nil_iff.mp hnil kv hkv
      simpa using this
    · simp at h

/-- `labels.Merge(obj labels, commonLabels)`: both package labels are present with the package's values -/
theorem mergeLabels_common (l : KV) (name inst : String) :
    (mergeLabels l (commonLabels name inst)).lookup pkgLabel = some name ∧
    (mergeLabels l (commonLabels name inst)).lookup instLabel = some inst := by
  constructor
  · rw [mergeLabels, lookup_append_right]
    · simp [commonLabels]
    · intro e he
      have := (mem_filter.mp he).2
      simp only [commonLabels, any_cons, any_nil, Bool.or_false, Bool.not_eq_true', Bool.or_eq_false_iff] at this
      rw [Bool.eq_false_iff] at this ⊢
      intro hh; exact this.1 (by rw [beq_iff_eq] at hh ⊢; exact hh.symm)
  · rw [mergeLabels, lookup_append_right]
    · simp [commonLabels, lookup_cons, pkgLabel, instLabel]
    · intro e he
      have := (mem_filter.mp he).2
      simp only [commonLabels, any_cons, any_nil, Bool.or_false, Bool.not_eq_true', Bool.or_eq_false_iff] at this
      have h2 := this.2
      rw [Bool.eq_false_iff] at h2 ⊢
      intro hh; exact h2 (by rw [beq_iff_eq] at hh ⊢; exact hh.symm)

theorem survivors_labels {pkg : Pkg} {o : Obj} (h : o ∈ survivors pkg) :
    o.labels.lookup pkgLabel = some pkg.name ∧ o.labels.lookup instLabel = some pkg.inst := by
  obtain ⟨e, he, hoe, _⟩ := mem_survivors h
  simp only [parsed, mem_filterMap] at he
  obtain ⟨d, _, hd⟩ := he
  split at hd
  · simp at hd
    rw [← hd] at hoe
    simp only [objectsOf, mem_map] at hoe
    obtain ⟨o', _, ho'⟩ := hoe
    subst ho'
    exact mergeLabels_common _ _ _
  · simp at hd

/-- with validation on and no failure, the phase annotation of every survivor names a manifest phase -/
theorem survivors_phase_known {pkg : Pkg} (hv : pkg.validate = true) (hok : mustFail pkg = none)
    {o : Obj} (h : o ∈ survivors pkg) : phaseOf o ∈ pkg.phases := by
  obtain ⟨e, he, hoe, _⟩ := mem_survivors h
  have hval : validateObjects pkg.phases (parsed pkg) = true := by
    cases hvo : validateObjects pkg.phases (parsed pkg) with
    | true => rfl
    | false =>
      exfalso
      simp only [mustFail, hv, hvo] at hok
      split at hok
      · simp at hok
      split at hok
      · simp at hok
      split at hok
      · simp at hok
      split at hok
      · simp at hok
      simp at hok
  simp only [validateObjects, Bool.and_eq_true, all_eq_true] at hval
  have hall : o ∈ allObjs (parsed pkg) := by
    simp only [allObjs, mem_flatten, mem_map]
    exact ⟨e.2, ⟨e, he, rfl⟩, hoe⟩
  have := hval.1 o hall
  exact contains_iff_mem.mp this.2.2

/-- `collect_conserves`.  If rendering succeeds with phases `ps` then
 1. (nothing lost, nothing duplicated) the multiset of objects over all phases is the multiset of
    the surviving objects — those that passed the path and CEL filters — whose phase annotation names
    a manifest phase, finalised; with validation on these are ALL surviving objects;
 2. (right phase, stable order) every phase holds exactly the survivors that name it, in the
    survivors' path-then-document order;
 3. (manifest order) the phase names are a sublist of the manifest's phase list, none empty;
 4. control annotations are absent, annotation maps are nil rather than empty, other annotations kept;
 5. both package labels are present with the package's values. -/
theorem collect_conserves (σ : Oracle) (hσ : σ.Valid) (pkg : Pkg) (hw : WellFormed pkg)
    (files' : List File) (h : files' ~ pkg.files) (ps : List Phase)
    (hr : render σ { pkg with files := files' } = .ok ps) :
    ((ps.map fun p => p.objs).flatten
        ~ ((survivors pkg).filter fun o => pkg.phases.contains (phaseOf o)).map finalize) ∧
    (pkg.validate = true → (ps.map fun p => p.objs).flatten ~ (survivors pkg).map finalize) ∧
    (∀ p ∈ ps, p.objs = ((survivors pkg).filter fun o => phaseOf o == p.name).map finalize ∧ p.objs ≠ []) ∧
    ((ps.map fun p => p.name) <+ pkg.phases) ∧
    (∀ p ∈ ps, ∀ o ∈ p.objs, ∃ s ∈ survivors pkg, o = finalize s ∧ phaseOf s = p.name ∧
        (∀ kvs, o.anns = some kvs → kvs ≠ [] ∧ ∀ kv ∈ kvs, kv.1 ∉ ctrlAnns) ∧
        o.labels.lookup pkgLabel = some pkg.name ∧ o.labels.lookup instLabel = some pkg.inst) := by
  rw [render_eq_spec σ hσ pkg hw files' h, spec] at hr
  cases hf : mustFail pkg with
  | some e => simp [hf] at hr
  | none =>
    simp only [hf, Except.ok.injEq] at hr
    subst hr
    rw [specPhases_eq]
    have hgroups := groups_perm pkg.phases hw.phases_nodup (survivors pkg)
    have hmem : ∀ p ∈ specPhasesOf pkg.phases (survivors pkg),
        p.name ∈ pkg.phases ∧
        p.objs = ((survivors pkg).filter fun o => phaseOf o == p.name).map finalize ∧ p.objs ≠ [] := by
      intro p hp
      simp only [specPhasesOf, mem_filterMap] at hp
      obtain ⟨n, hn, hp⟩ := hp
      split at hp
      · rename_i hl
        simp at hp; subst hp
        exact ⟨hn, rfl, by simpa using hl⟩
      · simp at hp
    refine ⟨hgroups, ?_, fun p hp => (hmem p hp).2, ?_, ?_⟩
    · intro hv
      refine hgroups.trans ?_
      have : (survivors pkg).filter (fun o => pkg.phases.contains (phaseOf o)) = survivors pkg := by
        apply filter_eq_self.mpr
        intro o ho
        exact contains_iff_mem.mpr (survivors_phase_known hv hf ho)
      rw [this]
    · have : (specPhasesOf pkg.phases (survivors pkg)).map (fun p => p.name)
          = pkg.phases.filterMap fun n =>
              if (((survivors pkg).filter fun o => phaseOf o == n).map finalize).length != 0
              then some n else none := by
        simp only [specPhasesOf, map_filterMap]
        congr 1
        funext n
        split <;> simp_all
      rw [this]
      exact filterMap_sublist_self (fun n => (((survivors pkg).filter fun o => phaseOf o == n).map finalize).length != 0) _
    · intro p hp o ho
      rw [(hmem p hp).2.1] at ho
      obtain ⟨s, hs, hso⟩ := mem_map.mp ho
      have hs' := mem_filter.mp hs
      refine ⟨s, hs'.1, hso.symm, by simpa using hs'.2, ?_, ?_⟩
      · intro kvs hk
        rw [← hso] at hk
        have := (finalize_annotations s).1 kvs hk
        exact ⟨this.1, this.2.1⟩
      · rw [← hso]
        exact survivors_labels hs'.1

/-- `unknown_phase_only_fails`.  With validation on, an object that is READ from the package (whether
or not the path / CEL filters would keep it) and whose phase annotation — the raw string, white space
included — is not the name of a manifest phase makes rendering FAIL, for every iteration order; the
failure is the validation error unless an earlier stage (cel context, templates, YAML) fails first.
Such an object therefore never "silently disappears" from a successful render. -/
theorem unknown_phase_only_fails (σ : Oracle) (hσ : σ.Valid) (pkg : Pkg) (hw : WellFormed pkg)
    (files' : List File) (h : files' ~ pkg.files) (hv : pkg.validate = true)
    {o : Obj} (ho : o ∈ allObjs (parsed pkg)) (hp : phaseOf o ∉ pkg.phases) :
    ∃ e, render σ { pkg with files := files' } = .error e ∧
      (e = .validate ∨ e = .celctx ∨ e = .tmplparse ∨ e = .tmplexec ∨ e = .yaml) := by
  rw [render_eq_spec σ hσ pkg hw files' h, spec]
  have hval : validateObjects pkg.phases (parsed pkg) = false := by
    cases hvo : validateObjects pkg.phases (parsed pkg) with
    | false => rfl
    | true =>
      exfalso
      simp only [validateObjects, Bool.and_eq_true, all_eq_true] at hvo
      exact hp (contains_iff_mem.mp (hvo.1 o ho).2.2)
  have hm : ∃ e, mustFail pkg = some e ∧
      (e = .validate ∨ e = .celctx ∨ e = .tmplparse ∨ e = .tmplexec ∨ e = .yaml) := by
    simp only [mustFail, hv, hval]
    split
    · exact ⟨_, rfl, by simp⟩
    split
    · exact ⟨_, rfl, by simp⟩
    split
    · exact ⟨_, rfl, by simp⟩
    split
    · exact ⟨_, rfl, by simp⟩
    exact ⟨.validate, by simp, by simp⟩
  obtain ⟨e, he, hc⟩ := hm
  exact ⟨e, by simp [he], hc⟩

/-- Conservation under the validator precondition, spelled out per object: if rendering succeeds with
validation on, every object that passed the path and CEL filters sits in the phase whose name is
EXACTLY its phase annotation, and that phase is part of the result. -/
theorem validated_survivor_placed (σ : Oracle) (hσ : σ.Valid) (pkg : Pkg) (hw : WellFormed pkg)
    (files' : List File) (h : files' ~ pkg.files) (ps : List Phase)
    (hr : render σ { pkg with files := files' } = .ok ps) (hv : pkg.validate = true)
    {o : Obj} (ho : o ∈ survivors pkg) :
    ∃ p ∈ ps, p.name = phaseOf o ∧ finalize o ∈ p.objs := by
  rw [render_eq_spec σ hσ pkg hw files' h, spec] at hr
  cases hf : mustFail pkg with
  | some e => simp [hf] at hr
  | none =>
    simp only [hf, Except.ok.injEq] at hr
    subst hr
    have hk := survivors_phase_known hv hf ho
    have hmem : finalize o ∈ ((survivors pkg).filter fun o' => phaseOf o' == phaseOf o).map finalize :=
      mem_map.mpr ⟨o, mem_filter.mpr ⟨ho, by simp⟩, rfl⟩
    refine ⟨{ name := phaseOf o,
              objs := ((survivors pkg).filter fun o' => phaseOf o' == phaseOf o).map finalize }, ?_, rfl, hmem⟩
    simp only [specPhases, mem_filterMap]
    refine ⟨phaseOf o, hk, ?_⟩
    have hne : ((((survivors pkg).filter fun o' => phaseOf o' == phaseOf o).map finalize).length != 0) = true := by
      rw [bne_iff_ne]
      intro hz
      rw [length_eq_zero_iff.mp hz] at hmem
      simp at hmem
    rw [if_pos hne]

/-- the survivors are listed by ascending path (the order of `RenderObjectsWithFilter`: `/` sorts
before every other character), documents of one file in document order -/
theorem survivors_path_order (pkg : Pkg) :
    ∃ paths : List Path, paths.Pairwise (fun a b => pathLe a b = true) ∧
      paths ~ (filtered pkg).map (fun e => e.1) ∧
      survivors pkg = (paths.map fun p => ((filtered pkg).lookup p).getD []).flatten :=
  ⟨_, pairwise_mergeSort pathLe_trans pathLe_total _, mergeSort_perm _ _, rfl⟩

/-! ## Template functions: the allow-list (regenerated from transformfiles_funcs.go on every run) -/

/-- sprig functions that are not functions of their arguments or reach outside the template:
clock and dates, randomness, key/certificate generation and salted/IV'd crypto, environment,
OS-dependent path functions, network. (sprig v3.3.0 `functions.go`; written out by hand.) -/
def impure : List String := [
  -- date / clock
  "ago", "date", "dateInZone", "dateModify", "date_in_zone", "date_modify", "duration", "durationRound",
  "htmlDate", "htmlDateInZone", "mustDateModify", "must_date_modify", "mustToDate", "now", "toDate", "unixEpoch",
  -- random
  "randAlpha", "randAlphaNum", "randAscii", "randBytes", "randInt", "randNumeric", "shuffle", "uuidv4",
  -- crypto: key / certificate generation, random salt or IV, password derivation
  "bcrypt", "htpasswd", "genPrivateKey", "genCA", "genCAWithKey", "genSelfSignedCert", "genSelfSignedCertWithKey",
  "genSignedCert", "genSignedCertWithKey", "buildCustomCert", "encryptAES", "decryptAES", "derivePassword",
  -- environment
  "env", "expandenv",
  -- OS / host file system
  "osBase", "osClean", "osDir", "osExt", "osIsAbs", "readFile", "readDir", "glob", "exec",
  -- network / DNS
  "getHostByName", "lookupIP"]

/-- sprig functions whose result depends on Go's map iteration order (`dict.go`: `keys`, `values`) -/
def mapOrderDependent : List String := ["keys", "values"]

/-- No allowed template function reaches clock, randomness, key generation, environment, host files
or the network. -/
theorem allowlist_pure : ∀ f ∈ Pko.Gen.SprigAllow.allowed, f ∉ impure := by
  have h : (Pko.Gen.SprigAllow.allowed.all fun f => !impure.contains f) = true := by decide
  intro f hf
  have := all_eq_true.mp h f hf
  simpa using this

/-- The map-order dependent sprig functions are only reachable through package-operator's own
deterministic replacements (C13-b). -/
theorem allowlist_order_stable :
    ∀ f ∈ Pko.Gen.SprigAllow.allowed, f ∈ mapOrderDependent → f ∈ Pko.Gen.SprigAllow.overridden := by
  have h : (Pko.Gen.SprigAllow.allowed.all fun f =>
      !mapOrderDependent.contains f || Pko.Gen.SprigAllow.overridden.contains f) = true := by decide
  intro f hf hm
  have := all_eq_true.mp h f hf
  simp only [Bool.or_eq_true, Bool.not_eq_true', contains_iff_mem] at this
  rcases this with h1 | h1
  · exact absurd (contains_iff_mem.mpr hm) (by rw [h1]; decide)
  · exact h1

/-! ## Monitor vs model -/

/-- the iteration orders the driver derives from a scenario are permutations -/
theorem oracle_valid (s : Pko.Drv.C13.Scn) : (Pko.Drv.C13.oracle s).Valid := by
  intro n α l
  simp only [Pko.Drv.C13.oracle]
  split
  · unfold Pko.Drv.C13.applyPerm
    refine ((mergeSort_perm _ _).map _).trans ?_
    rw [withIdx_map_snd]
  · split
    · exact (reverse_perm _).trans (rot_perm _ _)
    · exact rot_perm _ _

/-- The model satisfies the monitored predicate: for every scenario whose package is well formed,
the structured output of the model passes every facet the monitor checks against the specification
(`Pko.Drv.C13.monitor` = parse the implementation's line, then `vanished s`, then `check (specOut s)`). -/
theorem monitor_model (s : Pko.Drv.C13.Scn) (hw : WellFormed (Pko.Drv.C13.toPkg s)) :
    Pko.Drv.C13.check (Pko.Drv.C13.specOut s) (Pko.Drv.C13.modelOut s) = none := by
  have : render (Pko.Drv.C13.oracle s) (Pko.Drv.C13.toPkg s) = spec (Pko.Drv.C13.toPkg s) :=
    render_eq_spec (Pko.Drv.C13.oracle s) (oracle_valid s) (Pko.Drv.C13.toPkg s) hw _ (Perm.refl _)
  rw [Pko.Drv.C13.modelOut, this]
  exact check_self _

/-- …and the clause stated without the validator (`Pko.Drv.C13.vanished`: validation on, all other
stages fine, success reported ⇒ every object that survived the filters is in the output): the model
never lets a validated object vanish. -/
theorem vanished_model (s : Pko.Drv.C13.Scn) (hw : WellFormed (Pko.Drv.C13.toPkg s)) :
    Pko.Drv.C13.vanished s (Pko.Drv.C13.modelOut s) = none := by
  have hr : render (Pko.Drv.C13.oracle s) (Pko.Drv.C13.toPkg s) = spec (Pko.Drv.C13.toPkg s) :=
    render_eq_spec (Pko.Drv.C13.oracle s) (oracle_valid s) (Pko.Drv.C13.toPkg s) hw _ (Perm.refl _)
  unfold Pko.Drv.C13.vanished Pko.Drv.C13.modelOut
  cases hs : render (Pko.Drv.C13.oracle s) (Pko.Drv.C13.toPkg s) with
  | error e => rfl
  | ok ps =>
    simp only [Pko.Drv.C13.toOut]
    cases hv : (Pko.Drv.C13.toPkg s).validate with
    | false => rfl
    | true =>
      have hf : mustFail (Pko.Drv.C13.toPkg s) = none := by
        rw [hr, spec] at hs
        cases hm : mustFail (Pko.Drv.C13.toPkg s) with
        | none => rfl
        | some e => simp [hm] at hs
      have hcons := (collect_conserves (Pko.Drv.C13.oracle s) (oracle_valid s) (Pko.Drv.C13.toPkg s) hw
        _ (Perm.refl _) ps hs).2.1 hv
      have hids : ((survivors (Pko.Drv.C13.toPkg s)).map fun o => o.id)
          ~ Pko.Drv.C13.idsOf (ps.map fun p =>
              { name := Pko.Drv.C13.esc p.name, objs := p.objs.map (Pko.Drv.C13.toOObj s.name s.inst) }) := by
        rw [idsOf_toOut]
        have := (hcons.map fun o => o.id).symm
        rw [map_map] at this
        exact this
      simp only [Bool.not_true, Bool.false_eq_true, ↓reduceIte, mustFail_novalidate hf, msub_perm hids,
        isEmpty_nil]

/-! ## The unfixed code (finding C13-a) at model level -/

/-- UNFIXED `RenderTemplates`: every output is written into the very map `getFile`/`getFileGlob`
read, so a template's output is a function of the paths visible WHEN IT RUNS. -/
def renderUnfixed (tmpls : List (Path × (List Path → Nat))) (files : List Path) : List (Path × Nat) :=
  (tmpls.foldl (fun (st : List Path × List (Path × Nat)) t =>
    (st.1 ++ [stripSuffix t.1], st.2 ++ [(stripSuffix t.1, t.2 st.1)])) (files, [])).2

/-- Two templates, one of which counts the visible files: the two iteration orders give different
outputs for it — rendering as a function of the files alone does not exist for the unfixed code. -/
theorem unfixed_writeback_counterexample :
    ∃ a b : Path × (List Path → Nat),
      (renderUnfixed [a, b] []).lookup (stripSuffix b.1) ≠ (renderUnfixed [b, a] []).lookup (stripSuffix b.1) :=
  ⟨(['a', '.', 'g', 'o', 't', 'm', 'p', 'l'], fun _ => 0),
   (['b', '.', 'g', 'o', 't', 'm', 'p', 'l'], fun vis => vis.length), by decide⟩

/-! ## Non-vacuity -/

/-- A well-formed package with a template, a plain YAML file, a helper and two phases that renders
successfully: the hypotheses are satisfiable together with success… -/
def demoObj (id : Int) (phase : String) : Obj :=
  { id := id, empty := false, labels := [("app", "demo")], anns := [(phaseAnn, phase), (celAnn, "true")],
    cel := 1, valid := true, key := toString id }

def demoPkg : Pkg :=
  { name := "demo", inst := "inst", phases := ["one", "two"], celCtxOk := true, cpaths := [{ res := 0 }],
    globs := [("b.yaml".toList, [0]), ("a.yaml".toList, [0])], validate := true,
    files := [
      { path := "a.yaml.gotmpl".toList, tmplParses := true, tmplExecs := true, own := { ok := false, objs := [] },
        out := { ok := true, objs := [demoObj 0 "two"] } },
      { path := "b.yaml".toList, tmplParses := true, tmplExecs := false,
        own := { ok := true, objs := [demoObj 1 "one", demoObj 2 "two"] }, out := { ok := true, objs := [] } },
      { path := "_helpers.gotmpl".toList, tmplParses := true, tmplExecs := true, own := { ok := false, objs := [] },
        out := { ok := true, objs := [] } }] }

example : WellFormed demoPkg ∧ mustFail demoPkg = none := by
  refine ⟨⟨by decide, ?_, by decide⟩, by decide⟩
  intro f hf c hc
  simp only [demoPkg, mem_cons, not_mem_nil, or_false] at hf
  rcases hf with rfl | rfl | rfl <;> revert c hc <;> decide

/-- …and a failure is reachable too (a template that does not execute). -/
example : mustFail { demoPkg with files := demoPkg.files.map fun f => { f with tmplExecs := false } }
    = some .tmplexec := by decide

/-- A phase annotation padded with white space names no phase: with validation on the package is
rejected (never rendered without the object) … -/
def paddedPkg (validate : Bool) : Pkg :=
  { demoPkg with validate := validate, cpaths := [], files := [
      { path := "b.yaml".toList, tmplParses := true, tmplExecs := false,
        own := { ok := true, objs := [demoObj 1 "one", demoObj 2 "two ", demoObj 3 "two\n"] },
        out := { ok := true, objs := [] } }] }

example : mustFail (paddedPkg true) = some .validate := by decide

/-- … and only with validation OFF (objects that were never validated: outside the property's premise)
does the collector drop it. -/
example : mustFail (paddedPkg false) = none ∧
    (specPhases (paddedPkg false)).map (fun p => (p.name, p.objs.map fun o => o.id)) = [("one", [1])] := by
  decide +kernel

end Pko.Props.C13
