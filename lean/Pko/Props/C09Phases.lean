/-
Property C09, delegated phases — **the pause reaches every phase object**.

"While an ObjectSet … is paused … Package Operator sends no create, update or delete for any object
listed in it": the objects of a delegated phase are written by the ObjectSetPhase controller, which
stops only when the PHASE OBJECT is paused.  The theorems below show, for the model of the
ObjectSet controller's phase loop composed with the real delegated-phase behaviour
(`Pko.Model.Remote`), that one pass over a paused ObjectSet leaves EVERY phase object of the
ObjectSet that existed before the pass paused — the visited phases through
`objectSetRemotePhaseReconciler.Reconcile`, the phases behind a failing phase through
`SyncPaused` (fix C09-a) — whatever the phase objects have reported so far, whichever phase the pass
stops at, for every list of phases (local / delegated in any order, repeated names included); and,
since fix C09-b hands the pause over at the head of the pass, whatever ERROR the pass ends in
(`any_paused_pass_pauses_every_phase_object`).
The monitor clause `paused-pass-left-phase-object-unpaused` of `Pko.Drv.SysMon` is this statement
on the implementation's traces.
Core Lean only.
-/
import Pko.Model.Remote
import Pko.Lemmas.C10SetBase

namespace Pko.Props.C09Phases
open Pko.Kube Pko.Model.Phase Pko.Model.ObjectSet Pko.Model.Status Pko.Model.Remote
open Pko.Props.C10Set (Kept reconcilePhaseObject_kept)

/-- the phase object `n` exists and carries `spec.paused = true`. -/
def PausedAt (n : String) (w : World) : Prop := ∃ p, w.phases n = some p ∧ p.paused = true

/-- the phase object `n` exists. -/
def ExistsAt (n : String) (w : World) : Prop := ∃ p, w.phases n = some p

theorem PausedAt.exists {n : String} {w : World} (h : PausedAt n w) : ExistsAt n w :=
  let ⟨p, hp, _⟩ := h; ⟨p, hp⟩

/-! ### local phases never touch phase objects -/

theorem go_phases (cfg : Cfg) (ow : Owner) (prev : List Prev) :
    ∀ (ps : List PObj) (w : World) (failed : List String) (acc : List (PObj × Obj)),
      (reconcilePhaseObjs.go cfg ow prev ps w failed acc).1.phases = w.phases := by
  intro ps
  induction ps with
  | nil => intro w failed acc; simp [reconcilePhaseObjs.go]
  | cons p rest ih =>
    intro w failed acc
    have hk := (reconcilePhaseObject_kept cfg ow prev p w).2.1
    simp only [reconcilePhaseObjs.go]
    split
    · next w' o heq => rw [ih]; rw [← hk, heq]
    · next w' heq => rw [ih]; rw [← hk, heq]
    · next w' r heq => simp only; rw [← hk, heq]
    · next w' heq => simp only; rw [← hk, heq]

theorem reconcilePhaseObjs_phases (cfg : Cfg) (ow : Owner) (prev : List Prev) (ps : List PObj) (w : World) :
    (reconcilePhaseObjs cfg ow prev ps w).1.phases = w.phases := by
  simp only [reconcilePhaseObjs]
  split
  · rfl
  · rfl
  · exact go_phases cfg ow prev ps w [] []

/-! ### the pause patch -/

theorem propagatePause_other (o : OSet) (n : String) (cur : OPhase) (w : World) (m : String) (hm : m ≠ n) :
    (propagatePause o n cur w).1.phases m = w.phases m := by
  simp only [propagatePause]
  split
  · simp [setPhase, freshRV, World.tick, hm]
  · rfl

theorem propagatePause_at (o : OSet) (hp : o.lifecycle = .paused) (n : String) (cur : OPhase) (w : World)
    (hc : w.phases n = some cur) : PausedAt n (propagatePause o n cur w).1 := by
  simp only [propagatePause, hp]
  by_cases h : cur.paused = true
  · exact ⟨cur, by simp [h, hc], h⟩
  · have h' : cur.paused = false := by simpa using h
    refine ⟨{ cur with paused := true, gen := cur.gen + 1, rv := (w.tick).store.nextRV }, ?_, rfl⟩
    simp [h', setPhase, freshRV, World.tick]

theorem propagatePause_keeps (o : OSet) (hp : o.lifecycle = .paused) (n : String) (cur : OPhase) (w : World)
    (hc : w.phases n = some cur) (m : String) (h : PausedAt m w) : PausedAt m (propagatePause o n cur w).1 := by
  by_cases hm : m = n
  · subst hm; exact propagatePause_at o hp m cur w hc
  · obtain ⟨p, hp', hpp⟩ := h
    exact ⟨p, by rw [propagatePause_other o n cur w m hm]; exact hp', hpp⟩

theorem propagatePause_exists (o : OSet) (n : String) (cur : OPhase) (w : World)
    (hc : w.phases n = some cur) (m : String) (h : ExistsAt m w) : ExistsAt m (propagatePause o n cur w).1 := by
  by_cases hm : m = n
  · subst hm
    simp only [propagatePause]
    split
    · refine ⟨{ cur with paused := decide (o.lifecycle = .paused), gen := cur.gen + 1, rv := (w.tick).store.nextRV }, ?_⟩
      simp [setPhase, freshRV, World.tick]
    · exact ⟨cur, hc⟩
  · obtain ⟨p, hp'⟩ := h
    exact ⟨p, by rw [propagatePause_other o n cur w m hm]; exact hp'⟩

/-! ### `Reconcile` and `SyncPaused` of a delegated phase, ObjectSet paused -/

theorem remoteContinue_at (o : OSet) (hp : o.lifecycle = .paused) (n : String) (cur : OPhase) (w : World)
    (hc : w.phases n = some cur) : PausedAt n (remoteContinue o n cur w).1 := by
  simp only [remoteContinue]
  exact propagatePause_at o hp n cur { w with remoteRefs := addRemote w.remoteRefs (cur.name, cur.uid) } hc

theorem remoteContinue_keeps (o : OSet) (hp : o.lifecycle = .paused) (n : String) (cur : OPhase) (w : World)
    (hc : w.phases n = some cur) (m : String) (h : PausedAt m w) : PausedAt m (remoteContinue o n cur w).1 := by
  simp only [remoteContinue]
  exact propagatePause_keeps o hp n cur { w with remoteRefs := addRemote w.remoteRefs (cur.name, cur.uid) } hc m h

theorem remoteContinue_exists (o : OSet) (n : String) (cur : OPhase) (w : World)
    (hc : w.phases n = some cur) (m : String) (h : ExistsAt m w) : ExistsAt m (remoteContinue o n cur w).1 := by
  simp only [remoteContinue]
  exact propagatePause_exists o n cur { w with remoteRefs := addRemote w.remoteRefs (cur.name, cur.uid) } hc m h

/-- the world right after the create of `remoteReconcile`. -/
def created (o : OSet) (ph : PhaseSpec) (w : World) : World × OPhase :=
  let n := phaseName o ph
  let w := w.tick
  let (w, uid) := freshUID w
  let (w, rv) := freshRV w
  let p := { desiredPhase o ph with uid := s!"uid-{uid}", gen := 1, rv := rv }
  ({ setPhase w n (some p) with phaseEvents := w.phaseEvents ++ [PhaseEvent.create n none] }, p)

theorem remoteReconcile_none (o : OSet) (ph : PhaseSpec) (w : World) (h : w.phases (phaseName o ph) = none) :
    remoteReconcile o ph w = remoteContinue o (phaseName o ph) (created o ph w).2 (created o ph w).1 := by
  simp [remoteReconcile, h, created]

theorem created_at (o : OSet) (ph : PhaseSpec) (w : World) :
    (created o ph w).1.phases (phaseName o ph) = some (created o ph w).2 := by
  simp [created, setPhase, freshRV, freshUID, World.tick]

theorem created_other (o : OSet) (ph : PhaseSpec) (w : World) (m : String) (hm : m ≠ phaseName o ph) :
    (created o ph w).1.phases m = w.phases m := by
  simp [created, setPhase, freshRV, freshUID, World.tick, hm]

/-- after `Reconcile` of a delegated phase by a paused ObjectSet the phase object exists and is paused. -/
theorem remoteReconcile_at (o : OSet) (hp : o.lifecycle = .paused) (ph : PhaseSpec) (w : World) :
    PausedAt (phaseName o ph) (remoteReconcile o ph w).1 := by
  cases h : w.phases (phaseName o ph) with
  | none =>
    rw [remoteReconcile_none o ph w h]
    exact remoteContinue_at o hp _ _ _ (created_at o ph w)
  | some cur =>
    simp only [remoteReconcile, h]
    exact remoteContinue_at o hp _ cur w h

theorem remoteReconcile_keeps (o : OSet) (hp : o.lifecycle = .paused) (ph : PhaseSpec) (w : World)
    (m : String) (h : PausedAt m w) : PausedAt m (remoteReconcile o ph w).1 := by
  by_cases hm : m = phaseName o ph
  · subst hm; exact remoteReconcile_at o hp ph w
  · cases hc : w.phases (phaseName o ph) with
    | none =>
      rw [remoteReconcile_none o ph w hc]
      apply remoteContinue_keeps o hp _ _ _ (created_at o ph w)
      obtain ⟨p, hp', hpp⟩ := h
      exact ⟨p, by rw [created_other o ph w m hm]; exact hp', hpp⟩
    | some cur =>
      simp only [remoteReconcile, hc]
      exact remoteContinue_keeps o hp _ cur w hc m h

theorem remoteReconcile_exists (o : OSet) (ph : PhaseSpec) (w : World)
    (m : String) (h : ExistsAt m w) : ExistsAt m (remoteReconcile o ph w).1 := by
  cases hc : w.phases (phaseName o ph) with
  | none =>
    rw [remoteReconcile_none o ph w hc]
    apply remoteContinue_exists o _ _ _ (created_at o ph w)
    by_cases hm : m = phaseName o ph
    · subst hm; exact ⟨_, created_at o ph w⟩
    · obtain ⟨p, hp'⟩ := h
      exact ⟨p, by rw [created_other o ph w m hm]; exact hp'⟩
  | some cur =>
    simp only [remoteReconcile, hc]
    exact remoteContinue_exists o _ cur w hc m h

theorem remoteSyncPaused_at (o : OSet) (hp : o.lifecycle = .paused) (ph : PhaseSpec) (w : World)
    (h : ExistsAt (phaseName o ph) w) : PausedAt (phaseName o ph) (remoteSyncPaused o ph w) := by
  obtain ⟨cur, hc⟩ := h
  simp only [remoteSyncPaused, hc]
  exact propagatePause_at o hp _ cur w hc

theorem remoteSyncPaused_keeps (o : OSet) (hp : o.lifecycle = .paused) (ph : PhaseSpec) (w : World)
    (m : String) (h : PausedAt m w) : PausedAt m (remoteSyncPaused o ph w) := by
  cases hc : w.phases (phaseName o ph) with
  | none => simp only [remoteSyncPaused, hc]; exact h
  | some cur => simp only [remoteSyncPaused, hc]; exact propagatePause_keeps o hp _ cur w hc m h

theorem remoteSyncPaused_exists (o : OSet) (ph : PhaseSpec) (w : World)
    (m : String) (h : ExistsAt m w) : ExistsAt m (remoteSyncPaused o ph w) := by
  cases hc : w.phases (phaseName o ph) with
  | none => simp only [remoteSyncPaused, hc]; exact h
  | some cur => simp only [remoteSyncPaused, hc]; exact propagatePause_exists o _ cur w hc m h

/-! ### the phase loop -/

/-- What the loop of `objectSetPhasesReconciler.reconcile` guarantees for a paused ObjectSet:
paused / existing phase objects stay so, and every delegated phase it VISITED has a paused phase
object; with a failing phase `f` the visited phases are a prefix ending in a phase named `f`. -/
theorem loop_pauses (cfg : Cfg) (o : OSet) (hp : o.lifecycle = .paused) (prev : List Prev) :
    ∀ (phases : List PhaseSpec) (w : World) (acc : List CRef),
      let r := reconcilePhases cfg o.owner prev (remoteReconcile o) phases w acc
      (∀ m, PausedAt m w → PausedAt m r.1) ∧ (∀ m, ExistsAt m w → ExistsAt m r.1) ∧
      (∀ co, r.2 = .ok (co, none) → ∀ ph ∈ phases, ph.cls ≠ "" → PausedAt (phaseName o ph) r.1) ∧
      (∀ co f, r.2 = .ok (co, some f) → ∃ pre x post, phases = pre ++ x :: post ∧ x.name = f ∧
        ∀ ph ∈ pre ++ [x], ph.cls ≠ "" → PausedAt (phaseName o ph) r.1) := by
  intro phases
  induction phases with
  | nil =>
    intro w acc
    simp [reconcilePhases]
  | cons ph rest ih =>
    intro w acc
    simp only [reconcilePhases]
    by_cases hcls : ph.cls ≠ ""
    · rw [if_pos hcls]
      have hat := remoteReconcile_at o hp ph w
      have hkeep := remoteReconcile_keeps o hp ph w
      have hex := remoteReconcile_exists o ph w
      cases hr : remoteReconcile o ph w with
      | mk w1 res =>
        rw [hr] at hat hkeep hex
        cases res with
        | error e =>
          refine ⟨hkeep, hex, ?_, ?_⟩ <;> simp
        | ok v =>
          obtain ⟨crefs, ok⟩ := v
          simp only
          cases ok with
          | true =>
            simp only [if_true]
            obtain ⟨k1, k2, k3, k4⟩ := ih w1 (acc ++ crefs)
            refine ⟨fun m h => k1 m (hkeep m h), fun m h => k2 m (hex m h), ?_, ?_⟩
            · intro co h p hpmem hpc
              rcases List.mem_cons.mp hpmem with rfl | hin
              · exact k1 _ hat
              · exact k3 co h p hin hpc
            · intro co f h
              obtain ⟨pre, x, post, e1, e2, e3⟩ := k4 co f h
              refine ⟨ph :: pre, x, post, by rw [e1]; rfl, e2, ?_⟩
              intro p hpmem hpc
              rcases (show p = ph ∨ p ∈ pre ++ [x] by simpa using hpmem) with rfl | hin
              · exact k1 _ hat
              · exact e3 p hin hpc
          | false =>
            simp only [Bool.false_eq_true, if_false]
            refine ⟨hkeep, hex, by simp, ?_⟩
            intro co f h
            have hf : ph.name = f := by
              have := (Except.ok.inj h); simp at this; exact this.2
            refine ⟨[], ph, rest, rfl, hf, ?_⟩
            intro p hpmem _
            have : p = ph := by simpa using hpmem
            subst this; exact hat
    · have hloc : ph.cls = "" := by simpa using hcls
      rw [if_neg hcls]
      have hph := reconcilePhaseObjs_phases cfg o.owner prev ph.objs w
      have keepP : ∀ m, PausedAt m w → PausedAt m (reconcilePhaseObjs cfg o.owner prev ph.objs w).1 := by
        intro m ⟨p, h1, h2⟩; exact ⟨p, by rw [hph]; exact h1, h2⟩
      have keepE : ∀ m, ExistsAt m w → ExistsAt m (reconcilePhaseObjs cfg o.owner prev ph.objs w).1 := by
        intro m ⟨p, h1⟩; exact ⟨p, by rw [hph]; exact h1⟩
      cases hr : reconcilePhaseObjs cfg o.owner prev ph.objs w with
      | mk w1 rest1 =>
        rw [hr] at keepP keepE
        obtain ⟨outc, objs⟩ := rest1
        cases outc with
        | preflight => refine ⟨keepP, keepE, ?_, ?_⟩ <;> simp
        | collision r => refine ⟨keepP, keepE, ?_, ?_⟩ <;> simp
        | err => refine ⟨keepP, keepE, ?_, ?_⟩ <;> simp
        | ok failed =>
          simp only
          by_cases hfe : failed.isEmpty = true
          · simp only [hfe, if_true]
            obtain ⟨k1, k2, k3, k4⟩ := ih w1 (acc ++ controllerOfOf cfg o.owner objs)
            refine ⟨fun m h => k1 m (keepP m h), fun m h => k2 m (keepE m h), ?_, ?_⟩
            · intro co h p hpmem hpc
              rcases List.mem_cons.mp hpmem with rfl | hin
              · exact absurd hloc hpc
              · exact k3 co h p hin hpc
            · intro co f h
              obtain ⟨pre, x, post, e1, e2, e3⟩ := k4 co f h
              refine ⟨ph :: pre, x, post, by rw [e1]; rfl, e2, ?_⟩
              intro p hpmem hpc
              rcases (show p = ph ∨ p ∈ pre ++ [x] by simpa using hpmem) with rfl | hin
              · exact absurd hloc hpc
              · exact e3 p hin hpc
          · simp only [hfe, Bool.false_eq_true, if_false]
            refine ⟨keepP, keepE, by simp, ?_⟩
            intro co f h
            have hf : ph.name = f := by
              have := (Except.ok.inj h); simp at this; exact this.2
            refine ⟨[], ph, rest, rfl, hf, ?_⟩
            intro p hpmem hpc
            have : p = ph := by simpa using hpmem
            subst this; exact absurd hloc hpc

/-! ### the phases behind the failing one -/

/-- everything after an occurrence of a phase named `f` lies behind the FIRST phase named `f`. -/
theorem mem_phasesAfter (f : String) :
    ∀ (pre : List PhaseSpec) (x : PhaseSpec) (post : List PhaseSpec), x.name = f →
      ∀ ph ∈ post, ph ∈ phasesAfter f (pre ++ x :: post) := by
  intro pre
  induction pre with
  | nil =>
    intro x post hx ph hph
    simp [phasesAfter, List.dropWhile, hx, hph]
  | cons a pre ih =>
    intro x post hx ph hph
    by_cases ha : a.name = f
    · have : phasesAfter f ((a :: pre) ++ x :: post) = pre ++ x :: post := by
        simp [phasesAfter, List.dropWhile, ha]
      rw [this]; simp [hph]
    · have : phasesAfter f ((a :: pre) ++ x :: post) = phasesAfter f (pre ++ x :: post) := by
        simp [phasesAfter, List.dropWhile, ha]
      rw [this]; exact ih x post hx ph hph

theorem sync_fold (o : OSet) (hp : o.lifecycle = .paused) :
    ∀ (l : List PhaseSpec) (w : World),
      let w' := l.foldl (fun w ph => remoteSyncPaused o ph w) w
      (∀ m, PausedAt m w → PausedAt m w') ∧ (∀ m, ExistsAt m w → ExistsAt m w') ∧
      (∀ ph ∈ l, ExistsAt (phaseName o ph) w → PausedAt (phaseName o ph) w') := by
  intro l
  induction l with
  | nil => intro w; simp
  | cons a l ih =>
    intro w
    simp only [List.foldl_cons]
    obtain ⟨k1, k2, k3⟩ := ih (remoteSyncPaused o a w)
    refine ⟨fun m h => k1 m (remoteSyncPaused_keeps o hp a w m h),
            fun m h => k2 m (remoteSyncPaused_exists o a w m h), ?_⟩
    intro ph hph hex
    rcases List.mem_cons.mp hph with rfl | hin
    · exact k1 _ (remoteSyncPaused_at o hp ph w hex)
    · exact k3 ph hin (remoteSyncPaused_exists o a w _ hex)

/-- **C09 for delegated phases.** One pass of the ObjectSet controller's phase loop over a PAUSED
ObjectSet (`reconcilePhases` followed by `afterPhases`, with the real delegated-phase behaviour)
that does not end in an error leaves every phase object of a delegated phase of the ObjectSet that
existed before the pass paused. -/
theorem paused_pass_pauses_every_phase_object (cfg : Cfg) (o : OSet) (hp : o.lifecycle = .paused)
    (prev : List Prev) (w : World) (acc : List CRef) :
    let r := reconcilePhases cfg o.owner prev (remoteReconcile o) o.phases w acc
    let w' := afterPhases remotes o r.2 r.1
    (∀ co f, r.2 = .ok (co, f) →
      ∀ ph ∈ o.phases, ph.cls ≠ "" → ExistsAt (phaseName o ph) w → PausedAt (phaseName o ph) w') ∧
    (∀ m, PausedAt m w → PausedAt m w') := by
  intro r w'
  obtain ⟨k1, k2, k3, k4⟩ := loop_pauses cfg o hp prev o.phases w acc
  have hsync := sync_fold o hp
  constructor
  · intro co f hr ph hph hcls hex
    cases f with
    | none =>
      have : w' = r.1 := by simp only [w', afterPhases, hr]
      rw [this]; exact k3 co hr ph hph hcls
    | some f =>
      have hw' : w' = ((phasesAfter f o.phases).filter (·.cls ≠ "")).foldl
          (fun w ph => remoteSyncPaused o ph w) r.1 := by
        simp only [w', afterPhases, hr, hp, if_true, syncPausedAfter, remotes]
      obtain ⟨s1, _, s3⟩ := hsync ((phasesAfter f o.phases).filter (·.cls ≠ "")) r.1
      obtain ⟨pre, x, post, e1, e2, e3⟩ := k4 co f hr
      rw [hw']
      have hmem : ph ∈ pre ++ [x] ∨ ph ∈ post := by
        rw [e1] at hph
        simp only [List.mem_append, List.mem_cons, List.mem_singleton, List.not_mem_nil, or_false] at hph ⊢
        rcases hph with h | h | h
        · exact Or.inl (Or.inl h)
        · exact Or.inl (Or.inr h)
        · exact Or.inr h
      rcases hmem with hin | hin
      · exact s1 _ (e3 ph hin hcls)
      · apply s3 ph
        · rw [List.mem_filter]
          refine ⟨?_, by simpa using hcls⟩
          rw [e1]; exact mem_phasesAfter f pre x post e2 ph hin
        · exact k2 _ hex
  · intro m h
    have h1 := k1 m h
    cases hr : r.2 with
    | error e => simp only [w', afterPhases, hr]; exact h1
    | ok v =>
      obtain ⟨co, f⟩ := v
      cases f with
      | none => simp only [w', afterPhases, hr]; exact h1
      | some f =>
        have hw' : w' = ((phasesAfter f o.phases).filter (·.cls ≠ "")).foldl
            (fun w ph => remoteSyncPaused o ph w) r.1 := by
          simp only [w', afterPhases, hr, hp, if_true, syncPausedAfter, remotes]
        rw [hw']
        exact (hsync _ r.1).1 m h1

/-- **the hand-over at the head of the pass** (fix C09-b): before anything else a paused ObjectSet
pauses every existing phase object of its delegated phases. -/
theorem hand_over_pauses_every_phase_object (o : OSet) (hp : o.lifecycle = .paused) (w : World) :
    (∀ ph ∈ o.phases, ph.cls ≠ "" → ExistsAt (phaseName o ph) w →
      PausedAt (phaseName o ph) (beforePhases remotes o w)) ∧
    (∀ m, PausedAt m w → PausedAt m (beforePhases remotes o w)) := by
  have hb : beforePhases remotes o w =
      (o.phases.filter (·.cls ≠ "")).foldl (fun w ph => remoteSyncPaused o ph w) w := by
    simp only [beforePhases, hp, if_true, remotes]
  obtain ⟨s1, _, s3⟩ := sync_fold o hp (o.phases.filter (·.cls ≠ "")) w
  rw [hb]
  refine ⟨?_, s1⟩
  intro ph hph hcls hex
  exact s3 ph (by rw [List.mem_filter]; exact ⟨hph, by simpa using hcls⟩) hex

/-- **C09 for delegated phases, every pass.** Whatever one pass of the phases reconciler over a
PAUSED ObjectSet runs into afterwards — a failing probe, a preflight violation, a collision or any
other error in any phase — every phase object of a delegated phase that existed before the pass is
paused when the pass ends (`beforePhases`, then the loop, then `afterPhases`). -/
theorem any_paused_pass_pauses_every_phase_object (cfg : Cfg) (o : OSet) (hp : o.lifecycle = .paused)
    (prev : List Prev) (w : World) (acc : List CRef) :
    let w0 := beforePhases remotes o w
    let r := reconcilePhases cfg o.owner prev (remoteReconcile o) o.phases w0 acc
    ∀ ph ∈ o.phases, ph.cls ≠ "" → ExistsAt (phaseName o ph) w →
      PausedAt (phaseName o ph) (afterPhases remotes o r.2 r.1) := by
  intro w0 r ph hph hcls hex
  have h0 := (hand_over_pauses_every_phase_object o hp w).1 ph hph hcls hex
  exact (paused_pass_pauses_every_phase_object cfg o hp prev w0 acc).2 _ h0

/-- Non-vacuity: a paused ObjectSet whose pass stops at its first (local) phase, with an un-paused
phase object of the delegated phase behind it: after the pass that phase object is paused. -/
example :
    let o : OSet := { (default : OSet) with kind := "ObjectSet", ns := "ns1", name := "os1", uid := "uid-1", gen := 2, revision := 1, lifecycle := .paused, phases := [⟨"p1", "", [⟨"NsThing", "", "a", .prevent, "x", false, .accept⟩]⟩, ⟨"p2", "default", []⟩] }
    let p : OPhase := { desiredPhase o ⟨"p2", "default", []⟩ with uid := "uid-2", gen := 1, rv := 5, paused := false }
    let w : World := { store := { objs := fun _ => none, nextUID := 3, nextRV := 6 }, writes := 0, env := [], events := [],
                       phases := fun n => if n = "os1-p2" then some p else none }
    let cfg : Cfg := { st := .native, flavour := ⟨true, true, true⟩, scope := fun _ => .namespaced, force := false }
    let r := reconcilePhases cfg o.owner [] (remoteReconcile o) o.phases w []
    r.2 = .ok ([], some "p1") ∧
    ((afterPhases remotes o r.2 r.1).phases "os1-p2").map (·.paused) = some true := by
  intro o p w cfg r
  exact ⟨rfl, rfl⟩

end Pko.Props.C09Phases
