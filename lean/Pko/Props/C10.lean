import Pko.Lemmas.C10Drift
import Pko.Lemmas.C10Adopt
import Pko.Lemmas.C10Tear
/-!
# C10 — reconciliation converges from any crash, fault or drift (partial)

Property (properties.jsonl): for a fixed desired state, any sequence of restarts, failed or lost
API calls and third-party edits or deletions of managed objects is eventually repaired; once
disturbances stop the cluster reaches the end state of an undisturbed run, and further
reconciles change nothing.

What is proved here, for EVERY store, owner, strategy, phase and object list (no bound on sizes):

* `settled_pass_is_fixpoint` — "further reconciles change nothing": a rollout pass over a phase
  whose objects are all settled leaves the store exactly as it is.
* `pass_repairs` — one pass from any *repairable* state (every listed object absent or controlled
  by the owner, with arbitrary drift in payload, labels, recorded revision, status) ends with every
  object settled and touches no key outside the phase.
* `second_pass_changes_nothing` — the composition: after the repairing pass, a further pass is the
  identity on the store.
* `crash_points_repairable` — every state between two writes of a pass (= every point where a
  crash, a failed call or a lost response can cut the pass off, see `Pko.Model.Converge`) is again
  repairable; `drift_repairable` / `disturbances_repairable` — so is the state after any sequence of
  third-party edits and deletions.  Restart-safety needs no separate statement: the pass is a
  function of the store only.
* `repair_after_disturbances` — the chain: disturbances, then one pass ⇒ settled; then fixpoint.
* `handover_pass_repairs` — the same across a handover: objects still controlled by a declared
  previous revision are adopted and settled by one pass of the new revision (native strategy).
* `teardown_pass_releases` / `teardown_converges` — a teardown pass releases every object it may
  touch, from every store; the next pass reports done.

What is NOT proved (`…_partial`): convergence of whole deployments — several revisions handing
objects over, delegated phases with their second controller, archival and teardown, status
conditions — is explored by the correspondence run on the real controllers (every API call of
every pass as an injection point), not proved.  The full statement is kept below as a comment.
-/
namespace Pko.Props.C10
open Pko.Kube Pko.Model.Phase Pko.Model.ObjectSet Pko.Model.Converge
open Pko.Props.C01 (visits)

/-- every object of the phase gets as far as being looked at, and all keys are different (the
`ObjectDuplicate` preflight check guarantees the latter for the real controller). -/
structure PhaseOk (cfg : Cfg) (ow : Owner) (cls : String) (ps : List PObj) : Prop where
  preflight : preflightPhase cfg ow cls ps = .ok
  reaches : ∀ p ∈ ps, Reaches cfg ow p
  distinct : (ps.map (keyOf cfg ow)).Nodup

/-- **"At that point further reconciles change nothing."**  A rollout pass over a phase whose
objects are all settled leaves the store unchanged (the unconditional server-side apply of the
desired state is a no-op) and ends without error. -/
theorem settled_pass_is_fixpoint (cfg : Cfg) (ow : Owner) (prev : List Prev) (cls : String)
    (ps : List PObj) (w : World) (hq : Quiet w) (hok : PhaseOk cfg ow cls ps)
    (hs : ∀ p ∈ ps, Settled cfg ow p w.store) :
    (reconcilePhase cfg ow prev cls ps w).1.store = w.store ∧
    ∃ failed, (reconcilePhase cfg ow prev cls ps w).2 = .ok failed := by
  simp only [reconcilePhase, hok.preflight]
  exact go_fixpoint cfg ow prev ps w [] hq hok.reaches hs

/-- **One pass repairs a phase** from every repairable state: it ends without error or
collision, every object is settled afterwards, and no key outside the phase is touched. -/
theorem pass_repairs (cfg : Cfg) (ow : Owner) (prev : List Prev) (cls : String)
    (ps : List PObj) (w : World) (hq : Quiet w) (hok : PhaseOk cfg ow cls ps)
    (hm : ∀ p ∈ ps, Mine cfg ow p w.store) :
    (∃ failed, (reconcilePhase cfg ow prev cls ps w).2 = .ok failed) ∧
    (∀ p ∈ ps, Settled cfg ow p (reconcilePhase cfg ow prev cls ps w).1.store) ∧
    Quiet (reconcilePhase cfg ow prev cls ps w).1 ∧
    ∀ k', k' ∉ ps.map (keyOf cfg ow) → (reconcilePhase cfg ow prev cls ps w).1.store.get k' = w.store.get k' := by
  simp only [reconcilePhase, hok.preflight]
  exact go_repair cfg ow prev ps w [] hq hok.reaches hok.distinct hm

/-- After the repairing pass a further pass is the identity on the store: nothing keeps being
overwritten. -/
theorem second_pass_changes_nothing (cfg : Cfg) (ow : Owner) (prev : List Prev) (cls : String)
    (ps : List PObj) (w : World) (hq : Quiet w) (hok : PhaseOk cfg ow cls ps)
    (hm : ∀ p ∈ ps, Mine cfg ow p w.store) :
    let w1 := (reconcilePhase cfg ow prev cls ps w).1
    (reconcilePhase cfg ow prev cls ps w1).1.store = w1.store := by
  intro w1
  obtain ⟨_, hs, hq1, _⟩ := pass_repairs cfg ow prev cls ps w hq hok hm
  exact (settled_pass_is_fixpoint cfg ow prev cls ps w1 hq1 hok hs).1

/-- **Every crash point is repairable.**  The worlds in which the pass visits its objects are
exactly the states between two of its writes; whichever of them a crash, a failed call or a lost
response leaves behind, every object of the phase is still absent or controlled by the owner. -/
theorem crash_points_repairable (cfg : Cfg) (ow : Owner) (prev : List Prev) (cls : String)
    (ps : List PObj) (w : World) (hq : Quiet w) (hok : PhaseOk cfg ow cls ps)
    (hm : ∀ p ∈ ps, Mine cfg ow p w.store) :
    ∀ pw ∈ visits cfg ow prev ps w, ∀ q ∈ ps, Mine cfg ow q pw.2.store := by
  intro pw hpw q hq2
  have := visits_repairable cfg ow prev ps w hq hok.reaches hok.distinct [] (by simpa using hm) (by simp) pw hpw q
  exact this (by simpa using hq2)

/-- the end of the pass is a crash point too (lost response of the last write). -/
theorem end_of_pass_repairable (cfg : Cfg) (ow : Owner) (prev : List Prev) (cls : String)
    (ps : List PObj) (w : World) (hq : Quiet w) (hok : PhaseOk cfg ow cls ps)
    (hm : ∀ p ∈ ps, Mine cfg ow p w.store) :
    ∀ q ∈ ps, Mine cfg ow q (reconcilePhase cfg ow prev cls ps w).1.store :=
  fun q hq2 => settled_mine ((pass_repairs cfg ow prev cls ps w hq hok hm).2.1 q hq2)

/-- **Drift keeps the phase repairable.** -/
theorem drift_repairable (cfg : Cfg) (ow : Owner) (ps : List PObj) (s : Store) (e : EnvOp)
    (hd : IsDrift s e) (hm : ∀ p ∈ ps, Mine cfg ow p s) : ∀ p ∈ ps, Mine cfg ow p (s.env e) :=
  fun p hp => drift_keeps_mine cfg ow p s e hd (hm p hp)

/-- a sequence of disturbances, each of them drift with respect to the store it hits. -/
def DriftSeq : Store → List EnvOp → Prop
  | _, [] => True
  | s, e :: es => IsDrift s e ∧ DriftSeq (s.env e) es

/-- **Any sequence of drift keeps the phase repairable** (induction over the sequence). -/
theorem disturbances_repairable (cfg : Cfg) (ow : Owner) (ps : List PObj) :
    ∀ (es : List EnvOp) (s : Store), DriftSeq s es → (∀ p ∈ ps, Mine cfg ow p s) →
      ∀ p ∈ ps, Mine cfg ow p (es.foldl Store.env s) := by
  intro es
  induction es with
  | nil => intro s _ hm; simpa using hm
  | cons e es ih =>
    intro s hd hm
    simp only [List.foldl_cons]
    exact ih (s.env e) hd.2 (drift_repairable cfg ow ps s e hd.1 hm)

/-- **The chain.**  Start from any repairable state (in particular any crash point of an earlier
pass), let third parties edit and delete managed objects in any order; once they stop, ONE pass
settles every object of the phase, and every later pass changes nothing. -/
theorem repair_after_disturbances (cfg : Cfg) (ow : Owner) (prev : List Prev) (cls : String)
    (ps : List PObj) (w : World) (es : List EnvOp) (hq : Quiet w) (hok : PhaseOk cfg ow cls ps)
    (hm : ∀ p ∈ ps, Mine cfg ow p w.store) (hd : DriftSeq w.store es) :
    let w0 : World := { w with store := es.foldl Store.env w.store }
    let w1 := (reconcilePhase cfg ow prev cls ps w0).1
    (∀ p ∈ ps, Settled cfg ow p w1.store) ∧
    (reconcilePhase cfg ow prev cls ps w1).1.store = w1.store := by
  intro w0 w1
  have hq0 : Quiet w0 := hq
  have hm0 : ∀ p ∈ ps, Mine cfg ow p w0.store := disturbances_repairable cfg ow ps es w.store hd hm
  exact ⟨(pass_repairs cfg ow prev cls ps w0 hq0 hok hm0).2.1,
         second_pass_changes_nothing cfg ow prev cls ps w0 hq0 hok hm0⟩

/-- **Handover converges** (native owner strategy): a rollout pass of a NEW revision over a phase
whose objects are absent, already its own, or still controlled by a declared previous revision
(recorded revision lower than its own) — i.e. any state a crashed or interrupted handover can
leave behind — ends without error or collision with every object settled for the new revision
(sole controller, previous owners demoted), touches no other key, and a further pass changes
nothing. -/
theorem handover_pass_repairs (cfg : Cfg) (ow : Owner) (prev : List Prev) (cls : String)
    (ps : List PObj) (w : World) (hnat : cfg.st = .native) (hq : Quiet w) (hok : PhaseOk cfg ow cls ps)
    (hm : ∀ p ∈ ps, Repairable cfg ow prev p w.store) :
    let w1 := (reconcilePhase cfg ow prev cls ps w).1
    (∃ failed, (reconcilePhase cfg ow prev cls ps w).2 = .ok failed) ∧
    (∀ p ∈ ps, Settled cfg ow p w1.store) ∧
    (∀ k', k' ∉ ps.map (keyOf cfg ow) → w1.store.get k' = w.store.get k') ∧
    (reconcilePhase cfg ow prev cls ps w1).1.store = w1.store := by
  intro w1
  have h : (∃ f', (reconcilePhase cfg ow prev cls ps w).2 = .ok f') ∧
      (∀ p ∈ ps, Settled cfg ow p w1.store) ∧ Quiet w1 ∧
      ∀ k', k' ∉ ps.map (keyOf cfg ow) → w1.store.get k' = w.store.get k' := by
    simp only [w1, reconcilePhase, hok.preflight]
    exact go_handover cfg ow prev hnat ps w [] hq hok.reaches hok.distinct hm
  exact ⟨h.1, h.2.1, h.2.2.2, (settled_pass_is_fixpoint cfg ow prev cls ps w1 h.2.2.1 hok h.2.1).1⟩

/-- **A teardown pass releases the phase** — from every store (hence from every crash point of an
earlier teardown or rollout): it does not fail, afterwards the owner controls none of the
phase's objects (deleted, or — co-owned — only de-referenced), and no key outside the phase is
touched.  `NoForeignFinalizer` is the environment-fairness hypothesis: an object held by somebody
else's finalizer stays in deletion until that party acts. -/
theorem teardown_pass_releases (cfg : Cfg) (ow : Owner) (ps : List PObj) (w : World)
    (hq : Quiet w) (hok : TearOk cfg ow ps) (hnf : ∀ p ∈ ps, NoForeignFinalizer cfg ow p w.store) :
    (teardownPhase cfg ow ps w).2 ≠ .err ∧
    (∀ p ∈ ps, Released cfg ow p (teardownPhase cfg ow ps w).1.store) ∧
    ∀ k', k' ∉ ps.map (keyOf cfg ow) → (teardownPhase cfg ow ps w).1.store.get k' = w.store.get k' := by
  obtain ⟨h1, h2, _, h4⟩ := tear_go_releases cfg ow ps w true hq hok hnf
  exact ⟨h1, h2, h4⟩

/-- **Teardown converges in two passes**: the pass after the releasing one reports done (which is
what lets the controller drop its finalizer / report Archived), with everything still released. -/
theorem teardown_converges (cfg : Cfg) (ow : Owner) (ps : List PObj) (w : World)
    (hq : Quiet w) (hok : TearOk cfg ow ps) (hnf : ∀ p ∈ ps, NoForeignFinalizer cfg ow p w.store) :
    let w1 := (teardownPhase cfg ow ps w).1
    (teardownPhase cfg ow ps w1).2 = .done ∧
    ∀ p ∈ ps, Released cfg ow p (teardownPhase cfg ow ps w1).1.store := by
  intro w1
  obtain ⟨_, h2, h3, _⟩ := tear_go_releases cfg ow ps w true hq hok hnf
  obtain ⟨d1, d2, _⟩ := tear_go_done cfg ow ps w1 h3
    (fun p hp => by rw [hok.1 p hp]; simp) hok.2 h2
  exact ⟨d1, d2⟩

/-! ### the crash-point ghost state -/

/-- the snapshot `tick` takes is the store and phase objects as they are at that write request. -/
theorem tick_snap (w : World) (x : Store × (String → Option OPhase)) (h : w.tick.snap = some x) :
    w.snap = some x ∨ (w.crashAt = some w.gw ∧ x = (w.store, w.phases)) := by
  simp only [World.tick] at h
  split at h
  · right
    rename_i hc
    simp only [Bool.and_eq_true, decide_eq_true_eq] at hc
    exact ⟨hc.1, by cases h; rfl⟩
  · exact Or.inl h

/-- a pass that issues no more than `c` write requests is not cut off. -/
theorem crashState_no_snap (s0 s1 : Sys) (c : Nat) (h : s1.w.snap = none) : crashState s0 s1 c = s1 := by
  simp [crashState, h]

/-- a pass that is cut off leaves the snapshot store behind. -/
theorem crashState_snap (s0 s1 : Sys) (c : Nat) (st : Store) (ph : String → Option OPhase)
    (h : s1.w.snap = some (st, ph)) : (crashState s0 s1 c).w.store = st ∧ (crashState s0 s1 c).w.phases = ph := by
  simp [crashState, h]

/-! ### non-vacuity -/

def exCfg : Cfg := { st := .native, flavour := ⟨true, true, true⟩, scope := fun _ => .namespaced, force := false }
def exOw : Owner := { group := pkoGroup, kind := "ObjectSet", ns := "ns1", name := "os1", uid := "u1", rev := 3, paused := false, pkgLabel := "pkg" }
def exP : PObj := { kind := "NsThing", ns := "", name := "a", cp := .prevent, payload := "x", presetOwnerRef := false, dryRun := .accept }
def exQ : PObj := { kind := "NsThing", ns := "", name := "b", cp := .prevent, payload := "y", presetOwnerRef := false, dryRun := .accept }

/-- a drifted object: controlled by the owner, wrong payload, stale revision, labels gone. -/
def exDrifted : Obj :=
  { uid := 1, rv := 1, gen := 1, owners := [exOw.ref true], annOwners := [], rev := Rev.num 1
    cacheLabel := false, pkgLabel := "", payload := "drift", ready := false, obsGen := none
    finalizer := false, deleting := false }

def exStore : Store := { objs := fun k => if k = keyOf exCfg exOw exP then some exDrifted else none, nextUID := 2, nextRV := 2 }
def exWorld : World := { store := exStore, writes := 0, env := [], events := [] }

/-- the hypotheses of `pass_repairs` are satisfiable by a non-trivial state: a phase of two
objects, one drifted in every managed field, one absent. -/
example : Quiet exWorld ∧ PhaseOk exCfg exOw "" [exP, exQ] ∧ ∀ p ∈ [exP, exQ], Mine exCfg exOw p exWorld.store := by
  refine ⟨rfl, ⟨by decide +kernel, ?_, by decide +kernel⟩, ?_⟩
  · intro p hp
    simp only [List.mem_cons, List.mem_nil_iff, or_false] at hp
    rcases hp with rfl | rfl <;> exact ⟨rfl, by decide +kernel⟩
  · intro p hp
    simp only [List.mem_cons, List.mem_nil_iff, or_false] at hp
    rcases hp with rfl | rfl
    · exact Or.inr ⟨exDrifted, by decide +kernel, by decide +kernel, by simp [UidsDistinct, exDrifted], rfl⟩
    · exact Or.inl (by decide +kernel)

/-- and the model really repairs it (a test of the statement on this one state, not a proof of
anything general): both objects are stored with the owner's revision and the desired payload. -/
example :
    let s := (reconcilePhase exCfg exOw [] "" [exP, exQ] exWorld).1.store
    (s.get (keyOf exCfg exOw exP)).map (fun o => (o.payload, o.rev, o.cacheLabel, o.pkgLabel)) = some ("x", .num 3, true, "pkg") ∧
    (s.get (keyOf exCfg exOw exQ)).map (fun o => (o.payload, o.rev, o.cacheLabel, o.pkgLabel)) = some ("y", .num 3, true, "pkg") := by
  decide

/-- non-vacuity of `handover_pass_repairs`: revision 2 meets an object revision 1 still controls. -/
def exOw1 : Owner := { exOw with name := "os0", uid := "u0", rev := 1 }
def exPrevObj : Obj :=
  { uid := 1, rv := 1, gen := 1, owners := [exOw1.ref true], annOwners := [], rev := Rev.num 1
    cacheLabel := true, pkgLabel := "pkg", payload := "x", ready := true, obsGen := none
    finalizer := false, deleting := false }
def exStore2 : Store := { objs := fun k => if k = keyOf exCfg exOw exP then some exPrevObj else none, nextUID := 2, nextRV := 2 }
def exPrev : List Prev := [{ kind := "ObjectSet", name := "os0", uid := "u0", remotes := [] }]

example : Repairable exCfg exOw exPrev exP exStore2 ∧ ¬ Mine exCfg exOw exP exStore2 := by
  constructor
  · refine Or.inr ⟨exPrevObj, by decide +kernel, ?_⟩
    exact { notMine := by decide +kernel, parses := by decide, older := by decide +kernel
            byPrev := by decide +kernel, uids := by simp [UidsDistinct, exPrevObj], alive := rfl
            fresh := by
              intro c hc
              simp only [exPrevObj, List.mem_singleton] at hc
              subst hc
              exact ⟨by decide +kernel, by decide +kernel⟩
            ns := Or.inr (by decide +kernel) }
  · intro h
    rcases h with h | ⟨o, hg, hc, _⟩
    · have : exStore2.get (keyOf exCfg exOw exP) = some exPrevObj := by decide +kernel
      rw [this] at h; cases h
    · have : exStore2.get (keyOf exCfg exOw exP) = some exPrevObj := by decide +kernel
      rw [this] at hg; cases hg
      revert hc; decide +kernel

/-
Full statement (NOT proved — `whole_system_convergence_partial` is decided per run by exploration):

  ∀ scenario with a fixed desired state, ∀ disturbed history h (faults at any API call of any pass,
  drift at any step), ∀ fair schedule σ:  project (run (h ++ σ)) = project (run (undisturbed h ++ σ))
  ∧ one more round of σ changes nothing

for the composed system of ObjectSet, ObjectSetPhase (and ObjectDeployment) controllers.  Missing
for a proof: a ranking argument over revisions handing objects over (adoption through `previous`),
the two-controller protocol of delegated phases, and teardown under finalizer fairness.
-/

end Pko.Props.C10
