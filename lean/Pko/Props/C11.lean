/-
Property C11 — No write before preflight passes, and never outside the owner's namespace.

Theorems about `Pko.Model.Phase` (`preflightObj`, `preflightPhase`, `reconcilePhase`,
`teardownPhase`) for every phase content, owner, flavour, store and third-party schedule.
-/
import Pko.Model.Phase
import Pko.Props.C01
import Pko.Props.C05
import Pko.Lemmas.ObjectSet

namespace Pko.Props.C11
open Pko.Kube Pko.Model.Phase

/-- **no_write_before_preflight**: if any object of the phase fails preflight (or preflight
errors), the pass issues no write at all, leaves the store untouched and ends with
PreflightError (or the error). -/
theorem no_write_before_preflight (cfg : Cfg) (ow : Owner) (prev : List Prev) (cls : String)
    (ps : List PObj) (w : World) (h : preflightPhase cfg ow cls ps ≠ .ok) :
    (reconcilePhase cfg ow prev cls ps w).1.events = w.events ∧
    (reconcilePhase cfg ow prev cls ps w).1.store.objs = w.store.objs ∧
    ((reconcilePhase cfg ow prev cls ps w).2 = .preflight ∨ (reconcilePhase cfg ow prev cls ps w).2 = .err) := by
  simp only [reconcilePhase]
  cases hp : preflightPhase cfg ow cls ps with
  | ok => exact absurd hp h
  | violation => simp
  | error => simp

/-- One violating object anywhere in the phase is enough. -/
theorem violation_blocks_phase (cfg : Cfg) (ow : Owner) (cls : String) (ps : List PObj) (p : PObj)
    (hp : p ∈ ps) (hv : preflightObj cfg ow cls true p ≠ .ok) : preflightPhase cfg ow cls ps ≠ .ok := by
  simp only [preflightPhase]
  cases hpo : preflightObj cfg ow cls true p with
  | ok => exact absurd hpo hv
  | violation =>
    have : (ps.map (preflightObj cfg ow cls true)).any (· = .violation) = true := by
      simp; exact ⟨p, hp, hpo⟩
    split <;> simp_all
  | error =>
    have : (ps.map (preflightObj cfg ow cls true)).any (· = .error) = true := by
      simp; exact ⟨p, hp, hpo⟩
    simp [this]

theorem vOwner_false_iff (cfg : Cfg) (inPhase : Bool) (p : PObj) :
    vOwner cfg inPhase p = false ↔ (cfg.flavour.noOwnerRefs = true → inPhase = true → p.presetOwnerRef = false) := by
  unfold vOwner; cases cfg.flavour.noOwnerRefs <;> cases inPhase <;> cases p.presetOwnerRef <;> simp

theorem dry_ok_iff (cfg : Cfg) (inPhase : Bool) (p : PObj) :
    ((dryActive cfg inPhase && p.dryRun = .error) = false ∧ (dryActive cfg inPhase && p.dryRun = .reject) = false) ↔
      (cfg.flavour.dryRun = true → inPhase = true → p.dryRun = .accept) := by
  unfold dryActive; cases cfg.flavour.dryRun <;> cases inPhase <;> cases p.dryRun <;> simp

theorem vNs_false_iff (cfg : Cfg) (ow : Owner) (cls : String) (inPhase : Bool) (p : PObj) :
    vNs cfg ow cls inPhase p = false ↔
      (cfg.flavour.nsEscalation = true → ow.ns ≠ "" → ¬(inPhase = true ∧ cls ≠ "") →
          desiredNs ow p = ow.ns ∧ cfg.scope p.kind = .namespaced) := by
  unfold vNs
  have hd : desiredNs ow p = "" → ow.ns = "" := by
    unfold desiredNs; split <;> simp_all
  cases hne : cfg.flavour.nsEscalation
  · simp
  · simp only [Bool.true_and, true_implies]
    by_cases hons : ow.ns = ""
    · simp [hons]
    · by_cases hcl : (inPhase = true ∧ cls ≠ "")
      · simp [hons, hcl]
      · have hcl' : (inPhase && decide (cls ≠ "")) = false := by
          cases inPhase <;> simp_all
        simp only [hons, ↓reduceIte, hcl', Bool.false_eq_true, ne_eq, not_false_eq_true, true_implies, hcl]
        by_cases hsame : desiredNs ow p = ow.ns
        · simp [hsame, hons]
        · have : desiredNs ow p ≠ "" := fun h => hons (hd h)
          simp [hsame, this]

/-- What preflight accepts, spelled out (the property's list): the REST mapper answers (no
transient lookup error), API exists, no ownerReferences of its own (rollout only), namespace rule,
dry run accepted (rollout only). -/
theorem preflight_ok_iff (cfg : Cfg) (ow : Owner) (cls : String) (inPhase : Bool) (p : PObj) :
    preflightObj cfg ow cls inPhase p = .ok ↔
      cfg.mapErr p.kind = false ∧
      cfg.scope p.kind ≠ .unknown ∧
      (cfg.flavour.noOwnerRefs = true → inPhase = true → p.presetOwnerRef = false) ∧
      (cfg.flavour.dryRun = true → inPhase = true → p.dryRun = .accept) ∧
      (cfg.flavour.nsEscalation = true → ow.ns ≠ "" → ¬(inPhase = true ∧ cls ≠ "") →
          desiredNs ow p = ow.ns ∧ cfg.scope p.kind = .namespaced) := by
  rw [← vOwner_false_iff, ← dry_ok_iff, ← vNs_false_iff]
  unfold preflightObj
  cases hm : cfg.mapErr p.kind
  · simp only [Bool.false_eq_true, ↓reduceIte, true_and]
    by_cases hs : cfg.scope p.kind = .unknown
    · simp [hs]
    · simp only [hs, ↓reduceIte, ne_eq, not_false_eq_true, true_and]
      cases h1 : (dryActive cfg inPhase && decide (p.dryRun = .error)) <;>
        cases h2 : vOwner cfg inPhase p <;> cases h3 : vNs cfg ow cls inPhase p <;>
        cases h4 : (dryActive cfg inPhase && decide (p.dryRun = .reject)) <;> simp
  · simp

/-- **mapper_error_is_error**: a REST-mapper lookup that fails with anything but NoMatch makes the
composed checker return the ERROR — it is neither a pass nor a violation, whatever the object is
(`APIExistence` returns before `NamespaceEscalation` is consulted). -/
theorem mapper_error_is_error (cfg : Cfg) (ow : Owner) (cls : String) (inPhase : Bool) (p : PObj)
    (h : cfg.mapErr p.kind = true) : preflightObj cfg ow cls inPhase p = .error := by
  simp [preflightObj, h]

/-- keys a namespaced owner may touch: namespaced kind, the owner's own namespace. -/
def Inside (cfg : Cfg) (ow : Owner) (k : Key) : Prop :=
  k.ns = ow.ns ∧ cfg.scope k.kind = .namespaced

theorem key_inside_of_preflight_ok (cfg : Cfg) (ow : Owner) (cls : String) (inPhase : Bool) (p : PObj)
    (hns : ow.ns ≠ "") (hfl : cfg.flavour.nsEscalation = true) (hcls : ¬(inPhase = true ∧ cls ≠ ""))
    (hok : preflightObj cfg ow cls inPhase p = .ok) : Inside cfg ow (keyOf cfg ow p) := by
  have := ((preflight_ok_iff cfg ow cls inPhase p).1 hok).2.2.2.2 hfl hns hcls
  simp [Inside, keyOf, this.1, this.2]

def eventKey : Event → Key
  | .apply k _ _ => k
  | .merge k _ _ _ => k
  | .delete k _ _ _ => k

/-- **namespaced_owner_stays_inside (rollout)**: a namespaced owner of a flavour that composes
the namespace-escalation checker (ObjectSet, same-cluster ObjectSetPhase) only ever writes to
namespaced kinds inside its own namespace. -/
theorem rollout_stays_inside (cfg : Cfg) (ow : Owner) (prev : List Prev) (ps : List PObj) (w : World)
    (hns : ow.ns ≠ "") (hfl : cfg.flavour.nsEscalation = true) :
    ∃ evs, (reconcilePhase cfg ow prev "" ps w).1.events = w.events ++ evs ∧
      ∀ e ∈ evs, Inside cfg ow (eventKey e) := by
  by_cases hpf : preflightPhase cfg ow "" ps = .ok
  · obtain ⟨evs, hev, hj⟩ := Pko.Props.C01.reconcilePhase_writes_justified cfg ow prev "" ps w
    refine ⟨evs, hev, ?_⟩
    intro e he
    obtain ⟨pw, hpw, c, ch, heq, _, _⟩ := hj e he
    -- every visited object is a member of the phase
    have hmem : ∀ (ps : List PObj) (w : World) (pw : PObj × World),
        pw ∈ Pko.Props.C01.visits cfg ow prev ps w → pw.1 ∈ ps := by
      intro ps
      induction ps with
      | nil => intro w pw h; simp [Pko.Props.C01.visits] at h
      | cons q rest ih =>
        intro w pw h
        simp only [Pko.Props.C01.visits, List.mem_cons] at h
        rcases h with h | h
        · simp [h]
        · split at h
          · exact List.mem_cons_of_mem _ (ih _ _ h)
          · exact List.mem_cons_of_mem _ (ih _ _ h)
          · simp at h
    have hp := hmem ps w pw hpw
    have hok : preflightObj cfg ow "" true pw.1 = .ok := by
      cases hq : preflightObj cfg ow "" true pw.1 with
      | ok => rfl
      | violation => exact absurd hpf (violation_blocks_phase cfg ow "" ps pw.1 hp (by simp [hq]))
      | error => exact absurd hpf (violation_blocks_phase cfg ow "" ps pw.1 hp (by simp [hq]))
    subst heq
    exact key_inside_of_preflight_ok cfg ow "" true pw.1 hns hfl (by simp) hok
  · exact ⟨[], by simp [(no_write_before_preflight cfg ow prev "" ps w hpf).1], by simp⟩

/-- **namespaced_owner_stays_inside (teardown)**: likewise every delete / de-reference patch
of a teardown targets a namespaced kind in the owner's namespace. -/
theorem teardown_stays_inside (cfg : Cfg) (ow : Owner) (ps : List PObj) (w : World)
    (hns : ow.ns ≠ "") (hfl : cfg.flavour.nsEscalation = true) :
    ∀ (b : Bool), ∃ evs, (teardownPhase.go cfg ow ps w b).1.events = w.events ++ evs ∧
      ∀ e ∈ evs, Inside cfg ow (eventKey e) := by
  induction ps generalizing w with
  | nil => intro b; exact ⟨[], by simp [teardownPhase.go], by simp⟩
  | cons p rest ih =>
    intro b
    have hhead : ∃ ev0, (teardownPhaseObject cfg ow p w).1.events = w.events ++ ev0 ∧
        ∀ e ∈ ev0, Inside cfg ow (eventKey e) := by
      by_cases hok : preflightObj cfg ow "" false p = .ok
      · have hin := key_inside_of_preflight_ok cfg ow "" false p hns hfl (by simp) hok
        cases Pko.Props.C05.teardownPhaseObject_shape cfg ow p w with
        | nothing h _ => exact ⟨[], by simpa using h, by simp⟩
        | deref cur ch res _ _ _ h => exact ⟨_, h, by intro e hm; simp at hm; subst hm; exact hin⟩
        | delete cur res _ _ h => exact ⟨_, h, by intro e hm; simp at hm; subst hm; exact hin⟩
      · refine ⟨[], ?_, by simp⟩
        simp only [teardownPhaseObject]
        cases hpo : preflightObj cfg ow "" false p with
        | ok => exact absurd hpo hok
        | violation => simp
        | error => simp
    obtain ⟨ev0, he0, hj0⟩ := hhead
    simp only [teardownPhase.go]
    cases hr : teardownPhaseObject cfg ow p w with
    | mk w' res =>
      rw [hr] at he0; simp only at he0
      cases res with
      | err => exact ⟨ev0, he0, hj0⟩
      | done =>
        obtain ⟨evs, hev, hj⟩ := ih w' b
        exact ⟨ev0 ++ evs, by simp [hev, he0, List.append_assoc],
          fun e hm => (List.mem_append.1 hm).elim (hj0 e) (hj e)⟩
      | notDone =>
        obtain ⟨evs, hev, hj⟩ := ih w' false
        exact ⟨ev0 ++ evs, by simp [hev, he0, List.append_assoc],
          fun e hm => (List.mem_append.1 hm).elim (hj0 e) (hj e)⟩

/-! ### Preflight that cannot be evaluated (REST mapper / discovery failure)

The checkers can also ERROR: the REST mapper's lookup fails with something that is not NoMatch.
The code that exists returns that error from the pass — rollout (`CheckAllInPhase`) and teardown
(`teardownPhaseObject`: "running preflight validation") alike — and retries; it never goes on to
read, delete or patch the object the check was about. -/

/-- every write of a teardown is the write of an object of the phase that PASSED the teardown-time
preflight check, on that object's key. -/
theorem teardown_events_of_ok (cfg : Cfg) (ow : Owner) (ps : List PObj) (w : World) :
    ∀ (b : Bool), ∃ evs, (teardownPhase.go cfg ow ps w b).1.events = w.events ++ evs ∧
      ∀ e ∈ evs, ∃ p ∈ ps, preflightObj cfg ow "" false p = .ok ∧ eventKey e = keyOf cfg ow p := by
  induction ps generalizing w with
  | nil => intro b; exact ⟨[], by simp [teardownPhase.go], by simp⟩
  | cons p rest ih =>
    intro b
    have hhead : ∃ ev0, (teardownPhaseObject cfg ow p w).1.events = w.events ++ ev0 ∧
        ∀ e ∈ ev0, preflightObj cfg ow "" false p = .ok ∧ eventKey e = keyOf cfg ow p := by
      by_cases hok : preflightObj cfg ow "" false p = .ok
      · cases Pko.Props.C05.teardownPhaseObject_shape cfg ow p w with
        | nothing h _ => exact ⟨[], by simpa using h, by simp⟩
        | deref cur ch res _ _ _ h => exact ⟨_, h, by intro e hm; simp at hm; subst hm; exact ⟨hok, rfl⟩⟩
        | delete cur res _ _ h => exact ⟨_, h, by intro e hm; simp at hm; subst hm; exact ⟨hok, rfl⟩⟩
      · refine ⟨[], ?_, by simp⟩
        simp only [teardownPhaseObject]
        cases hpo : preflightObj cfg ow "" false p with
        | ok => exact absurd hpo hok
        | violation => simp
        | error => simp
    obtain ⟨ev0, he0, hj0⟩ := hhead
    have hj0' : ∀ e ∈ ev0, ∃ q ∈ p :: rest, preflightObj cfg ow "" false q = .ok ∧ eventKey e = keyOf cfg ow q :=
      fun e hm => ⟨p, by simp, hj0 e hm⟩
    simp only [teardownPhase.go]
    cases hr : teardownPhaseObject cfg ow p w with
    | mk w' res =>
      rw [hr] at he0; simp only at he0
      have lift : ∀ evs : List Event,
          (∀ e ∈ evs, ∃ q ∈ rest, preflightObj cfg ow "" false q = .ok ∧ eventKey e = keyOf cfg ow q) →
          ∀ e ∈ ev0 ++ evs, ∃ q ∈ p :: rest, preflightObj cfg ow "" false q = .ok ∧ eventKey e = keyOf cfg ow q := by
        intro evs hj e hm
        rcases List.mem_append.1 hm with hm | hm
        · exact hj0' e hm
        · obtain ⟨q, hq, h⟩ := hj e hm
          exact ⟨q, List.mem_cons_of_mem _ hq, h⟩
      cases res with
      | err => exact ⟨ev0, he0, hj0'⟩
      | done =>
        obtain ⟨evs, hev, hj⟩ := ih w' b
        exact ⟨ev0 ++ evs, by simp [hev, he0, List.append_assoc], lift evs hj⟩
      | notDone =>
        obtain ⟨evs, hev, hj⟩ := ih w' false
        exact ⟨ev0 ++ evs, by simp [hev, he0, List.append_assoc], lift evs hj⟩

/-- **teardown_mapper_error_object_untouched**: the teardown of an object whose preflight check
cannot be evaluated returns the error at once: no read-dependent decision, no write, no watch
registration — the world is exactly what it was. -/
theorem teardown_mapper_error_object_untouched (cfg : Cfg) (ow : Owner) (p : PObj) (w : World)
    (h : cfg.mapErr p.kind = true) :
    (teardownPhaseObject cfg ow p w).2 = .err ∧
    (teardownPhaseObject cfg ow p w).1.events = w.events ∧
    (teardownPhaseObject cfg ow p w).1.store.objs = w.store.objs ∧
    (teardownPhaseObject cfg ow p w).1.watched = w.watched := by
  simp [teardownPhaseObject, mapper_error_is_error cfg ow "" false p h]

/-- **teardown_mapper_error_not_done**: a teardown pass over a phase that lists an object whose
check cannot be evaluated ends with the error (it is retried) — never `done`. -/
theorem teardown_mapper_error_not_done (cfg : Cfg) (ow : Owner) (ps : List PObj) (p : PObj)
    (hp : p ∈ ps) (h : cfg.mapErr p.kind = true) (w : World) :
    (teardownPhase cfg ow ps w).2 = .err := by
  suffices H : ∀ (ps : List PObj), p ∈ ps → ∀ (w : World) (b : Bool), (teardownPhase.go cfg ow ps w b).2 = .err from
    H ps hp w true
  intro ps
  induction ps with
  | nil => intro hp; simp at hp
  | cons q rest ih =>
    intro hp w b
    simp only [teardownPhase.go]
    rcases List.mem_cons.1 hp with heq | hin
    · subst heq
      have := (teardown_mapper_error_object_untouched cfg ow p w h).1
      cases hr : teardownPhaseObject cfg ow p w with
      | mk w' res => rw [hr] at this; simp only at this; subst this; rfl
    · cases hr : teardownPhaseObject cfg ow q w with
      | mk w' res =>
        cases res with
        | err => rfl
        | done => exact ih hin w' b
        | notDone => exact ih hin w' false

/-- **teardown_never_touches_faulted_kind**: no delete / de-reference patch of a teardown pass
targets an object of a kind whose REST-mapper lookup fails in that pass — whatever the store holds
under the listed names (objects naming the owner in their ownerReferences included). -/
theorem teardown_never_touches_faulted_kind (cfg : Cfg) (ow : Owner) (ps : List PObj) (w : World) :
    ∃ evs, (teardownPhase cfg ow ps w).1.events = w.events ++ evs ∧
      ∀ e ∈ evs, cfg.mapErr (eventKey e).kind = false := by
  obtain ⟨evs, hev, hj⟩ := teardown_events_of_ok cfg ow ps w true
  refine ⟨evs, hev, ?_⟩
  intro e he
  obtain ⟨p, _, hok, hk⟩ := hj e he
  rw [hk]
  exact ((preflight_ok_iff cfg ow "" false p).1 hok).1

/-- **rollout_mapper_error_writes_nothing**: a rollout pass over a phase that lists an object whose
check cannot be evaluated writes nothing at all and ends with the error (retried). -/
theorem rollout_mapper_error_writes_nothing (cfg : Cfg) (ow : Owner) (prev : List Prev) (cls : String)
    (ps : List PObj) (p : PObj) (hp : p ∈ ps) (h : cfg.mapErr p.kind = true) (w : World) :
    (reconcilePhase cfg ow prev cls ps w).1.events = w.events ∧
    (reconcilePhase cfg ow prev cls ps w).1.store.objs = w.store.objs ∧
    (reconcilePhase cfg ow prev cls ps w).2 = .err := by
  have hany : (ps.map (preflightObj cfg ow cls true)).any (· = .error) = true := by
    simp; exact ⟨p, hp, mapper_error_is_error cfg ow cls true p h⟩
  have : preflightPhase cfg ow cls ps = .error := by simp [preflightPhase, hany]
  simp [reconcilePhase, this]

/-- Non-vacuity: a foreign-namespace object that carries the owner's controller reference is
deleted by NOBODY when the mapper fails — and the same teardown does delete it … never: with a
healthy mapper it is a violation and skipped; the object in the owner's own namespace is deleted. -/
example :
    let ow : Owner := ⟨pkoGroup, "ObjectSet", "ns1", "own", "u-own", 3, false, ""⟩
    let cfg : Cfg := { st := .native, flavour := ⟨true, true, true⟩,
                       scope := fun k => if k = "ClThing" then .cluster else .namespaced, force := false }
    let bad : Cfg := { cfg with mapErr := fun k => k = "NsThing" }
    preflightObj bad ow "" false ⟨"NsThing", "ns2", "x", .prevent, "p", false, .accept⟩ = .error ∧
    preflightObj cfg ow "" false ⟨"NsThing", "ns2", "x", .prevent, "p", false, .accept⟩ = .violation ∧
    preflightObj cfg ow "" false ⟨"NsThing", "", "x", .prevent, "p", false, .accept⟩ = .ok := by
  decide

/-- **listed_twice_writes_nothing**: an ObjectSet that lists the same object twice — same kind,
namespace and name; a `PObj` carries no API version, so entries that differ only in the version
they are written in ARE the same entry (`ObjectDuplicate` keys by GroupKind) — writes none of its
objects: the phases part of the pass issues no write on any managed object, does not end `ok`
(it is retried) and its only write on the ObjectSet is the status update reporting
Available=False/PreflightError. -/
theorem listed_twice_writes_nothing (cfg : Cfg) (rm : Pko.Model.ObjectSet.Remotes)
    (s : Pko.Model.ObjectSet.Sys) (mem : Pko.Model.ObjectSet.OSet)
    (h : Pko.Model.ObjectSet.hasDuplicates mem.phases = true) :
    (Pko.Model.ObjectSet.activePhasesCore cfg rm s mem).1.w.events = s.w.events ∧
    (Pko.Model.ObjectSet.activePhasesCore cfg rm s mem).2 ≠ .ok ∧
    ∃ r, (Pko.Model.ObjectSet.activePhasesCore cfg rm s mem).1.setEvents = s.setEvents ++
      [.statusUpdate mem.name r mem.revision
        (Pko.Model.Status.setCond mem.conds (Pko.Model.ObjectSet.availableCond mem.gen false "PreflightError" ""))
        mem.controllerOf mem.remotePhases] := by
  simp only [Pko.Model.ObjectSet.activePhasesCore, h, if_true, Pko.Model.ObjectSet.statusFromError]
  have key : ∀ m : Pko.Model.ObjectSet.OSet,
      (Pko.Model.ObjectSet.afterStatus (s.updateStatus m) .requeue).1.w.events = s.w.events ∧
      (Pko.Model.ObjectSet.afterStatus (s.updateStatus m) .requeue).2 ≠ .ok ∧
      ∃ r, (Pko.Model.ObjectSet.afterStatus (s.updateStatus m) .requeue).1.setEvents = s.setEvents ++
        [.statusUpdate m.name r m.revision m.conds m.controllerOf m.remotePhases] := by
    intro m
    have hev := Pko.Lemmas.ObjectSet.updateStatus_events s m
    obtain ⟨r, hse⟩ := Pko.Lemmas.ObjectSet.updateStatus_setEvents s m
    cases hu : s.updateStatus m with
    | mk s' res =>
      rw [hu] at hev hse
      cases res with
      | ok v => exact ⟨by simpa [Pko.Model.ObjectSet.afterStatus] using hev, by simp [Pko.Model.ObjectSet.afterStatus],
                       r, by simpa [Pko.Model.ObjectSet.afterStatus] using hse⟩
      | error e => exact ⟨by simpa [Pko.Model.ObjectSet.afterStatus] using hev, by simp [Pko.Model.ObjectSet.afterStatus],
                          r, by simpa [Pko.Model.ObjectSet.afterStatus] using hse⟩
  exact key _

/-- Non-vacuity of `listed_twice_writes_nothing`: two entries for NsThing `a` in different phases. -/
example : Pko.Model.ObjectSet.hasDuplicates
    [⟨"p1", "", [⟨"NsThing", "", "a", .prevent, "x", false, .accept⟩]⟩,
     ⟨"p2", "", [⟨"NsThing", "", "b", .prevent, "x", false, .accept⟩, ⟨"NsThing", "", "a", .prevent, "y", false, .accept⟩]⟩] = true := by
  decide

/-- Non-vacuity: a cluster-scoped kind listed by a namespaced ObjectSet is a violation (also
when its namespace field is defaulted / set to the owner's), a namespaced one passes. -/
example :
    let ow : Owner := ⟨pkoGroup, "ObjectSet", "ns1", "own", "u-own", 3, false, ""⟩
    let cfg : Cfg := { st := .native, flavour := ⟨true, true, true⟩,
                       scope := fun k => if k = "ClThing" then .cluster else .namespaced, force := false }
    preflightObj cfg ow "" true ⟨"ClThing", "", "x", .prevent, "p", false, .accept⟩ = .violation ∧
    preflightObj cfg ow "" true ⟨"ClThing", "ns1", "x", .prevent, "p", false, .accept⟩ = .violation ∧
    preflightObj cfg ow "" true ⟨"NsThing", "ns2", "x", .prevent, "p", false, .accept⟩ = .violation ∧
    preflightObj cfg ow "" true ⟨"NsThing", "", "x", .prevent, "p", false, .accept⟩ = .ok := by
  decide

end Pko.Props.C11
