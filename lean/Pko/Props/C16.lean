/-
Property C16 — Only valid, admissible packages roll out; unchanged packages are left alone.

Theorems are about `Pko.Model.Deploy` (model of `PackageDeployer.Deploy`, `unpackReconciler` and
`GenericPackageController.Reconcile`, tied to the Go code by the harnesses in `harness/C16`) and
hold for ALL outcomes of the leaves (loader, each constraint, uniqueness listing, config admission,
render, API calls), all prior states and all histories of spec edits and faulty passes.
The spec predicates (`admissible`, `constraintsUnmet`, `checkStep`, …) live in
`Pko.Model.DeploySpec` and are written from the property's sentence.
-/
import Pko.Model.Deploy
import Pko.Model.DeploySpec
import Pko.Model.DeployRetry
import Pko.Lemmas.C16Deploy
import Pko.Lemmas.C16Retry

namespace Pko.Props.C16
open Pko.Model.Deploy Pko.Model.DeploySpec Pko.Model.DeployRetry Pko.Lemmas.C16

set_option linter.unusedSectionVars false
variable {H T : Type} [DecidableEq H] [DecidableEq T]

/-! ## Deploy: decision logic stated outright -/

/-- **Deploy rolls out iff admissible**: `Deploy` renders the package and hands it to the
deployment reconciler exactly when the image loads, every constraint is met, the configuration is
admitted and rendering (structure + object validation) succeeds — for every leaf outcome. -/
theorem deploy_rolls_out_iff_admissible (t : T) (L : Leaves) (f : RFault) (inv : Inv) (od : OD T) :
    (deploy t L f inv od).reconciled = true ↔ admissible L = true :=
  deploy_reconciled_iff t L f inv od

/-- `Deploy` of a package that is not admissible neither creates nor changes the ObjectDeployment. -/
theorem deploy_invalid_no_deployment_change (t : T) (L : Leaves) (f : RFault) (inv : Inv) (od : OD T)
    (h : admissible L = false) :
    (deploy t L f inv od).od = od ∧ (deploy t L f inv od).writes = [] :=
  ⟨(deploy_of_not_admissible t L f inv od h).1, (deploy_of_not_admissible t L f inv od h).2.1⟩

/-- Load failure: Invalid/LoadError and a nil return (so the controller persists it). -/
theorem deploy_load_failure (t : T) (L : Leaves) (f : RFault) (inv : Inv) (od : OD T) (h : L.load = false) :
    (deploy t L f inv od).err = false ∧ (deploy t L f inv od).inv = .loadError := by
  simp [deploy_of_load_failure t L f inv od h]

/-- Unmet constraint: Invalid/ConstraintsFailed and a nil return. -/
theorem deploy_unmet_constraint (t : T) (L : Leaves) (f : RFault) (inv : Inv) (od : OD T)
    (hl : L.load = true) (h : constraintsUnmet L = true) :
    (deploy t L f inv od).err = false ∧ (deploy t L f inv od).inv = .constraintsFailed := by
  simp [deploy_of_unmet t L f inv od hl h]

/-- An admissible package with no API fault ends with the freshly rendered template in the
ObjectDeployment, written by an Update, no Invalid condition and no error. -/
theorem deploy_admissible_rolls_out (t : T) (L : Leaves) (inv : Inv) (od : OD T) (h : admissible L = true) :
    deploy t L .none inv od =
      ⟨false, .none, some (some t), (match od with | none => [.create, .update] | some _ => [.update]), true⟩ := by
  rw [deploy_of_admissible t L .none inv od h, reconcile_none]
  cases od <;> simp

/-- **Deploy returns nil on an admissible package only with the fresh render stored** — for every
prior ObjectDeployment and under EVERY API fault or third-party interleaving (any number of 409
Conflict answers to the Update): the template is the freshly rendered one, it was written by an
Update of this call, and the Invalid condition is gone.  (This is the clause the unpack reconciler
relies on when it records the spec hash after a nil return.) -/
theorem deploy_nil_template_fresh (t : T) (L : Leaves) (f : RFault) (inv : Inv) (od : OD T)
    (ha : admissible L = true) (he : (deploy t L f inv od).err = false) :
    (deploy t L f inv od).od = some (some t) ∧ Write.update ∈ (deploy t L f inv od).writes ∧
      (deploy t L f inv od).inv = .none := by
  rw [deploy_of_admissible t L f inv od ha] at he ⊢
  cases hr : (reconcile od t f).2.2 with
  | true => simp [hr] at he
  | false =>
    obtain ⟨h1, h2⟩ := reconcile_ok od t f hr
    simp [h1, h2]

/-- **Conflicts below the retry budget are invisible in the result**: for ANY number `n <
retrySteps` of Updates answered 409 Conflict, `Deploy` of an admissible package ends exactly like
the undisturbed call — no error, fresh template, Invalid cleared — after `n` refused Updates. -/
theorem deploy_conflicts_below_budget (t : T) (L : Leaves) (inv : Inv) (od : OD T) (n : Nat)
    (ha : admissible L = true) (hn : n < retrySteps) :
    deploy t L (.conflict n) inv od =
      ⟨false, .none, some (some t),
       (match od with | none => [.create] | some _ => []) ++ List.replicate n .updateConflict ++ [.update], true⟩ := by
  rw [deploy_of_admissible t L _ inv od ha, reconcile_conflict_lt od t n hn]
  cases od <;> simp

/-- **Conflicts beyond the retry budget**: for ANY `n ≥ retrySteps` `Deploy` returns an error
(so nothing is recorded and the pass is retried), the Invalid condition is left as it was and the
template of an existing ObjectDeployment is not changed. -/
theorem deploy_conflicts_beyond_budget (t : T) (L : Leaves) (inv : Inv) (od : OD T) (n : Nat)
    (ha : admissible L = true) (hn : retrySteps ≤ n) :
    (deploy t L (.conflict n) inv od).err = true ∧ (deploy t L (.conflict n) inv od).inv = inv ∧
      (deploy t L (.conflict n) inv od).od = (match od with | none => some none | some _ => od) := by
  rw [deploy_of_admissible t L _ inv od ha, reconcile_conflict_ge od t n hn]
  cases od <;> simp

theorem clause_nil (b : Bool) (n : String) : clause b n = [] ↔ b = false := by
  cases b <;> simp [clause]

/-- **Monitor vs. model (deploy stream)**: the model of `Deploy` satisfies every clause the
monitor evaluates on implementation traces. -/
theorem checkDeploy_model (t : T) (L : Leaves) (f : RFault) (inv : Inv) (od : OD T) :
    checkDeploy t L f od (dobsOf (deploy t L f inv od)) = [] := by
  unfold checkDeploy dobsOf
  simp only [List.append_eq_nil_iff, clause_nil]
  cases ha : admissible L with
  | false =>
    obtain ⟨h1, h2, h3⟩ := deploy_of_not_admissible t L f inv od ha
    simp only [h1, h2, h3]
    cases hl : L.load with
    | false => simp [deploy_of_load_failure t L f inv od hl]
    | true =>
      cases hu : constraintsUnmet L with
      | false => simp
      | true => simp [deploy_of_unmet t L f inv od hl hu]
  | true =>
    have hl : L.load = true := ((admissible_iff L).mp ha).1
    have hm : checkConstraints L = .met := ((admissible_iff L).mp ha).2.1
    have hu : constraintsUnmet L = false := by
      cases hu : constraintsUnmet L with
      | false => rfl
      | true => rw [(checkConstraints_unmet_iff L).mpr hu] at hm; cases hm
    cases he : (deploy t L f inv od).err with
    | false =>
      obtain ⟨h1, h2, h3⟩ := deploy_nil_template_fresh t L f inv od ha he
      simp [hl, hu, h1, h2, h3]
    | true =>
      simp only [hl, hu]
      refine ⟨⟨⟨⟨⟨by simp, by simp⟩, by simp⟩, ?_⟩, by simp⟩, ?_⟩
      · -- valid-not-rolled-out: no error without a fault
        cases f <;> simp
        rw [deploy_admissible_rolls_out t L inv od ha] at he
        cases he
      · -- conflict-below-budget-not-retried
        cases f with
        | conflict n =>
          by_cases hn : n < retrySteps
          · rw [deploy_conflicts_below_budget t L inv od n ha hn] at he; cases he
          · simp [RFault.conflicts, hn]
        | _ => simp [RFault.conflicts]

/-! ## The conflict-retry loop on the refined state (resourceVersion, metadata, third parties) -/

/-- **The retry loop, any budget, any interleaving, any number of conflicts**: started in sync
with the API (as after the Get or the Create), `retry.RetryOnConflict` around the Update either
ends without error — then some attempt below the budget was accepted after only Conflict answers,
and the stored object is the closure body (merge annotations, change cause, merge labels, SET THE
TEMPLATE) applied to the LATEST stored object including every third-party write before it — or
with an error after the whole budget was refused, the stored object carrying only third-party
writes. -/
theorem retry_loop_any_budget_any_interleaving (t : T) (aliased : Bool) (desired : Obj T) (steps : Nat)
    (ws : List (List String)) (s : Obj T) :
    ((retryLoop t aliased desired steps ws s s).err = false →
      ∃ j, j < steps ∧
        (retryLoop t aliased desired steps ws s s).writes = List.replicate j .updateConflict ++ [.update] ∧
        (retryLoop t aliased desired steps ws s s).srv = storedFrom t aliased desired (afterGaps s (ws.take (j + 1)))) ∧
    ((retryLoop t aliased desired steps ws s s).err = true →
      (retryLoop t aliased desired steps ws s s).writes = List.replicate steps .updateConflict ∧
        (retryLoop t aliased desired steps ws s s).srv = afterGaps s (ws.take steps)) :=
  retryLoop_spec t aliased desired steps ws s

/-- … hence: no error ⇒ stored template = the fresh render; error ⇒ stored template untouched. -/
theorem retry_loop_template (t : T) (aliased : Bool) (desired : Obj T) (steps : Nat)
    (ws : List (List String)) (s : Obj T) :
    (retryLoop t aliased desired steps ws s s).srv.tpl =
      if (retryLoop t aliased desired steps ws s s).err then s.tpl else some t := by
  cases h : (retryLoop t aliased desired steps ws s s).err with
  | true => simp [retryLoop_err_template t aliased desired steps ws s h]
  | false => simp [retryLoop_ok_template t aliased desired steps ws s h]

theorem retry_abs (t : T) (al : Bool) (d s : Obj T) (key : Nat → String) (f : RFault) :
    some (retryLoop t al d retrySteps (gapsOf key f) s s).srv.tpl = (updateLoop (some s.tpl) t f.conflicts).1 ∧
    (retryLoop t al d retrySteps (gapsOf key f) s s).writes = (updateLoop (some s.tpl) t f.conflicts).2.1 ∧
    (retryLoop t al d retrySteps (gapsOf key f) s s).err = (updateLoop (some s.tpl) t f.conflicts).2.2 := by
  rw [gapsOf_eq, retryLoop_conflicts]
  simp only [List.length_map, List.length_range, updateLoop]
  by_cases h : f.conflicts < retrySteps
  · simp [h, storedFrom_tpl]
  · simp [h, tpWrites_tpl]

/-- **Refinement**: forgetting resourceVersions and metadata, the refined model of
`DeploymentReconciler.Reconcile` (explicit retry loop against an API with optimistic locking and
third-party writers) IS the coarse `reconcile` the Package-controller model and all theorems above
are built on — same template afterwards, same write requests, same error. -/
theorem reconcileObj_refines (t : T) (desired : Obj T) (srv : Option (Obj T)) (f : RFault) (key : Nat → String) :
    absOD (reconcileObj t desired srv f key).srv = (reconcile (absOD srv) t f).1 ∧
    (reconcileObj t desired srv f key).writes = (reconcile (absOD srv) t f).2.1 ∧
    (reconcileObj t desired srv f key).err = (reconcile (absOD srv) t f).2.2 := by
  unfold reconcileObj reconcile
  by_cases h1 : f = .get
  · simp [h1]
  · simp only [h1, if_false]
    cases srv with
    | none =>
      simp only [absOD, Option.map_none]
      by_cases h2 : f = .create
      · simp [h2]
      · by_cases h3 : f = .update
        · simp [h3]
        · simp only [h2, h3, if_false]
          obtain ⟨a, b, c⟩ := retry_abs t true { desired with tpl := none, rv := 1 }
            { desired with tpl := none, rv := 1 } key f
          simp only [Option.map_some]
          exact ⟨a, by rw [b], by rw [c]⟩
    | some s =>
      simp only [absOD, Option.map_some]
      by_cases h3 : f = .update
      · simp [h3]
      · simp only [h3, if_false]
        obtain ⟨a, b, c⟩ := retry_abs t false desired s key f
        exact ⟨a, b, by rw [c]⟩

/-- `deployObj` and `deploy` agree on the template that is stored. -/
theorem deployObj_consistent (t : T) (desired : Obj T) (L : Leaves) (f : RFault) (inv : Inv)
    (srv : Option (Obj T)) (key : Nat → String) :
    absOD (deployObj t desired L f inv srv key).2 = (deployObj t desired L f inv srv key).1.od := by
  cases hr : (deploy t L f inv (absOD srv)).reconciled with
  | false => simp [deployObj, hr, (deploy_not_reconciled t L f inv (absOD srv) hr).1]
  | true =>
    have ha := (deploy_reconciled_iff t L f inv (absOD srv)).mp hr
    simp only [deployObj, hr, if_true]
    rw [(reconcileObj_refines t desired srv f key).1, deploy_of_admissible t L f inv (absOD srv) ha]
    split <;> rfl

/-- What `Deploy` leaves stored when it returns nil on an admissible package: the number of
conflicts was below the budget and the object is the closure body applied to the latest stored
object (the one found, or the one pre-created in this call) with all third-party writes. -/
theorem deployObj_nil_stored (t : T) (desired : Obj T) (L : Leaves) (f : RFault) (inv : Inv)
    (srv : Option (Obj T)) (key : Nat → String) (ha : admissible L = true)
    (he : (deployObj t desired L f inv srv key).1.err = false) :
    f.conflicts < retrySteps ∧
    (deployObj t desired L f inv srv key).2 = some (match srv with
      | none => storedFrom t true { desired with tpl := none, rv := 1 }
          (tpWrites { desired with tpl := none, rv := 1 } ((List.range f.conflicts).map key))
      | some s => storedFrom t false desired (tpWrites s ((List.range f.conflicts).map key))) := by
  unfold deployObj at he ⊢
  have hr := (deploy_reconciled_iff t L f inv (absOD srv)).mpr ha
  simp only [hr, if_true]
  rw [deploy_of_admissible t L f inv (absOD srv) ha] at he
  have he' : (reconcile (absOD srv) t f).2.2 = false := by
    cases h : (reconcile (absOD srv) t f).2.2 with
    | false => rfl
    | true => simp [h] at he
  rw [← (reconcileObj_refines t desired srv f key).2.2] at he'
  revert he'
  unfold reconcileObj
  by_cases h1 : f = .get
  · simp [h1]
  · simp only [h1, if_false]
    cases srv with
    | none =>
      by_cases h2 : f = .create
      · simp [h2]
      · by_cases h3 : f = .update
        · simp [h3]
        · simp only [h2, h3, if_false, gapsOf_eq, retryLoop_conflicts, List.length_map, List.length_range]
          by_cases hn : f.conflicts < retrySteps
          · simp [hn]
          · simp [hn]
    | some s =>
      by_cases h3 : f = .update
      · simp [h3]
      · simp only [h3, if_false, gapsOf_eq, retryLoop_conflicts, List.length_map, List.length_range]
        by_cases hn : f.conflicts < retrySteps
        · simp [hn]
        · simp [hn]

def mobsOf (s : Option (Obj T)) : MObs :=
  match s with
  | none => ⟨[], []⟩
  | some o => ⟨o.ann, o.lab⟩

theorem mem_lookup_isSome (l : KV) (kv : String × String) (h : kv ∈ l) : (l.lookup kv.1).isSome = true := by
  rw [List.lookup_isSome_iff]; exact ⟨kv, h, by simp⟩

/-- The metadata clauses of the monitor follow from five pointwise facts about lookups. -/
theorem checkMeta_of_facts (L : Leaves) (dAnn dLab : KV) (landed : List String) (pre : MObs) (o : DObs T) (m : MObs)
    (hok : admissible L = true → o.err = false →
      (∀ kv ∈ dAnn, kv.1 ≠ "cc" → m.ann.lookup kv.1 = dAnn.lookup kv.1) ∧
      (∀ kv ∈ dLab, m.lab.lookup kv.1 = dLab.lookup kv.1) ∧
      (∀ k ∈ landed, m.ann.lookup k = some "x" ∧ m.lab.lookup k = some "x") ∧
      (∀ k, k ≠ "cc" → dAnn.lookup k = none → k ∉ landed → m.ann.lookup k = pre.ann.lookup k) ∧
      (∀ k, dLab.lookup k = none → k ∉ landed → m.lab.lookup k = pre.lab.lookup k)) :
    checkMeta L dAnn dLab landed pre o m = [] := by
  unfold checkMeta
  simp only [List.append_eq_nil_iff, clause_nil]
  cases ha : admissible L with
  | false => simp
  | true =>
    cases he : o.err with
    | true => simp
    | false =>
      obtain ⟨hA, hB, hC, hD, hE⟩ := hok ha he
      simp only [Bool.not_false, Bool.and_true, Bool.true_and]
      refine ⟨⟨⟨?_, ?_⟩, ?_⟩, ?_⟩
      · rw [List.any_eq_false]
        intro kv hkv
        by_cases hk : kv.1 = "cc"
        · simp [hk]
        · simp [hA kv hkv hk]
      · rw [List.any_eq_false]
        intro kv hkv
        simp [hB kv hkv]
      · rw [List.any_eq_false]
        intro k hk
        simp [(hC k hk).1, (hC k hk).2]
      · rw [Bool.or_eq_false_iff, List.any_eq_false, List.any_eq_false]
        constructor
        · intro kv _
          by_cases hk : kv.1 = "cc"
          · simp [hk]
          · cases hd : dAnn.lookup kv.1 with
            | some v => simp
            | none =>
              by_cases hl : kv.1 ∈ landed
              · simp [hl]
              · simp [hD kv.1 hk hd hl]
        · intro kv _
          cases hd : dLab.lookup kv.1 with
          | some v => simp
          | none =>
            by_cases hl : kv.1 ∈ landed
            · simp [hl]
            · simp [hE kv.1 hd hl]

/-- **Monitor vs. model (metadata clauses, deploy stream)**: when the third-party keys are
foreign to the package (not the change cause, not a key of the desired annotations / labels),
`Deploy` on the refined state satisfies "annotations / labels are the merge": desired entries
present, every third-party entry that landed kept, prior foreign entries kept. -/
theorem checkMeta_model (t : T) (desired : Obj T) (L : Leaves) (f : RFault) (inv : Inv)
    (srv : Option (Obj T)) (key : Nat → String)
    (hcc : ∀ i, key i ≠ kCause)
    (hfa : ∀ i, desired.ann.lookup (key i) = none) (hfl : ∀ i, desired.lab.lookup (key i) = none) :
    checkMeta L desired.ann desired.lab ((List.range f.conflicts).map key) (mobsOf srv)
      (dobsOf (deployObj t desired L f inv srv key).1) (mobsOf (deployObj t desired L f inv srv key).2) = [] := by
  apply checkMeta_of_facts
  intro ha he
  have he' : (deployObj t desired L f inv srv key).1.err = false := he
  have hks : ∀ k, k ∈ (List.range f.conflicts).map key → k ≠ kCause ∧ desired.ann.lookup k = none ∧
      desired.lab.lookup k = none := by
    intro k hk
    obtain ⟨i, _, rfl⟩ := List.mem_map.mp hk
    exact ⟨hcc i, hfa i, hfl i⟩
  cases srv with
  | some s =>
    obtain ⟨_, hs⟩ := deployObj_nil_stored t desired L f inv (some s) key ha he'
    simp only at hs
    simp only [hs, mobsOf]
    refine ⟨?_, ?_, ?_, ?_, ?_⟩
    · intro kv hkv hk
      have hsome := mem_lookup_isSome _ kv hkv
      rw [stored_ann_existing _ _ _ _ _ hk]
      cases hd : List.lookup kv.1 desired.ann with
      | none => rw [hd] at hsome; cases hsome
      | some v => simp
    · intro kv hkv
      have hsome := mem_lookup_isSome _ kv hkv
      rw [stored_lab_existing]
      cases hd : List.lookup kv.1 desired.lab with
      | none => rw [hd] at hsome; cases hsome
      | some v => simp
    · intro k hk
      obtain ⟨h1, h2, h3⟩ := hks k hk
      rw [stored_ann_existing _ _ _ _ _ h1, stored_lab_existing, tps_lookup]
      simp [h2, h3, hk]
    · intro k hk hd hl
      rw [stored_ann_existing _ _ _ _ _ hk, tps_lookup]
      simp [hd, hl]
    · intro k hd hl
      rw [stored_lab_existing, tps_lookup]
      simp [hd, hl]
  | none =>
    obtain ⟨_, hs⟩ := deployObj_nil_stored t desired L f inv none key ha he'
    simp only at hs
    simp only [hs, mobsOf]
    refine ⟨?_, ?_, ?_, ?_, ?_⟩
    · intro kv hkv hk
      have hsome := mem_lookup_isSome _ kv hkv
      have hnot : kv.1 ∉ (List.range f.conflicts).map key := by
        intro hm
        rw [(hks _ hm).2.1] at hsome; cases hsome
      rw [stored_ann_created t _ _ rfl _ _ hk, tps_lookup]
      cases hd : List.lookup kv.1 desired.ann with
      | none => rw [hd] at hsome; cases hsome
      | some v => simp [hnot]
    · intro kv hkv
      have hsome := mem_lookup_isSome _ kv hkv
      have hnot : kv.1 ∉ (List.range f.conflicts).map key := by
        intro hm
        rw [(hks _ hm).2.2] at hsome; cases hsome
      rw [stored_lab_created t _ _ rfl, tps_lookup]
      cases hd : List.lookup kv.1 desired.lab with
      | none => rw [hd] at hsome; cases hsome
      | some v => simp [hnot]
    · intro k hk
      obtain ⟨h1, h2, h3⟩ := hks k hk
      rw [stored_ann_created t _ _ rfl _ _ h1, stored_lab_created t _ _ rfl, tps_lookup]
      simp [hk]
    · intro k hk hd hl
      rw [stored_ann_created t _ _ rfl _ _ hk, tps_lookup]
      simp [hd, hl]
    · intro k hd hl
      rw [stored_lab_created t _ _ rfl, tps_lookup]
      simp [hd, hl]

/-! ## One reconcile pass of the Package controller -/

variable (hash : Spec → H) (render : Spec → T)

/-- The spec hash recorded in the persisted status is the one of the current spec. -/
def Recorded (st : Store H T) : Prop := st.status.unpackedHash = some (hash st.spec)

/-- Whatever a pass does to the ObjectDeployment is what `Deploy` did, and `Deploy` is only
called after a successful pull of a spec whose hash is not recorded. -/
theorem pass_od_eq (L : Leaves) (F : Faults) (st : Store H T) :
    ((pass hash render L F st).store.od = st.od ∧ (pass hash render L F st).writes = [] ∧
        (pass hash render L F st).deploys = 0 ∧ (pass hash render L F st).reconciled = false) ∨
    (F.pull = false ∧ ¬ Recorded hash st ∧
      (pass hash render L F st).store.od = (deploy (render st.spec) L F.recon st.status.invalid st.od).od ∧
      (pass hash render L F st).writes = (deploy (render st.spec) L F.recon st.status.invalid st.od).writes ∧
      (pass hash render L F st).reconciled =
        (deploy (render st.spec) L F.recon st.status.invalid st.od).reconciled) := by
  unfold pass Recorded
  cases F.pkgGet <;> simp
  cases F.odGet0 <;> simp
  by_cases hr : st.status.unpackedHash = some (hash st.spec)
  · simp [hr]; split <;> simp
  · simp [hr]
    cases F.pull <;> simp
    · cases F.env <;> simp
      split
      · simp
      · split <;> simp
    · split <;> simp

/-- **invalid_no_deployment_change** (all classes at once): if the image cannot be pulled, or the
package is not admissible — does not load, a constraint is unmet or cannot be evaluated, the
configuration is rejected, structure / object validation fails — the pass neither creates nor
changes the ObjectDeployment, whatever the prior state and whatever else fails. -/
theorem invalid_no_deployment_change (L : Leaves) (F : Faults) (st : Store H T)
    (h : F.pull = true ∨ admissible L = false) :
    (pass hash render L F st).store.od = st.od ∧ (pass hash render L F st).writes = [] := by
  rcases pass_od_eq hash render L F st with h1 | ⟨hp, _, h2, h3, _⟩
  · exact ⟨h1.1, h1.2.1⟩
  · rcases h with h | h
    · rw [hp] at h; cases h
    · obtain ⟨a, b, _⟩ := deploy_of_not_admissible (render st.spec) L F.recon st.status.invalid st.od h
      exact ⟨h2.trans a, h3.trans b⟩

/-- Converse reading: any write request for, or change of, the ObjectDeployment happens in a pass
whose pull succeeded on an admissible package. -/
theorem deployment_change_only_if_admissible (L : Leaves) (F : Faults) (st : Store H T)
    (h : (pass hash render L F st).store.od ≠ st.od ∨ (pass hash render L F st).writes ≠ []) :
    F.pull = false ∧ admissible L = true := by
  cases hp : F.pull with
  | true => have := invalid_no_deployment_change hash render L F st (.inl hp); simp [this] at h
  | false =>
    cases ha : admissible L with
    | true => simp
    | false => have := invalid_no_deployment_change hash render L F st (.inr ha); simp [this] at h

/-- invalidity class: **pull failure**. -/
theorem invalid_no_deployment_change_pull (L : Leaves) (F : Faults) (st : Store H T) (h : F.pull = true) :
    (pass hash render L F st).store.od = st.od ∧ (pass hash render L F st).writes = [] :=
  invalid_no_deployment_change hash render L F st (.inl h)

/-- invalidity class: **the image does not load** (no / unparsable manifest, unknown component …). -/
theorem invalid_no_deployment_change_load (L : Leaves) (F : Faults) (st : Store H T) (h : L.load = false) :
    (pass hash render L F st).store.od = st.od ∧ (pass hash render L F st).writes = [] :=
  invalid_no_deployment_change hash render L F st (.inr (by simp [admissible, h]))

/-- invalidity class: **structural or object validation** fails (both run inside
`RenderPackageInstance`: package validators, templates, object validators). -/
theorem invalid_no_deployment_change_validation (L : Leaves) (F : Faults) (st : Store H T)
    (h : L.render = false) :
    (pass hash render L F st).store.od = st.od ∧ (pass hash render L F st).writes = [] :=
  invalid_no_deployment_change hash render L F st (.inr (by simp [admissible, h]))

/-- invalidity class: **the configuration violates the manifest's schema**. -/
theorem invalid_no_deployment_change_config_schema (L : Leaves) (F : Faults) (st : Store H T)
    (h : L.admission = .invalid) :
    (pass hash render L F st).store.od = st.od ∧ (pass hash render L F st).writes = [] :=
  invalid_no_deployment_change hash render L F st (.inr (by simp [admissible, h]))

/-- invalidity class: the configuration is not JSON, or admission itself fails. -/
theorem invalid_no_deployment_change_config_error (L : Leaves) (F : Faults) (st : Store H T)
    (h : L.cfgJson = false ∨ L.admission = .err) :
    (pass hash render L F st).store.od = st.od ∧ (pass hash render L F st).writes = [] :=
  invalid_no_deployment_change hash render L F st (.inr (by rcases h with h | h <;> simp [admissible, h]))

/-- invalidity class: **a platform or version constraint is not met** (any entry of the
constraint list, whatever its kind and position). -/
theorem invalid_no_deployment_change_constraint_unmet (L : Leaves) (F : Faults) (st : Store H T)
    (h : COut.unmet ∈ L.cons) :
    (pass hash render L F st).store.od = st.od ∧ (pass hash render L F st).writes = [] := by
  refine invalid_no_deployment_change hash render L F st (.inr ?_)
  have : L.cons.all (· == .met) = false := by
    simp; exact ⟨.unmet, h, by decide⟩
  simp [admissible, constraintsMet, this]

/-- invalidity class: a platform / version constraint **cannot be evaluated** (unparsable range
or platform version). -/
theorem invalid_no_deployment_change_constraint_error (L : Leaves) (F : Faults) (st : Store H T)
    (h : COut.err ∈ L.cons) :
    (pass hash render L F st).store.od = st.od ∧ (pass hash render L F st).writes = [] := by
  refine invalid_no_deployment_change hash render L F st (.inr ?_)
  have : L.cons.all (· == .met) = false := by
    simp; exact ⟨.err, h, by decide⟩
  simp [admissible, constraintsMet, this]

/-- invalidity class: **the uniqueness constraint is not met** (more than one package with this
manifest in scope) or cannot be evaluated (List fails / zero packages found). -/
theorem invalid_no_deployment_change_unique (L : Leaves) (F : Faults) (st : Store H T)
    (h : L.uniq = .many ∨ L.uniq = .zero ∨ L.uniq = .listErr) :
    (pass hash render L F st).store.od = st.od ∧ (pass hash render L F st).writes = [] := by
  refine invalid_no_deployment_change hash render L F st (.inr ?_)
  rcases h with h | h | h <;> simp [admissible, constraintsMet, h]

/-! ## What is persisted -/

/-- **pull_failure_unpacked_false_persisted**: a failed pull of a spec that is not recorded yet
ends, if the Package could be read and the status written, with Unpacked=False PERSISTED, a
requeue, no error, and the recorded hash untouched (so the pull is retried). -/
theorem pull_failure_unpacked_false_persisted (L : Leaves) (F : Faults) (st : Store H T)
    (hp : F.pull = true) (hn : ¬ Recorded hash st)
    (h1 : F.pkgGet = false) (h2 : F.odGet0 = false) (h3 : F.status = false) :
    (pass hash render L F st).store.status.unpacked = some false ∧
    (pass hash render L F st).res = .requeue ∧
    (pass hash render L F st).store.status.unpackedHash = st.status.unpackedHash ∧
    (pass hash render L F st).store.status.invalid = st.status.invalid := by
  unfold Recorded at hn
  simp [pass, hp, hn, h1, h2, h3]

/-- **load_failure_invalid_persisted**: a fault-free pass over a spec that is not recorded and
whose image does not load ends with Invalid/LoadError PERSISTED, no error, and the hash recorded
(the broken package is not pulled again until its spec changes). -/
theorem load_failure_invalid_persisted (L : Leaves) (st : Store H T)
    (hn : ¬ Recorded hash st) (hl : L.load = false) :
    (pass hash render L {} st).store.status.invalid = .loadError ∧
    (pass hash render L {} st).res = .ok ∧
    (pass hash render L {} st).store.status.unpackedHash = some (hash st.spec) := by
  unfold Recorded at hn
  simp [pass, hn, deploy_of_load_failure _ L _ _ _ hl]

/-- **unmet_constraint_invalid_persisted**: same for an unmet platform / version / uniqueness
constraint: Invalid/ConstraintsFailed PERSISTED, no error, hash recorded. -/
theorem unmet_constraint_invalid_persisted (L : Leaves) (st : Store H T)
    (hn : ¬ Recorded hash st) (hl : L.load = true) (hu : constraintsUnmet L = true) :
    (pass hash render L {} st).store.status.invalid = .constraintsFailed ∧
    (pass hash render L {} st).res = .ok ∧
    (pass hash render L {} st).store.status.unpackedHash = some (hash st.spec) := by
  unfold Recorded at hn
  simp [pass, hn, deploy_of_unmet _ L _ _ _ hl hu]

/-- The status is persisted only by an error-free pass: a pass that returns an error leaves the
persisted status exactly as it was. -/
theorem error_pass_persists_nothing (L : Leaves) (F : Faults) (st : Store H T)
    (h : (pass hash render L F st).res = .err) :
    (pass hash render L F st).store.status = st.status := by
  revert h
  unfold pass
  cases F.pkgGet <;> simp
  cases F.odGet0 <;> simp
  split
  · split <;> simp
  · cases F.pull <;> simp
    · cases F.env <;> simp
      split
      · simp
      · split <;> simp
    · split <;> simp

/-! ## Unchanged packages are left alone -/

/-- One pass over a Package whose spec hash is recorded: no pull, no Deploy (no load, no render),
no write, and the whole stored state (spec, status, ObjectDeployment) is unchanged — whatever the
leaves would answer and whatever faults hit the pass. -/
theorem unchanged_spec_left_alone (L : Leaves) (F : Faults) (st : Store H T) (h : Recorded hash st) :
    (pass hash render L F st).store = st ∧ (pass hash render L F st).pulls = 0 ∧
    (pass hash render L F st).deploys = 0 ∧ (pass hash render L F st).reconciled = false ∧
    (pass hash render L F st).writes = [] := by
  unfold Recorded at h
  unfold pass
  cases F.pkgGet <;> simp
  cases F.odGet0 <;> simp
  simp [h]
  split <;> simp

/-- A pass that ends without error and without requeue has recorded the hash of the current spec. -/
theorem ok_pass_records (L : Leaves) (F : Faults) (st : Store H T)
    (h : (pass hash render L F st).res = .ok) : Recorded hash (pass hash render L F st).store := by
  revert h
  unfold pass Recorded
  cases F.pkgGet <;> simp
  cases F.odGet0 <;> simp
  by_cases hr : st.status.unpackedHash = some (hash st.spec)
  · simp [hr]; split <;> simp [hr]
  · simp [hr]
    cases F.pull <;> simp
    · cases F.env <;> simp
      split
      · simp
      · split <;> simp
    · split <;> simp

/-- **unchanged_spec_no_pull_no_render** (induction over histories): once the hash of the spec is
recorded, ANY number of further passes with the spec unchanged — under any faults, with the world
answering anything — neither pull nor deploy/render nor write, and leave the stored state as it is. -/
theorem unchanged_spec_no_pull_no_render (W : Spec → Leaves) (st : Store H T) (h : Recorded hash st)
    (fs : List Faults) :
    run hash render W st (fs.map Op.pass) = st ∧
    ∀ r ∈ trace hash render W st (fs.map Op.pass), ∀ r', r = some r' →
      r'.pulls = 0 ∧ r'.deploys = 0 ∧ r'.reconciled = false ∧ r'.writes = [] := by
  induction fs with
  | nil => simp [run, trace]
  | cons F fs ih =>
    obtain ⟨h1, h2, h3, h4, h5⟩ := unchanged_spec_left_alone hash render (W st.spec) F st h
    simp only [List.map_cons, run, List.foldl_cons, step, trace]
    rw [h1]
    refine ⟨ih.1, ?_⟩
    intro r hr r' hr'
    simp only [List.mem_cons] at hr
    rcases hr with hr | hr
    · subst hr; cases hr'; exact ⟨h2, h3, h4, h5⟩
    · exact ih.2 r hr r' hr'

/-- … in particular after any pass that completed: from then on, until the spec is edited, the
package is neither re-pulled nor re-rendered. -/
theorem after_ok_pass_no_pull_no_render (W : Spec → Leaves) (st : Store H T) (F : Faults)
    (h : (pass hash render (W st.spec) F st).res = .ok) (fs : List Faults) :
    ∀ r ∈ trace hash render W (pass hash render (W st.spec) F st).store (fs.map Op.pass), ∀ r', r = some r' →
      r'.pulls = 0 ∧ r'.deploys = 0 ∧ r'.reconciled = false ∧ r'.writes = [] :=
  (unchanged_spec_no_pull_no_render hash render W _ (ok_pass_records hash render _ F st h) fs).2

/-! ## Changed packages are rendered afresh -/

/-- **changed_spec_template_eq_fresh_render** (one pass): a fault-free pass over an admissible
package whose spec hash is not the recorded one (a changed image, config or component) pulls once,
ends with the ObjectDeployment template EQUAL to a fresh render of the current spec, written by an
Update in this pass, records the new hash, and clears the Invalid condition. -/
theorem changed_spec_template_eq_fresh_render (L : Leaves) (st : Store H T)
    (hn : ¬ Recorded hash st) (ha : admissible L = true) :
    (pass hash render L {} st).store.od = some (some (render st.spec)) ∧
    Write.update ∈ (pass hash render L {} st).writes ∧
    (pass hash render L {} st).pulls = 1 ∧
    (pass hash render L {} st).store.status.unpackedHash = some (hash st.spec) ∧
    (pass hash render L {} st).store.status.invalid = .none ∧
    (pass hash render L {} st).store.status.unpacked = some true ∧
    (pass hash render L {} st).res = .ok := by
  unfold Recorded at hn
  simp [pass, hn, deploy_admissible_rolls_out _ L _ _ ha]
  cases st.od <;> simp

/-! ## Histories: the template never goes stale (partial) and the counterexample

Full statement one would like (for all histories of edits and faulty passes from a fresh Package):

    after a fault-free pass over an admissible spec `s`, the ObjectDeployment template is
    `render s`.

It is FALSE for the code as it is (see `stale_template_after_lost_status_counterexample`): when a
pass updates the ObjectDeployment for spec B and then fails to persist the status (conflict on
`Status().Update`, or an error in the status sub-reconciler / slice GC), and the user reverts the
spec to the previously recorded A before the retry, the hash short-circuit fires and the template
stays at `render B`.  What holds, and is proved, is the statement for histories without such a
"late" fault (`LossFree`). -/


def FreshInv (W : Spec → Leaves) (st : Store H T) : Prop :=
  ∀ s, st.status.unpackedHash = some (hash s) → admissible (W s) = true → st.od = some (some (render s))

theorem reconcile_cases (od : OD T) (t : T) (f : RFault) (hf : f ≠ .late) :
    ((reconcile od t f).2.2 = false ∧ (reconcile od t f).1 = some (some t)) ∨
    ((reconcile od t f).2.2 = true ∧ ((reconcile od t f).1 = od ∨ (od = none ∧ (reconcile od t f).1 = some none))) := by
  cases h : (reconcile od t f).2.2 with
  | false => exact .inl ⟨rfl, (reconcile_ok od t f h).1⟩
  | true => exact .inr ⟨rfl, reconcile_err od t f hf h⟩

theorem pass_preserves_fresh (hinj : ∀ a b, hash a = hash b → a = b) (W : Spec → Leaves)
    (F : Faults) (st : Store H T) (hl : late F = false) (hI : FreshInv hash render W st) :
    FreshInv hash render W (pass hash render (W st.spec) F st).store := by
  have h1 : F.odGet2 = false := by cases h : F.odGet2 <;> simp [late, h] at hl ⊢
  have h2 : F.status = false := by cases h : F.status <;> simp [late, h] at hl ⊢
  have h3 : F.recon ≠ .late := by intro h; simp [late, h] at hl
  unfold pass
  by_cases c1 : F.pkgGet = true
  · simpa [c1] using hI
  by_cases c2 : F.odGet0 = true
  · simpa [c1, c2] using hI
  by_cases c3 : st.status.unpackedHash = some (hash st.spec)
  · simp only [c1, c2, c3, h1, h2]; simpa using hI
  by_cases c4 : F.pull = true
  · simp only [c1, c2, c3, c4, h2]
    intro s hs ha
    exact hI s (by simpa using hs) ha
  by_cases c5 : F.env = true
  · simpa [c1, c2, c3, c4, c5] using hI
  simp only [c1, c2, c3, c4, c5, h1, h2]
  simp only [Bool.false_eq_true, ↓reduceIte, Bool.or_self]
  cases ha : admissible (W st.spec) with
  | false =>
    obtain ⟨a, b, c⟩ := deploy_of_not_admissible (render st.spec) (W st.spec) F.recon st.status.invalid st.od ha
    split
    · intro s hs hs'
      simp only [a]
      exact hI s hs hs'
    · intro s hs hs'
      simp only at hs
      have : s = st.spec := (hinj _ _ (by simpa using hs)).symm
      subst this
      rw [ha] at hs'; cases hs'
  | true =>
    rw [deploy_of_admissible (render st.spec) (W st.spec) F.recon st.status.invalid st.od ha]
    rcases reconcile_cases st.od (render st.spec) F.recon h3 with ⟨e, o⟩ | ⟨e, o⟩
    · simp only [e, o]
      intro s hs _
      have : s = st.spec := (hinj _ _ (by simpa using hs)).symm
      subst this; rfl
    · simp only [e]
      intro s hs hs'
      have := hI s (by simpa using hs) hs'
      rcases o with o | ⟨o1, _⟩
      · simpa [o] using this
      · rw [o1] at this; cases this

/-- No pass of the history is hit by a fault that loses the status after the deployment changed. -/
def LossFree (ops : List Op) : Prop := ∀ F, Op.pass F ∈ ops → late F = false

theorem fresh_inv_fresh (W : Spec → Leaves) (s : Spec) : FreshInv hash render W (fresh s : Store H T) := by
  intro s' h; simp [fresh] at h

/-- **fresh_render_invariant_partial**: for a collision-free hash and every history of spec edits
and passes under arbitrary faults EXCEPT late ones, whenever the recorded hash is the hash of an
admissible spec `s`, the ObjectDeployment template is `render s`. -/
theorem fresh_render_invariant_partial (hinj : ∀ a b, hash a = hash b → a = b) (W : Spec → Leaves)
    (ops : List Op) (hl : LossFree ops) (st : Store H T) (hI : FreshInv hash render W st) :
    FreshInv hash render W (run hash render W st ops) := by
  induction ops generalizing st with
  | nil => simpa [run] using hI
  | cons op ops ih =>
    have hl' : LossFree ops := fun F hF => hl F (List.mem_cons_of_mem _ hF)
    simp only [run, List.foldl_cons]
    apply ih hl'
    cases op with
    | edit s => intro s' h1 h2; exact hI s' h1 h2
    | pass F => exact pass_preserves_fresh hash render hinj W F st (hl F (by simp)) hI

/-- **changed_spec_history_ends_fresh_partial**: after ANY loss-free history from a fresh Package
(edits of image / config / component, pull failures, API errors before or during the deployment
update), a fault-free pass over an admissible current spec leaves the ObjectDeployment template
equal to a fresh render of the current spec. -/
theorem changed_spec_history_ends_fresh_partial (hinj : ∀ a b, hash a = hash b → a = b)
    (W : Spec → Leaves) (s0 : Spec) (ops : List Op) (hl : LossFree ops) :
    let st := run hash render W (fresh s0 : Store H T) ops
    admissible (W st.spec) = true →
    (pass hash render (W st.spec) {} st).store.od = some (some (render st.spec)) := by
  intro st ha
  have hI := fresh_render_invariant_partial hash render hinj W ops hl (fresh s0) (fresh_inv_fresh hash render W s0)
  by_cases hr : st.status.unpackedHash = some (hash st.spec)
  · rw [(unchanged_spec_left_alone hash render (W st.spec) {} st hr).1]
    exact hI st.spec hr ha
  · exact (changed_spec_template_eq_fresh_render hash render (W st.spec) st hr ha).1

/-- The world in which every package is admissible. -/
def allOk : Spec → Leaves := fun _ =>
  { load := true, cons := [.met], uniq := .one, cfgJson := true, admission := .ok, images := true, render := true,
    desired := true }

/-- **Counterexample to the unrestricted history statement**: image 1 is rolled out and recorded;
the spec is edited to image 2; the pass updates the ObjectDeployment to `render 2` but the status
write fails; the spec is edited back to image 1; the next — fault-free — pass short-circuits on the
recorded hash and the template stays `render 2 ≠ render 1`. -/
theorem stale_template_after_lost_status_counterexample :
    let h : Spec → Spec := id
    let r : Spec → Nat := fun s => s.image
    let ops := [Op.pass {}, .edit ⟨2, 0, 0⟩, .pass { status := true }, .edit ⟨1, 0, 0⟩, .pass {}]
    let st := run h r allOk (fresh ⟨1, 0, 0⟩ : Store Spec Nat) ops
    admissible (allOk st.spec) = true ∧ st.spec = ⟨1, 0, 0⟩ ∧ st.od = some (some 2) ∧
      st.od ≠ some (some (r st.spec)) := by
  decide

/-! ## Monitor vs. model (ctrl stream) -/

theorem clean_eq (F : Faults) (h : clean F = true) : F = {} := by
  simpa [clean] using h

/-- The recorded hash changes only in a pass that pulled once, was hit by none of the definite
faults, and then it is the hash of the current spec. -/
theorem hash_changes_only_when_processed (L : Leaves) (F : Faults) (st : Store H T)
    (h : (pass hash render L F st).store.status.unpackedHash ≠ st.status.unpackedHash) :
    (pass hash render L F st).store.status.unpackedHash = some (hash st.spec) ∧
    (pass hash render L F st).pulls = 1 ∧ F.pkgGet = false ∧ F.odGet0 = false ∧ F.pull = false ∧
    F.env = false ∧ F.odGet2 = false ∧ F.status = false := by
  revert h
  unfold pass
  cases F.pkgGet <;> simp
  cases F.odGet0 <;> simp
  split
  · split <;> simp
  · cases F.pull <;> simp
    · cases F.env <;> simp
      split
      · simp
      · cases F.odGet2 <;> cases F.status <;> simp
    · split <;> simp

/-- **recorded ⇒ fresh** (one pass, ANY faults and interleavings): a pass that changes the recorded
spec hash — from then on the spec counts as rolled out and is never rendered again — over an
admissible package has left the ObjectDeployment template equal to a fresh render of the current
spec.  In particular after any number of 409 Conflict answers to the ObjectDeployment Update. -/
theorem recorded_template_fresh (L : Leaves) (F : Faults) (st : Store H T)
    (h : (pass hash render L F st).store.status.unpackedHash ≠ st.status.unpackedHash)
    (ha : admissible L = true) :
    (pass hash render L F st).store.od = some (some (render st.spec)) := by
  revert h
  unfold pass
  cases F.pkgGet <;> simp
  cases F.odGet0 <;> simp
  split
  · split <;> simp
  · cases F.pull <;> simp
    · cases F.env <;> simp
      cases he : (deploy (render st.spec) L F.recon st.status.invalid st.od).err with
      | true => simp
      | false =>
        simp only [Bool.false_eq_true, if_false]
        split
        · simp
        · intro _
          exact (deploy_nil_template_fresh (render st.spec) L F.recon st.status.invalid st.od ha he).1
    · split <;> simp

/-- **Monitor vs. model, one pass**: the model's pass satisfies every clause of `checkStep`
(the `strong` clause under the invariant it needs). -/
theorem checkStep_model (W : Spec → Leaves) (F : Faults) (st : Store H T) (strong : Bool)
    (hs : strong = true → clean F = true ∧ FreshInv hash render W st) :
    checkStep hash render (W st.spec) F st.spec st.status.unpackedHash st.od strong
      (obsOf (pass hash render (W st.spec) F st)) = [] := by
  unfold checkStep
  simp only [List.append_eq_nil_iff, clause_nil, obsOf]
  refine ⟨⟨⟨⟨⟨⟨⟨⟨⟨?_, ?_⟩, ?_⟩, ?_⟩, ?_⟩, ?_⟩, ?_⟩, ?_⟩, ?_⟩, ?_⟩
  · -- invalid-rolled-out
    cases hp : F.pull with
    | true => simp [invalid_no_deployment_change hash render (W st.spec) F st (.inl hp)]
    | false =>
      cases ha : admissible (W st.spec) with
      | true => simp
      | false => simp [invalid_no_deployment_change hash render (W st.spec) F st (.inr ha)]
  · -- pull-failure-not-shown
    by_cases hr : st.status.unpackedHash = some (hash st.spec)
    · simp [hr]
    · cases hp : F.pull <;> cases h1 : F.pkgGet <;> cases h2 : F.odGet0 <;> cases h3 : F.status <;> simp [hr]
      exact (pull_failure_unpacked_false_persisted hash render (W st.spec) F st hp hr h1 h2 h3).1
  · -- load-failure-not-persisted
    by_cases hr : st.status.unpackedHash = some (hash st.spec)
    · simp [hr]
    · cases hc : clean F with
      | false => simp
      | true =>
        cases hl : (W st.spec).load with
        | true => simp
        | false =>
          rw [clean_eq F hc]
          simp [(load_failure_invalid_persisted hash render (W st.spec) st hr hl).1]
  · -- unmet-constraint-not-persisted
    by_cases hr : st.status.unpackedHash = some (hash st.spec)
    · simp [hr]
    · cases hc : clean F with
      | false => simp
      | true =>
        cases hl : (W st.spec).load with
        | false => simp
        | true =>
          cases hu : constraintsUnmet (W st.spec) with
          | false => simp
          | true =>
            rw [clean_eq F hc]
            simp [(unmet_constraint_invalid_persisted hash render (W st.spec) st hr hl hu).1]
  · -- invalid-hash-not-recorded
    by_cases hr : st.status.unpackedHash = some (hash st.spec)
    · simp [hr]
    · cases hc : clean F with
      | false => simp
      | true =>
        rw [clean_eq F hc]
        cases hl : (W st.spec).load with
        | false => simp [(load_failure_invalid_persisted hash render (W st.spec) st hr hl).2.2]
        | true =>
          cases hu : constraintsUnmet (W st.spec) with
          | false => simp
          | true => simp [(unmet_constraint_invalid_persisted hash render (W st.spec) st hr hl hu).2.2]
  · -- unchanged-spec-touched
    by_cases hr : st.status.unpackedHash = some (hash st.spec)
    · obtain ⟨a, b, c, _, e⟩ := unchanged_spec_left_alone hash render (W st.spec) F st hr
      simp [a, b, c, e]
    · simp [hr]
  · -- changed-spec-not-fresh
    by_cases hr : st.status.unpackedHash = some (hash st.spec)
    · simp [hr]
    · cases hc : clean F with
      | false => simp
      | true =>
        cases ha : admissible (W st.spec) with
        | false => simp
        | true =>
          rw [clean_eq F hc]
          obtain ⟨a, b, _, d, _⟩ := changed_spec_template_eq_fresh_render hash render (W st.spec) st hr ha
          simp [a, b, d]
  · -- stale-template
    cases hst : strong with
    | false => simp
    | true =>
      obtain ⟨hc, hI⟩ := hs hst
      cases ha : admissible (W st.spec) with
      | false => simp
      | true =>
        rw [clean_eq F hc]
        by_cases hr : st.status.unpackedHash = some (hash st.spec)
        · rw [(unchanged_spec_left_alone hash render (W st.spec) {} st hr).1]
          simp [hI st.spec hr ha]
        · simp [(changed_spec_template_eq_fresh_render hash render (W st.spec) st hr ha).1]
  · -- recorded-but-template-not-fresh
    by_cases hh : (pass hash render (W st.spec) F st).store.status.unpackedHash = st.status.unpackedHash
    · simp [hh]
    · cases ha : admissible (W st.spec) with
      | false => simp
      | true => simp [recorded_template_fresh hash render (W st.spec) F st hh ha]
  · -- hash-recorded-without-processing
    by_cases hh : (pass hash render (W st.spec) F st).store.status.unpackedHash = st.status.unpackedHash
    · simp [hh]
    · obtain ⟨a, b, c1, c2, c3, c4, c5, c6⟩ := hash_changes_only_when_processed hash render (W st.spec) F st hh
      simp [a, b, c1, c2, c3, c4, c5, c6]

theorem pass_spec (L : Leaves) (F : Faults) (st : Store H T) :
    (pass hash render L F st).store.spec = st.spec := by
  unfold pass
  cases F.pkgGet <;> simp
  cases F.odGet0 <;> simp
  split
  · split <;> simp
  · cases F.pull <;> simp
    · cases F.env <;> simp
      split
      · simp
      · split <;> simp
    · split <;> simp

/-- **Monitor vs. model, whole histories**: for a collision-free hash, every world, every start
state satisfying the freshness invariant and every history, the monitor's walk (`checkRun`) over
the MODEL's observations reports no violated clause. -/
theorem checkRun_model (hinj : ∀ a b, hash a = hash b → a = b) (W : Spec → Leaves) (ops : List Op)
    (st : Store H T) (ls : Bool) (i : Nat) (hI : ls = false → FreshInv hash render W st) :
    checkRun hash render W
      { spec := st.spec, ph := st.status.unpackedHash, pod := st.od, lateSeen := ls, idx := i } ops
      ((trace hash render W st ops).map (Option.map obsOf)) = [] := by
  induction ops generalizing st ls i with
  | nil => simp [trace, checkRun]
  | cons op ops ih =>
    cases op with
    | edit s =>
      simp only [trace, List.map_cons, Option.map_none, checkRun]
      exact ih { st with spec := s } ls (i + 1) (fun h s' h1 h2 => hI h s' h1 h2)
    | pass F =>
      simp only [trace, List.map_cons, Option.map_some, checkRun, List.append_eq_nil_iff, List.map_eq_nil_iff]
      constructor
      · apply checkStep_model hash render W F st
        intro hs
        have h1 : ls = false := by cases ls <;> simp at hs ⊢
        have h2 : clean F = true := by cases h : clean F <;> simp [h] at hs ⊢
        exact ⟨h2, hI h1⟩
      · have hsp := pass_spec hash render (W st.spec) F st
        have := ih (pass hash render (W st.spec) F st).store (ls || late F) (i + 1) (by
          intro h
          have h1 : ls = false := by cases ls <;> simp at h ⊢
          have h2 : late F = false := by cases hh : late F <;> simp [hh] at h ⊢
          exact pass_preserves_fresh hash render hinj W F st h2 (hI h1))
        rw [hsp] at this
        exact this

/-- **monitor_model_ok**: what the driver's `monitor` evaluates on a ctrl scenario — `checkRun`
from a fresh Package — finds nothing on the model's own trace. -/
theorem monitor_model_ok (hinj : ∀ a b, hash a = hash b → a = b) (W : Spec → Leaves) (s0 : Spec)
    (ops : List Op) :
    checkRun hash render W { spec := s0, ph := none, pod := none, lateSeen := false, idx := 0 } ops
      ((trace hash render W (fresh s0 : Store H T) ops).map (Option.map obsOf)) = [] :=
  checkRun_model hash render hinj W ops (fresh s0) false 0 (fun _ => fresh_inv_fresh hash render W s0)

/-! ## Non-vacuity -/

/-- A concrete world and history exercising every branch: image 0 is valid, image 1 carries an
unmet constraint, image 2 does not load.  Roll out 0; edit to 1 (pull failure, then the constraint
check); edit to 2 (load failure); edit back to 0 with another config (update fails once, retried). -/
example :
    let h : Spec → Spec := id
    let r : Spec → Nat := fun s => 100 * s.image + s.config
    let W : Spec → Leaves := fun s =>
      { allOk s with load := s.image != 2, cons := if s.image == 1 then [.met, .unmet] else [.met] }
    let s1 := run h r W (fresh ⟨0, 0, 0⟩ : Store Spec Nat) [.pass {}, .edit ⟨1, 0, 0⟩, .pass { pull := true }]
    let s2 := run h r W s1 [.pass {}]
    let s3 := run h r W s2 [.edit ⟨2, 0, 0⟩, .pass {}]
    let s4 := run h r W s3 [.edit ⟨0, 1, 0⟩, .pass { recon := .update }, .pass {}]
    (s1.od = some (some 0) ∧ s1.status.unpacked = some false ∧ s1.status.unpackedHash = some ⟨0, 0, 0⟩) ∧
    (s2.od = some (some 0) ∧ s2.status.invalid = .constraintsFailed ∧ s2.status.unpackedHash = some ⟨1, 0, 0⟩) ∧
    (s3.od = some (some 0) ∧ s3.status.invalid = .loadError ∧ s3.status.unpackedHash = some ⟨2, 0, 0⟩) ∧
    (s4.od = some (some 1) ∧ s4.status.invalid = .none ∧ s4.status.unpackedHash = some ⟨0, 1, 0⟩) := by
  decide

/-- The hypotheses of the theorems above are satisfiable together: an admissible world, an
injective hash, a loss-free history with faults. -/
example : admissible (allOk ⟨0, 0, 0⟩) = true ∧ (∀ a b : Spec, id a = id b → a = b) ∧
    LossFree [.pass { pull := true }, .edit ⟨1, 0, 0⟩, .pass { recon := .create }, .pass {}] := by
  refine ⟨by decide, fun _ _ h => h, ?_⟩
  intro F hF
  simp at hF
  rcases hF with h | h | h <;> subst h <;> decide

end Pko.Props.C16
