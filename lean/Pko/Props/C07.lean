/-
Property C07 — One ObjectSet per template, with unique, increasing revision numbers.

  "Whenever an unpaused ObjectDeployment's template is not matched by its newest ObjectSet, exactly
   one new ObjectSet is created whose spec equals the template, whose previous list names every
   existing ObjectSet of the deployment and whose revision number becomes strictly greater than all
   of theirs; none is created while an existing one has not reported its revision or while the
   template has no phases.  A name clash with an ObjectSet that is archived or has a different spec
   is never resolved by reusing it: the collision counter is bumped and a fresh ObjectSet is
   created, so rolling back to an earlier template yields a new revision."

The theorems are about `Pko.Model.Deployment` (model of the ObjectDeployment controller's hash /
objectSet / newRevision reconcilers and of the ObjectSet controller's revisionReconciler, tied to
the Go code by the correspondence harness `harness/C07`).  They hold for EVERY history – every
list `ops` of template edits (incl. reverts and no-op edits), pause/unpause, passes of either
controller in any interleaving, lost or failed create requests, failed status updates, restarts,
archival / garbage collection of old revisions, changes of `spec.revisionHistoryLimit` (any value,
incl. 0 and absent), foreign ObjectSets squatting on the next name,
passes whose cache does not yet show the deployment's own latest create – for every initial
template `t` and for EVERY hash function `c.h` (injective or not: real hash collisions included).

`hl : c.legacy = false` selects the code after the fix of finding C07-a (before the fix the
property is false: `one_per_template_counterexample_before_fix`); `hr : c.racy = false` is the
assumption that the create-not-yet-visible cache window does not span a template edit (without it
the property is false as well: `racy_edit_counterexample` – outside the staleness window the
property names).

Each clause is stated as the predicate of `Pko.Model.DeploymentSpec` that the trace monitor
evaluates on implementation traces, for the step `op` taken after an arbitrary history `ops`.
-/
import Pko.Lemmas.C07Step

namespace Pko.Props.C07
open Pko.Model.Deployment Pko.Model.DeploymentSpec Pko.Lemmas.C07

variable {c : Cfg}

/-- Every state reachable by any history satisfies the invariant `Pko.Lemmas.C07.Inv`. -/
theorem reachable_inv (hl : c.legacy = false) (hr : c.racy = false) (t : Nat) (ops : List Op) :
    Inv c (run c (init t) ops) :=
  inv_run hl hr ops _ (inv_init c t)

theorem after_sets (s : State) (op : Op) : (after c s op).sets = (step c s op).sets := by
  unfold after; rw [exec_fst]

theorem after_cc (s : State) (op : Op) : (after c s op).cc = (step c s op).cc := by
  unfold after; rw [exec_fst]

/-! ### unique, set-once, increasing revision numbers -/

/-- **revisions_unique**: after every step of every history, no two ObjectSets of the deployment
report the same revision number. -/
theorem revisions_unique (hl : c.legacy = false) (hr : c.racy = false) (t : Nat) (ops : List Op) (op : Op) :
    RevisionsUnique (after c (run c (init t) ops) op) := by
  have hi := inv_step (reachable_inv hl hr t ops) hl hr op
  intro a ha b hb har hab
  rw [after_sets] at ha hb
  obtain ⟨ha, ham⟩ := List.mem_filter.mp ha
  obtain ⟨hb, hbm⟩ := List.mem_filter.mp hb
  exact hi.rev_unique a ha b hb ham hbm har hab

/-- **revision_set_once**: a revision number, once reported, never changes – whatever happens next. -/
theorem revision_set_once (hl : c.legacy = false) (hr : c.racy = false) (t : Nat) (ops : List Op) (op : Op) :
    SetOnce (before (run c (init t) ops)) (after c (run c (init t) ops) op) := by
  have hi := reachable_inv hl hr t ops
  intro a ha b hb hser har
  rw [after_sets] at hb
  rcases step_rev hi op ha hb hser with h | ⟨i, r, res, _, _, hd, _, _⟩
  · exact h
  · exact absurd (osDecide_some hd).2.1 har

/-- **new_revision_gt_all_previous**: when an ObjectSet of the deployment gets its revision number,
the number is strictly greater than that of every other ObjectSet of the deployment. -/
theorem new_revision_gt_all_previous (hl : c.legacy = false) (hr : c.racy = false) (t : Nat) (ops : List Op)
    (op : Op) : NewGreater (before (run c (init t) ops)) (after c (run c (init t) ops) op) := by
  have hi := reachable_inv hl hr t ops
  intro a ha b hb hser ham ha0 hb0 m hm hne
  rw [after_sets] at hb hm
  rcases step_rev hi op ha hb hser with h | ⟨i, r, res, _, hget, hd, hbe, hst⟩
  · rw [h] at hb0; exact absurd ha0 hb0
  · obtain ⟨hm, hmm⟩ := List.mem_filter.mp hm
    rw [hst] at hm
    simp only [setRev_sets] at hm
    obtain ⟨_, hgt⟩ := assign_gt hi ha ham hd
    rcases mem_set_elim (f := OSet.serial) hi.serial_nodup hget hm with hm | ⟨hm, hms⟩
    · rw [hm, hbe] at hne; exact absurd rfl hne
    · rw [hbe]; exact hgt m hm hmm hms

/-- **assigned_revisions_increasing**: over the whole history (ObjectSets deleted meanwhile
included) the revision numbers reported by the deployment's ObjectSets form a strictly increasing
sequence: no number is ever handed out twice. -/
theorem assigned_revisions_increasing (hl : c.legacy = false) (hr : c.racy = false) (t : Nat) (ops : List Op) :
    (run c (init t) ops).log.Pairwise (· < ·) :=
  (reachable_inv hl hr t ops).log_sorted

/-! ### creation -/

theorem after_non_od (s : State) (op : Op) (h : isOd (some op) = false) :
    (after c s op).reqs = [] ∧ (after c s op).cc = s.cc := by
  cases op with
  | od f v sf => simp [isOd] at h
  | os i =>
    refine ⟨rfl, ?_⟩
    simp only [after, exec, osPass]
    split
    · rfl
    · split <;> rfl
  | edit k => refine ⟨rfl, ?_⟩; simp only [after, exec, step]; split <;> rfl
  | pause b => exact ⟨rfl, rfl⟩
  | restart => exact ⟨rfl, rfl⟩
  | limit l => exact ⟨rfl, rfl⟩
  | arch i =>
    refine ⟨rfl, ?_⟩; simp only [after, exec, step]
    split
    · rfl
    · split <;> rfl
  | del i =>
    refine ⟨rfl, ?_⟩; simp only [after, exec, step]
    split
    · rfl
    · split <;> rfl
  | squat d owned arch spec rev prev => refine ⟨rfl, ?_⟩; simp only [after, exec, step]; split <;> rfl

theorem isOd_cases (op : Op) : isOd (some op) = false ∨ ∃ f v sf, op = .od f v sf := by
  cases op <;> simp [isOd]

theorem succ_nil_of_non_od (s : State) (op : Op) (h : isOd (some op) = false) : succ (after c s op) = [] := by
  unfold succ; rw [(after_non_od s op h).1]; rfl

/-- What a pass that creates an ObjectSet looks like to the observer. -/
theorem od_succ {s : State} (f : Fault) (v : View) (sf : Bool) :
    succ (after c s (.od f v sf)) = [] ∨
    ∃ new latest oc, plan c s v = .create new latest ∧
      s.sets.find? (fun x => x.name == c.h s.template s.cc) = none ∧
      succ (after c s (.od f v sf)) = [⟨new, oc⟩] ∧ (after c s (.od f v sf)).sets = s.sets ++ [new] := by
  have hreq : (after c s (.od f v sf)).reqs = (odPass c s f v sf).reqs := rfl
  have hsets : (after c s (.od f v sf)).sets = (odPass c s f v sf).st.sets := rfl
  cases odPass_cases c s f v sf with
  | quiet _ _ _ _ _ hreqs => left; exact succ_nil_of_noeffect (by rw [hreq]; exact hreqs)
  | bump new latest conf hplan hfind hslow hget hsf hres _ _ _ _ _ hreqs =>
    left; apply succ_nil_of_noeffect; rw [hreq, hreqs]; simp
  | create new latest oc hplan hfind hoc hs _ _ _ _ hreqs =>
    right
    refine ⟨new, latest, oc, hplan, hfind, ?_, by rw [hsets, hs]⟩
    unfold succ; rw [hreq, hreqs]
    rcases hoc with h | h <;> simp [h]

/-- **create_only_when**: an ObjectSet is created only by a pass of an unpaused deployment whose
template has phases, while every ObjectSet of the deployment (seen by the pass or not) reports a
revision and the newest of them does not carry the template hash. -/
theorem create_only_when (hl : c.legacy = false) (hr : c.racy = false) (t : Nat) (ops : List Op) (op : Op) :
    CreateOnlyWhen (ctxOf (run c (init t) ops) op) (before (run c (init t) ops))
      (after c (run c (init t) ops) op) := by
  have hi := reachable_inv hl hr t ops
  generalize run c (init t) ops = s at hi
  intro r hr'
  rcases isOd_cases op with h | ⟨f, v, sf, h⟩
  · rw [succ_nil_of_non_od s op h] at hr'; cases hr'
  · subst h
    rcases od_succ f v sf with h | ⟨new, latest, oc, hplan, hfind, hsucc, _⟩
    · rw [h] at hr'; cases hr'
    · rw [hsucc] at hr'; simp at hr'; subst hr'
      obtain ⟨_, _, hrep, hp, ht, hnew, hcur⟩ := create_facts hi hplan hfind
      refine ⟨hp, ht, hrep, ?_⟩
      have : new.hash = c.h s.template s.cc := by rw [hnew]; rfl
      simp only [this]; exact hcur

/-- **created_spec_eq_template_and_previous_all**: the created ObjectSet's spec is the template, its
hash annotation is its name suffix, its previous list names exactly the ObjectSets of the
deployment existing at that moment, and it enters the store owned, labelled, not archived and
without a revision number. -/
theorem created_spec_eq_template_and_previous_all (hl : c.legacy = false) (hr : c.racy = false) (t : Nat)
    (ops : List Op) (op : Op) :
    CreatedRight (ctxOf (run c (init t) ops) op) (before (run c (init t) ops))
      (after c (run c (init t) ops) op) := by
  have hi := reachable_inv hl hr t ops
  generalize run c (init t) ops = s at hi
  intro r hr'
  rcases isOd_cases op with h | ⟨f, v, sf, h⟩
  · rw [succ_nil_of_non_od s op h] at hr'; cases hr'
  · subst h
    rcases od_succ f v sf with h | ⟨new, latest, oc, hplan, hfind, hsucc, hsets⟩
    · rw [h] at hr'; cases hr'
    · rw [hsucc] at hr'; simp at hr'; subst hr'
      obtain ⟨_, _, hrep, hp, ht, hnew, hcur⟩ := create_facts hi hplan hfind
      have hprev : new.prev = (sortByRev (members s)).map (·.name) := by rw [hnew]; rfl
      refine ⟨by rw [hnew]; rfl, by rw [hnew]; rfl, ?_, ?_, ?_, ?_⟩
      · intro n hn
        simp only [hprev, List.mem_map] at hn
        obtain ⟨m, hm, hmn⟩ := hn
        exact ⟨m, mem_sortByRev.mp hm, hmn⟩
      · intro m hm
        simp only [hprev, List.mem_map]
        exact ⟨m, mem_sortByRev.mpr hm, rfl⟩
      · simp only [hprev, List.length_map, sortByRev_length]; rfl
      · refine ⟨new, by rw [hsets]; simp, rfl, ?_, rfl, rfl, by rw [hnew]; rfl, by rw [hnew]; rfl,
          by rw [hnew]; rfl, by rw [hnew]; rfl⟩
        intro p hp'
        have h1 := hi.serial_lt p hp'
        have h2 : new.serial = s.next := by rw [hnew]; rfl
        show p.serial ≠ new.serial
        omega

/-- **one_per_template**: between two changes of the template at most one ObjectSet is created –
in particular never a second one for the same template because the first was not yet visible in
the cache or had not yet been given its revision number (finding C07-a, fixed). -/
theorem one_per_template (hl : c.legacy = false) (hr : c.racy = false) (t : Nat) (ops : List Op) (op : Op) :
    OnePerTemplate (ctxOf (run c (init t) ops) op) (after c (run c (init t) ops) op) := by
  have hi := reachable_inv hl hr t ops
  generalize run c (init t) ops = s at hi
  unfold OnePerTemplate
  rcases isOd_cases op with h | ⟨f, v, sf, h⟩
  · rw [succ_nil_of_non_od s op h]
    have := hi.epoch
    cases op <;> simp [ctxOf] <;> first | omega | (split <;> omega)
  · subst h
    have hctx : (ctxOf s (.od f v sf)).epochCreates = s.created := rfl
    rw [hctx]
    rcases od_succ f v sf with h | ⟨new, latest, oc, hplan, hfind, hsucc, _⟩
    · rw [h]; have := hi.epoch; simp; omega
    · rw [hsucc, (create_facts hi hplan hfind).1]; simp

/-- The observer's count of creates since the last template change (what the monitor keeps) and the
model's ghost counter `created` are the same number. -/
theorem created_counts_succ (s : State) (op : Op) :
    (step c s op).created = (ctxOf s op).epochCreates + (succ (after c s op)).length := by
  rcases isOd_cases op with h | ⟨f, v, sf, h⟩
  · rw [succ_nil_of_non_od s op h]
    cases op with
    | od f v sf => simp [isOd] at h
    | edit k => simp only [step, ctxOf]; split <;> simp
    | os i =>
      simp only [step, ctxOf, osPass]
      split
      · simp
      · split <;> simp
    | arch i =>
      simp only [step, ctxOf]
      split
      · simp
      · split <;> simp
    | del i =>
      simp only [step, ctxOf]
      split
      · simp
      · split <;> simp
    | squat d owned arch spec rev prev => simp only [step, ctxOf]; split <;> simp
    | pause b => simp [step, ctxOf]
    | restart => simp [step, ctxOf]
    | limit l => simp [step, ctxOf]
  · subst h
    have hctx : (ctxOf s (.od f v sf)).epochCreates = s.created := rfl
    have hreq : (after c s (.od f v sf)).reqs = (odPass c s f v sf).reqs := rfl
    rw [hctx]
    show (odPass c s f v sf).st.created = _
    cases odPass_cases c s f v sf with
    | quiet _ _ _ hcr _ hreqs =>
      rw [hcr, succ_nil_of_noeffect (by rw [hreq]; exact hreqs)]; simp
    | bump _ _ _ _ _ _ _ _ _ _ _ _ hcr _ hreqs =>
      rw [hcr, succ_nil_of_noeffect (by rw [hreq, hreqs]; simp)]; simp
    | create new latest oc _ _ hoc _ _ _ hcr _ hreqs =>
      have : succ (after c s (.od f v sf)) = [⟨new, oc⟩] := by
        unfold succ; rw [hreq, hreqs]
        rcases hoc with h | h <;> simp [h]
      rw [hcr, this]; simp

/-- The ghost counter form of `one_per_template`: in every reachable state at most one ObjectSet
has been created since the template last changed. -/
theorem one_per_template_state (hl : c.legacy = false) (hr : c.racy = false) (t : Nat) (ops : List Op) :
    (run c (init t) ops).created ≤ 1 :=
  (reachable_inv hl hr t ops).epoch

/-! ### name clashes -/

/-- **clash_never_reused**: when the create is answered AlreadyExists and the conflicting ObjectSet
is archived, has a different spec, or is an OLDER revision of the deployment (it reports a revision
and another ObjectSet of the deployment reports a higher one – a roll-back to a template whose
ObjectSet is still live, spec equal), a pass that completes bumps the collision counter: the clash
is never resolved by reusing the ObjectSet.  Every history, every cache view. -/
theorem clash_never_reused (hl : c.legacy = false) (hr : c.racy = false) (t : Nat) (ops : List Op) (op : Op) :
    ClashNeverReused (ctxOf (run c (init t) ops) op) (before (run c (init t) ops))
      (after c (run c (init t) ops) op) := by
  have hi := reachable_inv hl hr t ops
  generalize run c (init t) ops = s at hi
  intro r hr' hex
  rcases isOd_cases op with h | ⟨f, v, sf, h⟩
  · rw [(after_non_od s op h).1] at hr'; cases hr'
  · subst h
    obtain ⟨conf, hc, hn, himp⟩ := odPass_exists_old hi f v sf r hr' hex
    refine ⟨conf, hc, hn, ?_⟩
    intro hcl hres
    exact himp hcl (resStr_ok.mp hres)

/-- The archived / different-spec part holds in every state, reachable or not. -/
theorem clash_never_reused_any_state (s : State) (op : Op) :
    ∀ r ∈ (after c s op).reqs, r.outcome = .exists →
      ∃ conf ∈ s.sets, conf.name = r.obj.name ∧
        ((conf.archived = true ∨ conf.spec ≠ s.template) → (after c s op).res = "ok" →
          (after c s op).cc = s.cc + 1) := by
  intro r hr' hex
  rcases isOd_cases op with h | ⟨f, v, sf, h⟩
  · rw [(after_non_od s op h).1] at hr'; cases hr'
  · subst h
    obtain ⟨conf, hc, hn, himp⟩ := odPass_exists c s f v sf r hr' hex
    refine ⟨conf, hc, hn, ?_⟩
    intro hcl hres
    exact himp hcl (resStr_ok.mp hres)

/-- … and nothing is adopted: a pass of the ObjectDeployment controller leaves every existing
ObjectSet exactly as it was (spec, previous list, owner, labels, archived flag, revision); the only
change to the set of ObjectSets is the one appended by an effective create. -/
theorem od_pass_touches_nothing (hl : c.legacy = false) (hr : c.racy = false) (t : Nat) (ops : List Op)
    (f : Fault) (v : View) (sf : Bool) :
    Untouched (before (run c (init t) ops)) (after c (run c (init t) ops) (.od f v sf)) := by
  have hi := reachable_inv hl hr t ops
  generalize run c (init t) ops = s at hi
  have hsets : (after c s (.od f v sf)).sets = (odPass c s f v sf).st.sets := rfl
  unfold Untouched
  rcases od_succ f v sf with h | ⟨new, latest, oc, hplan, hfind, hsucc, hs⟩
  · rw [h]
    have : (after c s (.od f v sf)).sets = s.sets := by
      rw [hsets]
      cases odPass_cases c s f v sf with
      | quiet h1 => exact h1
      | bump _ _ _ _ _ _ _ _ _ h1 => exact h1
      | create new latest oc hplan hfind hoc h1 _ _ _ _ hreqs =>
        exfalso
        have : succ (after c s (.od f v sf)) = [⟨new, oc⟩] := by
          unfold succ
          have hreq : (after c s (.od f v sf)).reqs = (odPass c s f v sf).reqs := rfl
          rw [hreq, hreqs]
          rcases hoc with h | h <;> simp [h]
        rw [this] at h; cases h
    rw [this]; simp [before]
  · rw [hsucc, hs]; simp [before]

/-- The collision counter only grows, by one at a time. -/
theorem counter_monotone (s : State) (op : Op) : CounterMonotone (before s) (after c s op) := by
  unfold CounterMonotone
  rcases isOd_cases op with h | ⟨f, v, sf, h⟩
  · rw [(after_non_od s op h).2]; simp [before]
  · subst h
    have hcc : (after c s (.od f v sf)).cc = (odPass c s f v sf).st.cc := rfl
    rw [hcc]
    cases odPass_cases c s f v sf with
    | quiet _ h1 => rw [h1]; simp [before]
    | bump _ _ _ _ _ _ _ _ _ _ h1 => rw [h1]; simp [before]
    | create _ _ _ _ _ _ _ h1 => rw [h1]; simp [before]

/-! ### exactly one: progress -/

/-- **create_attempted_when_needed** (the lower half of "exactly one"): an undisturbed pass
(fresh list, no API fault) of an unpaused deployment with phases, all of whose ObjectSets report
a revision and whose newest ObjectSet does not carry the template hash, issues a create request
(holds in every state, reachable or not). -/
theorem create_attempted_when_needed (s : State) :
    Progress (ctxOf s (.od .none .fresh false)) (before s) (after c s (.od .none .fresh false)) := by
  intro hp ht hres hrep tH hth hnew
  have hres' : (odPass c s .none .fresh false).res = .ok := resStr_ok.mp hres
  have := odPass_th hres'
  have hth' : (odPass c s .none .fresh false).st.th = some tH := hth
  rw [this] at hth'
  injection hth' with hth'
  subst hth'
  exact odPass_reqs_of_create (plan_fresh_create hp ht hrep hnew)

/-- **pass_acts_when_needed** (liveness per pass): a pass that completes – whatever its cache view –
for an unpaused deployment with phases, all of whose ObjectSets report a revision and whose newest
ObjectSet does not carry the template hash, creates exactly one ObjectSet or bumps the collision
counter; it never does nothing.  (Sole exception, outside the environment assumption on foreign
ObjectSets: the name is taken by a live ObjectSet of equal spec that carries the deployment's
controller reference but not its labels – `OwnedUnlabelledClash`.) -/
theorem pass_acts_when_needed (hl : c.legacy = false) (hr : c.racy = false) (t : Nat) (ops : List Op)
    (f : Fault) (v : View) (sf : Bool) :
    PassActs (ctxOf (run c (init t) ops) (.od f v sf)) (before (run c (init t) ops))
      (after c (run c (init t) ops) (.od f v sf)) := by
  have hi := reachable_inv hl hr t ops
  generalize run c (init t) ops = s at hi
  intro hp ht hres hrep tH hth hnew
  have hres' : (odPass c s f v sf).res = .ok := resStr_ok.mp hres
  have hth' : (odPass c s f v sf).st.th = some tH := hth
  rw [odPass_th hres'] at hth'
  injection hth' with hth'
  subst hth'
  have hreq : (after c s (.od f v sf)).reqs = (odPass c s f v sf).reqs := rfl
  rcases odPass_acts hi f v sf hp ht hres' hrep hnew with ⟨new, h⟩ | h | ⟨new, conf, h, hcs, hcn, hm, ho, ha, hsp⟩
  · left
    unfold succ; rw [hreq, h]; rfl
  · right; left; exact h
  · right; right
    refine ⟨⟨new, .exists⟩, by rw [hreq, h]; simp, rfl, conf, hcs, hcn, hm, ho, ha, hsp⟩

/-- A clash caused by a roll-back (the conflicting ObjectSet is an older revision of this
deployment) is never mistaken for a slow cache: the counter is bumped, whatever its spec. -/
theorem rollback_clash_bumps {s : State} {v : View} {new conf : OSet} {latest : Nat} {f : Fault}
    (hplan : plan c s v = .create new latest) (hf : f ≠ .fail)
    (hfind : s.sets.find? (fun x => x.name == c.h s.template s.cc) = some conf)
    (hvis : ¬ (v = .hideBoth ∧ conf.member = true ∧ conf.serial ∈ s.unseen))
    (hold : conf.rev ≠ 0 ∧ conf.rev < latest) :
    (odPass c s f v false).st.cc = s.cc + 1 ∧ (odPass c s f v false).st.sets = s.sets := by
  have hs : slowCache c conf latest s.template = false := by
    unfold slowCache
    have h1 : decide (latest ≤ conf.rev) = false := by simp; omega
    have h2 : (conf.rev == 0) = false := by simp; exact hold.1
    simp [h1, h2]
  rw [odPass_bump hplan hf hfind hvis hs]
  simp [finish]

/-- **rollback_creates_new_revision**: in any reachable state where the template was rolled back to
one whose ObjectSet `x` still exists (same name) but is no longer the newest, and the next name is
free: two passes of the ObjectDeployment controller and one of the ObjectSet controller leave `x`
and every other existing ObjectSet untouched, bump the collision counter and append a NEW
ObjectSet with the rolled-back spec whose revision number exceeds all existing ones. -/
theorem rollback_creates_new_revision (hl : c.legacy = false) (hr : c.racy = false) (t : Nat) (ops : List Op)
    (x n : OSet) :
    let s := run c (init t) ops
    s.paused = false → s.template ≠ 0 → (∀ m ∈ members s, m.rev ≠ 0) →
    x ∈ members s → x.name = c.h s.template s.cc → n ∈ members s → x.rev < n.rev →
    (∀ a ∈ s.sets, a.name ≠ c.h s.template (s.cc + 1)) →
    ∃ (new : OSet) (r : Nat), (run c s [.od .none .fresh false, .od .none .fresh false, .os s.sets.length]).sets
        = s.sets ++ [{ new with rev := r }] ∧
      new.spec = s.template ∧ new.name = c.h s.template (s.cc + 1) ∧ (∀ m ∈ members s, m.rev < r) ∧
      (run c s [.od .none .fresh false, .od .none .fresh false, .os s.sets.length]).cc = s.cc + 1 := by
  intro s hp ht hrep hx hxn hn hlt hfree
  have hi : Inv c s := reachable_inv hl hr t ops
  obtain ⟨hxs, hxm⟩ := mem_members.mp hx
  -- the newest ObjectSet does not carry the template hash (it is not `x`)
  have hnew : ∀ m ∈ members s, (∀ m' ∈ members s, m'.rev ≤ m.rev) → m.hash ≠ c.h s.template s.cc := by
    intro m hm hmax hh
    obtain ⟨hms, hmm⟩ := mem_members.mp hm
    have : m.name = x.name := by rw [← (hi.mem_own m hms hmm).1, hh, hxn]
    have : m = x := inj_of_pairwise (f := OSet.name) hi.name_nodup hms hxs this
    subst this
    have := hmax n hn; omega
  -- pass 1: AlreadyExists with `x`, an older revision: bump
  have hplan1 := plan_fresh_create (c := c) hp ht hrep hnew
  have hfind1 : s.sets.find? (fun y => y.name == c.h s.template s.cc) = some x := by
    rw [← hxn]; exact find_by_name hi.name_nodup hxs
  have hlatest : x.rev < latestRev (sortByRev (members s)) := by
    unfold latestRev
    cases hl' : (sortByRev (members s)).getLast? with
    | none =>
      have := List.getLast?_eq_none_iff.mp hl'
      have h2 : n ∈ sortByRev (members s) := mem_sortByRev.mpr hn
      rw [this] at h2; cases h2
    | some l => have := (sortByRev_last hl').2 n hn; simp; omega
  have hs1 : slowCache c x (latestRev (sortByRev (members s))) s.template = false := by
    unfold slowCache
    have h1 : decide (latestRev (sortByRev (members s)) ≤ x.rev) = false := by simp; omega
    have h2 : (x.rev == 0) = false := by simp; exact hrep x hx
    simp [h1, h2]
  have hstep1 : step c s (.od .none .fresh false) =
      { s with unseen := [], cc := s.cc + 1, th := some (c.h s.template s.cc) } := by
    simp only [step]
    rw [odPass_bump hplan1 (by simp) hfind1 (by simp) hs1]
    simp [finish, markSeen]
  -- pass 2: the next name is free: create
  let s1 : State := { s with unseen := [], cc := s.cc + 1, th := some (c.h s.template s.cc) }
  have hi1 : Inv c s1 := by have := inv_step hi hl hr (.od .none .fresh false); rw [hstep1] at this; exact this
  have hnew1 : ∀ m ∈ members s1, (∀ m' ∈ members s1, m'.rev ≤ m.rev) → m.hash ≠ c.h s1.template s1.cc := by
    intro m hm _ hh
    obtain ⟨hms, hmm⟩ := mem_members.mp hm
    exact hfree m hms (by rw [← (hi.mem_own m hms hmm).1]; exact hh)
  have hplan2 := plan_fresh_create (c := c) (s := s1) hp ht hrep hnew1
  have hfind2 : s1.sets.find? (fun y => y.name == c.h s1.template s1.cc) = none := by
    rw [List.find?_eq_none]
    intro a ha
    have := hfree a ha
    simpa using this
  let new : OSet := newSet c s1 (sortByRev (members s1))
  have hstep2 : step c s1 (.od .none .fresh false) =
      { s1 with
          unseen := [new.serial], sets := s.sets ++ [new], next := s.next + 1, created := s.created + 1,
          th := some (c.h s.template (s.cc + 1)) } := by
    simp only [step]
    rw [odPass_ok hplan2 rfl hfind2]
    simp [finish, markSeen, s1, new]
  let s2 : State :=
    { s1 with
        unseen := [new.serial], sets := s.sets ++ [new], next := s.next + 1,
        created := s.created + 1, th := some (c.h s.template (s.cc + 1)) }
  have hi2 : Inv c s2 := by have := inv_step hi1 hl hr (.od .none .fresh false); rw [hstep2] at this; exact this
  -- the ObjectSet controller assigns the revision
  have hget : s2.sets[s.sets.length]? = some new := List.getElem?_concat_length
  have hnm : new.member = true := rfl
  have hn0 : new.rev = 0 := rfl
  have hpend := hi2.pending new (by simp [s2]) hnm hn0
  have hprev : new.prev ≠ [] := by
    intro he
    have := (hpend x (by simp [s2, hxs]) hxm (by
      have := hi.serial_lt x hxs
      show x.serial ≠ s.next
      omega)).2
    rw [he] at this; cases this
  have hdec : ∃ r res, osDecide s2 new = (some r, res) := by
    have htotal : ∀ (names : List Nat) (acc : Nat), (∀ nm ∈ names, nm ∈ new.prev) →
        ∃ m, lookPrev s2.sets names acc = .ok m := by
      intro names
      induction names with
      | nil => intro acc _; exact ⟨acc, rfl⟩
      | cons nm rest ih =>
        intro acc hsub
        have hnm' : nm ∈ new.prev := hsub nm (by simp)
        have : nm ∈ (sortByRev (members s1)).map (·.name) := hnm'
        simp only [List.mem_map] at this
        obtain ⟨p, hp', hpn⟩ := this
        have hpm := mem_sortByRev.mp hp'
        obtain ⟨hps, hpmm⟩ := mem_members.mp hpm
        have hps2 : p ∈ s2.sets := by simp [s2]; exact .inl hps
        have hf := find_by_name hi2.name_nodup hps2
        rw [hpn] at hf
        simp only [lookPrev, hf]
        have : (p.rev == 0) = false := by simp; exact hrep p hpm
        simp only [this]
        exact ih _ (fun a ha => hsub a (by simp [ha]))
    obtain ⟨m, hm⟩ := htotal new.prev 0 (fun _ h => h)
    refine ⟨m + 1, .ok, ?_⟩
    unfold osDecide
    have : new.prev.isEmpty = false := by
      cases hpe : new.prev with
      | nil => exact absurd hpe hprev
      | cons _ _ => rfl
    simp [show new.archived = false from rfl, hn0, this, hm]
  obtain ⟨r, res, hd⟩ := hdec
  have hgt := (assign_gt hi2 (by simp [s2]) hnm hd).2
  have h1 : step c s (.od .none .fresh false) = s1 := hstep1
  have h2 : step c s1 (.od .none .fresh false) = s2 := hstep2
  have hrun : run c s [.od .none .fresh false, .od .none .fresh false, .os s.sets.length] =
      setRev s2 s.sets.length new r := by
    show step c (step c (step c s (.od .none .fresh false)) (.od .none .fresh false)) (.os s.sets.length) = _
    rw [h1, h2]
    simp only [step, osPass, hget, hd]
  rw [hrun]
  refine ⟨new, r, ?_, rfl, rfl, ?_, rfl⟩
  · simp only [setRev_sets]
    show (s.sets ++ [new]).set s.sets.length { new with rev := r } = _
    simp
  · intro m hm
    obtain ⟨hms, hmm⟩ := mem_members.mp hm
    apply hgt m (by simp [s2, hms]) hmm
    have := hi.serial_lt m hms
    show m.serial ≠ s.next
    omega

/-! ### the monitor accepts every step of the model -/

/-- Steps that are not passes of the ObjectDeployment controller create nothing and leave the
collision counter alone. -/
theorem non_od_quiet (s : State) (op : Op) (h : isOd (some op) = false) : Quiet (before s) (after c s op) :=
  after_non_od s op h

/-- **model_satisfies_monitor**: for every history and every next operation, the step the model
takes satisfies every clause of the specification the trace monitor evaluates (`stepOK = none`).
So on a run where the implementation's traces equal the model's, and more generally whenever the
monitor passes, the property's clauses hold on the implementation's traces. -/
theorem model_satisfies_monitor (hl : c.legacy = false) (hr : c.racy = false) (t : Nat) (ops : List Op) (op : Op) :
    stepOK (ctxOf (run c (init t) ops) op) (before (run c (init t) ops)) (some op)
      (after c (run c (init t) ops) op) = none := by
  unfold stepOK
  rw [if_neg (not_not_intro (revisions_unique hl hr t ops op)),
    if_neg (not_not_intro (revision_set_once hl hr t ops op)),
    if_neg (not_not_intro (new_revision_gt_all_previous hl hr t ops op)),
    if_neg (not_not_intro (create_only_when hl hr t ops op)),
    if_neg (not_not_intro (created_spec_eq_template_and_previous_all hl hr t ops op)),
    if_neg (not_not_intro (one_per_template hl hr t ops op)),
    if_neg (not_not_intro (clash_never_reused hl hr t ops op)),
    if_neg (not_not_intro (counter_monotone _ op))]
  have h1 : ¬ (isOd (some op) = true ∧ ¬ Untouched (before (run c (init t) ops)) (after c (run c (init t) ops) op)) := by
    rintro ⟨ho, hn⟩
    rcases isOd_cases op with h | ⟨f, v, sf, h⟩
    · rw [h] at ho; cases ho
    · subst h; exact hn (od_pass_touches_nothing hl hr t ops f v sf)
  have h2 : ¬ (¬ isOd (some op) = true ∧ ¬ Quiet (before (run c (init t) ops)) (after c (run c (init t) ops) op)) := by
    rintro ⟨ho, hn⟩
    exact hn (non_od_quiet _ op (by simpa using ho))
  have h3 : ¬ (undisturbed (some op) = true ∧
      progressB (ctxOf (run c (init t) ops) op) (before (run c (init t) ops)) (after c (run c (init t) ops) op) = false) := by
    rintro ⟨hu, hb⟩
    have hop : op = .od .none .fresh false := by
      cases op with
      | od f v sf => cases f <;> cases v <;> cases sf <;> simp [undisturbed] at hu ⊢
      | _ => simp [undisturbed] at hu
    subst hop
    have hprog := create_attempted_when_needed (c := c) (run c (init t) ops)
    unfold progressB at hb
    split at hb
    · cases hb
    · rename_i tH hth
      simp only [Bool.or_eq_false_iff, Bool.not_eq_false', decide_eq_true_eq, List.isEmpty_iff] at hb
      obtain ⟨⟨hp, ht, hres, hrep, hnew⟩, hempty⟩ := hb
      exact hprog hp ht hres hrep tH hth hnew hempty
  have h4 : ¬ (isOd (some op) = true ∧
      passActsB (ctxOf (run c (init t) ops) op) (before (run c (init t) ops)) (after c (run c (init t) ops) op) = false) := by
    rintro ⟨ho, hb⟩
    rcases isOd_cases op with h | ⟨f, v, sf, h⟩
    · rw [h] at ho; cases ho
    · subst h
      have hacts := pass_acts_when_needed hl hr t ops f v sf
      unfold passActsB at hb
      split at hb
      · cases hb
      · rename_i tH hth
        simp only [Bool.or_eq_false_iff, Bool.not_eq_false', decide_eq_true_eq, decide_eq_false_iff_not] at hb
        obtain ⟨⟨hp, ht, hres, hrep, hnew⟩, hnone⟩ := hb
        exact hnone (hacts hp ht hres hrep tH hth hnew)
  rw [if_neg h1, if_neg h2, if_neg h3, if_neg h4]

/-! ### spec.revisionHistoryLimit -/

/-- Is the operation a change of `spec.revisionHistoryLimit`? -/
def isLimit : Op → Bool
  | .limit _ => true
  | _ => false

/-- **limit_irrelevant**: `spec.revisionHistoryLimit` (operation `limit l`, any value, `none` = absent)
has no influence on what the ObjectDeployment controller creates: a history and the same history
with all limit changes removed end in the same state (same ObjectSets, same previous lists, same
revision numbers, same collision counter).  Together with
`created_spec_eq_template_and_previous_all` (which holds for every history, limit changes
included): the previous list of a new ObjectSet names EVERY existing ObjectSet of the deployment,
however many there are compared to the history limit – the limit only bounds what the archiver's
garbage collection (environment operation `del`) keeps. -/
theorem limit_irrelevant (s : State) (ops : List Op) :
    run c s (ops.filter (fun op => !isLimit op)) = run c s ops := by
  induction ops generalizing s with
  | nil => rfl
  | cons op ops ih =>
    cases op with
    | limit l => simpa [isLimit, run, List.foldl, step] using ih s
    | edit k => simpa [isLimit, run, List.foldl] using ih _
    | pause b => simpa [isLimit, run, List.foldl] using ih _
    | od f v sf => simpa [isLimit, run, List.foldl] using ih _
    | os i => simpa [isLimit, run, List.foldl] using ih _
    | arch i => simpa [isLimit, run, List.foldl] using ih _
    | del i => simpa [isLimit, run, List.foldl] using ih _
    | squat d owned arch spec rev prev => simpa [isLimit, run, List.foldl] using ih _
    | restart => simpa [isLimit, run, List.foldl] using ih _

/-! ### the fix and the assumption are both needed -/

/-- The configuration the driver uses: an injective hash. -/
def demoCfg (legacy racy : Bool) : Cfg := { h := fun v k => v * 100 + k, legacy := legacy, racy := racy }

/-- Witness history of finding C07-a: revision 1 exists and reports its number; the template is
edited; a pass creates the ObjectSet for the new template; the next pass runs before the cache
shows it (and before it has a revision number). -/
def c07aWitness : List Op :=
  [.od .none .fresh false, .os 0, .edit 2, .od .none .fresh false, .od .none .hideList false,
   .os 1, .od .none .fresh false, .os 2]

/-- **one_per_template_counterexample_before_fix** (finding C07-a): with the slow-cache test as
it was before the fix, the witness history bumps the collision counter and creates TWO ObjectSets
for the same template, with revisions 2 and 3. -/
theorem one_per_template_counterexample_before_fix :
    let s := run (demoCfg true false) (init 1) c07aWitness
    s.created = 2 ∧ s.cc = 1 ∧ s.sets.map (fun o => (o.name, o.spec, o.rev)) = [(100, 1, 1), (200, 2, 2), (201, 2, 3)] := by
  decide

/-- The same history on the fixed code: one ObjectSet for the new template, counter untouched. -/
theorem c07a_witness_after_fix :
    let s := run (demoCfg false false) (init 1) c07aWitness
    s.created = 1 ∧ s.cc = 0 ∧ s.sets.map (fun o => (o.name, o.spec, o.rev)) = [(100, 1, 1), (200, 2, 2)] := by
  decide

/-- **racy_edit_counterexample**: if the cache window is allowed to span a template edit (a second
edit arrives, and is acted on, before the cache shows the ObjectSet created for the first), two
ObjectSets end up with the same revision number – this is outside the staleness the property
admits ("the create-not-yet-visible window the code explicitly handles") and is the reason for the
hypothesis `c.racy = false`. -/
theorem racy_edit_counterexample :
    let s := run (demoCfg false true) (init 1)
      [.od .none .fresh false, .os 0, .edit 2, .od .none .fresh false, .edit 3, .od .none .hideList false, .os 1, .os 2]
    s.sets.map (fun o => (o.spec, o.rev)) = [(1, 1), (2, 2), (3, 2)] := by
  decide

/-- Non-vacuity: a concrete history on the fixed code with a roll-back (template 1 → 2 → 1), a lost
create response and a stale cache: three revisions 1, 2, 3, the rolled-back template got a NEW
ObjectSet under a bumped collision counter, the old one is untouched. -/
example :
    let s := run (demoCfg false false) (init 1)
      [.od .lose .fresh false, .od .none .hideList false, .os 0, .edit 2, .od .none .fresh false, .os 1,
       .arch 0, .edit 1, .od .none .fresh false, .od .none .fresh false, .od .none .hideBoth false, .os 2]
    s.cc = 1 ∧ s.log = [1, 2, 3] ∧
    s.sets.map (fun o => (o.name, o.spec, o.rev, o.archived, o.prev)) =
      [(100, 1, 1, true, []), (200, 2, 2, false, [100]), (101, 1, 3, false, [100, 200])] := by
  decide

/-- Non-vacuity of the roll-back clause: template 1 → 2 → 1 while the ObjectSet of template 1 is
still LIVE (not archived, equal spec, revision 1 < 2): the clash bumps the counter, the next pass
creates a new ObjectSet, which gets revision 3; nothing existing is touched. -/
example :
    let s := run (demoCfg false false) (init 1)
      [.od .none .fresh false, .os 0, .edit 2, .od .none .fresh false, .os 1, .edit 1,
       .od .none .fresh false, .od .none .hideList false, .os 2]
    s.cc = 1 ∧ s.log = [1, 2, 3] ∧
    s.sets.map (fun o => (o.name, o.spec, o.rev, o.archived, o.prev)) =
      [(100, 1, 1, false, []), (200, 2, 2, false, [100]), (101, 1, 3, false, [100, 200])] := by
  decide


/-- Non-vacuity for `spec.revisionHistoryLimit`: with the limit set to 0 ("keep no old revisions") and
four templates rolled out in a row, none of the revisions archived or garbage collected (so more
ObjectSets exist than the limit at every creation), every new ObjectSet names ALL existing ones and
the revisions are 1, 2, 3, 4. -/
example :
    let s := run (demoCfg false false) (init 1)
      [.limit (some 0), .od .none .fresh false, .os 0, .edit 2, .od .none .fresh false, .os 1, .limit (some 1),
       .edit 3, .od .none .fresh false, .os 2, .limit none, .edit 4, .od .none .fresh false, .os 3]
    s.cc = 0 ∧ s.log = [1, 2, 3, 4] ∧
    s.sets.map (fun o => (o.name, o.rev, o.prev)) =
      [(100, 1, []), (200, 2, [100]), (300, 3, [100, 200]), (400, 4, [100, 200, 300])] := by
  decide

end Pko.Props.C07
