/-
Property C09, Package level — "Pausing a Package pauses its ObjectDeployment, which … creates or
archives no revision while paused; unpausing releases …".

Theorems are about `Pko.Model.PkgPause.cpass` (model of `GenericPackageController.Reconcile` with
its pause handling, on top of the C16 model `Pko.Model.Deploy.pass` of the rollout path; tied to the
Go code by the C09 stream `pkgpause`) and hold for ALL leaf outcomes, fault combinations, prior
states and histories of spec edits, pause / un-pause, third-party edits and passes.
The spec predicates (`checkPaused`, `checkUnpaused`, `checkPRun`) live in `Pko.Model.PkgPauseSpec`
and are written from the property's sentence.
-/
import Pko.Model.PkgPause
import Pko.Model.PkgPauseSpec
import Pko.Props.C16

namespace Pko.Props.C09Pkg
open Pko.Model.Deploy Pko.Model.DeploySpec Pko.Model.PkgPause Pko.Model.PkgPauseSpec
open Pko.Props.C16 (clause_nil FreshInv checkStep_model pass_preserves_fresh pass_spec)

set_option linter.unusedSectionVars false
variable {H T : Type} [DecidableEq H] [DecidableEq T]
variable (hash : Spec → H) (render : Spec → T)

/-! ## One pass over a paused Package -/

/-- **(a) a paused Package is left alone**: whatever the leaves would answer, whatever fails and
whatever the prior state (ObjectDeployment absent, empty, rolled out; paused or not; spec hash
recorded or not), a pass over a paused Package pulls nothing, renders nothing, hands nothing to the
deployment reconciler, leaves the persisted status (recorded hash, conditions) and the
ObjectDeployment's existence and template exactly as they were, and sends at most one request for
the ObjectDeployment: its own pause sync. -/
theorem paused_pass_hands_off (L : Leaves) (F : Faults) (st : PStore H T) (hp : st.paused = true) :
    (cpass hash render L F st).pulls = 0 ∧ (cpass hash render L F st).deploys = 0 ∧
    (cpass hash render L F st).reconciled = false ∧
    (cpass hash render L F st).store.base = st.base ∧
    (cpass hash render L F st).store.paused = true ∧
    depsOf (cpass hash render L F st).writes = [] ∧
    (syncsOf (cpass hash render L F st).writes).length ≤ 1 := by
  unfold cpass
  cases F.pkgGet <;> cases F.odGet0 <;> cases ho : st.odp <;>
    cases syncOutcome F st.base.od.isSome <;> cases F.odGet2 <;> cases F.status <;>
    simp [hp, depsOf, syncsOf]

/-- In particular a paused pass never creates an ObjectDeployment. -/
theorem paused_pass_creates_nothing (L : Leaves) (F : Faults) (st : PStore H T) (hp : st.paused = true)
    (hn : st.base.od = none) : (cpass hash render L F st).store.base.od = none := by
  rw [(paused_pass_hands_off hash render L F st hp).2.2.2.1, hn]

/-- **The code's behaviour for a paused Package without ObjectDeployment** (created paused, or
paused while the first pull is backing off, or its ObjectDeployment deleted): once both Gets
succeed the controller sends an Update for the empty object, the API refuses it, the pass returns
an error and nothing at all has changed. -/
theorem paused_pass_without_objectdeployment_fails (L : Leaves) (F : Faults) (st : PStore H T)
    (hp : st.paused = true) (hn : st.base.od = none) (h1 : F.pkgGet = false) (h2 : F.odGet0 = false) :
    cpass hash render L F st = ⟨st, .err, 0, 0, false, [.sync .fail]⟩ := by
  simp [cpass, hp, hn, h1, h2, PStore.odp, syncOutcome]

/-- **(b) pause propagates**: a pass over a paused Package that returns without error has left an
ObjectDeployment that exists and has `spec.paused = true`. -/
theorem paused_pass_ok_objectdeployment_paused (L : Leaves) (F : Faults) (st : PStore H T)
    (hp : st.paused = true) (hr : (cpass hash render L F st).res ≠ .err) :
    (cpass hash render L F st).store.odp = true := by
  revert hr
  unfold cpass
  cases F.pkgGet <;> cases F.odGet0 <;> cases ho : st.odp <;>
    cases hs : syncOutcome F st.base.od.isSome <;> cases F.odGet2 <;> cases F.status <;>
    simp [hp, ho]
  all_goals
    simp only [syncOutcome] at hs
    simp only [PStore.odp] at ho ⊢
    cases hod : st.base.od <;> simp_all

/-- **(b') a paused Package never releases**: an ObjectDeployment that is paused stays paused
over every pass of a paused Package — failing ones included. -/
theorem paused_pass_keeps_paused (L : Leaves) (F : Faults) (st : PStore H T)
    (hp : st.paused = true) (ho : st.odp = true) : (cpass hash render L F st).store.odp = true := by
  unfold cpass
  cases F.pkgGet <;> cases F.odGet0 <;> cases F.odGet2 <;> cases F.status <;> simp [hp, ho]

/-! ## One pass over an un-paused Package -/

/-- **(c) un-pause propagates**: a pass over an un-paused Package that returns without error has
left no paused ObjectDeployment. -/
theorem unpaused_pass_ok_objectdeployment_unpaused (L : Leaves) (F : Faults) (st : PStore H T)
    (hp : st.paused = false) (hr : (cpass hash render L F st).res ≠ .err) :
    (cpass hash render L F st).store.odp = false := by
  revert hr
  unfold cpass
  cases F.pkgGet <;> cases F.odGet0 <;> cases ho : st.odp <;>
    cases hs : syncOutcome F st.base.od.isSome <;> simp [hp, PStore.odp]

/-- Lifting a result of the C16 pass to the paused-aware result. -/
def lift (st : PStore H T) (pre : List PWrite) (r : PassRes H T) : PPassRes H T :=
  ⟨{ st with base := r.store, odPaused := false }, r.res, r.pulls, r.deploys, r.reconciled, pre ++ r.writes.map .dep⟩

/-- **(c) normal behaviour resumes, no sync needed**: over an un-paused Package whose
ObjectDeployment is absent or un-paused the pass IS the pass of property C16. -/
theorem unpaused_pass_is_c16_pass (L : Leaves) (F : Faults) (st : PStore H T)
    (hp : st.paused = false) (ho : st.odp = false) (h1 : F.pkgGet = false) (h2 : F.odGet0 = false) :
    cpass hash render L F st = lift st [] (pass hash render L F st.base) := by
  simp [cpass, hp, ho, h1, h2, lift]

/-- **(c) normal behaviour resumes after the release**: over an un-paused Package whose
ObjectDeployment is paused the pass first releases it; when the API accepts that, what follows IS
the pass of property C16; when it refuses, the pass ends with an error and nothing has changed. -/
theorem unpaused_pass_releases_then_c16_pass (L : Leaves) (F : Faults) (st : PStore H T)
    (hp : st.paused = false) (ho : st.odp = true) (h1 : F.pkgGet = false) (h2 : F.odGet0 = false) :
    (syncOutcome F st.base.od.isSome = .ok ∧
      cpass hash render L F st = lift st [.sync .ok] (pass hash render L F st.base)) ∨
    (∃ w, w ≠ SyncW.ok ∧ cpass hash render L F st = ⟨st, .err, 0, 0, false, [.sync w]⟩) := by
  cases hs : syncOutcome F st.base.od.isSome
  · left; simp [cpass, hp, ho, h1, h2, hs, lift]
  · right; exact ⟨.fail, by decide, by simp [cpass, hp, ho, h1, h2, hs]⟩
  · right; exact ⟨.conflict, by decide, by simp [cpass, hp, ho, h1, h2, hs]⟩

/-! ## Histories -/

/-- What a pass does to the rollout state (spec, persisted status, ObjectDeployment template):
nothing, or — only over an un-paused Package — what the C16 pass does. -/
theorem cpass_base (L : Leaves) (F : Faults) (st : PStore H T) :
    ((cpass hash render L F st).store.base = st.base ∨
      (st.paused = false ∧ (cpass hash render L F st).store.base = (pass hash render L F st.base).store)) ∧
    (cpass hash render L F st).store.paused = st.paused := by
  unfold cpass
  cases F.pkgGet <;> cases F.odGet0 <;> cases hp : st.paused <;> cases ho : st.odp <;>
    cases syncOutcome F st.base.od.isSome <;> cases F.odGet2 <;> cases F.status <;> simp [hp]

/-- The user never un-pauses the Package in this history. -/
def NoUnpause (ops : List POp) : Prop := POp.setPaused false ∉ ops

/-- **While the Package stays paused the rollout is frozen**: over ANY history of spec edits,
passes under arbitrary faults and third-party edits in which the user does not un-pause, the
persisted status (recorded spec hash, Unpacked / Invalid) never changes, and the ObjectDeployment
template is the one it had — or the ObjectDeployment is gone, if a third party deleted it; it is
never (re-)created. -/
theorem while_paused_rollout_frozen (W : Spec → Leaves) (ops : List POp) (hn : NoUnpause ops)
    (st : PStore H T) (hp : st.paused = true) :
    (prun hash render W st ops).paused = true ∧
    (prun hash render W st ops).base.status = st.base.status ∧
    ((prun hash render W st ops).base.od = st.base.od ∨ (prun hash render W st ops).base.od = none) := by
  induction ops generalizing st with
  | nil => simp [prun, hp]
  | cons op ops ih =>
    have hn' : NoUnpause ops := fun h => hn (List.mem_cons_of_mem _ h)
    simp only [prun, List.foldl_cons]
    have key : (pstep hash render W st op).paused = true ∧
        (pstep hash render W st op).base.status = st.base.status ∧
        ((pstep hash render W st op).base.od = st.base.od ∨ (pstep hash render W st op).base.od = none) := by
      cases op with
      | pass F =>
        obtain ⟨_, _, _, hb, hq, _⟩ := paused_pass_hands_off hash render (W st.base.spec) F st hp
        simp [pstep, hb, hq]
      | edit s => simp [pstep, Pko.Model.PkgPause.edit, hp]
      | setPaused v =>
        cases v with
        | true => simp [pstep, Pko.Model.PkgPause.edit]
        | false => exact absurd (List.mem_cons_self) hn
      | tpPaused v => simp only [pstep, Pko.Model.PkgPause.edit]; split <;> simp [hp]
      | tpDelete => simp [pstep, Pko.Model.PkgPause.edit, hp]
    obtain ⟨k1, k2, k3⟩ := key
    obtain ⟨i1, i2, i3⟩ := ih hn' (pstep hash render W st op) k1
    refine ⟨i1, i2.trans k2, ?_⟩
    rcases i3 with i3 | i3
    · rcases k3 with k3 | k3
      · exact .inl (i3.trans k3)
      · exact .inr (i3.trans k3)
    · exact .inr i3

/-- **A Package that has been paused all the time is never rolled out** (the class of seeded
defect C09-3): created with `spec.paused = true` — or paused before its first pass — and never
un-paused, no history of passes (failed pulls included), spec edits and third-party edits leaves an
ObjectDeployment or a recorded spec hash. -/
theorem always_paused_never_rolls_out (W : Spec → Leaves) (s0 : Spec) (ops : List POp) (hn : NoUnpause ops) :
    (prun hash render W (pfresh s0 true : PStore H T) ops).base.od = none ∧
    (prun hash render W (pfresh s0 true : PStore H T) ops).base.status.unpackedHash = none := by
  obtain ⟨_, h2, h3⟩ := while_paused_rollout_frozen hash render W ops hn (pfresh s0 true) rfl
  refine ⟨?_, by rw [h2]; rfl⟩
  rcases h3 with h3 | h3
  · rw [h3]; rfl
  · exact h3

/-- Same for a Package paused by the user right after its creation, before the first pass. -/
theorem paused_before_first_pass_never_rolls_out (W : Spec → Leaves) (s0 : Spec) (ops : List POp)
    (hn : NoUnpause ops) :
    (prun hash render W (pfresh s0 false : PStore H T) (.setPaused true :: ops)).base.od = none :=
  (always_paused_never_rolls_out hash render W s0 ops hn).1

/-- **Un-pausing resumes the rollout**: after ANY history, once the Package is un-paused a
fault-free pass over an admissible spec whose hash is not recorded leaves the ObjectDeployment
un-paused with the fresh render as its template and records the spec. -/
theorem unpaused_clean_pass_rolls_out (L : Leaves) (st : PStore H T) (hp : st.paused = false)
    (hr : st.base.status.unpackedHash ≠ some (hash st.base.spec)) (ha : admissible L = true) :
    (cpass hash render L {} st).store.base.od = some (some (render st.base.spec)) ∧
    (cpass hash render L {} st).store.odp = false ∧
    (cpass hash render L {} st).store.base.status.unpackedHash = some (hash st.base.spec) ∧
    (cpass hash render L {} st).res = .ok := by
  obtain ⟨a, _, _, d, _, _, g⟩ :=
    Pko.Props.C16.changed_spec_template_eq_fresh_render hash render L st.base hr ha
  have hl : ∃ pre, cpass hash render L {} st = lift st pre (pass hash render L {} st.base) := by
    cases ho : st.odp
    · exact ⟨[], unpaused_pass_is_c16_pass hash render L {} st hp ho rfl rfl⟩
    · refine ⟨[.sync .ok], ?_⟩
      have hs : st.base.od.isSome = true := by
        simp only [PStore.odp, Bool.and_eq_true] at ho; exact ho.1
      simp [cpass, hp, ho, hs, lift, syncOutcome, RFault.conflicts]
  obtain ⟨pre, e⟩ := hl
  rw [e]
  simp [lift, PStore.odp, a, d, g]

/-! ## Monitor vs. model (stream pkgpause) -/

theorem depsOf_map (ws : List Write) : depsOf (ws.map PWrite.dep) = ws := by
  induction ws with
  | nil => rfl
  | cons w ws ih => simp [depsOf, ih]

theorem syncsOf_map (ws : List Write) : syncsOf (ws.map PWrite.dep) = [] := by
  induction ws with
  | nil => rfl
  | cons w ws ih => simp [syncsOf, ih]

theorem podpOf_eq_some_true (st : PStore H T) : podpOf st = some true ↔ st.odp = true := by
  unfold podpOf PStore.odp
  cases st.base.od.isSome <;> simp

/-- Observation of an un-paused model pass: the un-pause request was refused and nothing else
happened, or every own request was accepted and the rest is the observation of the C16 pass. -/
theorem unpaused_obs (L : Leaves) (F : Faults) (st : PStore H T) (hp : st.paused = false) :
    (∃ w, w ≠ SyncW.ok ∧ cpass hash render L F st = ⟨st, .err, 0, 0, false, [.sync w]⟩) ∨
    ((syncsOf (cpass hash render L F st).writes).any (· != .ok) = false ∧
      (pobsOf (cpass hash render L F st)).o = obsOf (pass hash render L F st.base)) := by
  cases h1 : F.pkgGet
  · cases h2 : F.odGet0
    · cases ho : st.odp
      · right
        rw [unpaused_pass_is_c16_pass hash render L F st hp ho h1 h2]
        simp [lift, pobsOf, obsOf, depsOf_map, syncsOf_map]
      · rcases unpaused_pass_releases_then_c16_pass hash render L F st hp ho h1 h2 with ⟨_, e⟩ | h
        · right
          rw [e]
          simp [lift, pobsOf, obsOf, depsOf, syncsOf, depsOf_map, syncsOf_map]
        · exact .inl h
    · right; simp [cpass, pass, h1, h2, pobsOf, obsOf, depsOf, syncsOf]
  · right; simp [cpass, pass, h1, pobsOf, obsOf, depsOf, syncsOf]

/-- **Monitor vs. model, one pass**: the model's pass satisfies every clause of `checkPStep`
(C16's `stale-template` clause under the invariant it needs). -/
theorem checkPStep_model (W : Spec → Leaves) (F : Faults) (st : PStore H T) (strong : Bool)
    (hs : strong = true → clean F = true ∧ FreshInv hash render W st.base) :
    checkPStep hash render (W st.base.spec) F st.base.spec st.paused st.base.status.unpackedHash st.base.od
      (podpOf st) strong (pobsOf (cpass hash render (W st.base.spec) F st)) = [] := by
  unfold checkPStep
  cases hp : st.paused with
  | true =>
    obtain ⟨a, b, _, d, _, f, _⟩ := paused_pass_hands_off hash render (W st.base.spec) F st hp
    simp only [if_true, checkPaused, List.append_eq_nil_iff, clause_nil, pobsOf, a, b, d, f]
    refine ⟨⟨⟨⟨⟨⟨⟨⟨?_, ?_⟩, ?_⟩, ?_⟩, ?_⟩, ?_⟩, ?_⟩, ?_⟩, ?_⟩ <;> try simp
    · -- paused-package-objectdeployment-not-paused
      intro hr _
      exact (podpOf_eq_some_true _).2 (paused_pass_ok_objectdeployment_paused hash render (W st.base.spec) F st hp hr)
    · -- paused-package-released-objectdeployment
      intro ho _
      exact (podpOf_eq_some_true _).2
        (paused_pass_keeps_paused hash render (W st.base.spec) F st hp ((podpOf_eq_some_true st).1 ho))
  | false =>
    simp only [Bool.false_eq_true, if_false, checkUnpaused, List.append_eq_nil_iff, clause_nil]
    refine ⟨⟨by simp [pobsOf], ?_⟩, ?_⟩
    · -- unpaused-package-objectdeployment-still-paused
      cases hr : (cpass hash render (W st.base.spec) F st).res with
      | err => simp [pobsOf, hr]
      | _ =>
        have := unpaused_pass_ok_objectdeployment_unpaused hash render (W st.base.spec) F st hp (by simp [hr])
        have h2 : podpOf (cpass hash render (W st.base.spec) F st).store ≠ some true := by
          rw [Ne, podpOf_eq_some_true, this]; simp
        simp [pobsOf, hr, h2]
    · rcases unpaused_obs hash render (W st.base.spec) F st hp with ⟨w, hw, e⟩ | ⟨h1, h2⟩
      · rw [e]
        cases w <;> simp [pobsOf, syncsOf, depsOf, clause] at hw ⊢
      · have h1' : (pobsOf (cpass hash render (W st.base.spec) F st)).sync.any (· != .ok) = false := h1
        rw [h1', h2]
        simpa using checkStep_model hash render W F st.base strong hs

theorem cpass_spec (L : Leaves) (F : Faults) (st : PStore H T) :
    (cpass hash render L F st).store.base.spec = st.base.spec := by
  rcases (cpass_base hash render L F st).1 with h | ⟨_, h⟩
  · rw [h]
  · rw [h, pass_spec]

/-- **Monitor vs. model, whole histories**: for a collision-free hash, every world, every start
state satisfying the freshness invariant and every history of spec edits, pause / un-pause,
third-party edits and faulty passes, the monitor's walk (`checkPRun`) over the MODEL's observations
reports no violated clause. -/
theorem checkPRun_model (hinj : ∀ a b, hash a = hash b → a = b) (W : Spec → Leaves) (ops : List POp)
    (st : PStore H T) (ls : Bool) (i : Nat) (hI : ls = false → FreshInv hash render W st.base) :
    checkPRun hash render W
      { spec := st.base.spec, paused := st.paused, ph := st.base.status.unpackedHash, pod := st.base.od,
        podp := podpOf st, lateSeen := ls, idx := i } ops
      ((ptrace hash render W st ops).map (Option.map pobsOf)) = [] := by
  induction ops generalizing st ls i with
  | nil => simp [ptrace, checkPRun]
  | cons op ops ih =>
    cases op with
    | edit s =>
      simp only [ptrace, List.map_cons, Option.map_none, checkPRun]
      exact ih (Pko.Model.PkgPause.edit st (.edit s)) ls (i + 1) (fun h s' h1 h2 => hI h s' h1 h2)
    | setPaused v =>
      simp only [ptrace, List.map_cons, Option.map_none, checkPRun]
      exact ih (Pko.Model.PkgPause.edit st (.setPaused v)) ls (i + 1) (fun h s' h1 h2 => hI h s' h1 h2)
    | tpPaused v =>
      simp only [ptrace, List.map_cons, Option.map_none, checkPRun]
      have := ih (Pko.Model.PkgPause.edit st (.tpPaused v)) ls (i + 1) (by
        intro h s' h1 h2
        have := hI h s'
        simp only [Pko.Model.PkgPause.edit] at h1 ⊢
        split at h1 <;> split <;> simp_all)
      have e : podpOf (Pko.Model.PkgPause.edit st (.tpPaused v)) = (podpOf st).map fun _ => v := by
        simp only [Pko.Model.PkgPause.edit, podpOf]
        by_cases hod : st.base.od.isSome = true <;> simp [hod]
      have e2 : (Pko.Model.PkgPause.edit st (.tpPaused v)).base = st.base := by
        simp only [Pko.Model.PkgPause.edit]; split <;> rfl
      have e3 : (Pko.Model.PkgPause.edit st (.tpPaused v)).paused = st.paused := by
        simp only [Pko.Model.PkgPause.edit]; split <;> rfl
      rw [e, e2, e3] at this
      exact this
    | tpDelete =>
      simp only [ptrace, List.map_cons, Option.map_none, checkPRun]
      exact ih (Pko.Model.PkgPause.edit st .tpDelete) true (i + 1) (by simp)
    | pass F =>
      simp only [ptrace, List.map_cons, Option.map_some, checkPRun, List.append_eq_nil_iff, List.map_eq_nil_iff]
      constructor
      · apply checkPStep_model hash render W F st
        intro hs
        have h1 : ls = false := by cases ls <;> simp at hs ⊢
        have h2 : clean F = true := by cases h : clean F <;> simp [h] at hs ⊢
        exact ⟨h2, hI h1⟩
      · have hsp := cpass_spec hash render (W st.base.spec) F st
        obtain ⟨hb, hq⟩ := cpass_base hash render (W st.base.spec) F st
        have := ih (cpass hash render (W st.base.spec) F st).store (ls || (!st.paused && late F)) (i + 1) (by
          intro h
          have h1 : ls = false := by cases ls <;> simp at h ⊢
          rcases hb with hb | ⟨hp, hb⟩
          · rw [hb]; exact hI h1
          · have h2 : late F = false := by cases hh : late F <;> simp [hh, hp, h1] at h ⊢
            rw [hb]
            exact pass_preserves_fresh hash render hinj W F st.base h2 (hI h1))
        rw [hsp, hq] at this
        exact this

/-- **pkgpause_monitor_model_ok**: what the driver's `monitor` evaluates on a pkgpause scenario —
`checkPRun` from a Package just created, paused or not — finds nothing on the model's own trace. -/
theorem pkgpause_monitor_model_ok (hinj : ∀ a b, hash a = hash b → a = b) (W : Spec → Leaves) (s0 : Spec)
    (p : Bool) (ops : List POp) :
    checkPRun hash render W
      { spec := s0, paused := p, ph := none, pod := none, podp := none, lateSeen := false, idx := 0 } ops
      ((ptrace hash render W (pfresh s0 p : PStore H T) ops).map (Option.map pobsOf)) = [] :=
  checkPRun_model hash render hinj W ops (pfresh s0 p) false 0
    (fun _ => Pko.Props.C16.fresh_inv_fresh hash render W s0)

/-! ## Non-vacuity -/

/-- A concrete history through every branch of the pause handling: created paused (passes fail,
nothing is created), un-paused (rolled out), paused (ObjectDeployment paused), edited while paused
(nothing happens), a third party releases the ObjectDeployment (re-paused), un-paused with a
conflicting third-party write (refused), un-paused (released, the edit rolls out). -/
example :
    let h : Spec → Spec := id
    let r : Spec → Nat := fun s => 100 * s.image + s.config
    let W := Pko.Props.C16.allOk
    let s1 := prun h r W (pfresh ⟨0, 0, 0⟩ true : PStore Spec Nat) [.pass {}, .pass { pull := true }]
    let s2 := prun h r W s1 [.setPaused false, .pass {}]
    let s3 := prun h r W s2 [.setPaused true, .pass {}, .edit ⟨1, 0, 0⟩, .pass {}]
    let s4 := prun h r W s3 [.tpPaused false]
    let s5 := prun h r W s4 [.pass {}, .setPaused false, .pass { recon := .conflict 1 }]
    let s6 := prun h r W s5 [.pass {}]
    (s1.base.od = none ∧ s1.base.status.unpackedHash = none) ∧
    (s2.base.od = some (some 0) ∧ s2.odp = false ∧ s2.base.status.unpackedHash = some ⟨0, 0, 0⟩) ∧
    (s3.base.od = some (some 0) ∧ s3.odp = true ∧ s3.base.status.unpackedHash = some ⟨0, 0, 0⟩) ∧
    s4.odp = false ∧
    (s5.base.od = some (some 0) ∧ s5.odp = true) ∧
    (s6.base.od = some (some 100) ∧ s6.odp = false ∧ s6.base.status.unpackedHash = some ⟨1, 0, 0⟩) ∧
    (cpass h r (W ⟨0, 0, 0⟩) {} (pfresh ⟨0, 0, 0⟩ true : PStore Spec Nat)).writes = [.sync .fail] := by
  decide

/-- The monitor is not vacuous: the trace of seeded defect C09-3 (a Package created paused is
unpacked into an un-paused ObjectDeployment) violates clauses (a) and (b). -/
example :
    checkPaused (H := Spec × Bool) (T := Nat) none none none
      { o := { res := .ok, pulls := 1, deploys := 1, writes := [.create, .update], od := some (some 0),
               hash := some (⟨0, 0, 0⟩, true), unpacked := some true, invalid := .none },
        sync := [], odPaused := some false, syncOnlyPaused := true } =
      ["paused-package-objectdeployment-created", "paused-package-pulled", "paused-package-rendered",
       "paused-package-deployment-written", "paused-package-template-changed",
       "paused-package-recorded-unpacked", "paused-package-objectdeployment-not-paused"] := by
  decide

end Pko.Props.C09Pkg
