/-
Property C08 (b) — the ObjectDeployment level composed with the ObjectSet level
(`Pko.Model.Handover`: one ObjectDeployment pass = `Pko.Model.Archive.osr` on revision records built
from the ObjectSets of the whole-system state `Sys`, its writes applied to those ObjectSets).

What is proved, for EVERY state and every listing:

* `od_pass_keeps_objects` — an ObjectDeployment pass never changes a managed object nor a delegated
  phase object: what it does to the cluster is confined to `spec.lifecycleState` / the
  paused-by-parent annotation of ObjectSets (and their deletion by history pruning).  Every deletion
  of a managed object in a history is therefore the act of an ObjectSet / ObjectSetPhase controller
  pass (teardown) — which is where the monitor of the `handover` stream looks for it.
* `od_pass_keeps_status` — … nor anything an ObjectSet reports (`status`) or contains (`spec.phases`,
  `spec.previous`): the next decision is taken on what the ObjectSet controllers report, not on
  something the ObjectDeployment controller wrote itself.
* `od_archives_only_if_reported` — `Props.C08.archived_only_if_ctrl` lifted through the record
  construction: whatever a pass archives was REPORTED paused, is not the newest, and either a newer
  revision REPORTS Available or the revision reports itself unavailable and its REPORTED
  `status.controllerOf` shares no identifier with the objects of the next newer revision.

What is NOT true of the code, with witnesses (`…_counterexample`, states reached by the real
controllers in corpus/C08/handover/*.jsonl):

* `truncated_controllerOf_counterexample` — "controls nothing that the next newer revision contains"
  fails on the store: the revision's last pass stopped at a failing early phase, its
  `status.controllerOf` lacks the late-phase object it still controls, the pass archives it.
* `available_while_paused_counterexample` — "a newer revision is Available" is satisfied by a report
  of a PAUSED newer revision that does not control the shared object; the resume pass archives the
  old revision that does.
-/
import Pko.Model.Handover
import Pko.Props.C08

namespace Pko.Props.C08Handover
open Pko.Kube Pko.Model.Phase Pko.Model.Status Pko.Model.ObjectSet Pko.Model.Handover
open Pko.Model.Archive (Write osr)

/-- the managed objects, the phase objects and the uid counter are the same. -/
def SameObjects (a b : Sys) : Prop :=
  a.w.store.objs = b.w.store.objs ∧ a.w.phases = b.w.phases ∧ a.w.store.nextUID = b.w.store.nextUID

theorem SameObjects.refl (s : Sys) : SameObjects s s := ⟨rfl, rfl, rfl⟩

theorem SameObjects.trans {a b c : Sys} (h1 : SameObjects a b) (h2 : SameObjects b c) : SameObjects a c :=
  ⟨h1.1.trans h2.1, h1.2.1.trans h2.2.1, h1.2.2.trans h2.2.2⟩

theorem thirdPartyStore_objects (s : Sys) (c n : OSet) (e : Bool) : SameObjects (s.thirdPartyStore c n e) s := by
  unfold Sys.thirdPartyStore
  split
  · exact SameObjects.refl s
  · exact ⟨rfl, rfl, rfl⟩

theorem setSet_objects (s : Sys) (n : String) (o : Option OSet) : SameObjects (s.setSet n o) s := ⟨rfl, rfl, rfl⟩

theorem delete_objects (s : Sys) (n : String) : SameObjects (s.applySetEnv (.delete n false)) s := by
  simp only [Sys.applySetEnv]
  split
  · simp only [Bool.false_eq_true, ↓reduceIte]
    split
    · split
      · split
        · exact SameObjects.refl s
        · exact thirdPartyStore_objects _ _ _ _
      · exact setSet_objects _ _ _
    · exact SameObjects.refl s
  · exact SameObjects.refl s

theorem applyWrite_objects (names : List String) (s : Sys) (w : Write) : SameObjects (applyWrite names s w) s := by
  unfold applyWrite
  split
  · exact SameObjects.refl s
  · cases w <;> simp only
    all_goals first
      | exact delete_objects _ _
      | (split
         · exact SameObjects.refl s
         · exact thirdPartyStore_objects _ _ _ _)

theorem foldl_applyWrite_objects (names : List String) (ws : List Write) (s : Sys) :
    SameObjects (ws.foldl (applyWrite names) s) s := by
  induction ws generalizing s with
  | nil => exact SameObjects.refl s
  | cons w ws ih => exact (ih (applyWrite names s w)).trans (applyWrite_objects names s w)

/-- **od_pass_keeps_objects**: an ObjectDeployment pass changes no managed object and no phase object. -/
theorem od_pass_keeps_objects (names : List String) (s : Sys) : SameObjects (odPass names s).1 s :=
  foldl_applyWrite_objects names _ s

/-! ### what an ObjectDeployment pass leaves alone on the ObjectSets -/

/-- `o'` reports and contains what `o` does (everything but lifecycle state, annotation, deletion
state and the server-side counters). -/
def SameReport (o o' : OSet) : Prop :=
  o'.name = o.name ∧ o'.uid = o.uid ∧ o'.conds = o.conds ∧ o'.controllerOf = o.controllerOf ∧ o'.revision = o.revision ∧
  o'.remotePhases = o.remotePhases ∧ o'.phases = o.phases ∧ o'.previous = o.previous

theorem SameReport.refl (o : OSet) : SameReport o o := ⟨rfl, rfl, rfl, rfl, rfl, rfl, rfl, rfl⟩

theorem SameReport.trans {a b c : OSet} (h1 : SameReport a b) (h2 : SameReport b c) : SameReport a c := by
  obtain ⟨a1, a2, a3, a4, a5, a6, a7, a8⟩ := h1
  obtain ⟨b1, b2, b3, b4, b5, b6, b7, b8⟩ := h2
  exact ⟨b1.trans a1, b2.trans a2, b3.trans a3, b4.trans a4, b5.trans a5, b6.trans a6, b7.trans a7, b8.trans a8⟩

/-- every ObjectSet of `b` is an ObjectSet of `a` with the same report. -/
def KeepsReports (a b : Sys) : Prop := ∀ n o', b.sets n = some o' → ∃ o, a.sets n = some o ∧ SameReport o o'

theorem KeepsReports.refl (s : Sys) : KeepsReports s s := fun _ o' h => ⟨o', h, SameReport.refl o'⟩

theorem KeepsReports.trans {a b c : Sys} (h1 : KeepsReports a b) (h2 : KeepsReports b c) : KeepsReports a c := by
  intro n o' h
  obtain ⟨o1, ho1, r1⟩ := h2 n o' h
  obtain ⟨o0, ho0, r0⟩ := h1 n o1 ho1
  exact ⟨o0, ho0, r0.trans r1⟩

theorem thirdPartyStore_reports (s : Sys) (c n : OSet) (e : Bool) (hc : s.sets c.name = some c)
    (hr : SameReport c n) : KeepsReports s (s.thirdPartyStore c n e) := by
  unfold Sys.thirdPartyStore
  split
  · exact KeepsReports.refl s
  · intro m o' h
    simp only [Sys.setSet] at h
    split at h
    · rename_i hm
      subst hm
      cases h
      exact ⟨c, hc, hr⟩
    · exact ⟨o', h, SameReport.refl o'⟩

theorem setSet_none_reports (s : Sys) (n : String) : KeepsReports s (s.setSet n none) := by
  intro m o' h
  simp only [Sys.setSet] at h
  split at h
  · cases h
  · exact ⟨o', h, SameReport.refl o'⟩

/-- the ObjectSets are stored under their own name. -/
def Named (s : Sys) : Prop := ∀ n o, s.sets n = some o → o.name = n

theorem thirdPartyStore_named (s : Sys) (c n : OSet) (e : Bool) (hn : Named s) (hname : n.name = c.name) :
    Named (s.thirdPartyStore c n e) := by
  unfold Sys.thirdPartyStore
  split
  · exact hn
  · intro m o h
    simp only [Sys.setSet] at h
    split at h
    · rename_i hm
      cases h
      simp [hname, hm]
    · exact hn m o h

theorem setSet_none_named (s : Sys) (n : String) (hn : Named s) : Named (s.setSet n none) := by
  intro m o h
  simp only [Sys.setSet] at h
  split at h
  · cases h
  · exact hn m o h

theorem delete_reports (s : Sys) (n : String) (hn : Named s) :
    KeepsReports s (s.applySetEnv (.delete n false)) ∧ Named (s.applySetEnv (.delete n false)) := by
  simp only [Sys.applySetEnv]
  split
  · rename_i c hc
    simp only [Bool.false_eq_true, ↓reduceIte]
    rw [hc]
    simp only
    have hcn : c.name = n := hn n c hc
    split
    · split
      · exact ⟨KeepsReports.refl s, hn⟩
      · exact ⟨thirdPartyStore_reports s c _ _ (by rw [hcn]; exact hc) ⟨rfl, rfl, rfl, rfl, rfl, rfl, rfl, rfl⟩,
               thirdPartyStore_named s c _ _ hn rfl⟩
    · exact ⟨setSet_none_reports s n, setSet_none_named s n hn⟩
  · exact ⟨KeepsReports.refl s, hn⟩

theorem writeTo_report (w : Write) (c : OSet) : SameReport c (writeTo w c) := by
  cases w <;> exact ⟨rfl, rfl, rfl, rfl, rfl, rfl, rfl, rfl⟩

theorem applyWrite_reports (names : List String) (s : Sys) (w : Write) (hn : Named s) :
    KeepsReports s (applyWrite names s w) ∧ Named (applyWrite names s w) := by
  unfold applyWrite
  split
  · exact ⟨KeepsReports.refl s, hn⟩
  · rename_i n _
    cases w
    case delete => exact delete_reports s n hn
    all_goals
      simp only
      split
      · exact ⟨KeepsReports.refl s, hn⟩
      · rename_i c hc
        have hcn : c.name = n := hn n c hc
        exact ⟨thirdPartyStore_reports s c _ _ (by rw [hcn]; exact hc) (writeTo_report _ c),
               thirdPartyStore_named s c _ _ hn (writeTo_report _ c).1⟩

theorem foldl_applyWrite_reports (names : List String) (ws : List Write) (s : Sys) (hn : Named s) :
    KeepsReports s (ws.foldl (applyWrite names) s) := by
  induction ws generalizing s with
  | nil => exact KeepsReports.refl s
  | cons w ws ih =>
    obtain ⟨h1, h2⟩ := applyWrite_reports names s w hn
    exact h1.trans (ih _ h2)

/-- **od_pass_keeps_status**: whatever ObjectSet exists after an ObjectDeployment pass existed before
it with the same status (conditions, controllerOf, revision, remotePhases), the same phases and the
same previous-revision list. -/
theorem od_pass_keeps_status (names : List String) (s : Sys) (hn : Named s) : KeepsReports s (odPass names s).1 :=
  foldl_applyWrite_reports names _ s hn

/-! ### the archival condition, on what the ObjectSets report -/

/-- **od_archives_only_if_reported**: if a pass of the ObjectDeployment controller on the ObjectSets of
`s` sends `Archived` to the `i`-th listed name, then — about the revision records built from the
ObjectSets as the adapters read them — the revision had REPORTED `Paused=True`, is not the newest,
and a newer revision REPORTS Available or it reports itself unavailable and its REPORTED
`status.controllerOf` shares no identifier with the objects of the next newer revision
(`Pko.Model.ArchiveSpec.ArchiveOK`).  Nothing in this statement looks at the store: see the two
counterexamples below. -/
theorem od_archives_only_if_reported (names : List String) (s : Sys) (i : Nat)
    (h : Write.archive i ∈ (odPass names s).2.1) :
    Pko.Model.ArchiveSpec.ArchiveOK (revsOf names s) i :=
  Pko.Props.C08.archived_only_if_ctrl (revsOf names s) s.od.paused none true i h

/-! ### counterexamples to the sentence on the store (behaviour of the unchanged code) -/

/-- `o` controls (controller owner reference) the stored object under `k`. -/
def ControlsInStore (s : Sys) (o : OSet) (k : Key) : Bool :=
  match s.w.store.get k with
  | some c => isController .native (o.owner.ref true) c
  | none => false

/-- `UniqueIdentifier()` of a stored object. -/
def idOfKey (k : Key) : String := s!"{k.kind}/{k.ns}/{k.name}"

/-- `status.controllerOf` of `o` is COMPLETE: it lists every object `o` controls in the store. -/
def ReportsComplete (s : Sys) (o : OSet) : Prop :=
  ∀ k, ControlsInStore s o k = true → idOfKey k ∈ reportedIds o

/-- **od_archives_safely_when_reports_complete** (the sentence on the STORE, under the hypothesis the
two findings violate): if a pass of the ObjectDeployment controller archives the `i`-th listed
ObjectSet `x`, then `x` had reported `Paused=True`, and a newer revision reports Available — or `x`
reports itself unavailable and there is a next newer revision `y` such that, PROVIDED
`status.controllerOf` of `x` lists everything `x` controls in the store (`ReportsComplete`), no object
`x` controls in the store is one `y` contains.  Finding C08-b is exactly a reachable state in which
`ReportsComplete` fails (`truncated_controllerOf_counterexample`); finding C08-c is the other disjunct
resting on a report (`Available`) that says nothing about control. -/
theorem od_archives_safely_when_reports_complete (names : List String) (s : Sys) (i : Nat)
    (h : Write.archive i ∈ (odPass names s).2.1) :
    ∃ x ∈ listing names s, x.1 = i ∧ condTrue x.2.conds "Paused" = true ∧
      ((∃ y ∈ listing names s, x.2.revision < y.2.revision ∧ condTrue y.2.conds "Available" = true) ∨
       (condTrue x.2.conds "Available" = false ∧
        ∃ y ∈ listing names s, x.2.revision < y.2.revision ∧
          (∀ z ∈ listing names s, x.2.revision < z.2.revision → y.2.revision ≤ z.2.revision) ∧
          (ReportsComplete s x.2 → ∀ k, ControlsInStore s x.2 k = true → idOfKey k ∉ specIds y.2))) := by
  obtain ⟨r, hr, hid, hp, _, hcase⟩ := od_archives_only_if_reported names s i h
  simp only [revsOf, List.mem_map] at hr
  obtain ⟨x, hx, rfl⟩ := hr
  refine ⟨x, hx, hid, hp, ?_⟩
  rcases hcase with ⟨y, hy, hlt, hav⟩ | ⟨hun, y, hy, hnext, hcn, _⟩
  · left
    simp only [revsOf, List.mem_map] at hy
    obtain ⟨x', hx', rfl⟩ := hy
    exact ⟨x', hx', by simpa [revOf] using hlt, hav⟩
  · right
    simp only [revsOf, List.mem_map] at hy
    obtain ⟨x', hx', rfl⟩ := hy
    refine ⟨hun, x', hx', by simpa [revOf] using hnext.1, ?_, ?_⟩
    · intro z hz hlt
      have := hnext.2 (revOf (idUniverse (listing names s)) s.od.template z.1 z.2)
        (by simp only [revsOf, List.mem_map]; exact ⟨z, hz, rfl⟩) (by simpa [revOf] using hlt)
      simpa [revOf] using this
    · intro hcomplete k hk hmem
      have hrep := hcomplete k hk
      simp only [revOf] at hcn
      split at hcn
      · exact hcn
      · simp only [Pko.Model.ArchiveSpec.ControlsNothingIn, Pko.Model.Archive.Rev.allObjects, List.append_nil] at hcn
        exact hcn _ (List.mem_map.mpr ⟨_, hrep, rfl⟩) (List.mem_map.mpr ⟨_, hmem, rfl⟩)

def wObj (name payload : String) : PObj :=
  { kind := "NsThing", ns := "", name := name, cp := .prevent, payload := payload, presetOwnerRef := false, dryRun := .accept }

def wStored (uid : Nat) (ownerName ownerUid : String) : Obj :=
  { uid := uid, rv := uid, gen := 1, owners := [⟨pkoGroup, "ObjectSet", ownerName, ownerUid, true⟩], annOwners := [],
    rev := .num 1, cacheLabel := true, pkgLabel := "", payload := "x", ready := true, obsGen := none,
    finalizer := false, deleting := false }

def wSet (name uid : String) (revision : Nat) (lc : Lifecycle) (phases : List PhaseSpec) (conds : List Cond)
    (co : List CRef) : OSet :=
  { kind := "ObjectSet", ns := "ns1", name := name, uid := uid, gen := 2, rv := 10, deleting := false, finCached := true,
    finOrphan := false, pkgLabel := "", lifecycle := lc, phases := phases, previous := [], revision := revision,
    conds := conds, controllerOf := co, remotePhases := [] }

def kA : Key := ⟨"NsThing", "ns1", "a"⟩
def kB : Key := ⟨"NsThing", "ns1", "b"⟩
def kC : Key := ⟨"NsThing", "ns1", "c"⟩

/-- State of corpus/C08/handover/finding1 right before the archiving pass: r1 {p1:a, p2:c} paused
(confirmed), its last pass stopped at p1 (`a` regressed) and reported controllerOf=[a]; it still
controls `c`.  r2 {p1:b, p2:c} waits in p1 and has not reached `c`. -/
def truncatedState : Sys :=
  let r1 := wSet "r1" "uid-1" 1 .paused [⟨"p1", "", [wObj "a" "x"]⟩, ⟨"p2", "", [wObj "c" "x"]⟩]
    [⟨"Available", "False", "ProbeFailure", 2, "p1"⟩, ⟨"Paused", "True", "Paused", 2, ""⟩] [⟨"NsThing", "ns1", "a"⟩]
  let r2 := wSet "r2" "uid-4" 2 .active [⟨"p1", "", [wObj "b" "x"]⟩, ⟨"p2", "", [wObj "c" "x"]⟩]
    [⟨"Available", "False", "ProbeFailure", 1, "p1"⟩] [⟨"NsThing", "ns1", "b"⟩]
  { w := { store := { objs := fun k => if k = kA then some (wStored 2 "r1" "uid-1") else if k = kC then some (wStored 3 "r1" "uid-1")
                                       else if k = kB then some (wStored 5 "r2" "uid-4") else none,
                      nextUID := 6, nextRV := 20 },
           writes := 0, env := [], events := [] },
    sets := fun n => if n = "r1" then some r1 else if n = "r2" then some r2 else none,
    setEvents := [], freed := [], setWrites := 0, setEnv := [],
    od := { paused := false, template := r2.phases } }

/-- **truncated_controllerOf_counterexample** (finding C08-b): the pass archives r1 although no
revision reports Available and r1 controls — in the store — the object `c` that the next newer
revision r2 contains. -/
theorem truncated_controllerOf_counterexample :
    Write.archive 0 ∈ (odPass ["r1", "r2"] truncatedState).2.1 ∧
    (∀ n ∈ ["r1", "r2"], ∀ o, truncatedState.sets n = some o → condTrue o.conds "Available" = false) ∧
    (∃ r1 r2, truncatedState.sets "r1" = some r1 ∧ truncatedState.sets "r2" = some r2 ∧
      ControlsInStore truncatedState r1 kC = true ∧ r2.phases.any (fun ph => ph.objs.any fun p => keyOf { st := .native, flavour := ⟨true, true, true⟩, scope := fun _ => .namespaced, force := false } r2.owner p == kC) = true) := by
  refine ⟨by decide +kernel, ?_, ?_⟩
  · intro n hn o ho
    simp only [List.mem_cons, List.mem_nil_iff, or_false] at hn
    rcases hn with rfl | rfl
    · have : o = (truncatedState.sets "r1").get (by decide +kernel) := by simp [ho]
      subst this
      decide +kernel
    · have : o = (truncatedState.sets "r2").get (by decide +kernel) := by simp [ho]
      subst this
      decide +kernel
  · exact ⟨(truncatedState.sets "r1").get (by decide +kernel), (truncatedState.sets "r2").get (by decide +kernel),
      by simp, by simp, by decide +kernel, by decide +kernel⟩

/-- State of corpus/C08/handover/finding2 right before the resume pass: both revisions were paused by
the (paused) ObjectDeployment and confirmed it; the paused r2 {p1:a, p2:c} read `c` from the cache
and reports Available=True with controllerOf=[a]; r1 {p1:a, p2:c} controls `c`.  The user has just
resumed the ObjectDeployment. -/
def resumedState : Sys :=
  let r1 := wSet "r1" "uid-1" 1 .paused [⟨"p1", "", [wObj "a" "x"]⟩, ⟨"p2", "", [wObj "c" "x"]⟩]
    [⟨"Available", "True", "Available", 2, ""⟩, ⟨"Paused", "True", "Paused", 2, ""⟩] [⟨"NsThing", "ns1", "c"⟩]
  let r2 := wSet "r2" "uid-4" 2 .paused [⟨"p1", "", [wObj "a" "y"]⟩, ⟨"p2", "", [wObj "c" "x"]⟩]
    [⟨"Available", "True", "Available", 2, ""⟩, ⟨"Paused", "True", "Paused", 2, ""⟩] [⟨"NsThing", "ns1", "a"⟩]
  { w := { store := { objs := fun k => if k = kA then some (wStored 2 "r2" "uid-4") else if k = kC then some (wStored 3 "r1" "uid-1")
                                       else none,
                      nextUID := 6, nextRV := 20 },
           writes := 0, env := [], events := [] },
    sets := fun n => if n = "r1" then some { r1 with pbp := true } else if n = "r2" then some { r2 with pbp := true } else none,
    setEvents := [], freed := [], setWrites := 0, setEnv := [],
    od := { paused := false, template := r2.phases } }

/-- **available_while_paused_counterexample** (finding C08-c): the resume pass re-activates both
revisions and archives r1 in the same pass — on r2's `Available=True`, reported while paused — although
r2 does not control the object `c` it contains and r1 does: r1's teardown deletes it. -/
theorem available_while_paused_counterexample :
    (odPass ["r1", "r2"] resumedState).2.1 = [.activate 0, .activate 1, .archive 0] ∧
    (∃ r1 r2, resumedState.sets "r1" = some r1 ∧ resumedState.sets "r2" = some r2 ∧
      ControlsInStore resumedState r1 kC = true ∧ ControlsInStore resumedState r2 kC = false ∧
      r2.phases.any (fun ph => ph.objs.any fun p => keyOf { st := .native, flavour := ⟨true, true, true⟩, scope := fun _ => .namespaced, force := false } r2.owner p == kC) = true) := by
  refine ⟨by decide +kernel, ?_⟩
  exact ⟨(resumedState.sets "r1").get (by decide +kernel), (resumedState.sets "r2").get (by decide +kernel),
    by simp, by simp, by decide +kernel, by decide +kernel, by decide +kernel⟩

/-- non-vacuity: in a plain handover (r2 Available and in control of everything it contains, r1 paused
and confirmed, controlling nothing) the pass archives r1. -/
example :
    let r1 := wSet "r1" "uid-1" 1 .paused [⟨"p1", "", [wObj "a" "x"]⟩] [⟨"Paused", "True", "Paused", 2, ""⟩] []
    let r2 := wSet "r2" "uid-4" 2 .active [⟨"p1", "", [wObj "a" "y"]⟩] [⟨"Available", "True", "Available", 1, ""⟩] [⟨"NsThing", "ns1", "a"⟩]
    let s : Sys := { truncatedState with sets := fun n => if n = "r1" then some r1 else if n = "r2" then some r2 else none,
                                         od := { paused := false, template := r2.phases } }
    (odPass ["r1", "r2"] s).2.1 = [.archive 0] := by decide +kernel

end Pko.Props.C08Handover
