/-
Property C12 — Dynamic cache: one informer per watched kind, released with its last owner.

Theorems are about `Pko.Model.Cache` (the model of `internal/dynamiccache/cache.go`, tied to the
Go code by the correspondence harness `harness/C12`) and hold for EVERY operation sequence,
every owner/kind and every placement of start-up failures.

Second part ("Composed system"): the same for `Pko.Model.InformerMap`, the model of the real
`Cache` running over the real `InformerMap` (internal/dynamiccache/informer_map.go), where every
informer that was ever started is remembered with its stop flag.

Third part ("Lock scope"): the structural fact, regenerated from cache.go on every run, that
makes "one exported call = one atomic model step" true.
-/
import Pko.Model.Cache
import Pko.Model.CacheSpec
import Pko.Model.InformerMap
import Pko.Lemmas.C12IM
import Pko.Gen.CacheLocks

namespace Pko.Props.C12
open Pko.Model Pko.Model.Cache
open Pko.Model.CacheSpec (Spec Obs)

/-- Abstraction map: forget the informer bookkeeping. -/
def abs (s : State) : Spec := { w := fun k => owners s k }

/-- Concrete observation of a kind. -/
def obsOf (s : State) (k : Kind) : Obs :=
  { informer := (s.infs k).isSome, handlers := s.infs k == some true, owners := owners s k }

/-- Representation invariant of the cache. -/
def Inv (s : State) : Prop :=
  ∀ k, (s.refs k = none → s.infs k = none) ∧
       (∀ os, s.refs k = some os → os ≠ [] ∧ s.infs k = some true)

theorem inv_init : Inv init := by
  intro k; simp [init]

theorem insertOwner_ne_nil (o : Owner) (os : List Owner) : insertOwner o os ≠ [] := by
  unfold insertOwner; split
  · rename_i h; intro h'; simp [h'] at h
  · simp

theorem step_inv (s : State) (op : Op) (h : Inv s) : Inv (step s op).1 := by
  cases op with
  | watch o k f =>
    simp only [step, watch]
    cases hr : s.refs k with
    | some os =>
      intro k'
      by_cases hk : k' = k
      · subst hk; simp [setRefs, insertOwner_ne_nil, (h k').2 os hr]
      · simp [setRefs, hk]; exact h k'
    | none =>
      simp only
      have hi := (h k).1 hr
      have hA : Inv (setInf s k none) := by
        intro k'; by_cases hk : k' = k
        · subst hk; simp [setInf, hr]
        · simp [setInf, hk]; exact h k'
      have hB : Inv (setRefs (setInf s k (some true)) k (some [o])) := by
        intro k'; by_cases hk : k' = k
        · subst hk; simp [setInf, setRefs]
        · simp [setInf, setRefs, hk]; exact h k'
      rw [hi]
      cases f <;> simp <;> first | exact hA | exact hB
  | free o =>
    simp only [step, free]
    intro k
    cases hr : s.refs k with
    | none => simp [hr]; exact (h k).1 hr
    | some os =>
      have := (h k).2 os hr
      by_cases ho : o ∈ os
      · cases hf : rest o os with
        | nil => simp [hr, ho, hf]
        | cons a t => simp [hr, ho, hf, this.2]
      · simp [hr, ho, this.1, this.2]
  | get k f =>
    simp only [step, Cache.get]
    cases hr : s.refs k with
    | none => simpa using h
    | some os =>
      have := (h k).2 os hr
      simp [this.2]; exact h
  | owners k => simpa [step] using h

/-- Every state reachable from the empty cache satisfies the invariant. -/
theorem reachable_inv (ops : List Op) : Inv (run init ops) := by
  suffices ∀ s, Inv s → Inv (run s ops) from this _ inv_init
  induction ops with
  | nil => intro s h; simpa [run]
  | cons op ops ih => intro s h; simpa [run] using ih _ (step_inv s op h)

/-- **informer_iff_referenced**: in every reachable state, an informer for `k` exists
iff at least one owner watches `k` — including histories with failed informer starts. -/
theorem informer_iff_referenced (ops : List Op) (k : Kind) :
    ((run init ops).infs k).isSome ↔ ∃ o, o ∈ owners (run init ops) k := by
  have h := reachable_inv ops k
  cases hr : (run init ops).refs k with
  | none => simp [owners, hr, h.1 hr]
  | some os =>
    have := h.2 os hr
    simp [owners, hr, this.2]
    cases os with
    | nil => exact absurd rfl this.1
    | cons a _ => exact ⟨a, by simp⟩

/-- **every_informer_has_handlers**: no reachable state holds an informer without the
controller event handlers (in particular not after an earlier failed start). -/
theorem every_informer_has_handlers (ops : List Op) (k : Kind) (b : Bool)
    (h : (run init ops).infs k = some b) : b = true := by
  have hi := reachable_inv ops k
  cases hr : (run init ops).refs k with
  | none => rw [hi.1 hr] at h; cases h
  | some os => rw [(hi.2 os hr).2] at h; cases h; rfl

/-- **read_unwatched_fails**: reading a kind nobody watches fails and starts nothing. -/
theorem read_unwatched_fails (ops : List Op) (k : Kind) (f : Fail)
    (h : owners (run init ops) k = []) :
    Cache.get (run init ops) k f = (run init ops, .notStarted) := by
  have hi := reachable_inv ops k
  cases hr : (run init ops).refs k with
  | none => simp [Cache.get, hr]
  | some os => exact absurd (by simpa [owners, hr] using h) (hi.2 os hr).1

/-- Reads never change the state of a reachable cache (no lazily created informer). -/
theorem read_no_effect (ops : List Op) (k : Kind) (f : Fail) :
    (Cache.get (run init ops) k f).1 = run init ops := by
  have hi := reachable_inv ops k
  cases hr : (run init ops).refs k with
  | none => simp [Cache.get, hr]
  | some os => simp [Cache.get, hr, (hi.2 os hr).2]

/-- One concrete step refines the abstract step: same result, and abstraction commutes. -/
theorem step_refines (s : State) (op : Op) (h : Inv s) :
    (step s op).2 = (CacheSpec.step (abs s) op).2 ∧
    abs (step s op).1 = (CacheSpec.step (abs s) op).1 := by
  cases op with
  | watch o k f =>
    cases hr : s.refs k with
    | some os =>
      have hne := (h k).2 os hr
      have : (owners s k).isEmpty = false := by
        simp [owners, hr]; exact hne.1
      simp only [step, watch, hr, CacheSpec.step, abs, this]
      refine ⟨by simp, ?_⟩
      simp only [Bool.false_eq_true, ↓reduceIte]
      congr 1; funext k'
      by_cases hk : k' = k
      · subst hk; simp [owners, setRefs, hr]
      · simp [owners, setRefs, hk]
    | none =>
      have hi := (h k).1 hr
      have : (owners s k).isEmpty = true := by simp [owners, hr]
      simp only [step, watch, hr, hi, CacheSpec.step, abs, this]
      cases f <;> simp [setInf, setRefs, owners] <;>
        (congr 1; funext k'; by_cases hk : k' = k <;> simp [hk, hr])
  | free o =>
    simp only [step, free, CacheSpec.step, abs, true_and]
    congr 1; funext k
    cases hr : s.refs k with
    | none => simp [owners, hr]
    | some os =>
      by_cases ho : o ∈ os
      · cases hf : rest o os with
        | nil => simp only [owners, hr, ho, hf]; simp [rest] at hf ⊢; exact hf
        | cons a t => simp only [owners, hr, ho, hf]; simp [← hf, rest]
      · simp only [owners, hr, ho]; simp
        symm; rw [List.filter_eq_self]; intro a ha; simp; intro hao; exact ho (hao ▸ ha)
  | get k f =>
    cases hr : s.refs k with
    | none => simp [step, Cache.get, hr, CacheSpec.step, abs, owners]
    | some os =>
      have hne := (h k).2 os hr
      have : (owners s k).isEmpty = false := by simp [owners, hr]; exact hne.1
      simp [step, Cache.get, hr, hne.2, CacheSpec.step, abs, this]
  | owners k => simp [step, CacheSpec.step]

/-- **refinement**: every operation sequence on the cache behaves like the abstract
"who watches what" specification — same results, same observable owner sets. -/
theorem run_refines (ops : List Op) : abs (run init ops) = CacheSpec.run CacheSpec.init ops := by
  suffices ∀ s, Inv s → abs (run s ops) = CacheSpec.run (abs s) ops by
    have h := this init inv_init
    simpa [abs, owners, init, CacheSpec.init] using h
  induction ops with
  | nil => intro s _; rfl
  | cons op ops ih =>
    intro s h
    have := step_refines s op h
    simp only [run, CacheSpec.run, List.foldl_cons]
    rw [← this.2]
    exact ih _ (step_inv s op h)

/-- The observation of every reachable state is the one the specification prescribes
(informer ⇔ watched, handlers attached, owner set). This is what the monitor checks on
implementation traces. -/
theorem obs_eq_spec (ops : List Op) (k : Kind) :
    obsOf (run init ops) k = CacheSpec.obs (CacheSpec.run CacheSpec.init ops) k := by
  rw [← run_refines]
  have hi := reachable_inv ops k
  cases hr : (run init ops).refs k with
  | none => simp [obsOf, CacheSpec.obs, abs, owners, hr, hi.1 hr]
  | some os =>
    have := hi.2 os hr
    simp [obsOf, CacheSpec.obs, abs, owners, hr, this.2]
    exact this.1

/-- **watch_idempotent**: repeating a successful Watch by the same owner for the same kind
changes nothing (whatever failure would be injected — no informer is started). -/
theorem watch_idempotent (s : State) (o : Owner) (k : Kind) (f : Fail)
    (hok : (watch s o k .ok).2 = .ok) :
    watch (watch s o k .ok).1 o k f = ((watch s o k .ok).1, .ok) := by
  cases hr : s.refs k with
  | some os =>
    simp only [watch, hr, setRefs, ite_true]
    simp only [insertOwner]
    by_cases ho : o ∈ os
    · simp [ho]; congr 1; funext k'; by_cases hk : k' = k <;> simp [hk, hr, ho]
    · simp [ho]; congr 1; funext k'; by_cases hk : k' = k <;> simp [hk]
  | none =>
    simp only [watch, hr] at hok ⊢
    cases hi : s.infs k <;> simp [hi, setRefs, setInf, insertOwner] at hok ⊢ <;>
      (congr 1; funext k'; by_cases hk : k' = k <;> simp [hk])

/-- **free_drops_all_and_only_own**: after `Free o`, for every kind the owner set is the old
one minus `o`; in particular other owners' watches are untouched. -/
theorem free_drops_all_and_only_own (s : State) (o : Owner) (k : Kind) (h : Inv s) :
    owners (free s o) k = (owners s k).filter (· ≠ o) := by
  have := (step_refines s (.free o) h).2
  have h2 := congrArg (fun sp => sp.w k) this
  simpa [abs, step, CacheSpec.step] using h2

/-- After `Free o` an informer survives exactly for the kinds somebody else still watches. -/
theorem free_stops_unneeded (ops : List Op) (o : Owner) (k : Kind) :
    ((free (run init ops) o).infs k).isSome ↔ ∃ o', o' ≠ o ∧ o' ∈ owners (run init ops) k := by
  have h := informer_iff_referenced (ops ++ [.free o]) k
  have hr : run init (ops ++ [.free o]) = free (run init ops) o := by simp [run, step]
  rw [hr, free_drops_all_and_only_own _ _ _ (reachable_inv ops)] at h
  rw [h]; constructor
  · rintro ⟨a, ha⟩; simp at ha; exact ⟨a, ha.2, ha.1⟩
  · rintro ⟨a, hne, ha⟩; exact ⟨a, by simp [ha, hne]⟩

/-- Non-vacuity: a concrete history with a failed start followed by a retry reaches a state
with an informer, handlers and the expected owner set. -/
example :
    let s := run init [.watch 0 1 .get, .watch 0 1 .sync, .watch 0 1 .ok, .watch 1 1 .handler, .get 1 .ok, .free 0]
    obsOf s 1 = { informer := true, handlers := true, owners := [1] } ∧ obsOf s 0 = { informer := false, handlers := false, owners := [] } := by
  decide

/-! ## Composed system: real `Cache` over real `InformerMap` (`Pko.Model.InformerMap`) -/

section Composed

/-- Shorthand: the composed state reached by an operation sequence from the empty cache. -/
abbrev reach (ops : List Op) : InformerMap.State := InformerMap.run InformerMap.init ops

/-- The representation invariant of the composed system holds in every reachable state. -/
theorem composed_inv (ops : List Op) : Pko.Lemmas.C12IM.Inv (reach ops) :=
  Pko.Lemmas.C12IM.reachable_inv ops

/-- **started_not_stopped_iff_in_map**: in every reachable state of the composed system the
informers that were started and whose stop channel is still open are exactly the entries of the
informer map (no informer runs outside the map, no map entry is dead). -/
theorem started_not_stopped_iff_in_map (ops : List Op) (id : Nat) (k : Kind) :
    InformerMap.Running (reach ops) id k ↔ (reach ops).im.map k = some id :=
  (composed_inv ops).run id k

/-- **running_iff_owned**: in every reachable state of the composed system, some informer of
kind `k` that was started is still running iff at least one owner watches `k` — the set of
informers started and not stopped equals the set of kinds with an owner. -/
theorem running_iff_owned (ops : List Op) (k : Kind) :
    (∃ id, InformerMap.Running (reach ops) id k) ↔ ∃ o, o ∈ InformerMap.owners (reach ops) k := by
  have h := composed_inv ops
  cases hr : (reach ops).refs k with
  | none =>
    have hm := h.unref k hr
    simp only [InformerMap.owners, hr, Option.getD_none, List.not_mem_nil, exists_false, iff_false]
    rintro ⟨id, hrun⟩
    have := (h.run id k).1 hrun
    rw [hm] at this; cases this
  | some os =>
    obtain ⟨hne, id, hid, _⟩ := h.ref k os hr
    constructor
    · intro _
      cases os with
      | nil => exact absurd rfl hne
      | cons a _ => exact ⟨a, by simp [InformerMap.owners, hr]⟩
    · intro _; exact ⟨id, (h.run id k).2 hid⟩

/-- **running_unique**: at most one informer per kind runs at any time. -/
theorem running_unique (ops : List Op) (k : Kind) (id id' : Nat)
    (h1 : InformerMap.Running (reach ops) id k) (h2 : InformerMap.Running (reach ops) id' k) : id = id' := by
  have h := composed_inv ops
  have a := (h.run id k).1 h1
  have b := (h.run id' k).1 h2
  rw [a] at b; cases b; rfl

/-- **no_orphan_informer**: no informer that was ever started keeps running for a kind nobody
owns — whatever happened before (failed starts, sync timeouts, frees). -/
theorem no_orphan_informer (ops : List Op) (id : Nat) (k : Kind)
    (hrun : InformerMap.Running (reach ops) id k) : ∃ o, o ∈ InformerMap.owners (reach ops) k :=
  (running_iff_owned ops k).1 ⟨id, hrun⟩

theorem reach_snoc (ops : List Op) (op : Op) :
    reach (ops ++ [op]) = (InformerMap.step (reach ops) op).1 := by
  simp [reach, InformerMap.run]

/-- After a `Watch` that returned an error — informer map failed before creating anything, or the
started informer timed out syncing, or handler registration failed — no informer of that kind is
left running, and nothing else changed hands (the kind is still unowned). -/
theorem no_orphan_after_failed_watch (ops : List Op) (o : Owner) (k : Kind) (f : Fail)
    (herr : (InformerMap.watch (reach ops) o k f).2 = .err) :
    (∀ id, ¬ InformerMap.Running (InformerMap.watch (reach ops) o k f).1 id k) ∧
    InformerMap.owners (InformerMap.watch (reach ops) o k f).1 k = [] := by
  have hs : (InformerMap.watch (reach ops) o k f).1 = reach (ops ++ [.watch o k f]) := by
    rw [reach_snoc]; rfl
  have hown : InformerMap.owners (InformerMap.watch (reach ops) o k f).1 k = [] := by
    have h := composed_inv ops
    cases hr : (reach ops).refs k with
    | some os => simp [InformerMap.watch, hr] at herr
    | none =>
      have hm := h.unref k hr
      rw [Pko.Lemmas.C12IM.watch_unref _ o k f hr hm] at herr ⊢
      cases f <;> simp at herr <;>
        simp [InformerMap.owners, Pko.Lemmas.C12IM.failedStart, hr]
  refine ⟨?_, hown⟩
  intro id hrun
  rw [hs] at hrun hown
  obtain ⟨o', ho'⟩ := no_orphan_informer _ id k hrun
  rw [hown] at ho'; cases ho'

/-- After `Free o` where `o` was the only owner of `k`, no informer of kind `k` runs. -/
theorem no_orphan_after_last_free (ops : List Op) (o : Owner) (k : Kind)
    (honly : ∀ o', o' ∈ InformerMap.owners (reach ops) k → o' = o) :
    ∀ id, ¬ InformerMap.Running (InformerMap.free (reach ops) o) id k := by
  have hs : InformerMap.free (reach ops) o = reach (ops ++ [.free o]) := by rw [reach_snoc]; rfl
  intro id hrun
  rw [hs] at hrun
  obtain ⟨o', ho'⟩ := no_orphan_informer _ id k hrun
  rw [← hs] at ho'
  cases hr : (reach ops).refs k with
  | none => simp [InformerMap.owners, InformerMap.free, hr] at ho'
  | some os =>
    simp only [InformerMap.owners, hr, Option.getD_some] at honly
    by_cases hmem : o ∈ os
    · have hrest : rest o os = [] := by
        simp only [rest, List.filter_eq_nil_iff]
        intro a ha; simp [honly a ha]
      simp [InformerMap.owners, InformerMap.free, hr, hmem, hrest] at ho'
    · simp only [InformerMap.owners, InformerMap.free, hr, hmem, ↓reduceIte, Option.getD_some] at ho'
      exact hmem (honly o' ho' ▸ ho')

/-- **retry_starts_exactly_one**: in every reachable state in which nobody owns `k` — in
particular right after any failed `Watch` — a `Watch` whose start-up succeeds returns ok, starts
exactly one new informer (the next id) for `k`, attaches the handlers to it, touches no other
informer, and afterwards exactly that informer runs for `k`. -/
theorem retry_starts_exactly_one (ops : List Op) (o : Owner) (k : Kind)
    (hun : InformerMap.owners (reach ops) k = []) :
    let s := reach ops
    let r := InformerMap.watch s o k .ok
    r.2 = .ok ∧ r.1.im.next = s.im.next + 1 ∧
    (∀ id, InformerMap.Running r.1 id k ↔ id = s.im.next) ∧
    r.1.handlers s.im.next = true ∧
    (∀ id, id ≠ s.im.next → r.1.im.infs id = s.im.infs id) ∧
    InformerMap.owners r.1 k = [o] := by
  intro s r
  have h := composed_inv ops
  have hr : s.refs k = none := by
    cases hr : s.refs k with
    | none => rfl
    | some os =>
      have := (h.ref k os hr).1
      simp [s, InformerMap.owners] at hun hr
      rw [hr] at hun; simp at hun; exact absurd hun this
  have hm := h.unref k hr
  have hw : r = (Pko.Lemmas.C12IM.okStart s o k, .ok) := Pko.Lemmas.C12IM.watch_unref s o k .ok hr hm
  have hinv : Pko.Lemmas.C12IM.Inv r.1 := by rw [hw]; exact Pko.Lemmas.C12IM.inv_okStart h o k hm
  refine ⟨by rw [hw], by rw [hw]; rfl, ?_, by rw [hw]; simp [Pko.Lemmas.C12IM.okStart],
    ?_, by rw [hw]; simp [InformerMap.owners, Pko.Lemmas.C12IM.okStart]⟩
  · intro id
    rw [hinv.run id k, hw]
    simp [Pko.Lemmas.C12IM.okStart]
    exact eq_comm
  · intro id hne; rw [hw]; simp [Pko.Lemmas.C12IM.okStart, hne]

/-- The failure-then-retry shape spelled out: a failed `Watch` (any failure kind) on an unowned
kind leaves nothing running; the retried `Watch` starts exactly one informer. -/
theorem failed_watch_then_retry (ops : List Op) (o : Owner) (k : Kind) (f : Fail) (hf : f ≠ .ok)
    (hun : InformerMap.owners (reach ops) k = []) :
    let s1 := (InformerMap.watch (reach ops) o k f).1
    (InformerMap.watch (reach ops) o k f).2 = .err ∧
    (∀ id, ¬ InformerMap.Running s1 id k) ∧
    (InformerMap.watch s1 o k .ok).2 = .ok ∧
    (∀ id, InformerMap.Running (InformerMap.watch s1 o k .ok).1 id k ↔ id = s1.im.next) := by
  intro s1
  have h := composed_inv ops
  have hr : (reach ops).refs k = none := by
    cases hr : (reach ops).refs k with
    | none => rfl
    | some os =>
      have := (h.ref k os hr).1
      simp [InformerMap.owners, hr] at hun; exact absurd hun this
  have hm := h.unref k hr
  have herr : (InformerMap.watch (reach ops) o k f).2 = .err := by
    rw [Pko.Lemmas.C12IM.watch_unref _ o k f hr hm]; cases f <;> simp at hf ⊢
  have hs1 : s1 = reach (ops ++ [.watch o k f]) := by rw [reach_snoc]; rfl
  have hno := no_orphan_after_failed_watch ops o k f herr
  have hretry := retry_starts_exactly_one (ops ++ [.watch o k f]) o k (by rw [← hs1]; exact hno.2)
  rw [← hs1] at hretry
  exact ⟨herr, hno.1, hretry.1, hretry.2.2.1⟩

/-- Executable form used by the `informermap` stream: the number of running informers of a kind
is 1 if the kind has an owner and 0 otherwise (so "open watch streams > 0 ⇔ owned" and "≤ 1"). -/
theorem running_count (ops : List Op) (k : Kind) :
    (InformerMap.runningIds (reach ops) k).length =
      if (InformerMap.owners (reach ops) k).isEmpty then 0 else 1 := by
  have h := composed_inv ops
  have key : ∀ id, InformerMap.isRunning (reach ops) k id = true ↔ (reach ops).im.map k = some id := by
    intro id
    rw [← h.run id k]
    cases hx : (reach ops).im.infs id with
    | none => simp [InformerMap.Running, InformerMap.isRunning, hx]
    | some x => simp [InformerMap.Running, InformerMap.isRunning, hx]
  cases hr : (reach ops).refs k with
  | none =>
    have hm := h.unref k hr
    have : InformerMap.runningIds (reach ops) k = [] := by
      apply Pko.Lemmas.C12IM.filter_range_nil
      intro i _
      cases hb : InformerMap.isRunning (reach ops) k i with
      | false => rfl
      | true => have := (key i).1 hb; rw [hm] at this; cases this
    simp [this, InformerMap.owners, hr]
  | some os =>
    obtain ⟨hne, id, hid, _⟩ := h.ref k os hr
    have hlt := h.map_lt hid
    have : InformerMap.runningIds (reach ops) k = [id] := by
      have := Pko.Lemmas.C12IM.filter_range_eq (reach ops).im.next id
        (InformerMap.isRunning (reach ops) k) (fun i _ => by
          rw [key i, hid]; simp; exact eq_comm)
      simpa [InformerMap.runningIds, hlt] using this
    simp [this, InformerMap.owners, hr, hne]

/-- The informer map holds an entry for a kind iff the kind has an owner. -/
theorem map_entry_iff_owned (ops : List Op) (k : Kind) :
    ((reach ops).im.map k).isSome = !(InformerMap.owners (reach ops) k).isEmpty := by
  have h := composed_inv ops
  cases hr : (reach ops).refs k with
  | none => simp [h.unref k hr, InformerMap.owners, hr]
  | some os =>
    obtain ⟨hne, id, hid, _⟩ := h.ref k os hr
    simp [hid, InformerMap.owners, hr, hne]

/-- Every informer that runs has synced and carries the controller handlers (composed system). -/
theorem running_has_handlers_and_synced (ops : List Op) (id : Nat) (k : Kind)
    (hrun : InformerMap.Running (reach ops) id k) :
    (reach ops).handlers id = true ∧ (reach ops).im.isSynced id = true := by
  have h := composed_inv ops
  have hid := (h.run id k).1 hrun
  obtain ⟨x, hx, _, hs⟩ := hrun
  refine ⟨?_, by simp [InformerMap.IM.isSynced, hx, h.synced id x hx hs]⟩
  cases hr : (reach ops).refs k with
  | none => rw [h.unref k hr] at hid; cases hid
  | some os =>
    obtain ⟨_, id', hid', hh⟩ := h.ref k os hr
    rw [hid] at hid'; cases hid'; exact hh

/-- **read_path_never_creates**: in every reachable state of the composed system a `Get`/`List`
changes nothing at all — no informer is created or started through the read path, whatever the
failure script. -/
theorem read_path_never_creates (ops : List Op) (k : Kind) (f : Fail) :
    (InformerMap.get (reach ops) k f).1 = reach ops := by
  have h := composed_inv ops
  cases hr : (reach ops).refs k with
  | none => simp [InformerMap.get, hr]
  | some os => rw [Pko.Lemmas.C12IM.get_ref h k f os hr]

/-- **composed_refines_cache**: forgetting informer identities, the composed system IS the abstract
cache model of the first part, for every operation sequence; hence all theorems above about
`Pko.Model.Cache` (refinement to the who-watches-what spec, idempotence, …) transfer. -/
theorem composed_refines_cache (ops : List Op) :
    Pko.Lemmas.C12IM.absC (reach ops) = run init ops := by
  have := Pko.Lemmas.C12IM.run_sim ops InformerMap.init Pko.Lemmas.C12IM.inv_init
  rw [Pko.Lemmas.C12IM.absC_init] at this
  exact this

/-- … and every call returns the same result in both models. -/
theorem composed_same_results (ops : List Op) (op : Op) :
    (InformerMap.step (reach ops) op).2 = (step (run init ops) op).2 := by
  have := Pko.Lemmas.C12IM.step_sim (reach ops) op (composed_inv ops)
  rw [composed_refines_cache] at this
  rw [this]

/-- The owner sets of the composed system follow the who-watches-what specification. -/
theorem composed_owners_eq_spec (ops : List Op) (k : Kind) :
    InformerMap.owners (reach ops) k = (CacheSpec.run CacheSpec.init ops).w k := by
  have h1 := composed_refines_cache ops
  have h2 := run_refines ops
  have : InformerMap.owners (reach ops) k = owners (run init ops) k := by
    rw [← h1]; rfl
  rw [this, ← h2]; rfl

/-- What the `informermap` monitor checks, proved of the model: results and owner sets follow the
specification, the number of running informers (= open WATCH streams) of a kind is 1 if the kind
is owned and 0 otherwise, and the informer map has an entry exactly for the owned kinds. -/
theorem informermap_model_satisfies_monitor (ops : List Op) (op : Op) (k : Kind) :
    (InformerMap.step (reach ops) op).2 = (CacheSpec.step (CacheSpec.run CacheSpec.init ops) op).2 ∧
    InformerMap.owners (reach ops) k = (CacheSpec.run CacheSpec.init ops).w k ∧
    (InformerMap.runningIds (reach ops) k).length
      = (if ((CacheSpec.run CacheSpec.init ops).w k).isEmpty then 0 else 1) ∧
    ((reach ops).im.map k).isSome = !((CacheSpec.run CacheSpec.init ops).w k).isEmpty := by
  refine ⟨?_, composed_owners_eq_spec ops k, ?_, ?_⟩
  · rw [composed_same_results, (step_refines _ op (Pko.Props.C12.reachable_inv ops)).1, run_refines]
  · rw [running_count, composed_owners_eq_spec]
  · rw [map_entry_iff_owned, composed_owners_eq_spec]

/-- Non-vacuity (composed): no REST mapping, then sync timeout, then success; a second owner;
free both.  Informer 0 was started and stopped by the roll-back, informer 1 ran while owned. -/
example :
    let s := reach [.watch 0 1 .get, .watch 0 1 .sync, .watch 0 1 .ok, .watch 1 1 .ok, .get 1 .ok, .free 0]
    InformerMap.runningIds s 1 = [1] ∧ InformerMap.startedCount s 1 = 2 ∧ InformerMap.syncedCount s 1 = 1 ∧
    InformerMap.owners s 1 = [1] ∧
    InformerMap.runningIds (InformerMap.free s 1) 1 = [] ∧ InformerMap.runningIds s 0 = [] := by
  decide

end Composed

/-! ## Lock scope (structural fact regenerated from cache.go by /verif/extract/c12) -/

/-- What the atomic-step modelling needs: `Watch`/`Free` take the write lock, `Get`/`List`/
`OwnersForGKV` the read lock, as a top-level statement directly followed by the matching
`defer …Unlock()`, and neither `c.informerMap` nor `c.informerReferences` is used (directly or
through another `Cache` method) before the lock, after an explicit unlock, or in a `go` statement. -/
def expectedLocks : List (String × String × Bool × Bool) := [
  ("Watch", "Lock", true, false),
  ("Free", "Lock", true, false),
  ("Get", "RLock", true, false),
  ("List", "RLock", true, false),
  ("OwnersForGKV", "RLock", true, false)]

/-- **locks_cover_bodies**: every exported `Cache` method holds `informerReferencesMux` (write lock
for the mutators, read lock for the readers) from before its first use of shared state to its
return.  Breaks when a critical section is narrowed or a lock kind is weakened. -/
theorem locks_cover_bodies : Pko.Gen.CacheLocks.cacheLocks = expectedLocks := by decide

/-- The calls on the receiver that happen under the lock, per method: in particular every
`informerMap.Get` / `informerMap.Delete` / `handleNewInformer` call is inside a critical section. -/
def expectedUnderLock : List (String × List String) := [
  ("Watch", ["sampleMetrics", "ownerRef", "informerMap.Get", "informerMap.Delete", "cacheSource.handleNewInformer"]),
  ("Free", ["sampleMetrics", "ownerRef", "informerMap.Delete"]),
  ("Get", ["informerMap.Get"]),
  ("List", ["list"]),
  ("OwnersForGKV", [])]

theorem under_lock_calls : Pko.Gen.CacheLocks.cacheUnderLock = expectedUnderLock := by decide

end Pko.Props.C12
