/-
Property C12 — Dynamic cache: one informer per watched kind, released with its last owner.

Theorems are about `Pko.Model.Cache` (the model of `internal/dynamiccache/cache.go`, tied to the
Go code by the correspondence harness `harness/C12`) and hold for EVERY operation sequence,
every owner/kind and every placement of start-up failures.
-/
import Pko.Model.Cache
import Pko.Model.CacheSpec

namespace Pko.Props.C12
open Pko.Model Pko.Model.Cache
open Pko.Model.CacheSpec (Spec Obs)

/-- Abstraction map: forget the informer bookkeeping. -/
def abs (s : State) : Spec := { w := fun k => owners s k }

/-- Concrete observation of a kind. -/
def obsOf (s : State) (k : Kind) : Obs :=
  { informer := (s.infs k).isSome, handlers := s.infs k == some true, owners := owners s k }

/-- Representation invariant of the cache. -/
def Inv (s : State) : Prop :=
  ∀ k, (s.refs k = none → s.infs k = none) ∧
       (∀ os, s.refs k = some os → os ≠ [] ∧ s.infs k = some true)

theorem inv_init : Inv init := by
  intro k; simp [init]

theorem insertOwner_ne_nil (o : Owner) (os : List Owner) : insertOwner o os ≠ [] := by
  unfold insertOwner; split
  · rename_i h; intro h'; simp [h'] at h
  · simp

theorem step_inv (s : State) (op : Op) (h : Inv s) : Inv (step s op).1 := by
  cases op with
  | watch o k f =>
    simp only [step, watch]
    cases hr : s.refs k with
    | some os =>
      intro k'
      by_cases hk : k' = k
      · subst hk; simp [setRefs, insertOwner_ne_nil, (h k').2 os hr]
      · simp [setRefs, hk]; exact h k'
    | none =>
      simp only
      have hi := (h k).1 hr
      have hA : Inv (setInf s k none) := by
        intro k'; by_cases hk : k' = k
        · subst hk; simp [setInf, hr]
        · simp [setInf, hk]; exact h k'
      have hB : Inv (setRefs (setInf s k (some true)) k (some [o])) := by
        intro k'; by_cases hk : k' = k
        · subst hk; simp [setInf, setRefs]
        · simp [setInf, setRefs, hk]; exact h k'
      rw [hi]
      cases f <;> simp <;> first | exact hA | exact hB
  | free o =>
    simp only [step, free]
    intro k
    cases hr : s.refs k with
    | none => simp [hr]; exact (h k).1 hr
    | some os =>
      have := (h k).2 os hr
      by_cases ho : o ∈ os
      · cases hf : rest o os with
        | nil => simp [hr, ho, hf]
        | cons a t => simp [hr, ho, hf, this.2]
      · simp [hr, ho, this.1, this.2]
  | get k f =>
    simp only [step, Cache.get]
    cases hr : s.refs k with
    | none => simpa using h
    | some os =>
      have := (h k).2 os hr
      simp [this.2]; exact h
  | owners k => simpa [step] using h

/-- Every state reachable from the empty cache satisfies the invariant. -/
theorem reachable_inv (ops : List Op) : Inv (run init ops) := by
  suffices ∀ s, Inv s → Inv (run s ops) from this _ inv_init
  induction ops with
  | nil => intro s h; simpa [run]
  | cons op ops ih => intro s h; simpa [run] using ih _ (step_inv s op h)

/-- **informer_iff_referenced**: in every reachable state, an informer for `k` exists
iff at least one owner watches `k` — including histories with failed informer starts. -/
theorem informer_iff_referenced (ops : List Op) (k : Kind) :
    ((run init ops).infs k).isSome ↔ ∃ o, o ∈ owners (run init ops) k := by
  have h := reachable_inv ops k
  cases hr : (run init ops).refs k with
  | none => simp [owners, hr, h.1 hr]
  | some os =>
    have := h.2 os hr
    simp [owners, hr, this.2]
    cases os with
    | nil => exact absurd rfl this.1
    | cons a _ => exact ⟨a, by simp⟩

/-- **every_informer_has_handlers**: no reachable state holds an informer without the
controller event handlers (in particular not after an earlier failed start). -/
theorem every_informer_has_handlers (ops : List Op) (k : Kind) (b : Bool)
    (h : (run init ops).infs k = some b) : b = true := by
  have hi := reachable_inv ops k
  cases hr : (run init ops).refs k with
  | none => rw [hi.1 hr] at h; cases h
  | some os => rw [(hi.2 os hr).2] at h; cases h; rfl

/-- **read_unwatched_fails**: reading a kind nobody watches fails and starts nothing. -/
theorem read_unwatched_fails (ops : List Op) (k : Kind) (f : Fail)
    (h : owners (run init ops) k = []) :
    Cache.get (run init ops) k f = (run init ops, .notStarted) := by
  have hi := reachable_inv ops k
  cases hr : (run init ops).refs k with
  | none => simp [Cache.get, hr]
  | some os => exact absurd (by simpa [owners, hr] using h) (hi.2 os hr).1

/-- Reads never change the state of a reachable cache (no lazily created informer). -/
theorem read_no_effect (ops : List Op) (k : Kind) (f : Fail) :
    (Cache.get (run init ops) k f).1 = run init ops := by
  have hi := reachable_inv ops k
  cases hr : (run init ops).refs k with
  | none => simp [Cache.get, hr]
  | some os => simp [Cache.get, hr, (hi.2 os hr).2]

/-- One concrete step refines the abstract step: same result, and abstraction commutes. -/
theorem step_refines (s : State) (op : Op) (h : Inv s) :
    (step s op).2 = (CacheSpec.step (abs s) op).2 ∧
    abs (step s op).1 = (CacheSpec.step (abs s) op).1 := by
  cases op with
  | watch o k f =>
    cases hr : s.refs k with
    | some os =>
      have hne := (h k).2 os hr
      have : (owners s k).isEmpty = false := by
        simp [owners, hr]; exact hne.1
      simp only [step, watch, hr, CacheSpec.step, abs, this]
      refine ⟨by simp, ?_⟩
      simp only [Bool.false_eq_true, ↓reduceIte]
      congr 1; funext k'
      by_cases hk : k' = k
      · subst hk; simp [owners, setRefs, hr]
      · simp [owners, setRefs, hk]
    | none =>
      have hi := (h k).1 hr
      have : (owners s k).isEmpty = true := by simp [owners, hr]
      simp only [step, watch, hr, hi, CacheSpec.step, abs, this]
      cases f <;> simp [setInf, setRefs, owners] <;>
        (congr 1; funext k'; by_cases hk : k' = k <;> simp [hk, hr])
  | free o =>
    simp only [step, free, CacheSpec.step, abs, true_and]
    congr 1; funext k
    cases hr : s.refs k with
    | none => simp [owners, hr]
    | some os =>
      by_cases ho : o ∈ os
      · cases hf : rest o os with
        | nil => simp only [owners, hr, ho, hf]; simp [rest] at hf ⊢; exact hf
        | cons a t => simp only [owners, hr, ho, hf]; simp [← hf, rest]
      · simp only [owners, hr, ho]; simp
        symm; rw [List.filter_eq_self]; intro a ha; simp; intro hao; exact ho (hao ▸ ha)
  | get k f =>
    cases hr : s.refs k with
    | none => simp [step, Cache.get, hr, CacheSpec.step, abs, owners]
    | some os =>
      have hne := (h k).2 os hr
      have : (owners s k).isEmpty = false := by simp [owners, hr]; exact hne.1
      simp [step, Cache.get, hr, hne.2, CacheSpec.step, abs, this]
  | owners k => simp [step, CacheSpec.step]

/-- **refinement**: every operation sequence on the cache behaves like the abstract
"who watches what" specification — same results, same observable owner sets. -/
theorem run_refines (ops : List Op) : abs (run init ops) = CacheSpec.run CacheSpec.init ops := by
  suffices ∀ s, Inv s → abs (run s ops) = CacheSpec.run (abs s) ops by
    have h := this init inv_init
    simpa [abs, owners, init, CacheSpec.init] using h
  induction ops with
  | nil => intro s _; rfl
  | cons op ops ih =>
    intro s h
    have := step_refines s op h
    simp only [run, CacheSpec.run, List.foldl_cons]
    rw [← this.2]
    exact ih _ (step_inv s op h)

/-- The observation of every reachable state is the one the specification prescribes
(informer ⇔ watched, handlers attached, owner set). This is what the monitor checks on
implementation traces. -/
theorem obs_eq_spec (ops : List Op) (k : Kind) :
    obsOf (run init ops) k = CacheSpec.obs (CacheSpec.run CacheSpec.init ops) k := by
  rw [← run_refines]
  have hi := reachable_inv ops k
  cases hr : (run init ops).refs k with
  | none => simp [obsOf, CacheSpec.obs, abs, owners, hr, hi.1 hr]
  | some os =>
    have := hi.2 os hr
    simp [obsOf, CacheSpec.obs, abs, owners, hr, this.2]
    exact this.1

/-- **watch_idempotent**: repeating a successful Watch by the same owner for the same kind
changes nothing (whatever failure would be injected — no informer is started). -/
theorem watch_idempotent (s : State) (o : Owner) (k : Kind) (f : Fail)
    (hok : (watch s o k .ok).2 = .ok) :
    watch (watch s o k .ok).1 o k f = ((watch s o k .ok).1, .ok) := by
  cases hr : s.refs k with
  | some os =>
    simp only [watch, hr, setRefs, ite_true]
    simp only [insertOwner]
    by_cases ho : o ∈ os
    · simp [ho]; congr 1; funext k'; by_cases hk : k' = k <;> simp [hk, hr, ho]
    · simp [ho]; congr 1; funext k'; by_cases hk : k' = k <;> simp [hk]
  | none =>
    simp only [watch, hr] at hok ⊢
    cases hi : s.infs k <;> simp [hi, setRefs, setInf, insertOwner] at hok ⊢ <;>
      (congr 1; funext k'; by_cases hk : k' = k <;> simp [hk])

/-- **free_drops_all_and_only_own**: after `Free o`, for every kind the owner set is the old
one minus `o`; in particular other owners' watches are untouched. -/
theorem free_drops_all_and_only_own (s : State) (o : Owner) (k : Kind) (h : Inv s) :
    owners (free s o) k = (owners s k).filter (· ≠ o) := by
  have := (step_refines s (.free o) h).2
  have h2 := congrArg (fun sp => sp.w k) this
  simpa [abs, step, CacheSpec.step] using h2

/-- After `Free o` an informer survives exactly for the kinds somebody else still watches. -/
theorem free_stops_unneeded (ops : List Op) (o : Owner) (k : Kind) :
    ((free (run init ops) o).infs k).isSome ↔ ∃ o', o' ≠ o ∧ o' ∈ owners (run init ops) k := by
  have h := informer_iff_referenced (ops ++ [.free o]) k
  have hr : run init (ops ++ [.free o]) = free (run init ops) o := by simp [run, step]
  rw [hr, free_drops_all_and_only_own _ _ _ (reachable_inv ops)] at h
  rw [h]; constructor
  · rintro ⟨a, ha⟩; simp at ha; exact ⟨a, ha.2, ha.1⟩
  · rintro ⟨a, hne, ha⟩; exact ⟨a, by simp [ha, hne]⟩

/-- Non-vacuity: a concrete history with a failed start followed by a retry reaches a state
with an informer, handlers and the expected owner set. -/
example :
    let s := run init [.watch 0 1 .get, .watch 0 1 .sync, .watch 0 1 .ok, .watch 1 1 .handler, .get 1 .ok, .free 0]
    obsOf s 1 = { informer := true, handlers := true, owners := [1] } ∧ obsOf s 0 = { informer := false, handlers := false, owners := [] } := by
  decide

end Pko.Props.C12
