/-
Property C03 — Phases roll out in order, each gated on the probes of the previous.

Theorems about `Pko.Model.ObjectSet.reconcilePhases` (model of
objectSetPhasesReconciler.reconcile) built on the phase model; they hold for every ObjectSet,
every store, every third-party schedule and every behaviour of delegated phases (`remote` is a
parameter; what a delegated phase reports is characterised in C15).
-/
import Pko.Lemmas.ObjectSet
import Pko.Lemmas.Watch

namespace Pko.Props.C03
open Pko.Kube Pko.Model.Phase Pko.Model.ObjectSet Pko.Model.Status

abbrev RemoteRec := PhaseSpec → World → World × Except PassErr (List CRef × Bool)

/-- A phase was clean in the pass: every object was returned by its reconcile step and passed the
probe (local phase), or the delegated phase reported Available for its current generation. -/
def Clean (cfg : Cfg) (ow : Owner) (prev : List Prev) (remote : RemoteRec) (ph : PhaseSpec) (w : World) : Prop :=
  if ph.cls ≠ "" then ∃ cr, (remote ph w).2 = .ok (cr, true)
  else (reconcilePhase cfg ow prev "" ph.objs w).2 = .ok []

/-- The phases the pass visits, each with the world it started in. -/
def visitsPh (cfg : Cfg) (ow : Owner) (prev : List Prev) (remote : RemoteRec) :
    List PhaseSpec → World → List (PhaseSpec × World)
  | [], _ => []
  | ph :: rest, w =>
    (ph, w) ::
      (if ph.cls ≠ "" then
        match remote ph w with
        | (w', .ok (_, true)) => visitsPh cfg ow prev remote rest w'
        | _ => []
      else
        match reconcilePhaseObjs cfg ow prev ph.objs w with
        | (w', .ok failed, _) => if failed.isEmpty then visitsPh cfg ow prev remote rest w' else []
        | _ => [])

/-- **rollout_gated (order)**: every visited phase except possibly the last one was clean.
Hence a phase is only started after all earlier phases were found complete and passing
IN THE SAME PASS. -/
theorem visited_prefix_clean (cfg : Cfg) (ow : Owner) (prev : List Prev) (remote : RemoteRec) :
    ∀ (phases : List PhaseSpec) (w : World) (l1 : List (PhaseSpec × World)) (x : PhaseSpec × World)
      (l2 : List (PhaseSpec × World)),
      visitsPh cfg ow prev remote phases w = l1 ++ x :: l2 → l2 ≠ [] →
      Clean cfg ow prev remote x.1 x.2 := by
  intro phases
  induction phases with
  | nil => intro w l1 x l2 h; simp [visitsPh] at h
  | cons ph rest ih =>
    intro w l1 x l2 h hne
    simp only [visitsPh] at h
    cases l1 with
    | nil =>
      -- x is the head: the tail of the visit list is non-empty, so the head phase continued
      obtain ⟨hx, htail⟩ := List.cons.inj h
      subst hx
      simp only [Clean]
      by_cases hc : ph.cls ≠ ""
      · simp only [if_pos hc] at htail ⊢
        cases hr : remote ph w with
        | mk w' r =>
          rw [hr] at htail
          cases r with
          | error e => simp at htail; first | exact absurd htail hne | exact absurd htail.symm hne
          | ok v =>
            obtain ⟨cr, b⟩ := v
            cases b with
            | true => exact ⟨cr, rfl⟩
            | false => simp at htail; first | exact absurd htail hne | exact absurd htail.symm hne
      · simp only [if_neg hc] at htail ⊢
        have heq := Pko.Lemmas.ObjectSet.reconcilePhaseObjs_eq cfg ow prev ph.objs w
        cases hr : reconcilePhaseObjs cfg ow prev ph.objs w with
        | mk w' r =>
          obtain ⟨oc, objs⟩ := r
          rw [hr] at htail heq
          simp only at heq
          cases oc with
          | ok failed =>
            simp only at htail
            by_cases hf : failed.isEmpty
            · have : failed = [] := by simpa using hf
              rw [← heq.2, this]
            · simp [hf] at htail; first | exact absurd htail hne | exact absurd htail.symm hne
          | preflight => simp at htail; first | exact absurd htail hne | exact absurd htail.symm hne
          | collision r => simp at htail; first | exact absurd htail hne | exact absurd htail.symm hne
          | err => simp at htail; first | exact absurd htail hne | exact absurd htail.symm hne
    | cons y l1' =>
      obtain ⟨_, htail⟩ := List.cons.inj h
      by_cases hc : ph.cls ≠ ""
      · simp only [if_pos hc] at htail
        cases hr : remote ph w with
        | mk w' r =>
          rw [hr] at htail
          cases r with
          | error e => simp at htail
          | ok v =>
            obtain ⟨cr, b⟩ := v
            cases b with
            | true => exact ih w' l1' x l2 htail hne
            | false => simp at htail
      · simp only [if_neg hc] at htail
        cases hr : reconcilePhaseObjs cfg ow prev ph.objs w with
        | mk w' r =>
          obtain ⟨oc, objs⟩ := r
          rw [hr] at htail
          cases oc with
          | ok failed =>
            simp only at htail
            by_cases hf : failed.isEmpty
            · simp only [hf, ↓reduceIte] at htail; exact ih w' l1' x l2 htail hne
            · simp [hf] at htail
          | preflight => simp at htail
          | collision r => simp at htail
          | err => simp at htail

/-- What "clean" means for a local phase: ALL its objects were processed, each one was returned
by its reconcile step (present, not missing) and passed the probe on the object as returned by
the write. -/
theorem clean_local_means (cfg : Cfg) (ow : Owner) (prev : List Prev) :
    ∀ (ps : List PObj) (w : World) (failed : List String),
      (reconcilePhase.go cfg ow prev ps w failed).2 = .ok [] →
      failed = [] ∧ (Pko.Props.C01.visits cfg ow prev ps w).map (·.1) = ps ∧
      ∀ pw ∈ Pko.Props.C01.visits cfg ow prev ps w,
        ∃ o, (reconcilePhaseObject cfg ow prev pw.1 pw.2).2 = .actual o ∧ probeOk o = true := by
  intro ps
  induction ps with
  | nil =>
    intro w failed h
    simp [reconcilePhase.go] at h
    simp [Pko.Props.C01.visits, h]
  | cons p rest ih =>
    intro w failed h
    simp only [reconcilePhase.go] at h
    cases hr : reconcilePhaseObject cfg ow prev p w with
    | mk w' res =>
      rw [hr] at h
      cases res with
      | actual o =>
        simp only at h
        obtain ⟨hf, hmap, hall⟩ := ih w' _ h
        by_cases hp : probeOk o = true
        · simp only [hp, ↓reduceIte] at hf
          refine ⟨hf, by simp [Pko.Props.C01.visits, hr, hmap], ?_⟩
          intro pw hpw
          simp only [Pko.Props.C01.visits, hr, List.mem_cons] at hpw
          rcases hpw with h1 | h1
          · subst h1; exact ⟨o, by simp [hr], hp⟩
          · exact hall pw h1
        · simp [hp] at hf
      | missing =>
        simp only at h
        obtain ⟨hf, _, _⟩ := ih w' _ h
        simp at hf
      | errCollision r => simp at h
      | err => simp at h

/-- events appended by the phase loop come from visited local phases only, and each is an apply
on the key of an object of that phase.  (`hrem`: reconciling a delegated phase writes no
managed object itself.) -/
theorem rollout_events_from_visited (cfg : Cfg) (ow : Owner) (prev : List Prev) (remote : RemoteRec)
    (hrem : ∀ ph w, (remote ph w).1.events = w.events) :
    ∀ (phases : List PhaseSpec) (w : World) (acc : List CRef),
      ∃ evs, (reconcilePhases cfg ow prev remote phases w acc).1.events = w.events ++ evs ∧
        ∀ e ∈ evs, ∃ v ∈ visitsPh cfg ow prev remote phases w, v.1.cls = "" ∧
          ∃ p ∈ v.1.objs, ∃ c ch, e = .apply (keyOf cfg ow p) c ch := by
  intro phases
  induction phases with
  | nil => intro w acc; exact ⟨[], by simp [reconcilePhases], by simp⟩
  | cons ph rest ih =>
    intro w acc
    simp only [reconcilePhases, visitsPh]
    by_cases hc : ph.cls ≠ ""
    · simp only [if_pos hc]
      have hr0 := hrem ph w
      cases hr : remote ph w with
      | mk w' r =>
        rw [hr] at hr0
        simp only at hr0
        cases r with
        | error e => exact ⟨[], by simp [hr0], by simp⟩
        | ok v =>
          obtain ⟨cr, b⟩ := v
          cases b with
          | false => exact ⟨[], by simp [hr0], by simp⟩
          | true =>
            obtain ⟨evs, hev, hj⟩ := ih w' (acc ++ cr)
            refine ⟨evs, by simp [hev, hr0], ?_⟩
            intro e he
            obtain ⟨v, hv, rest'⟩ := hj e he
            exact ⟨v, by simp [hv], rest'⟩
    · have hc' : ph.cls = "" := by simpa using hc
      simp only [if_neg hc]
      have heq := Pko.Lemmas.ObjectSet.reconcilePhaseObjs_eq cfg ow prev ph.objs w
      obtain ⟨ev0, he0, hj0⟩ := Pko.Props.C01.reconcilePhase_writes_justified cfg ow prev "" ph.objs w
      have hmem : ∀ (ps : List PObj) (w : World) (pw : PObj × World),
          pw ∈ Pko.Props.C01.visits cfg ow prev ps w → pw.1 ∈ ps := by
        intro ps
        induction ps with
        | nil => intro w pw h; simp [Pko.Props.C01.visits] at h
        | cons q rest ih2 =>
          intro w pw h
          simp only [Pko.Props.C01.visits, List.mem_cons] at h
          rcases h with h | h
          · simp [h]
          · split at h
            · exact List.mem_cons_of_mem _ (ih2 _ _ h)
            · exact List.mem_cons_of_mem _ (ih2 _ _ h)
            · simp at h
      have hhead : ∀ e ∈ ev0, ∃ p ∈ ph.objs, ∃ c ch, e = .apply (keyOf cfg ow p) c ch := by
        intro e he
        obtain ⟨pw, hpw, c, ch, heq', _⟩ := hj0 e he
        exact ⟨pw.1, hmem _ _ _ hpw, c, ch, heq'⟩
      cases hr : reconcilePhaseObjs cfg ow prev ph.objs w with
      | mk w' r =>
        obtain ⟨oc, objs⟩ := r
        rw [hr] at heq
        simp only at heq
        rw [← heq.1] at he0
        cases oc with
        | ok failed =>
          simp only
          by_cases hf : failed.isEmpty
          · simp only [hf, ↓reduceIte]
            obtain ⟨evs, hev, hj⟩ := ih w' (acc ++ controllerOfOf cfg ow objs)
            refine ⟨ev0 ++ evs, by simp [hev, he0, List.append_assoc], ?_⟩
            intro e he
            rcases List.mem_append.1 he with h | h
            · exact ⟨(ph, w), by simp, hc', hhead e h⟩
            · obtain ⟨v, hv, rest'⟩ := hj e h
              exact ⟨v, by simp [hv], rest'⟩
          · simp only [hf]
            exact ⟨ev0, by simpa using he0, fun e he => ⟨(ph, w), by simp, hc', hhead e he⟩⟩
        | preflight => exact ⟨ev0, by simpa using he0, fun e he => ⟨(ph, w), by simp, hc', hhead e he⟩⟩
        | collision r => exact ⟨ev0, by simpa using he0, fun e he => ⟨(ph, w), by simp, hc', hhead e he⟩⟩
        | err => exact ⟨ev0, by simpa using he0, fun e he => ⟨(ph, w), by simp, hc', hhead e he⟩⟩

/-- **first_failing_phase_named**: when the pass reports a failing phase, it is the LAST visited
phase, that phase was not clean, and (by `visited_prefix_clean`) all phases before it were. -/
theorem first_failing_phase_named (cfg : Cfg) (ow : Owner) (prev : List Prev) (remote : RemoteRec) :
    ∀ (phases : List PhaseSpec) (w : World) (acc : List CRef) (co : List CRef) (n : String),
      (reconcilePhases cfg ow prev remote phases w acc).2 = .ok (co, some n) →
      ∃ l v, visitsPh cfg ow prev remote phases w = l ++ [v] ∧ v.1.name = n ∧
        ¬ Clean cfg ow prev remote v.1 v.2 := by
  intro phases
  induction phases with
  | nil => intro w acc co n h; simp [reconcilePhases] at h
  | cons ph rest ih =>
    intro w acc co n h
    simp only [reconcilePhases] at h
    simp only [visitsPh]
    by_cases hc : ph.cls ≠ ""
    · simp only [if_pos hc] at h ⊢
      cases hr : remote ph w with
      | mk w' r =>
        rw [hr] at h
        cases r with
        | error e => simp at h
        | ok v =>
          obtain ⟨cr, b⟩ := v
          cases b with
          | true =>
            simp only [↓reduceIte] at h
            obtain ⟨l, v, hv, hn, hcl⟩ := ih w' _ co n h
            exact ⟨(ph, w) :: l, v, by simp [hv], hn, hcl⟩
          | false =>
            simp at h
            refine ⟨[], (ph, w), by simp, h.2, ?_⟩
            simp [Clean, hc, hr]
    · simp only [if_neg hc] at h ⊢
      have heq := Pko.Lemmas.ObjectSet.reconcilePhaseObjs_eq cfg ow prev ph.objs w
      cases hr : reconcilePhaseObjs cfg ow prev ph.objs w with
      | mk w' r =>
        obtain ⟨oc, objs⟩ := r
        rw [hr] at h heq
        simp only at heq
        cases oc with
        | ok failed =>
          simp only at h
          by_cases hf : failed.isEmpty
          · simp only [hf, ↓reduceIte] at h ⊢
            obtain ⟨l, v, hv, hn, hcl⟩ := ih w' _ co n h
            exact ⟨(ph, w) :: l, v, by simp [hv], hn, hcl⟩
          · simp [hf] at h
            refine ⟨[], (ph, w), by simp [hf], h.2, ?_⟩
            have hc' : ph.cls = "" := by simpa using hc
            simp only [Clean, hc', ne_eq, not_true_eq_false, ↓reduceIte]
            rw [← heq.2]
            intro hbad
            simp at hbad
            exact hf (by simp [hbad])
        | preflight => simp at h
        | collision r => simp at h
        | err => simp at h

/-- **C03, assembled.** Every write of a rollout pass is an apply on an object of a visited local
phase `v`, and every phase visited before `v` was clean in this very pass. -/
theorem rollout_gated (cfg : Cfg) (ow : Owner) (prev : List Prev) (remote : RemoteRec)
    (hrem : ∀ ph w, (remote ph w).1.events = w.events)
    (phases : List PhaseSpec) (w : World) (acc : List CRef) :
    ∃ evs, (reconcilePhases cfg ow prev remote phases w acc).1.events = w.events ++ evs ∧
      ∀ e ∈ evs, ∃ l1 v l2, visitsPh cfg ow prev remote phases w = l1 ++ v :: l2 ∧
        (∃ p ∈ v.1.objs, ∃ c ch, e = .apply (keyOf cfg ow p) c ch) ∧
        ∀ u ∈ l1, Clean cfg ow prev remote u.1 u.2 := by
  obtain ⟨evs, hev, hj⟩ := rollout_events_from_visited cfg ow prev remote hrem phases w acc
  refine ⟨evs, hev, ?_⟩
  intro e he
  obtain ⟨v, hv, _, hp⟩ := hj e he
  obtain ⟨l1, l2, hsplit⟩ := List.append_of_mem hv
  refine ⟨l1, v, l2, hsplit, hp, ?_⟩
  intro u hu
  obtain ⟨a, b, hab⟩ := List.append_of_mem hu
  have : visitsPh cfg ow prev remote phases w = a ++ u :: (b ++ v :: l2) := by
    rw [hsplit, hab]; simp
  exact visited_prefix_clean cfg ow prev remote phases w a u (b ++ v :: l2) this (by simp)


/-! ### What the probes see, what the condition says (seeds C03-5 / C03-6) -/

/-- a write on key `k'` leaves every other key as it is. -/
theorem commit_get_ne (s : Store) (k' : Key) (prev next : Obj) (k : Key) (h : k ≠ k') :
    (commit s k' prev next).1.get k = s.get k := by
  unfold commit
  simp only
  split
  · simp [Store.get, Store.set, h]
  · split
    · rfl
    · simp [Store.get, Store.set, h]

/-- no third-party operation of the environment model brings an absent object into existence
(`recreate` only replaces an existing object). -/
theorem env_keeps_absent (s : Store) (e : EnvOp) (k : Key) (h : s.get k = none) : (s.env e).get k = none := by
  have key : ∀ (k' : Key) (f : Obj → Obj),
      (match s.get k' with | some c => (commit s k' c (f c)).1 | none => s).get k = none := by
    intro k' f
    by_cases hk : k = k'
    · subst hk; simp [h]
    · cases hg : s.get k' with
      | none => simpa using h
      | some c => simp only; rw [commit_get_ne _ _ _ _ _ hk]; exact h
  cases e with
  | reown k' os => exact key k' (fun c => { c with owners := os })
  | setRev k' r => exact key k' (fun c => { c with rev := r })
  | setPayload k' p => exact key k' (fun c => { c with payload := p })
  | setReady k' r ob => exact key k' (fun c => { c with ready := r, obsGen := ob })
  | removeFinalizer k' => exact key k' (fun c => { c with finalizer := false })
  | relabel k' p => exact key k' (fun c => { c with pkgLabel := p })
  | delete k' =>
    simp only [Store.env]
    by_cases hk : k = k'
    · subst hk; simp [h]
    · cases hg : s.get k' with
      | none => simpa using h
      | some c =>
        simp only
        split
        · split
          · exact h
          · simp [Store.get, Store.set, hk]; exact h
        · simp [Store.get, Store.set, hk]; exact h
  | recreate k' =>
    simp only [Store.env]
    by_cases hk : k = k'
    · subst hk; simp [h]
    · cases hg : s.get k' with
      | none => simpa using h
      | some c => simp [Store.get, Store.set, hk]; exact h

/-- … nor does any sequence of them. -/
theorem envs_keep_absent (es : List (Nat × EnvOp)) (s : Store) (k : Key) (h : s.get k = none) :
    (es.foldl (fun s e => s.env e.2) s).get k = none := by
  induction es generalizing s with
  | nil => exact h
  | cons e rest ih => exact ih _ (env_keeps_absent s e.2 k h)

/-- what a create through the API stores: never Ready, whatever the manifest says. -/
theorem apply_absent_not_ready (s : Store) (k : Key) (a : Applied) (h : s.get k = none) :
    (s.apply k a).2.1.ready = false ∧ (s.apply k a).2.2 = true := by
  simp [Store.apply, h]

/-- **created_object_fails_probe** (what the probes see is the STORED object, never the manifest):
an object that does not exist when the pass reaches it is created, and the object handed to the
probes is the API's answer to that create — it has no status, whatever `.status` stanza the manifest
carries (the scenario's `status` field never reaches the model) — so it fails the probe in the
creating pass, whatever third parties do right before the write. -/
theorem created_object_fails_probe (cfg : Cfg) (ow : Owner) (prev : List Prev) (p : PObj) (w : World)
    (hst : w.started p.kind = true)
    (habs : w.store.get (keyOf cfg ow p) = none) :
    ∃ o, (reconcileObject cfg ow prev p w).2 = .actual o ∧ probeOk o = false := by
  have hseen : seen w (keyOf cfg ow p) = none := by simp [seen, cacheGet, habs]
  rw [reconcileObject_started cfg ow prev p w hst]
  simp only [hseen, reconcileObjectWith, World.apply]
  have hb : w.beforeWrite.store.get (keyOf cfg ow p) = none := by
    simp only [World.beforeWrite, World.tick]
    exact envs_keep_absent _ _ _ habs
  refine ⟨_, rfl, ?_⟩
  simp [probeOk, (apply_absent_not_ready _ _ _ hb).1]

/-- an object absent when the pass reaches it is never "returned by its reconcile step and passing the
probe": created ⇒ fails (above); paused ⇒ recorded as missing; owner in another namespace ⇒ error. -/
theorem absent_object_not_clean (cfg : Cfg) (ow : Owner) (prev : List Prev) (p : PObj) (w : World)
    (habs : w.store.get (keyOf cfg ow p) = none) :
    ¬ ∃ o, (reconcilePhaseObject cfg ow prev p w).2 = .actual o ∧ probeOk o = true := by
  rintro ⟨o, ho, hp⟩
  unfold reconcilePhaseObject at ho
  split at ho
  · simp at ho
  · simp only at ho
    split at ho
    · have : cacheGet w.store (keyOf cfg ow p) = none := by simp [cacheGet, habs]
      simp [pausedLookup, this] at ho
    · obtain ⟨o', ho', hp'⟩ := created_object_fails_probe cfg ow prev p (w.watch ow p.kind)
        (started_watch w ow p.kind) (by simpa using habs)
      rw [ho'] at ho
      injection ho with ho
      subst ho
      simp [hp] at hp'

/-- **clean_phase_objects_were_present**: in a clean local phase every object existed in the store at
the moment the pass reached it — none was created by this pass. Hence a later phase is only written
when every object of every earlier phase was FOUND present (and passed the probes on its stored
status). -/
theorem clean_phase_objects_were_present (cfg : Cfg) (ow : Owner) (prev : List Prev)
    (ps : List PObj) (w : World) (failed : List String)
    (h : (reconcilePhase.go cfg ow prev ps w failed).2 = .ok []) :
    ∀ pw ∈ Pko.Props.C01.visits cfg ow prev ps w, pw.2.store.get (keyOf cfg ow pw.1) ≠ none := by
  intro pw hpw habs
  obtain ⟨_, _, hall⟩ := clean_local_means cfg ow prev ps w failed h
  exact absent_object_not_clean cfg ow prev pw.1 pw.2 habs (hall pw hpw)

/-- `meta.SetStatusCondition` then `meta.FindStatusCondition`: the condition just set. -/
theorem findCond_setCond (cs : List Cond) (c : Cond) : findCond (setCond cs c) c.type = some c := by
  unfold findCond setCond
  split
  · rename_i h
    induction cs with
    | nil => simp at h
    | cons x xs ih =>
      simp only [List.map_cons, List.find?_cons]
      by_cases hx : x.type = c.type
      · simp [hx]
      · have : xs.any (fun y => decide (y.type = c.type)) = true := by simpa [hx] using h
        simp only [hx, ↓reduceIte, decide_false]
        exact ih this
  · rename_i h
    rw [List.find?_append]
    have : cs.find? (fun y => decide (y.type = c.type)) = none := by
      simp only [List.find?_eq_none]
      intro x hx
      simp only [Bool.not_eq_true, List.any_eq_false] at h
      simpa using h x hx
    simp [this]

/-- **probe_failure_names_this_pass**: a pass whose phases end with a failing phase `n` (re)writes the
Available condition — False / ProbeFailure / current generation / naming `n` — whatever the condition
said before the pass: the name in the stored condition is always the first failing phase of THE
pass that wrote it (with `first_failing_phase_named`: the last visited phase, not clean, every
earlier one clean). -/
theorem probe_failure_names_this_pass (mem : OSet) (co : List CRef) (n : String) :
    findCond (deriveStatus mem co (some n)).conds "Available"
      = some ⟨"Available", "False", "ProbeFailure", mem.gen, n⟩ := by
  simp only [deriveStatus, succConds, availConds, Option.isNone_some, Bool.false_and, Bool.false_eq_true, ↓reduceIte]
  exact findCond_setCond _ (availableCond mem.gen false "ProbeFailure" n)

/-- after `meta.SetStatusCondition` every condition of that type is the one just set. -/
theorem setCond_same_type (cs : List Cond) (c : Cond) :
    ∀ x ∈ setCond cs c, x.type = c.type → x = c := by
  intro x hx ht
  unfold setCond at hx
  split at hx
  · simp only [List.mem_map] at hx
    obtain ⟨y, _, hy⟩ := hx
    by_cases h : y.type = c.type
    · simp [h] at hy; exact hy.symm
    · simp [h] at hy; subst hy; exact absurd ht h
  · rename_i h
    simp only [List.mem_append, List.mem_singleton] at hx
    rcases hx with hx | hx
    · simp only [Bool.not_eq_true, List.any_eq_false] at h
      have := h x hx
      simp [ht] at this
    · exact hx

/-- Available=True is derived only from a pass in which no phase failed. -/
theorem available_true_only_without_failing_phase (mem : OSet) (co : List CRef) (f : Option String) :
    condTrue (deriveStatus mem co f).conds "Available" = true → f = none := by
  intro h
  cases f with
  | none => rfl
  | some n =>
    exfalso
    simp only [deriveStatus, succConds, availConds, Option.isNone_some, Bool.false_and, Bool.false_eq_true, ↓reduceIte] at h
    simp only [condTrue, List.any_eq_true] at h
    obtain ⟨x, hx, hxt⟩ := h
    simp only [Bool.and_eq_true, decide_eq_true_eq] at hxt
    have := setCond_same_type _ (availableCond mem.gen false "ProbeFailure" n) x hx (by simp [hxt.1, availableCond])
    rw [this] at hxt
    simp [availableCond] at hxt

/-- Non-vacuity: two phases; the object of the first is not Ready, so only phase 1 is visited,
the second phase's object is not created, and phase 1 is the one named. -/
example :
    let ow : Owner := ⟨pkoGroup, "ObjectSet", "ns1", "own", "u-own", 1, false, ""⟩
    let cfg : Cfg := { st := .native, flavour := ⟨true, true, true⟩, scope := fun _ => .namespaced, force := false }
    let a : PObj := ⟨"NsThing", "", "a", .prevent, "x", false, .accept⟩
    let b : PObj := ⟨"NsThing", "", "b", .prevent, "x", false, .accept⟩
    let w : World := { store := { objs := fun _ => none, nextUID := 1, nextRV := 1 }, writes := 0, env := [], events := [] }
    let none' : RemoteRec := fun _ w => (w, .error .other)
    let r := reconcilePhases cfg ow [] none' [⟨"p1", "", [a]⟩, ⟨"p2", "", [b]⟩] w []
    r.2 = .ok ([⟨"NsThing", "ns1", "a"⟩], some "p1") ∧ r.1.events.length = 1 := by
  exact ⟨rfl, rfl⟩

end Pko.Props.C03
