/-
Property C19, clause "never … recurse without bound": the `include` template function
(`Pko.Model.Include`, model of transform.SprigFuncs' include with its per-name counter).

For EVERY set of templates (any number, any bodies: self-inclusion, mutual inclusion, includes of
unknown names, includes that complete before a recursive one …), every guard limit and every
counter state:
* `run_restores` — an include that returns leaves every counter as it found it (the `++` / `--`
  discipline; this is what the seeded `defer delete(...)` variant breaks);
* `nesting_bounded` — the nesting of includes never exceeds `budget`: from fresh counters at most
  `|templates| * (recursionDepth + 1)` includes are ever active at once, i.e. the evaluator given that
  much nesting budget never runs out of it: execution ends in a result, an
  `ErrExceededIncludeRecursion` or a missing-template error — never in unbounded recursion;
* `render_never_out_of_fuel` — the instance for a whole render.
The tie to the Go code is the `tmpl` function of the C19 `render` stream: random template sets are
written as real `{{ define }}` / `{{ include }}` templates, executed by the real RenderTemplates, and the
outcome (error class / number of emitted marks) is compared with `Include.observe`.
Core Lean only.
-/
import Pko.Model.Include

namespace Pko.Props.C19Include
open Pko.Model.Include

theorem unbump_bump (c : Counts) (n : Nat) : unbump (bump c n) n = c := by
  funext m
  simp only [unbump, bump]
  split <;> simp_all

/-- a result that is not `ok` stops the body. -/
theorem foldl_stuck (p : Prog) (limit : Nat) (inner : Counts → List Instr → Res) (l : List Instr) (r : Res)
    (hr : ∀ c e, r ≠ .ok c e) : l.foldl (step p limit inner) r = r := by
  induction l with
  | nil => rfl
  | cons i rest ih =>
    simp only [List.foldl_cons]
    have : step p limit inner r i = r := by
      cases r with
      | ok c e => exact absurd rfl (hr c e)
      | guard => rfl
      | noTemplate => rfl
      | fuel => rfl
    rw [this]; exact ih

/-- if the included bodies restore the counters, so does a body. -/
theorem foldl_restores (p : Prog) (limit : Nat) (inner : Counts → List Instr → Res)
    (hin : ∀ c b c' e, inner c b = .ok c' e → c' = c) :
    ∀ (l : List Instr) (c : Counts) (e0 : Nat) (c' : Counts) (e : Nat),
      l.foldl (step p limit inner) (.ok c e0) = .ok c' e → c' = c := by
  intro l
  induction l with
  | nil => intro c e0 c' e h; simp only [List.foldl_nil] at h; injection h with h1 _; exact h1.symm
  | cons i rest ih =>
    intro c e0 c' e h
    simp only [List.foldl_cons] at h
    cases i with
    | emit => exact ih c (e0 + 1) c' e h
    | incl n =>
      simp only [step] at h
      cases hb : p[n]? with
      | none =>
        simp only [hb] at h
        rw [foldl_stuck p limit inner rest .noTemplate (by intro _ _ h'; cases h')] at h
        cases h
      | some b =>
        simp only [hb] at h
        by_cases hg : c n > limit
        · simp only [hg, if_true] at h
          rw [foldl_stuck p limit inner rest .guard (by intro _ _ h'; cases h')] at h
          cases h
        · simp only [hg, if_false] at h
          cases hi : inner (bump c n) b with
          | ok c1 e1 =>
            simp only [hi] at h
            have := hin _ _ _ _ hi
            subst this
            rw [unbump_bump] at h
            exact ih c (e0 + e1) c' e h
          | guard =>
            simp only [hi] at h
            rw [foldl_stuck p limit inner rest .guard (by intro _ _ h'; cases h')] at h; cases h
          | noTemplate =>
            simp only [hi] at h
            rw [foldl_stuck p limit inner rest .noTemplate (by intro _ _ h'; cases h')] at h; cases h
          | fuel =>
            simp only [hi] at h
            rw [foldl_stuck p limit inner rest .fuel (by intro _ _ h'; cases h')] at h; cases h

/-- **run_restores**: an include that returns leaves every counter as it found it. -/
theorem run_restores (p : Prog) (limit : Nat) :
    ∀ (fuel : Nat) (c : Counts) (l : List Instr) (c' : Counts) (e : Nat),
      run p limit fuel c l = .ok c' e → c' = c := by
  intro fuel
  induction fuel with
  | zero =>
    intro c l c' e h
    exact foldl_restores p limit _ (by intro _ _ _ _ h'; cases h') l c 0 c' e h
  | succ f ih =>
    intro c l c' e h
    exact foldl_restores p limit _ (fun c b c' e h' => ih c b c' e h') l c 0 c' e h

/-! ### the nesting budget -/

theorem sum_map_dec (g g' : Nat → Nat) (n : Nat) (hn : g' n + 1 = g n) (ho : ∀ m, m ≠ n → g' m = g m) :
    ∀ (l : List Nat), l.Nodup → n ∈ l → (l.map g').sum + 1 = (l.map g).sum := by
  intro l
  induction l with
  | nil => intro _ h; cases h
  | cons m rest ih =>
    intro hnd hmem
    simp only [List.map_cons, List.sum_cons]
    have hnd' := List.nodup_cons.mp hnd
    by_cases hm : m = n
    · subst hm
      have hrest : (rest.map g').sum = (rest.map g).sum := by
        congr 1
        apply List.map_congr_left
        intro x hx
        exact ho x (fun h => hnd'.1 (h ▸ hx))
      omega
    · have hin : n ∈ rest := by
        rcases List.mem_cons.mp hmem with h | h
        · exact absurd h.symm hm
        · exact h
      have := ih hnd'.2 hin
      have hm' := ho m hm
      omega

/-- an include that gets past the guard spends exactly one unit of the budget. -/
theorem budget_bump (N limit : Nat) (c : Counts) (n : Nat) (hn : n < N) (hc : ¬ c n > limit) :
    budget N limit (bump c n) + 1 = budget N limit c := by
  unfold budget
  apply sum_map_dec (fun m => limit + 1 - c m) (fun m => limit + 1 - bump c n m) n
  · simp only [bump, if_true]; omega
  · intro m hm; simp only [bump, hm, if_false]
  · exact List.nodup_range
  · exact List.mem_range.mpr hn

theorem budget_zero (N limit : Nat) (c : Counts) (h : budget N limit c = 0) (n : Nat) (hn : n < N) :
    c n > limit := by
  unfold budget at h
  have : ∀ l : List Nat, (l.map fun m => limit + 1 - c m).sum = 0 → ∀ m ∈ l, limit + 1 - c m = 0 := by
    intro l
    induction l with
    | nil => intro _ m hm; cases hm
    | cons a rest ih =>
      intro hs m hm
      simp only [List.map_cons, List.sum_cons] at hs
      rcases List.mem_cons.mp hm with rfl | hin
      · omega
      · exact ih (by omega) m hin
  have := this _ h n (List.mem_range.mpr hn)
  omega

/-- a body whose includes never run out of budget, and restore the counters, never runs out. -/
theorem foldl_no_fuel (p : Prog) (limit : Nat) (inner : Counts → List Instr → Res) (c : Counts)
    (hin : ∀ n b, p[n]? = some b → ¬ c n > limit → inner (bump c n) b ≠ .fuel)
    (hrs : ∀ n b c' e, inner (bump c n) b = .ok c' e → c' = bump c n) :
    ∀ (l : List Instr) (e0 : Nat), l.foldl (step p limit inner) (.ok c e0) ≠ .fuel := by
  intro l
  induction l with
  | nil => intro e0 h; cases h
  | cons i rest ih =>
    intro e0
    simp only [List.foldl_cons]
    cases i with
    | emit => exact ih (e0 + 1)
    | incl n =>
      simp only [step]
      cases hb : p[n]? with
      | none =>
        simp only
        rw [foldl_stuck p limit inner rest .noTemplate (by intro _ _ h'; cases h')]
        intro h; cases h
      | some b =>
        simp only
        by_cases hg : c n > limit
        · simp only [hg, if_true]
          rw [foldl_stuck p limit inner rest .guard (by intro _ _ h'; cases h')]
          intro h; cases h
        · simp only [hg, if_false]
          cases hi : inner (bump c n) b with
          | ok c1 e1 =>
            simp only
            have := hrs n b c1 e1 hi
            subst this
            rw [unbump_bump]
            exact ih (e0 + e1)
          | guard =>
            simp only
            rw [foldl_stuck p limit inner rest .guard (by intro _ _ h'; cases h')]; intro h; cases h
          | noTemplate =>
            simp only
            rw [foldl_stuck p limit inner rest .noTemplate (by intro _ _ h'; cases h')]; intro h; cases h
          | fuel => exact absurd hi (hin n b hb hg)

/-- **nesting_bounded**: given at least `budget` units of nesting, the evaluator never runs out: the
nesting of includes is bounded by `budget |templates| limit c`, whatever the templates are. -/
theorem nesting_bounded (p : Prog) (limit : Nat) :
    ∀ (fuel : Nat) (c : Counts) (l : List Instr), budget p.length limit c ≤ fuel →
      run p limit fuel c l ≠ .fuel := by
  intro fuel
  induction fuel with
  | zero =>
    intro c l hb
    have hz : budget p.length limit c = 0 := by omega
    simp only [run]
    apply foldl_no_fuel p limit _ c
    · intro n b hpb hg
      have hn : n < p.length := by
        rcases List.getElem?_eq_some_iff.mp hpb with ⟨h, _⟩; exact h
      exact absurd (budget_zero p.length limit c hz n hn) hg
    · intro n b c' e h; cases h
  | succ f ih =>
    intro c l hb
    simp only [run]
    apply foldl_no_fuel p limit _ c
    · intro n b hpb hg
      have hn : n < p.length := by
        rcases List.getElem?_eq_some_iff.mp hpb with ⟨h, _⟩; exact h
      have := budget_bump p.length limit c n hn hg
      exact ih (bump c n) b (by omega)
    · intro n b c' e h; exact run_restores p limit f _ _ _ _ h

/-- **render_never_out_of_fuel**: from fresh counters `|templates| * (limit + 1)` units suffice — the
model's `observe` never reports `MODEL-OUT-OF-FUEL`: every execution ends in a result or an error. -/
theorem render_never_out_of_fuel (p : Prog) (limit : Nat) (entry : List Instr) :
    run p limit (renderBudget p limit) (fun _ => 0) entry ≠ .fuel :=
  nesting_bounded p limit _ _ entry (Nat.le_refl _)

/-- Non-vacuity (limit 2, two templates): `t0` includes itself — the guard fires; `t1` emits, includes
a leaf-like `t1`-free body … -/
example : observe [[.emit, .incl 0]] 2 [.incl 0] = "err recursion" := by decide
example : observe [[.emit], [.incl 0, .emit, .incl 0]] 2 [.incl 1, .incl 1] = "ok 6" := by decide
example : observe [[.incl 7]] 2 [.incl 0] = "err notemplate" := by decide

end Pko.Props.C19Include
