/-
Property C16, process histories: one operator process serving SEVERAL Packages — different images that are
versions of one package (same manifest name, different config schema), spec edits, faulty passes and operator
restarts in any order (`Pko.Model.DeployMulti`).

The code keeps nothing in memory from one pass to the next (see the header of `Pko.Model.DeployMulti`), so what a
pass decides — in particular whether the configuration is admitted — is a function of the manifest the pass
loaded and the config of the Package it is about.  The theorems say what that buys: every Package goes through
exactly the history it would go through alone (`runM_proj`, `traceM_proj`), a restart is invisible
(`restart_invisible`), a pass depends on the process history only through the API state of its own Package
(`pass_function_of_own_state`, `admission_independent_of_history`), so after ANY process history an inadmissible
spec is not rolled out (`inadmissible_never_rolled_out_any_history`), and the per-Package monitor finds nothing on
the model's trace of a whole process history (`monitorM_model_ok`).
-/
import Pko.Model.DeployMulti
import Pko.Props.C16

namespace Pko.Props.C16
open Pko.Model.Deploy Pko.Model.DeploySpec Pko.Model.DeployMulti

set_option linter.unusedSectionVars false
variable {H T : Type} [DecidableEq H] [DecidableEq T]
variable (hash : Spec → H) (render : Spec → T) (W : Spec → Leaves)

theorem updAt_get {α : Type} (f : α → α) : ∀ (l : List α) (k j : Nat),
    (updAt f l k)[j]? = if j = k then (l[j]?).map f else l[j]?
  | [], k, j => by simp [updAt]
  | a :: l, 0, 0 => by simp [updAt]
  | a :: l, 0, j + 1 => by simp [updAt]
  | a :: l, k + 1, 0 => by simp [updAt]
  | a :: l, k + 1, j + 1 => by simp [updAt, updAt_get f l k j]

theorem updAt_length {α : Type} (f : α → α) : ∀ (l : List α) (k : Nat), (updAt f l k).length = l.length
  | [], _ => rfl
  | _ :: _, 0 => rfl
  | a :: l, k + 1 => by simp [updAt, updAt_length f l k]

/-- One step of the process, seen from Package `k`: its own step if the op is about it, nothing otherwise. -/
theorem stepM_get (sts : List (Store H T)) (k : Nat) (op : MOp) :
    (stepM hash render W sts op)[k]? =
      match op with
      | .on j o => if j = k then (sts[k]?).map (fun st => step hash render W st o) else sts[k]?
      | .restart => sts[k]? := by
  cases op with
  | restart => rfl
  | on j o =>
    simp only [stepM, updAt_get]
    by_cases h : k = j
    · subst h; simp
    · have h' : ¬ j = k := fun e => h e.symm
      simp [h, h']

/-- **Packages do not interact**: in any history of the operator process — passes and edits of any number of
Packages, over images that share or do not share a package name, interleaved in any order, with any faults and
any number of restarts — Package `k` ends up exactly where its own edits and passes alone take it. -/
theorem runM_proj (sts : List (Store H T)) (ops : List MOp) (k : Nat) :
    (runM hash render W sts ops)[k]? = (sts[k]?).map fun st => run hash render W st (proj k ops) := by
  induction ops generalizing sts with
  | nil => simp [runM, run, proj]
  | cons op ops ih =>
    have hstep : runM hash render W sts (op :: ops) = runM hash render W (stepM hash render W sts op) ops := rfl
    rw [hstep, ih, stepM_get]
    cases op with
    | restart => simp [proj]
    | on j o =>
      by_cases h : j = k
      · subst h
        cases hs : sts[j]? with
        | none => simp
        | some st => simp [proj, run]
      · simp [proj, h]

/-- **… and neither do their observations**: what a process history shows about Package `k` (pass results at
the positions of the ops about `k`) is the trace of `k`'s own history run alone. -/
theorem traceM_proj (sts : List (Store H T)) (ops : List MOp) (k : Nat) (st : Store H T)
    (hk : sts[k]? = some st) :
    projObs k ops (traceM hash render W sts ops) = trace hash render W st (proj k ops) := by
  induction ops generalizing sts st with
  | nil => simp [traceM, projObs, proj, trace]
  | cons op ops ih =>
    cases op with
    | restart => simpa [traceM, projObs, proj] using ih sts st hk
    | on j o =>
      have hget := stepM_get hash render W sts k (.on j o)
      cases o with
      | edit s =>
        by_cases h : j = k
        · subst h
          simp only [hk, Option.map_some, ↓reduceIte] at hget
          simp only [traceM, projObs, proj, ↓reduceIte, trace]
          rw [ih _ _ hget]; rfl
        · simp only [h, ↓reduceIte, hk] at hget
          simp only [traceM, projObs, proj, h, ↓reduceIte]
          exact ih _ _ hget
      | pass F =>
        by_cases h : j = k
        · subst h
          simp only [hk, Option.map_some, ↓reduceIte] at hget
          simp only [traceM, projObs, proj, ↓reduceIte, trace, hk, Option.map_some]
          rw [ih _ _ hget]; rfl
        · simp only [h, ↓reduceIte, hk] at hget
          simp only [traceM, projObs, proj, h, ↓reduceIte]
          exact ih _ _ hget

/-- **A restart of the operator is invisible**: the state reached and everything observed afterwards are the
same with and without it — the operator holds no state of its own. -/
theorem restart_invisible (sts : List (Store H T)) (ops1 ops2 : List MOp) :
    runM hash render W sts (ops1 ++ .restart :: ops2) = runM hash render W sts (ops1 ++ ops2) ∧
    traceM hash render W (runM hash render W sts (ops1 ++ [.restart])) ops2 =
      traceM hash render W (runM hash render W sts ops1) ops2 := by
  simp [runM, List.foldl_append, stepM]

/-- **A pass is a function of the API state of its own Package** (and of the leaf outcomes of the spec that
Package has now): the result of a pass about Package `k` at the end of ANY process history is
`Pko.Model.Deploy.pass` applied to the store `k`'s own history leads to. -/
theorem pass_function_of_own_state (sts : List (Store H T)) (ops : List MOp) (k : Nat) (F : Faults) :
    (traceM hash render W sts (ops ++ [.on k (.pass F)])).getLast? =
      some ((sts[k]?).map fun st0 =>
        let st := run hash render W st0 (proj k ops)
        pass hash render (W st.spec) F st) := by
  induction ops generalizing sts with
  | nil => cases hs : sts[k]? <;> simp [traceM, proj, run, hs]
  | cons op ops ih =>
    have hne : traceM hash render W (stepM hash render W sts op) (ops ++ [.on k (.pass F)]) ≠ [] := by
      cases ops <;> simp [traceM] <;> (try cases ‹MOp›) <;> (try cases ‹Op›) <;> simp [traceM]
    have hcons : (traceM hash render W sts (op :: ops ++ [.on k (.pass F)])).getLast? =
        (traceM hash render W (stepM hash render W sts op) (ops ++ [.on k (.pass F)])).getLast? := by
      cases op with
      | restart => simp only [List.cons_append, traceM, stepM]; exact List.getLast?_cons_of_ne_nil hne
      | on j o =>
        cases o <;> (simp only [List.cons_append, traceM]; exact List.getLast?_cons_of_ne_nil hne)
    rw [hcons, ih, stepM_get]
    cases op with
    | restart => simp [proj]
    | on j o =>
      by_cases h : j = k
      · subst h
        cases hs : sts[j]? <;> simp [proj, run]
      · simp [proj, h]

/-- **Admission is independent of history**: two operator processes with arbitrary, different pasts — other
Packages served, other versions of the same package admitted before, restarts — in which Package `k` resp. `j`
is in the same API state decide a pass over it identically, for every fault of the pass.  In particular the
outcome of config admission (`(W spec).admission`, a function of the spec = of the manifest of the spec's image
and of the spec's config) is the same. -/
theorem admission_independent_of_history (sts1 sts2 : List (Store H T)) (ops1 ops2 : List MOp) (k j : Nat)
    (st : Store H T) (F : Faults)
    (h1 : (runM hash render W sts1 ops1)[k]? = some st) (h2 : (runM hash render W sts2 ops2)[j]? = some st) :
    (traceM hash render W sts1 (ops1 ++ [.on k (.pass F)])).getLast? =
      (traceM hash render W sts2 (ops2 ++ [.on j (.pass F)])).getLast? ∧
    (traceM hash render W sts1 (ops1 ++ [.on k (.pass F)])).getLast? =
      some (some (pass hash render (W st.spec) F st)) := by
  rw [runM_proj] at h1 h2
  rw [pass_function_of_own_state, pass_function_of_own_state]
  cases hs1 : sts1[k]? with
  | none => simp [hs1] at h1
  | some a =>
    cases hs2 : sts2[j]? with
    | none => simp [hs2] at h2
    | some b =>
      simp only [hs1, Option.map_some, Option.some.injEq] at h1
      simp only [hs2, Option.map_some, Option.some.injEq] at h2
      simp [h1, h2]

/-- **After any process history an inadmissible spec is not rolled out**: whatever the operator process has
served before (other Packages, other versions of the package whose schema admitted the same config), a pass over
a Package whose CURRENT spec is not admissible — e.g. whose config violates the schema of the manifest of its
current image — neither writes nor changes its ObjectDeployment, and no pass ever touches another Package. -/
theorem inadmissible_never_rolled_out_any_history (sts : List (Store H T)) (ops : List MOp) (k : Nat)
    (st : Store H T) (F : Faults) (hk : (runM hash render W sts ops)[k]? = some st)
    (hbad : admissible (W st.spec) = false) :
    (runM hash render W sts (ops ++ [.on k (.pass F)]))[k]?.map (·.od) = some st.od ∧
    (pass hash render (W st.spec) F st).writes = [] ∧
    ∀ j, j ≠ k → (runM hash render W sts (ops ++ [.on k (.pass F)]))[j]? = (runM hash render W sts ops)[j]? := by
  have hrun : runM hash render W sts (ops ++ [.on k (.pass F)]) =
      stepM hash render W (runM hash render W sts ops) (.on k (.pass F)) := by
    simp [runM, List.foldl_append]
  obtain ⟨h1, h2⟩ := invalid_no_deployment_change hash render (W st.spec) F st (.inr hbad)
  refine ⟨?_, h2, ?_⟩
  · rw [hrun, stepM_get]; simp [hk, step, h1]
  · intro j hj
    rw [hrun, stepM_get]
    have : ¬ k = j := fun e => hj e.symm
    simp [this]

theorem projObs_map {α β : Type} (f : α → β) (k : Nat) : ∀ (ops : List MOp) (obs : List α),
    projObs k ops (obs.map f) = (projObs k ops obs).map f
  | [], _ => by simp [projObs]
  | .restart :: ops, [] => by simp [projObs]
  | .on _ _ :: ops, [] => by simp [projObs]
  | .restart :: ops, o :: obs => by simp [projObs, projObs_map f k ops obs]
  | .on j _ :: ops, o :: obs => by
    by_cases h : j = k <;> simp [projObs, h, projObs_map f k ops obs]

/-- **monitorM_model_ok**: on the model's trace of ANY history of an operator process over fresh Packages the
per-Package monitor reports nothing. -/
theorem monitorM_model_ok (hinj : ∀ a b, hash a = hash b → a = b) (specs : List Spec) (ops : List MOp) :
    checkRunM hash render W specs ops
      ((traceM hash render W (specs.map fun s => (fresh s : Store H T)) ops).map (Option.map obsOf)) = [] := by
  simp only [checkRunM, List.flatMap_eq_nil_iff, List.mem_range, List.map_eq_nil_iff]
  intro k hk
  have hget : (specs.map fun s => (fresh s : Store H T))[k]? = some (fresh (specs.getD k default)) := by
    simp [List.getD, List.getElem?_eq_getElem hk]
  rw [projObs_map, traceM_proj hash render W _ ops k _ hget]
  exact monitor_model_ok hash render hinj W _ _

/-! ## Non-vacuity: two versions of one package, two Packages, a restart

Image 0 and image 1 are versions of one package; only image 1's schema rejects config 1.  Package 0 installs
version 0 with config 1; after a restart Package 1 installs version 1 with the same config: rejected, nothing
rolled out (`Deploy` returns the validation error, so nothing is recorded and the pass is retried); Package 0 is
then moved to version 1: rejected as well, its ObjectDeployment keeps the render of version 0 and the recorded
hash stays the one of the spec that was rolled out. -/
example :
    let W : Spec → Leaves := fun s =>
      { allOk s with admission := if s.image == 1 && s.config == 1 then .invalid else .ok }
    let r : Spec → Nat := fun s => 10 * s.image + s.config
    let sts := runM id r W [fresh ⟨0, 1, 0⟩, (fresh ⟨1, 1, 0⟩ : Store Spec Nat)]
      [.on 0 (.pass {}), .restart, .on 1 (.pass {}), .on 0 (.edit ⟨1, 1, 0⟩), .on 0 (.pass {})]
    sts.map (·.od) = [some (some 1), none] ∧ sts.map (·.status.unpackedHash) = [some ⟨0, 1, 0⟩, none] := by
  decide

end Pko.Props.C16
