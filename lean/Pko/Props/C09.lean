/-
Property C09 — Paused means hands-off.

Theorems about the phase model and the ObjectSet controller model for every store, every
ObjectSet and every third-party schedule.  (ObjectDeployment → revision pause propagation is
proved on the `osr` model of C08, Package → ObjectDeployment on the C16 model.)
-/
import Pko.Lemmas.ObjectSet
import Pko.Props.C03

namespace Pko.Props.C09
open Pko.Kube Pko.Model.Phase Pko.Model.ObjectSet Pko.Model.Status

/-- A paused owner's phase pass issues no write at all. -/
theorem paused_phase_no_writes (cfg : Cfg) (ow : Owner) (prev : List Prev) (cls : String)
    (ps : List PObj) (w : World) (hp : ow.paused = true) :
    (reconcilePhase cfg ow prev cls ps w).1.events = w.events := by
  obtain ⟨evs, hev, hj⟩ := Pko.Props.C01.reconcilePhase_writes_justified cfg ow prev cls ps w
  cases evs with
  | nil => simpa using hev
  | cons e rest =>
    obtain ⟨_, _, _, _, _, _, hnp⟩ := hj e (by simp)
    rw [hp] at hnp; cases hnp

/-- … and still probes: a paused phase reports exactly the objects that are missing from the
cache or fail the probe (it is not reported "ok" blindly). -/
theorem paused_object_probed (cfg : Cfg) (ow : Owner) (prev : List Prev) (p : PObj) (w : World)
    (hp : ow.paused = true) (hns : ¬(cfg.st = .native ∧ ow.ns ≠ "" ∧ desiredNs ow p ≠ ow.ns)) :
    reconcilePhaseObject cfg ow prev p w =
      (w, match cacheGet w.store (keyOf cfg ow p) with | some o => .actual o | none => .missing) := by
  simp only [reconcilePhaseObject, hns, ↓reduceIte, hp]
  cases cacheGet w.store (keyOf cfg ow p) <;> rfl

/-- All phases of a paused ObjectSet: no write on any managed object (`hrem`: reconciling a
delegated phase writes no managed object itself — its own pause is propagated to the phase object). -/
theorem paused_phases_no_writes (cfg : Cfg) (ow : Owner) (prev : List Prev) (remote : Pko.Props.C03.RemoteRec)
    (hrem : ∀ ph w, (remote ph w).1.events = w.events) (hp : ow.paused = true) :
    ∀ (phases : List PhaseSpec) (w : World) (acc : List CRef),
      (reconcilePhases cfg ow prev remote phases w acc).1.events = w.events := by
  intro phases
  induction phases with
  | nil => intro w acc; simp [reconcilePhases]
  | cons ph rest ih =>
    intro w acc
    simp only [reconcilePhases]
    by_cases hc : ph.cls ≠ ""
    · simp only [if_pos hc]
      have h0 := hrem ph w
      cases hr : remote ph w with
      | mk w' r =>
        rw [hr] at h0; simp only at h0
        cases r with
        | error e => simpa using h0
        | ok v =>
          obtain ⟨cr, b⟩ := v
          cases b with
          | true => simp only [↓reduceIte]; rw [ih, h0]
          | false => simpa using h0
    · simp only [if_neg hc]
      have heq := Pko.Lemmas.ObjectSet.reconcilePhaseObjs_eq cfg ow prev ph.objs w
      have hnw := paused_phase_no_writes cfg ow prev "" ph.objs w hp
      cases hr : reconcilePhaseObjs cfg ow prev ph.objs w with
      | mk w' r =>
        obtain ⟨oc, objs⟩ := r
        rw [hr] at heq; simp only at heq
        rw [← heq.1] at hnw
        cases oc with
        | ok failed =>
          simp only
          by_cases hf : failed.isEmpty
          · simp only [hf, ↓reduceIte]; rw [ih, hnw]
          · simpa [hf] using hnw
        | preflight => simpa using hnw
        | collision r => simpa using hnw
        | err => simpa using hnw

/-- **paused_no_object_writes (controller pass).** While an ObjectSet is paused and neither
deleted nor archived, a whole controller pass — finalizer handling, revision assignment, phases,
status — issues no create, patch or delete for any managed object, whatever the store holds and
whatever third parties do in between. -/
theorem paused_no_object_writes (cfg : Cfg) (rm : Remotes) (name : String) (s : Sys) (mem : OSet)
    (hget : s.sets name = some mem)
    (hrem : ∀ o ph w, (rm.recon o ph w).1.events = w.events)
    (hpaused : mem.lifecycle = .paused) (hnd : mem.deleting = false) :
    (reconcile cfg rm name s).1.w.events = s.w.events := by
  simp only [reconcile, hget]
  split
  · rfl
  · simp only [hnd, hpaused, Bool.false_or, decide_eq_true_eq, reduceCtorEq, ↓reduceIte]
    have hf := Pko.Lemmas.ObjectSet.setFinalizer_events s mem true
    cases hsf : s.setFinalizer mem true with
    | mk s1 r1 =>
      rw [hsf] at hf; simp only at hf
      -- the in-memory object keeps its lifecycle through the finalizer patch
      have hlife1 : ∀ m1, r1 = .ok m1 → m1.lifecycle = .paused := by
        intro m1 h1
        simp only [Sys.setFinalizer] at hsf
        split at hsf
        · cases hsf; cases h1; exact hpaused
        · split at hsf
          · cases hsf; cases h1; simpa using hpaused
          · cases hsf; cases h1
      cases r1 with
      | error e => simpa using hf
      | ok m1 =>
        have hl1 := hlife1 m1 rfl
        simp only
        -- revision step
        have hrev : (revisionStep s1 m1).1.w.events = s1.w.events ∧
            ∀ m2, (revisionStep s1 m1).2 = .ok m2 → m2.lifecycle = .paused := by
          simp only [revisionStep]
          split
          · exact ⟨rfl, fun m2 h => by cases h; exact hl1⟩
          · split
            · exact ⟨rfl, fun m2 h => by cases h; simpa using hl1⟩
            · split
              · exact ⟨rfl, fun m2 h => by cases h⟩
              · exact ⟨rfl, fun m2 h => by cases h⟩
              · have hu := Pko.Lemmas.ObjectSet.updateStatus_events s1
                  { m1 with revision := ((m1.previous.map s1.sets).filterMap fun p => p.map (·.revision)).foldl max 0 + 1 }
                split
                · rename_i s2 m2 hus
                  rw [hus] at hu
                  refine ⟨by simpa using hu, ?_⟩
                  intro m3 h3
                  cases h3
                  simp only [Sys.updateStatus] at hus
                  split at hus
                  · cases hus; simpa using hl1
                  · cases hus
                · rename_i s2 e hus
                  rw [hus] at hu
                  exact ⟨by simpa using hu, fun m2 h => by cases h⟩
        cases hrs : revisionStep s1 m1 with
        | mk s2 r2 =>
          rw [hrs] at hrev; simp only at hrev
          cases r2 with
          | error r =>
            cases r with
            | requeue =>
              simp only [finish, Pko.Lemmas.ObjectSet.afterStatus_fst, Pko.Lemmas.ObjectSet.updateStatus_events]
              rw [hrev.1, hf]
            | ok => simp; rw [hrev.1, hf]
            | err => simp; rw [hrev.1, hf]
          | ok m2 =>
            have hl2 := hrev.2 m2 rfl
            simp only [activePhases]
            split
            · simp only [statusFromError, Pko.Lemmas.ObjectSet.afterStatus_fst, Pko.Lemmas.ObjectSet.updateStatus_events]
              rw [hrev.1, hf]
            · have hph := paused_phases_no_writes cfg m2.owner (lookupPrev s2 m2) (rm.recon m2) (hrem m2)
                (by simp [OSet.owner, hl2]) m2.phases s2.w []
              cases hrp : reconcilePhases cfg m2.owner (lookupPrev s2 m2) (rm.recon m2) m2.phases s2.w [] with
              | mk w3 pr =>
                rw [hrp] at hph; simp only at hph
                simp only
                cases pr with
                | error e =>
                  cases e <;>
                    simp only [statusFromError, Pko.Lemmas.ObjectSet.afterStatus_fst, Pko.Lemmas.ObjectSet.updateStatus_events] <;>
                    rw [hph, hrev.1, hf]
                | ok v =>
                  obtain ⟨co, failing⟩ := v
                  simp only [finish, Pko.Lemmas.ObjectSet.afterStatus_fst, Pko.Lemmas.ObjectSet.updateStatus_events]
                  rw [hph, hrev.1, hf]

/-- the pass ends with exactly one status update carrying `finishMem` of the derived status. -/
theorem finish_event (s : Sys) (m : OSet) (res : Res) :
    ∃ r, (finish s m res).1.setEvents = s.setEvents ++
      [.statusUpdate (finishMem s.w m).name r (finishMem s.w m).revision (finishMem s.w m).conds (finishMem s.w m).controllerOf] := by
  simp only [finish, Pko.Lemmas.ObjectSet.afterStatus_fst]
  exact Pko.Lemmas.ObjectSet.updateStatus_setEvents s (finishMem s.w m)

/-- **paused_still_reports**: the status written at the end of a paused pass (no delegated
phases — with delegated phases Paused=True additionally waits for every phase object to confirm,
see C15) carries Paused=True and an Available condition derived from the probes of THIS pass
(True iff no phase failed). -/
theorem paused_still_reports (w : World) (mem : OSet) (co : List CRef) (failing : Option String)
    (hpaused : mem.lifecycle = .paused) (hnr : mem.remotePhases = []) :
    let final := finishMem w (deriveStatus mem co failing)
    condTrue final.conds "Paused" = true ∧
    (condTrue final.conds "Available" = true ↔ failing = none) ∧ final.controllerOf = co := by
  have hlife : (deriveStatus mem co failing).lifecycle = .paused := by
    rw [Pko.Lemmas.ObjectSet.deriveStatus_lifecycle]; exact hpaused
  refine ⟨?_, ?_, ?_⟩
  · rw [Pko.Lemmas.ObjectSet.finishMem_noRemote _ _ (by simpa [deriveStatus] using hnr)]
    simp only [hlife, ↓reduceIte]
    exact Pko.Lemmas.ObjectSet.condTrue_setCond_true _ _ _ _ _
  · rw [Pko.Lemmas.ObjectSet.finishMem_condTrue_other _ _ _ (by decide),
      Pko.Lemmas.ObjectSet.deriveStatus_available]
    cases failing <;> simp
  · rw [(Pko.Lemmas.ObjectSet.finishMem_fields _ _).1]; rfl

/-- Non-vacuity: a paused owner facing a missing object and a drifted object writes nothing and
reports the missing one. -/
example :
    let ow : Owner := ⟨pkoGroup, "ObjectSet", "ns1", "own", "u-own", 1, true, ""⟩
    let cfg : Cfg := { st := .native, flavour := ⟨true, true, true⟩, scope := fun _ => .namespaced, force := false }
    let a : PObj := ⟨"NsThing", "", "a", .prevent, "x", false, .accept⟩
    let b : PObj := ⟨"NsThing", "", "b", .prevent, "x", false, .accept⟩
    let o : Obj := { (default : Obj) with uid := 1, rv := 1, owners := [ow.ref true], cacheLabel := true, payload := "drift", ready := true }
    let st : Store := { objs := fun k => if k.name = "b" then some o else none, nextUID := 2, nextRV := 2 }
    let w : World := { store := st, writes := 0, env := [], events := [] }
    let r := reconcilePhase cfg ow [] "" [a, b] w
    r.2 = .ok ["a"] ∧ r.1.events.length = 0 := by
  exact ⟨rfl, rfl⟩

end Pko.Props.C09
