/-
Property C09 — Paused means hands-off.

Theorems about the phase model and the ObjectSet controller model for every store, every
ObjectSet and every third-party schedule, and — second part of the file — about the
ObjectDeployment → revision pause propagation (`osr` model of the ObjectDeployment controller's
pass + the store of `Pko.Model.ArchiveHist`) for all revision lists and all histories.
(Package → ObjectDeployment: C16 model.)
-/
import Pko.Lemmas.ObjectSet
import Pko.Props.C03
import Pko.Lemmas.C09Pause
import Pko.Drv.HistCommon

namespace Pko.Props.C09
open Pko.Kube Pko.Model.Phase Pko.Model.ObjectSet Pko.Model.Status

/-- A paused owner's phase pass issues no write at all. -/
theorem paused_phase_no_writes (cfg : Cfg) (ow : Owner) (prev : List Prev) (cls : String)
    (ps : List PObj) (w : World) (hp : ow.paused = true) :
    (reconcilePhase cfg ow prev cls ps w).1.events = w.events := by
  obtain ⟨evs, hev, hj⟩ := Pko.Props.C01.reconcilePhase_writes_justified cfg ow prev cls ps w
  cases evs with
  | nil => simpa using hev
  | cons e rest =>
    obtain ⟨_, _, _, _, _, _, hnp⟩ := hj e (by simp)
    rw [hp] at hnp; cases hnp

/-- … and still probes: a paused phase reports exactly the objects that are missing from the
cache or fail the probe (it is not reported "ok" blindly) — in EVERY world, whatever the process
has registered with the dynamic cache (nothing, after a restart): the paused step registers the
kind before it reads (`started_watch`), it never fails with `CacheNotStartedError`, and the only
thing it changes is that registration. -/
theorem paused_object_probed (cfg : Cfg) (ow : Owner) (prev : List Prev) (p : PObj) (w : World)
    (hp : ow.paused = true) (hns : ¬(cfg.st = .native ∧ ow.ns ≠ "" ∧ desiredNs ow p ≠ ow.ns)) :
    reconcilePhaseObject cfg ow prev p w =
      (w.watch ow p.kind, match cacheGet w.store (keyOf cfg ow p) with | some o => .actual o | none => .missing) := by
  simp only [reconcilePhaseObject_eq, hns, ↓reduceIte, hp]
  cases cacheGet w.store (keyOf cfg ow p) <;> rfl

/-- All phases of a paused ObjectSet: no write on any managed object (`hrem`: reconciling a
delegated phase writes no managed object itself — its own pause is propagated to the phase object). -/
theorem paused_phases_no_writes (cfg : Cfg) (ow : Owner) (prev : List Prev) (remote : Pko.Props.C03.RemoteRec)
    (hrem : ∀ ph w, (remote ph w).1.events = w.events) (hp : ow.paused = true) :
    ∀ (phases : List PhaseSpec) (w : World) (acc : List CRef),
      (reconcilePhases cfg ow prev remote phases w acc).1.events = w.events := by
  intro phases
  induction phases with
  | nil => intro w acc; simp [reconcilePhases]
  | cons ph rest ih =>
    intro w acc
    simp only [reconcilePhases]
    by_cases hc : ph.cls ≠ ""
    · simp only [if_pos hc]
      have h0 := hrem ph w
      cases hr : remote ph w with
      | mk w' r =>
        rw [hr] at h0; simp only at h0
        cases r with
        | error e => simpa using h0
        | ok v =>
          obtain ⟨cr, b⟩ := v
          cases b with
          | true => simp only [↓reduceIte]; rw [ih, h0]
          | false => simpa using h0
    · simp only [if_neg hc]
      have heq := Pko.Lemmas.ObjectSet.reconcilePhaseObjs_eq cfg ow prev ph.objs w
      have hnw := paused_phase_no_writes cfg ow prev "" ph.objs w hp
      cases hr : reconcilePhaseObjs cfg ow prev ph.objs w with
      | mk w' r =>
        obtain ⟨oc, objs⟩ := r
        rw [hr] at heq; simp only at heq
        rw [← heq.1] at hnw
        cases oc with
        | ok failed =>
          simp only
          by_cases hf : failed.isEmpty
          · simp only [hf, ↓reduceIte]; rw [ih, hnw]
          · simpa [hf] using hnw
        | preflight => simpa using hnw
        | collision r => simpa using hnw
        | err => simpa using hnw

theorem foldl_sync_events (rm : Remotes) (hsync : ∀ o ph w, (rm.sync o ph w).events = w.events) (mem : OSet) :
    ∀ (phs : List PhaseSpec) (w : World), (phs.foldl (fun w ph => rm.sync mem ph w) w).events = w.events := by
  intro phs
  induction phs with
  | nil => intro w; rfl
  | cons ph rest ih => intro w; simp only [List.foldl_cons]; rw [ih, hsync]

/-- handing the pause to the remaining delegated phases (fix C09-a) writes no managed object. -/
theorem afterPhases_events (rm : Remotes) (hsync : ∀ o ph w, (rm.sync o ph w).events = w.events)
    (mem : OSet) (pr : PhasesRes) (w : World) : (afterPhases rm mem pr w).events = w.events := by
  unfold afterPhases
  split
  · split
    · exact foldl_sync_events rm hsync mem _ w
    · rfl
  · rfl

/-- **paused_no_object_writes (controller pass).** While an ObjectSet is paused and neither
deleted nor archived, a whole controller pass — finalizer handling, revision assignment, phases,
status — issues no create, patch or delete for any managed object, whatever the store holds and
whatever third parties do in between. -/
theorem paused_no_object_writes (cfg : Cfg) (rm : Remotes) (name : String) (s : Sys) (mem : OSet)
    (hget : s.sets name = some mem)
    (hrem : ∀ o ph w, (rm.recon o ph w).1.events = w.events)
    (hsync : ∀ o ph w, (rm.sync o ph w).events = w.events)
    (hpaused : mem.lifecycle = .paused) (hnd : mem.deleting = false) :
    (reconcile cfg rm name s).1.w.events = s.w.events := by
  simp only [reconcile, hget]
  split
  · rfl
  · simp only [hnd, hpaused, Bool.false_or, decide_eq_true_eq, reduceCtorEq, ↓reduceIte]
    have hf := Pko.Lemmas.ObjectSet.setFinalizer_events s mem true
    cases hsf : s.setFinalizer mem true with
    | mk s1 r1 =>
      rw [hsf] at hf; simp only at hf
      -- the in-memory object keeps its lifecycle through the finalizer patch
      have hlife1 : ∀ m1, r1 = .ok m1 → m1.lifecycle = .paused := by
        intro m1 h1
        simp only [Sys.setFinalizer] at hsf
        split at hsf
        · cases hsf; cases h1; exact hpaused
        · split at hsf
          · cases hsf; cases h1; simpa using hpaused
          · cases hsf; cases h1
      cases r1 with
      | error e => simpa using hf
      | ok m1 =>
        have hl1 := hlife1 m1 rfl
        simp only
        -- revision step
        have hrev : (revisionStep s1 m1).1.w.events = s1.w.events ∧
            ∀ m2, (revisionStep s1 m1).2 = .ok m2 → m2.lifecycle = .paused := by
          simp only [revisionStep]
          split
          · exact ⟨rfl, fun m2 h => by cases h; exact hl1⟩
          · split
            · exact ⟨rfl, fun m2 h => by cases h; simpa using hl1⟩
            · split
              · exact ⟨rfl, fun m2 h => by cases h⟩
              · exact ⟨rfl, fun m2 h => by cases h⟩
              · have hu := Pko.Lemmas.ObjectSet.updateStatus_events s1
                  { m1 with revision := ((m1.previous.map s1.sets).filterMap fun p => p.map (·.revision)).foldl max 0 + 1 }
                split
                · rename_i s2 m2 hus
                  rw [hus] at hu
                  refine ⟨by simpa using hu, ?_⟩
                  intro m3 h3
                  cases h3
                  simp only [Sys.updateStatus] at hus
                  split at hus
                  · cases hus; simpa using hl1
                  · cases hus
                · rename_i s2 e hus
                  rw [hus] at hu
                  exact ⟨by simpa using hu, fun m2 h => by cases h⟩
        cases hrs : revisionStep s1 m1 with
        | mk s2 r2 =>
          rw [hrs] at hrev; simp only at hrev
          cases r2 with
          | error r =>
            cases r with
            | requeue =>
              simp only [finish, Pko.Lemmas.ObjectSet.afterStatus_fst, Pko.Lemmas.ObjectSet.updateStatus_events]
              rw [hrev.1, hf]
            | ok => simp; rw [hrev.1, hf]
            | err => simp; rw [hrev.1, hf]
          | ok m2 =>
            have hl2 := hrev.2 m2 rfl
            -- the pause hand-over at the head of the pass (fix C09-b) writes no managed object
            have hb : (beforePhases rm m2 s2.w).events = s2.w.events := by
              simp only [beforePhases, hl2, if_true]
              exact foldl_sync_events rm hsync m2 _ _
            simp only [activePhases, activePhasesCore]
            split
            · simp only [statusFromError, Pko.Lemmas.ObjectSet.afterStatus_fst, Pko.Lemmas.ObjectSet.updateStatus_events]
              rw [hb, hrev.1, hf]
            · have hph := paused_phases_no_writes cfg m2.owner
                (lookupPrev { s2 with w := beforePhases rm m2 s2.w } m2) (rm.recon m2) (hrem m2)
                (by simp [OSet.owner, hl2]) m2.phases (beforePhases rm m2 s2.w) []
              cases hrp : reconcilePhases cfg m2.owner (lookupPrev { s2 with w := beforePhases rm m2 s2.w } m2)
                  (rm.recon m2) m2.phases (beforePhases rm m2 s2.w) [] with
              | mk w3 pr =>
                rw [hrp] at hph; simp only at hph
                have hap := afterPhases_events rm hsync m2 pr w3
                simp only
                cases pr with
                | error e =>
                  cases e <;>
                    simp only [statusFromError, Pko.Lemmas.ObjectSet.afterStatus_fst, Pko.Lemmas.ObjectSet.updateStatus_events] <;>
                    rw [hap, hph, hb, hrev.1, hf]
                | ok v =>
                  obtain ⟨co, failing⟩ := v
                  simp only [finish, Pko.Lemmas.ObjectSet.afterStatus_fst, Pko.Lemmas.ObjectSet.updateStatus_events]
                  rw [hap, hph, hb, hrev.1, hf]

/-- the pass ends with exactly one status update carrying `finishMem` of the derived status. -/
theorem finish_event (s : Sys) (m : OSet) (res : Res) :
    ∃ r, (finish s m res).1.setEvents = s.setEvents ++
      [.statusUpdate (finishMem s.w m).name r (finishMem s.w m).revision (finishMem s.w m).conds (finishMem s.w m).controllerOf
        (finishMem s.w m).remotePhases] := by
  simp only [finish, Pko.Lemmas.ObjectSet.afterStatus_fst]
  exact Pko.Lemmas.ObjectSet.updateStatus_setEvents s (finishMem s.w m)

/-- **paused_still_reports**: the status written at the end of a paused pass (no delegated
phases — with delegated phases Paused=True additionally waits for every phase object to confirm,
see C15) carries Paused=True and an Available condition derived from the probes of THIS pass
(True iff no phase failed). -/
theorem paused_still_reports (w : World) (mem : OSet) (co : List CRef) (failing : Option String)
    (hpaused : mem.lifecycle = .paused) (hnr : mem.remotePhases = []) :
    let final := finishMem w (deriveStatus mem co failing)
    condTrue final.conds "Paused" = true ∧
    (condTrue final.conds "Available" = true ↔ failing = none) ∧ final.controllerOf = co := by
  have hlife : (deriveStatus mem co failing).lifecycle = .paused := by
    rw [Pko.Lemmas.ObjectSet.deriveStatus_lifecycle]; exact hpaused
  refine ⟨?_, ?_, ?_⟩
  · rw [Pko.Lemmas.ObjectSet.finishMem_noRemote _ _ (by simpa [deriveStatus] using hnr)]
    simp only [hlife, ↓reduceIte]
    exact Pko.Lemmas.ObjectSet.condTrue_setCond_true _ _ _ _ _
  · rw [Pko.Lemmas.ObjectSet.finishMem_condTrue_other _ _ _ (by decide),
      Pko.Lemmas.ObjectSet.deriveStatus_available]
    cases failing <;> simp
  · rw [(Pko.Lemmas.ObjectSet.finishMem_fields _ _).1]; rfl

/-- Non-vacuity: a paused owner facing a missing object and a drifted object writes nothing and
reports the missing one. -/
example :
    let ow : Owner := ⟨pkoGroup, "ObjectSet", "ns1", "own", "u-own", 1, true, ""⟩
    let cfg : Cfg := { st := .native, flavour := ⟨true, true, true⟩, scope := fun _ => .namespaced, force := false }
    let a : PObj := ⟨"NsThing", "", "a", .prevent, "x", false, .accept⟩
    let b : PObj := ⟨"NsThing", "", "b", .prevent, "x", false, .accept⟩
    let o : Obj := { (default : Obj) with uid := 1, rv := 1, owners := [ow.ref true], cacheLabel := true, payload := "drift", ready := true }
    let st : Store := { objs := fun k => if k.name = "b" then some o else none, nextUID := 2, nextRV := 2 }
    let w : World := { store := st, writes := 0, env := [], events := [] }
    let r := reconcilePhase cfg ow [] "" [a, b] w
    r.2 = .ok ["a"] ∧ r.1.events.length = 0 := by
  exact ⟨rfl, rfl⟩

end Pko.Props.C09

/-!
## ObjectDeployment level: the parent's pause reaches every non-archived revision

"Pausing an ObjectDeployment pauses every non-archived revision and keeps them paused while the
parent is paused; un-pausing releases exactly the revisions the parent paused."

The theorems are about `Pko.Model.Archive.osr` — the model of one pass of
`objectSetReconciler.Reconcile` (internal/controllers/objectdeployments/objectset_reconciler.go:
listing, revision-0 gate, pause propagation l.72-93, sub-reconcilers skipped while paused, else the
archive reconciler) — run on ANY listing, and about the store `Pko.Model.ArchiveHist` that applies
its writes; both are tied to the Go code by the `odpause` correspondence stream (harness/C08
executor + harness/C09 generator: the REAL reconciler over real ObjectSet objects).  The monitored
predicate is `Pko.Model.PauseSpec.Ok`, written from the sentence.

Vocabulary: **marked** = `spec.lifecycleState = Paused` ∧ annotation
`package-operator.run/paused-by-parent: "true"` (`PauseSpec.Marked`; this is `GetPausedByParent()`
of internal/adapters/objectset.go — BOTH halves: an annotation on a revision somebody set back to
Active marks nothing, so a paused parent pauses that revision again).  **gated** = a listed
revision has not reported `status.revision` yet (objectset_reconciler.go l.43-48 delays every
action, the pause included, until it has; reading note `gated_pass_does_nothing`).
-/
namespace Pko.Props.C09
open Pko.Model.Archive Pko.Model.ArchiveHist Pko.Model.PauseSpec Pko.Lemmas.C08 Pko.Lemmas.C09Pause

/-- The propagation loop of a PAUSED parent, on any slice of revisions: afterwards every
non-archived revision is Paused and carries the marker (in memory — the objects it sends). -/
theorem propagate_pause_marks_all (l : List Rev) :
    ∀ r ∈ (propagate true l).2, r.archived = false → Marked r := by
  intro r hr hna
  rw [propagate_snd] at hr
  obtain ⟨o, _, rfl⟩ := List.mem_map.mp hr
  unfold touch at hna ⊢
  by_cases ha : o.archived = true
  · simp [ha] at hna
  · simp only [ha, Bool.false_eq_true, ↓reduceIte] at hna ⊢
    by_cases hp : o.pausedByParent = true
    · simp only [hp, bne_self_eq_false, Bool.false_eq_true, ↓reduceIte]
      exact (pausedByParent_iff o).mp hp
    · have hp' : o.pausedByParent = false := by simpa using hp
      simp [hp', Marked]

/-- The propagation loop of an UN-PAUSED parent sends `Active` to exactly the non-archived marked
revisions of the slice. -/
theorem propagate_unpause_releases_exactly (l : List Rev) (i : Nat) :
    Write.activate i ∈ (propagate false l).1 ↔ ∃ r ∈ l, r.id = i ∧ r.archived = false ∧ Marked r := by
  rw [mem_propagate_false]
  constructor
  · rintro ⟨r, hr, hna, hp, he⟩
    cases he
    exact ⟨r, hr, rfl, hna, (pausedByParent_iff r).mp hp⟩
  · rintro ⟨r, hr, rfl, hna, hm⟩
    exact ⟨r, hr, hna, (pausedByParent_iff r).mpr hm, rfl⟩

/-- **od_pause_marks_all_non_archived** (whole pass + store, ALL listings — any length, order,
lifecycle states, stale or missing annotations, any limit).  After a pass of a PAUSED
ObjectDeployment that is not gated: every write it sent is the parent-pause of a non-archived
revision (nothing is archived, pruned or re-activated), no revision is gone, every non-archived
revision is Paused and carries the parent's marker in the store, and archived revisions are still
archived.  Because the listing is arbitrary, this is also "keeps them paused while the parent is
paused": whatever a third party did to a revision's lifecycleState or annotation between two
passes, the next pass of the still-paused parent ends with it Paused again. -/
theorem od_pause_marks_all_non_archived (listing : List Rev) (limit : Option Int) (fin : Bool)
    (hn : Names listing) (hg : gated listing = false) :
    let ws := (osr listing true limit fin).1
    let post := applyWs fin ws listing
    PausedWrites listing ws ∧ NothingLost listing post ∧ AllMarked listing post ∧
      ArchivedStay listing post := by
  intro ws post
  have hws : ws = (propagate true (sortAsc listing)).1 := by
    show (osr listing true limit fin).1 = _
    rw [osr_paused hg]
  -- every write is the parent-pause of a non-archived, not yet marked revision
  have hwr : ∀ w ∈ ws, ∃ r ∈ listing, w = .ppause r.id ∧ r.archived = false := by
    intro w hw
    rw [hws] at hw
    obtain ⟨r, hr, hna, _, he⟩ := mem_propagate_true.mp hw
    exact ⟨r, mem_sortAsc.mp hr, he, hna⟩
  -- what reaches a non-archived revision
  have hreach : ∀ r ∈ listing, r.archived = false →
      (∀ w ∈ ws, w.id = r.id → w = .ppause r.id) ∧ (Marked r ∨ Write.ppause r.id ∈ ws) := by
    intro r hr hna
    constructor
    · intro w hw hid
      obtain ⟨r', _, he, _⟩ := hwr w hw
      rw [he] at hid ⊢
      simp only [Write.id] at hid
      rw [hid]
    · by_cases hm : Marked r
      · exact Or.inl hm
      · right
        rw [hws]
        refine mem_propagate_true.mpr ⟨r, mem_sortAsc.mpr hr, hna, ?_, rfl⟩
        cases hp : r.pausedByParent
        · rfl
        · exact absurd ((pausedByParent_iff r).mp hp) hm
  -- nothing reaches an archived revision
  have harch : ∀ r ∈ listing, r.archived = true → applyTo fin ws r = some r := by
    intro r hr ha
    apply applyTo_untouched
    intro w hw hid
    obtain ⟨r', hr', he, hna'⟩ := hwr w hw
    rw [he] at hid
    simp only [Write.id] at hid
    have : r' = r := id_inj hn hr' hr hid
    rw [this, ha] at hna'
    cases hna'
  refine ⟨hwr, ?_, ?_, ?_⟩
  · intro r hr
    cases ha : r.archived
    · obtain ⟨q, hq, _⟩ := applyTo_ppause (fin := fin) (hreach r hr ha).1 (hreach r hr ha).2
      exact ⟨q, mem_applyWs.mpr ⟨r, hr, hq⟩, applyTo_id hq⟩
    · exact ⟨r, mem_applyWs.mpr ⟨r, hr, harch r hr ha⟩, rfl⟩
  · intro r hr hna q hq hid
    obtain ⟨q', hq', hm⟩ := applyTo_ppause (fin := fin) (hreach r hr hna).1 (hreach r hr hna).2
    have := applyTo_of_mem hn hr hq hid
    rw [hq'] at this
    cases this
    exact hm
  · intro r hr ha q hq hid
    have := applyTo_of_mem hn hr hq hid
    rw [harch r hr ha] at this
    cases this
    simpa [Rev.archived] using ha

/-- **unpause_releases_exactly_marked** (whole pass + store, ALL listings).  A pass of an
UN-PAUSED ObjectDeployment that is not gated sets Active exactly the non-archived revisions that
carry the parent's marker (no other revision is sent `Active`, by the propagation loop or by the
archive reconciler, and every marked one is); in the store each of them has lost the marker; and a
revision paused by someone else (Paused, no marker) is not Active afterwards — it stays Paused or
is archived by the roll-out (C08). -/
theorem unpause_releases_exactly_marked (listing : List Rev) (limit : Option Int) (fin : Bool)
    (hn : Names listing) (hg : gated listing = false) :
    let ws := (osr listing false limit fin).1
    let post := applyWs fin ws listing
    ReleasedExactly listing ws ∧ MarkerLost listing post ∧ ForeignPauseKept listing post := by
  intro ws post
  obtain ⟨prev, cur, hmem, hws'⟩ := osr_unpaused (limit := limit) (fin := fin) hg
  have hws : ws = (propagate false (sortAsc listing)).1 ++ (reconcile prev cur limit fin).1 := hws'
  have hact : ∀ i, Write.activate i ∈ ws ↔ ∃ r ∈ listing, r.id = i ∧ r.archived = false ∧ Marked r := by
    intro i
    rw [hws, List.mem_append, propagate_unpause_releases_exactly]
    constructor
    · rintro (⟨r, hr, h⟩ | h)
      · exact ⟨r, mem_sortAsc.mp hr, h⟩
      · exact absurd h reconcile_no_activate
    · rintro ⟨r, hr, h⟩
      exact Or.inl ⟨r, mem_sortAsc.mpr hr, h⟩
  refine ⟨⟨fun i h => (hact i).mp h, fun r hr hna hm => (hact r.id).mpr ⟨r, hr, rfl, hna, hm⟩⟩, ?_, ?_⟩
  · -- released revisions lose the marker
    intro r hr hna hm q hq hid
    have hq' := applyTo_of_mem hn hr hq hid
    refine applyTo_marker_lost ?_ (Or.inr ((hact r.id).mpr ⟨r, hr, rfl, hna, hm⟩)) hq'
    intro w hw hwid i he
    subst he
    simp only [Write.id] at hwid
    rw [hws] at hw
    rcases List.mem_append.mp hw with hw | hw
    · obtain ⟨_, _, _, _, he⟩ := mem_propagate_false.mp hw
      cases he
    · -- a parent-pause of the archive reconciler needs the annotation on the in-memory object,
      -- which the propagation loop has just removed from `r`
      cases cur with
      | none => simp [reconcile] at hw
      | some c =>
        obtain ⟨o, ho, hoid, hop⟩ := reconcile_ppause hw
        obtain ⟨o0, ho0, rfl⟩ := List.mem_map.mp (hmem o (by simpa using ho))
        have hid0 : o0.id = r.id := by rw [← (touch_core false).id o0, hoid, hwid]
        have : o0 = r := id_inj hn (mem_sortAsc.mp ho0) hr hid0
        subst this
        have hp : o0.pausedByParent = true := (pausedByParent_iff o0).mpr hm
        have ha : o0.archived = false := hna
        simp [touch, ha, hp] at hop
  · -- a foreign pause is not released
    intro r hr hl hp q hq hid
    have hq' := applyTo_of_mem hn hr hq hid
    refine applyTo_not_activated ?_ (by rw [hl]; simp) hq'
    intro w hw hwid i he
    subst he
    simp only [Write.id] at hwid
    obtain ⟨r', hr', hid', _, hm'⟩ := (hact i).mp hw
    have : r' = r := id_inj hn hr' hr (by rw [hid', hwid])
    subst this
    rw [hm'.2] at hp
    cases hp

/-- **pause_model_satisfies_spec**: on every listing whatsoever the model's pass satisfies the
monitored predicate `PauseSpec.Ok`. -/
theorem pause_model_satisfies_spec (listing : List Rev) (odPaused : Bool) (limit : Option Int)
    (fin : Bool) :
    Ok listing odPaused (osr listing odPaused limit fin).1
      (applyWs fin (osr listing odPaused limit fin).1 listing) := by
  intro hn hg
  cases odPaused
  · simp only [Bool.false_eq_true, ↓reduceIte]
    exact unpause_releases_exactly_marked listing limit fin hn hg
  · simp only [↓reduceIte]
    obtain ⟨h1, h2, h3, h4⟩ := od_pause_marks_all_non_archived listing limit fin hn hg
    exact ⟨h1, h2, h3.allPaused, h3.parentPauseMarked, h4⟩

/-- Every pass observed in a history of the model, from any state with unique names, over ANY
sequence of operations (roll-outs, status reports, third-party edits of lifecycleState and
annotation, deletions, finished teardowns, pause / un-pause, limit changes): the monitor's verdict
is `"ok"`.  (monitor-vs-model for the `odpause` stream; `initState_inv` supplies the hypothesis
for every scenario the driver reads.) -/
theorem pause_monitor_model_ok (s : State) (ops : List Op) (h : Inv s) :
    ∀ p ∈ (observe s ops).1, verdict p.pre p.odPaused p.writes p.post = "ok" := by
  induction ops generalizing s with
  | nil => intro p hp; cases hp
  | cons op ops ih =>
    intro p hp
    have hnext := ih (step s op) (step_inv op h)
    cases op with
    | od =>
      simp only [observe] at hp
      rcases List.mem_cons.mp hp with rfl | hp
      · exact verdict_ok_of_Ok h.1 (pause_model_satisfies_spec s.revs s.odPaused s.limit s.fin)
      · exact hnext p hp
    | new _ _ _ _ _ => exact hnext p hp
    | status _ _ _ _ => exact hnext p hp
    | edit _ _ _ => exact hnext p hp
    | del _ => exact hnext p hp
    | finish _ => exact hnext p hp
    | pause _ => exact hnext p hp
    | limit _ => exact hnext p hp

/-- The initial state the driver builds from a scenario has unique names below `next`. -/
theorem initState_inv (h : Pko.Drv.HistCommon.HistScn) : Inv (Pko.Drv.HistCommon.initState h) := by
  have hids : ∀ l : List Pko.Drv.HistCommon.JRev,
      (Pko.Drv.HistCommon.toRevs l).map (·.id) = List.range l.length := by
    intro l
    simp only [Pko.Drv.HistCommon.toRevs, List.map_map]
    have : ((fun r : Rev => r.id) ∘ fun (x : Nat × Pko.Drv.HistCommon.JRev) =>
        ({ id := x.1, rev := x.2.rev, available := x.2.av, statusPaused := x.2.sp,
           lc := Pko.Drv.HistCommon.toLc x.2.lc, pbp := x.2.pbp, controllerOf := x.2.co,
           objects := x.2.obj, hashMatch := x.2.hm, terminating := x.2.dt,
           sliced := x.2.sl.getD [], sliceMissing := x.2.sm.getD false } : Rev)) = Prod.fst := by
      funext x; rfl
    rw [this, List.map_fst_zip]
    simp
  have hlen : (Pko.Drv.HistCommon.toRevs h.init).length = h.init.length := by
    have := congrArg List.length (hids h.init)
    simpa using this
  constructor
  · show ((Pko.Drv.HistCommon.toRevs h.init).map (·.id)).Nodup
    rw [hids]; exact List.nodup_range
  · intro r hr
    show r.id < (Pko.Drv.HistCommon.toRevs h.init).length
    have : r.id ∈ (Pko.Drv.HistCommon.toRevs h.init).map (·.id) := List.mem_map.mpr ⟨r, hr, rfl⟩
    rw [hids] at this
    rw [hlen]
    exact List.mem_range.mp this

/-- In a history: after any pass of a paused, un-gated ObjectDeployment every non-archived revision
in the store is Paused and marked — for every reachable state, i.e. whatever third parties did to
lifecycleState and annotation of any revision at any earlier point. -/
theorem hist_paused_pass_all_paused (s0 : State) (ops : List Op) (h0 : Inv s0) :
    let s := run s0 ops
    s.odPaused = true → gated s.revs = false →
      ∀ q ∈ (step s .od).revs, q.archived = false → Marked q := by
  intro s hp hg q hq hna
  have hinv : Inv s := run_inv ops h0
  have hspec := od_pause_marks_all_non_archived s.revs s.limit s.fin hinv.1 hg
  simp only [step, odOut, hp] at hq
  obtain ⟨r, hr, hrq⟩ := mem_applyWs.mp hq
  have hid := applyTo_id hrq
  cases ha : r.archived
  · exact hspec.2.2.1 r hr ha q hq hid
  · have := hspec.2.2.2 r hr ha q hq hid
    simp [Rev.archived, this] at hna

/-- Reading note (not flagged by the monitor): while a listed revision has not reported
`status.revision`, the pass does nothing at all — a pause of the parent reaches the revisions only
with the first pass after the number is reported (the ObjectSet controller assigns it in its first
reconcile). -/
theorem gated_pass_does_nothing (listing : List Rev) (odPaused : Bool) (limit : Option Int)
    (fin : Bool) (hg : gated listing = true) : osr listing odPaused limit fin = ([], false) :=
  osr_gated hg

/-- revision literal for the examples: name, revision, lifecycle, annotation -/
def rv (id : Nat) (rev : Int) (lc : Lifecycle) (pbp : Bool) (hm : Bool := false) : Rev :=
  { id := id, rev := rev, available := hm, statusPaused := lc == .paused, lc := lc, pbp := pbp,
    controllerOf := some [], objects := [id], hashMatch := hm }

/-- Non-vacuity, paused parent: an archived revision, a revision a third party set back to Active
while the annotation stayed (the interleaving of seed C09-1), a revision paused by someone else,
one that is marked already, and the current one: the pass re-asserts / takes over the pause of
1, 2 and 4, leaves 0 and 3 alone, and the hypotheses of `od_pause_marks_all_non_archived` hold. -/
example :
    let l := [rv 0 1 .archived false, rv 1 2 .active true, rv 2 3 .paused false, rv 3 4 .paused true,
              rv 4 5 .active false true]
    osr l true none true = ([.ppause 1, .ppause 2, .ppause 4], false) ∧ Names l ∧ gated l = false ∧
    (applyWs true (osr l true none true).1 l).map (fun r => (r.lc, r.pbp)) =
      [(.archived, false), (.paused, true), (.paused, true), (.paused, true), (.paused, true)] := by
  decide

/-- Non-vacuity, un-paused parent: only the marked revision 3 is released and loses the marker; the
foreign pause of 2 stays; the stale annotation on the Active revision 1 marks nothing. -/
example :
    let l := [rv 0 1 .archived false, rv 1 2 .active true, rv 2 3 .paused false, rv 3 4 .paused true,
              rv 4 5 .active false false]
    osr l false none true = ([.activate 3], false) ∧ Names l ∧ gated l = false ∧
    (applyWs true (osr l false none true).1 l).map (fun r => (r.lc, r.pbp)) =
      [(.archived, false), (.active, true), (.paused, false), (.active, false), (.active, false)] := by
  decide

/-- Reading note: a revision paused by a third party BEFORE the parent is paused is taken over by
the parent's pause (it gets the marker, `od_pause_marks_all_non_archived`) and is therefore released
when the parent is un-paused: pause → pass → un-pause → pass ends with revision 0 Active. -/
theorem foreign_pause_taken_over_witness :
    let s0 : State := { revs := [rv 0 1 .paused false true], next := 1, hi := 1, odPaused := false,
                        limit := none, fin := true }
    (run s0 [.pause true, .od, .pause false, .od]).revs.map (fun r => (r.lc, r.pbp)) = [(.active, false)] := by
  decide

/-- Reading note (not flagged by the monitor, which calls Paused + annotation "marked" however the
two came about): an un-paused parent never removes a STALE annotation.  Parent paused → revision
marked; a third party sets lifecycleState back to Active; the parent is un-paused before its next
pass: the pass writes nothing and the annotation stays on the Active revision.  When somebody later
pauses that revision on its own, the annotation makes it look parent-paused and the next pass of the
(un-paused) parent re-activates it. -/
theorem stale_marker_releases_later_foreign_pause_witness :
    let s0 : State := { revs := [rv 0 1 .active false true], next := 1, hi := 1, odPaused := false,
                        limit := none, fin := true }
    ((observe s0 [.pause true, .od, .edit 0 (some .active) none, .pause false, .od,
                  .edit 0 (some .paused) none, .od]).1.map
        (fun p => (p.pre.map (fun r => (r.lc, r.pbp)), p.writes, p.post.map (fun r => (r.lc, r.pbp)))))
      = [([(.active, false)], [.ppause 0], [(.paused, true)]),
         ([(.active, true)], [], [(.active, true)]),
         ([(.paused, true)], [.activate 0], [(.active, false)])] := by
  decide

end Pko.Props.C09
