import Pko.Lemmas.C10SetStatus
/-!
# C10 at the ObjectSet-controller level

`Pko.Props.C10` proves convergence for ONE phase (`reconcilePhase`).  This file lifts it to the
whole controller pass `Pko.Model.ObjectSet.reconcile` (finalizer, revision, all phases in order,
status derivation, status update) for an ObjectSet with LOCAL phases only (every `cls = ""`),
both owner strategies, an arbitrary `rm : Remotes` (never called), and no third-party operation
scheduled (`QuietSys`).  For EVERY store and every phase / object list (no size bounds):

* `clean_objectset_is_fixpoint` (T1) — "at that point further reconciles change nothing": the pass
  over a clean ObjectSet (`CleanSet`: every object settled and ready, stored status = derived
  status) changes neither any ObjectSet nor the store, and ends `.ok`.
* `repairable_objectset_pass` (T2, `reconcilePhases`) — from an all-`Mine` store the phases never
  end in an error; a prefix of the phases is processed, every object of it ends `Settled`, nothing
  else is touched; the pass stops early only at a phase with a failing probe, otherwise ALL objects
  are settled and ready.  `repairable_objectset_reconcile` is the same for the whole `reconcile`
  (result `.ok`, the ObjectSet keeps its spec, stays repairable, Available = "pass completed").
* `ready_pass_reaches_clean` / `two_passes_reach_clean` (T3) — once every object is settled and
  ready, ONE pass makes the ObjectSet clean (the status derivation is idempotent,
  `deriveConds_idem`), so the following pass is a no-op on ObjectSets and store.

Not covered here: delegated phases, several revisions (`previous` is only looked up, adoption
never happens because every object is absent or the owner's), archival / teardown.
-/
namespace Pko.Props.C10Set
open Pko.Kube Pko.Model.Phase Pko.Model.ObjectSet Pko.Model.Status
open Pko.Props.C10
open Pko.Lemmas.ObjectSet

/-- the stored object is what the owner wants it to be AND passes the availability probe. -/
def SettledReady (cfg : Cfg) (ow : Owner) (p : PObj) (st : Store) : Prop :=
  ∃ o, st.get (keyOf cfg ow p) = some o ∧ SettledObj cfg ow p o ∧ probeOk o = true

theorem SettledReady.settled {cfg ow p st} (h : SettledReady cfg ow p st) : Settled cfg ow p st := by
  obtain ⟨o, hg, ho, _⟩ := h; exact ⟨o, hg, ho⟩

theorem SettledReady.pass {cfg ow p st} (h : SettledReady cfg ow p st) : probePass cfg ow st p = true := by
  obtain ⟨o, hg, _, hp⟩ := h; simp only [probePass, hg, hp]

theorem settledReady_of {cfg ow p st} (hs : Settled cfg ow p st) (hp : probePass cfg ow st p = true) :
    SettledReady cfg ow p st := by
  obtain ⟨o, hg, ho⟩ := hs
  simp only [probePass, hg] at hp
  exact ⟨o, hg, ho, hp⟩

theorem settledReady_congr {cfg : Cfg} {ow : Owner} {p : PObj} {s s' : Store}
    (h : s'.get (keyOf cfg ow p) = s.get (keyOf cfg ow p)) (hs : SettledReady cfg ow p s) :
    SettledReady cfg ow p s' := by
  obtain ⟨o, hg, ho⟩ := hs
  exact ⟨o, by rw [h]; exact hg, ho⟩

/-- The ObjectSet `name` is stored as `mem` and is in the part of its life cycle where the pass
reconciles its phases without touching the ObjectSet's metadata: active, not being deleted,
finalizer present, revision assigned, not archived, no duplicate objects, local phases that pass
their preflight checks, store keys distinct across the whole ObjectSet. -/
structure SetOk (cfg : Cfg) (s : Sys) (name : String) (mem : OSet) : Prop where
  stored : s.sets name = some mem
  named : mem.name = name
  alive : mem.deleting = false
  active : mem.lifecycle = .active
  fin : mem.finCached = true
  rev : mem.revision ≠ 0
  notArchived : condTrue mem.conds "Archived" = false
  noDup : hasDuplicates mem.phases = false
  phases : PhasesOk cfg mem.owner mem.phases

/-- **Clean**: every object of every phase is settled for the ObjectSet's owner identity and
passes the probe, and the stored status is what a pass derives from that. -/
def CleanSet (cfg : Cfg) (s : Sys) (name : String) : Prop :=
  ∃ mem, SetOk cfg s name mem ∧
    (∀ ph ∈ mem.phases, ∀ p ∈ ph.objs, SettledReady cfg mem.owner p s.w.store) ∧
    finishMem s.w (deriveStatus mem (refsOf cfg mem.owner mem.phases) none) = mem

/-- **Ready**: like clean, but the stored status is arbitrary. -/
def ReadySet (cfg : Cfg) (s : Sys) (name : String) : Prop :=
  ∃ mem, SetOk cfg s name mem ∧
    ∀ ph ∈ mem.phases, ∀ p ∈ ph.objs, SettledReady cfg mem.owner p s.w.store

/-- **Repairable**: every object of every phase is absent or controlled by the ObjectSet, with
arbitrary drift; the stored status is arbitrary. -/
def RepairableSet (cfg : Cfg) (s : Sys) (name : String) : Prop :=
  ∃ mem, SetOk cfg s name mem ∧
    ∀ ph ∈ mem.phases, ∀ p ∈ ph.objs, Mine cfg mem.owner p s.w.store

theorem CleanSet.ready {cfg s name} (h : CleanSet cfg s name) : ReadySet cfg s name := by
  obtain ⟨mem, h1, h2, _⟩ := h; exact ⟨mem, h1, h2⟩

theorem ReadySet.repairable {cfg s name} (h : ReadySet cfg s name) : RepairableSet cfg s name := by
  obtain ⟨mem, h1, h2⟩ := h
  exact ⟨mem, h1, fun ph hph p hp => settled_mine (h2 ph hph p hp).settled⟩

/-- `b` is `a` with another status (conditions, controllerOf) and resourceVersion. -/
def SameSpec (a b : OSet) : Prop :=
  ∃ cs co rv, b = { a with conds := cs, controllerOf := co, rv := rv }

/-! ### the pass, given the outcome of the phases -/

theorem afterStatus_snd_ok (x : Sys × Except ApiErr OSet) (r : Res) (m : OSet) (h : x.2 = .ok m) :
    (afterStatus x r).2 = r := by
  obtain ⟨s, e⟩ := x; simp only at h; subst h; rfl

/-- The controller pass for an ObjectSet in the `SetOk` part of its life cycle, once the phases
ended without error (`co`, `failing`) in world `w1`: finalizer and revision handling change
nothing, the derived status is written (the write goes through), managed objects are as the phases
left them. -/
theorem reconcile_local (cfg : Cfg) (rm : Remotes) (name : String) (s : Sys) (mem : OSet)
    (hq : QuietSys s) (hok : SetOk cfg s name mem) (w1 : World) (co : List CRef) (failing : Option String)
    (he : reconcilePhases cfg mem.owner (lookupPrev s mem) (rm.recon mem) mem.phases s.w [] = (w1, .ok (co, failing)))
    (hk : Kept s.w w1) :
    (reconcile cfg rm name s).2 = .ok ∧ QuietSys (reconcile cfg rm name s).1 ∧
    (reconcile cfg rm name s).1.w.phases = s.w.phases ∧
    (∀ k, (reconcile cfg rm name s).1.w.store.get k = w1.store.get k) ∧
    (∃ rv', (reconcile cfg rm name s).1.sets name =
        some { finishMem s.w (deriveStatus mem co failing) with rv := rv' }) ∧
    (∀ n, n ≠ name → (reconcile cfg rm name s).1.sets n = s.sets n) ∧
    (finishMem s.w (deriveStatus mem co failing) = mem →
      (reconcile cfg rm name s).1.sets = s.sets ∧ (reconcile cfg rm name s).1.w.store = w1.store) := by
  have hrec : reconcile cfg rm name s = activePhasesCore cfg rm s mem := by
    simp only [reconcile, hok.stored, hok.notArchived, hok.alive, hok.active,
      setFinalizer_noop s mem true hok.fin, revisionStep_noop s mem hok.rev]
    simp [activePhases, beforePhases_local rm mem s.w hok.phases.localOnly]
  have hr1 : w1.remoteRefs = [] := hk.2.2.trans hq.refs
  rw [hrec, activePhases_ok cfg rm s mem w1 co failing hok.noDup hok.phases.localOnly he hr1]
  simp only [finish]
  have hfm : finishMem { w1 with remoteRefs := [] } (deriveStatus mem co failing) =
      finishMem s.w (deriveStatus mem co failing) := finishMem_congr _ _ _ hk.2.1
  simp only [hfm]
  generalize hm : finishMem s.w (deriveStatus mem co failing) = m
  have hagree : statusOf m mem = m := by rw [← hm]; exact finishMem_derive_agree s.w mem co failing
  have hname : m.name = name := by
    rw [← hm, (finishMem_fields s.w _).2.1]; exact hok.named
  have hdel : m.deleting = false := by
    have := congrArg OSet.deleting hagree
    simp only [statusOf] at this
    rw [← this]; exact hok.alive
  obtain ⟨⟨m', hm'⟩, h1, h2, h3, h4, h5, h6⟩ := updateStatus_quiet
    ({ s with w := { w1 with remoteRefs := [] } } : Sys) m mem hq.sets
    (by rw [hname]; exact hok.stored) hagree hdel
  have h4' : ∃ rv', (({ s with w := { w1 with remoteRefs := [] } } : Sys).updateStatus m).1.sets name =
      some { m with rv := rv' } := by
    obtain ⟨rv', h⟩ := h4
    exact ⟨rv', by rw [← hname]; exact h⟩
  rw [hname] at h5
  refine ⟨afterStatus_snd_ok _ _ m' hm', ?_, ?_, ?_, ?_, ?_, ?_⟩
  · rw [afterStatus_fst]
    exact ⟨h1, by rw [h2.1]; exact hk.1.trans hq.objs, by rw [h2.2.2]⟩
  · rw [afterStatus_fst, h2.2.1]; exact hk.2.1
  · intro k; rw [afterStatus_fst]; exact h3 k
  · rw [afterStatus_fst]; exact h4'
  · rw [afterStatus_fst]; exact h5
  · intro hmm; rw [afterStatus_fst]; exact h6 hmm

/-! ### T1 -/

/-- **T1 — a reconcile of a clean ObjectSet changes nothing.**  "At that point further reconciles
change nothing", for the whole controller pass: neither the ObjectSet (spec, status,
resourceVersion), nor any other ObjectSet, nor any managed object (the store as a whole, including
its counters) changes, and the pass ends `.ok`. -/
theorem clean_objectset_is_fixpoint (cfg : Cfg) (rm : Remotes) (name : String) (s : Sys)
    (hq : QuietSys s) (hc : CleanSet cfg s name) :
    (reconcile cfg rm name s).2 = .ok ∧
    (reconcile cfg rm name s).1.sets = s.sets ∧
    (reconcile cfg rm name s).1.w.store = s.w.store := by
  obtain ⟨mem, hok, hobj, hstat⟩ := hc
  obtain ⟨w1, he, hst, hk⟩ := phases_fixpoint cfg mem.owner (lookupPrev s mem) (rm.recon mem) mem.phases s.w []
    hq.objs hok.phases (fun ph hph p hp => (hobj ph hph p hp).settled) (fun ph hph p hp => (hobj ph hph p hp).pass)
  rw [List.nil_append] at he
  obtain ⟨h1, _, _, _, _, _, h7⟩ := reconcile_local cfg rm name s mem hq hok w1 _ none he hk
  obtain ⟨h8, h9⟩ := h7 hstat
  exact ⟨h1, h8, h9.trans hst⟩

/-! ### T2 -/

/-- **T2 — one pass over the phases of a repairable ObjectSet.**  From a store in which every
object of every (local) phase is absent or controlled by the owner, with arbitrary drift:
`reconcilePhases` never returns an error (no preflight, collision or other error); it processes a
prefix `done` of the phases and leaves every object of these phases `Settled`; it touches no key
outside the processed phases (hence none outside the ObjectSet's phases, and none of the phases
`rest` it did not reach); and it stops before `rest` only because a stored object of the last
processed phase fails its probe (result `some phaseName`) — otherwise it completes (result
`none`) and ALL objects are settled and ready.  (Probes read `ready` / `obsGen`, which workloads
and third parties set: readiness is not assumed.) -/
theorem repairable_objectset_pass (cfg : Cfg) (ow : Owner) (prev : List Prev)
    (remote : PhaseSpec → World → World × Except PassErr (List CRef × Bool))
    (phs : List PhaseSpec) (w : World) (acc : List CRef)
    (hq : Quiet w) (hok : PhasesOk cfg ow phs)
    (hm : ∀ ph ∈ phs, ∀ p ∈ ph.objs, Mine cfg ow p w.store) :
    (∀ e, (reconcilePhases cfg ow prev remote phs w acc).2 ≠ .error e) ∧
    Quiet (reconcilePhases cfg ow prev remote phs w acc).1 ∧
    (∀ k', k' ∉ phaseKeys cfg ow phs →
      (reconcilePhases cfg ow prev remote phs w acc).1.store.get k' = w.store.get k') ∧
    ∃ done rest, phs = done ++ rest ∧
      (∀ ph ∈ done, ∀ p ∈ ph.objs, Settled cfg ow p (reconcilePhases cfg ow prev remote phs w acc).1.store) ∧
      (∀ k', k' ∉ phaseKeys cfg ow done →
        (reconcilePhases cfg ow prev remote phs w acc).1.store.get k' = w.store.get k') ∧
      ((rest = [] ∧
        (reconcilePhases cfg ow prev remote phs w acc).2 = .ok (acc ++ refsOf cfg ow phs, none) ∧
        ∀ ph ∈ phs, ∀ p ∈ ph.objs,
          SettledReady cfg ow p (reconcilePhases cfg ow prev remote phs w acc).1.store) ∨
       (∃ pre ph, done = pre ++ [ph] ∧
        (reconcilePhases cfg ow prev remote phs w acc).2 = .ok (acc ++ refsOf cfg ow done, some ph.name) ∧
        ∃ p ∈ ph.objs, ∃ o,
          (reconcilePhases cfg ow prev remote phs w acc).1.store.get (keyOf cfg ow p) = some o ∧
          probeOk o = false)) := by
  obtain ⟨done, rest, sh⟩ := phases_repair cfg ow prev remote phs w acc hq hok hm
  have hframe : ∀ k', k' ∉ phaseKeys cfg ow phs →
      (reconcilePhases cfg ow prev remote phs w acc).1.store.get k' = w.store.get k' := by
    intro k' hk'
    apply sh.frame
    intro hc
    apply hk'
    rw [sh.split, phaseKeys_append]
    exact List.mem_append_left _ hc
  refine ⟨?_, sh.kept.quiet hq, hframe, done, rest, sh.split, sh.settled, sh.frame, ?_⟩
  · intro e
    rcases sh.outcome with ⟨_, _, hr⟩ | ⟨_, _, _, _, _, hr⟩ <;> rw [hr] <;> exact fun h => nomatch h
  · rcases sh.outcome with ⟨hr, hall, hres⟩ | ⟨pre, ph, hd, _, ⟨p, hp, hpp⟩, hres⟩
    · have hphs : phs = done := by rw [sh.split, hr, List.append_nil]
      refine Or.inl ⟨hr, by rw [hres, hphs], ?_⟩
      intro x hx q hq2
      rw [hphs] at hx
      exact settledReady_of (sh.settled x hx q hq2) (hall x hx q hq2)
    · refine Or.inr ⟨pre, ph, hd, hres, p, hp, ?_⟩
      obtain ⟨o, hg, _⟩ := sh.settled ph (by rw [hd]; simp) p hp
      refine ⟨o, hg, ?_⟩
      simpa only [probePass, hg] using hpp

/-! ### status bookkeeping across a pass -/

theorem deriveConds_condTrue_other (cs : List Cond) (trans : Bool) (gen : Nat) (failing : Option String)
    (pop : Op) (t : String) (h1 : "InTransition" ≠ t) (h2 : "Available" ≠ t) (h3 : "Succeeded" ≠ t)
    (h4 : pop.type ≠ t) :
    condTrue (deriveConds cs trans gen failing pop) t = condTrue cs t := by
  simp only [deriveConds]
  rw [Op.condTrue_other _ pop t h4]
  have hs : ∀ c, condTrue (succConds c gen trans failing) t = condTrue c t := by
    intro c
    rcases succConds_cases c gen trans failing with ⟨e, _⟩ | ⟨e, _⟩
    · rw [e]
    · rw [e]; exact Op.condTrue_other _ _ t (by rw [succOp_type]; exact h3)
  rw [hs, Op.condTrue_other _ _ t (by rw [availOp_type]; exact h2),
    Op.condTrue_other _ _ t (by rw [transOp_type]; exact h1)]

/-- the status write keeps the ObjectSet in the `SetOk` part of its life cycle. -/
theorem setOk_after (cfg : Cfg) (s s' : Sys) (name : String) (mem : OSet) (co : List CRef)
    (failing : Option String) (rv' : Nat) (hok : SetOk cfg s name mem)
    (hs : s'.sets name = some { finishMem s.w (deriveStatus mem co failing) with rv := rv' }) :
    SetOk cfg s' name { finishMem s.w (deriveStatus mem co failing) with rv := rv' } ∧
    ({ finishMem s.w (deriveStatus mem co failing) with rv := rv' } : OSet).owner = mem.owner ∧
    ({ finishMem s.w (deriveStatus mem co failing) with rv := rv' } : OSet).phases = mem.phases ∧
    SameSpec mem { finishMem s.w (deriveStatus mem co failing) with rv := rv' } := by
  have harch : condTrue (finishMem s.w (deriveStatus mem co failing)).conds "Archived" = false := by
    rw [finish_derive_conds, deriveConds_condTrue_other _ _ _ _ _ _ (by decide) (by decide) (by decide)
      (by rw [pausedOp_type]; decide)]
    exact hok.notArchived
  have hspec : SameSpec mem { finishMem s.w (deriveStatus mem co failing) with rv := rv' } :=
    ⟨(finishMem s.w (deriveStatus mem co failing)).conds, co, rv', by rw [finishMem_eq]; rfl⟩
  have howner : ({ finishMem s.w (deriveStatus mem co failing) with rv := rv' } : OSet).owner = mem.owner := by
    rw [finishMem_eq]; rfl
  have hph : ({ finishMem s.w (deriveStatus mem co failing) with rv := rv' } : OSet).phases = mem.phases := by
    rw [finishMem_eq]; rfl
  refine ⟨?_, howner, hph, hspec⟩
  exact {
    stored := hs
    named := by
      have : (finishMem s.w (deriveStatus mem co failing)).name = mem.name := (finishMem_fields s.w _).2.1
      exact this.trans hok.named
    alive := by
      have : ({ finishMem s.w (deriveStatus mem co failing) with rv := rv' } : OSet).deleting = mem.deleting := by
        rw [finishMem_eq]; rfl
      exact this.trans hok.alive
    active := by
      have : ({ finishMem s.w (deriveStatus mem co failing) with rv := rv' } : OSet).lifecycle = mem.lifecycle := by
        rw [finishMem_eq]; rfl
      exact this.trans hok.active
    fin := by
      have : ({ finishMem s.w (deriveStatus mem co failing) with rv := rv' } : OSet).finCached = mem.finCached := by
        rw [finishMem_eq]; rfl
      exact this.trans hok.fin
    rev := by
      have : ({ finishMem s.w (deriveStatus mem co failing) with rv := rv' } : OSet).revision = mem.revision := by
        rw [finishMem_eq]; rfl
      rw [this]; exact hok.rev
    notArchived := harch
    noDup := by rw [hph]; exact hok.noDup
    phases := by rw [howner, hph]; exact hok.phases }

/-- **T2 for the whole controller pass.**  From a repairable ObjectSet the pass ends `.ok`; the
ObjectSet keeps its spec (`SameSpec`) and is repairable again (so is every later state: the
hypothesis is an invariant of the pass); a prefix `done` of the phases is processed and all its
objects are settled; nothing outside is touched; and the pass reports Available exactly when it
got through all phases — otherwise it stopped at a phase with a failing probe. -/
theorem repairable_objectset_reconcile (cfg : Cfg) (rm : Remotes) (name : String) (s : Sys)
    (hq : QuietSys s) (hr : RepairableSet cfg s name) :
    (reconcile cfg rm name s).2 = .ok ∧ QuietSys (reconcile cfg rm name s).1 ∧
    RepairableSet cfg (reconcile cfg rm name s).1 name ∧
    (∀ n, n ≠ name → (reconcile cfg rm name s).1.sets n = s.sets n) ∧
    ∃ mem mem' done rest, s.sets name = some mem ∧ (reconcile cfg rm name s).1.sets name = some mem' ∧
      SameSpec mem mem' ∧ mem.phases = done ++ rest ∧
      (∀ ph ∈ done, ∀ p ∈ ph.objs, Settled cfg mem.owner p (reconcile cfg rm name s).1.w.store) ∧
      (∀ k', k' ∉ phaseKeys cfg mem.owner done →
        (reconcile cfg rm name s).1.w.store.get k' = s.w.store.get k') ∧
      ((rest = [] ∧ condTrue mem'.conds "Available" = true ∧
        ∀ ph ∈ mem.phases, ∀ p ∈ ph.objs, SettledReady cfg mem.owner p (reconcile cfg rm name s).1.w.store) ∨
       (∃ pre ph, done = pre ++ [ph] ∧ condTrue mem'.conds "Available" = false ∧
        ∃ p ∈ ph.objs, ∃ o, (reconcile cfg rm name s).1.w.store.get (keyOf cfg mem.owner p) = some o ∧
          probeOk o = false)) := by
  obtain ⟨mem, hok, hmine⟩ := hr
  obtain ⟨hne, hquiet, hframeAll, done, rest, hsplit, hsett, hframe, hout⟩ :=
    repairable_objectset_pass cfg mem.owner (lookupPrev s mem) (rm.recon mem) mem.phases s.w [] hq.objs hok.phases hmine
  obtain ⟨done', rest', sh⟩ := phases_repair cfg mem.owner (lookupPrev s mem) (rm.recon mem) mem.phases s.w []
    hq.objs hok.phases hmine
  -- the outcome of the phases as a pair
  cases hres : reconcilePhases cfg mem.owner (lookupPrev s mem) (rm.recon mem) mem.phases s.w [] with
  | mk w1 pr =>
    rw [hres] at hne hquiet hframeAll hsett hframe hout
    have hk : Kept s.w w1 := by have := sh.kept; rw [hres] at this; exact this
    simp only at hne hquiet hframeAll hsett hframe hout
    cases pr with
    | error e => exact absurd rfl (hne e)
    | ok x =>
      obtain ⟨co, failing⟩ := x
      obtain ⟨h1, h2, _, h4, ⟨rv', h5⟩, h6, _⟩ := reconcile_local cfg rm name s mem hq hok w1 co failing hres hk
      obtain ⟨hok', howner, hph, hspec⟩ := setOk_after cfg s _ name mem co failing rv' hok h5
      -- every object of the ObjectSet is still absent or the owner's
      have hmine' : ∀ ph ∈ mem.phases, ∀ p ∈ ph.objs, Mine cfg mem.owner p w1.store := by
        intro ph hph2 p hp
        by_cases hd : keyOf cfg mem.owner p ∈ phaseKeys cfg mem.owner done
        · simp only [phaseKeys, List.mem_map, List.mem_flatMap] at hd
          obtain ⟨q, ⟨ph', hph', hq'⟩, hkq⟩ := hd
          have := settled_mine (hsett ph' hph' q hq')
          simpa only [Mine, hkq] using this
        · exact mine_congr (hframe _ hd) (hmine ph hph2 p hp)
      have havail : condTrue (finishMem s.w (deriveStatus mem co failing)).conds "Available" = failing.isNone := by
        rw [finishMem_condTrue_other _ _ _ (by decide)]; exact deriveStatus_available mem co failing
      refine ⟨h1, h2, ⟨_, hok', ?_⟩, h6, mem, _, done, rest, hok.stored, h5, hspec, hsplit, ?_, ?_, ?_⟩
      · intro ph hph2 p hp
        rw [howner]; rw [hph] at hph2
        exact mine_congr (h4 _) (hmine' ph hph2 p hp)
      · intro ph hph2 p hp
        exact settled_congr (h4 _) (hsett ph hph2 p hp)
      · intro k' hk'
        rw [h4 k']; exact hframe k' hk'
      · rcases hout with ⟨hr, hpr, hall⟩ | ⟨pre, ph, hd, hpr, p, hp, o, hg, hpo⟩
        · refine Or.inl ⟨hr, ?_, ?_⟩
          · have : failing = none := by
              have := congrArg (fun r : PhasesRes => match r with | .ok x => x.2 | .error _ => none) hpr
              simpa using this
            show condTrue (finishMem s.w (deriveStatus mem co failing)).conds "Available" = true
            rw [havail, this]; rfl
          · intro ph hph2 p hp
            exact settledReady_congr (h4 _) (hall ph hph2 p hp)
        · refine Or.inr ⟨pre, ph, hd, ?_, p, hp, o, by rw [h4]; exact hg, hpo⟩
          have : failing = some ph.name := by
            have := congrArg (fun r : PhasesRes => match r with | .ok x => x.2 | .error _ => none) hpr
            simpa using this
          show condTrue (finishMem s.w (deriveStatus mem co failing)).conds "Available" = false
          rw [havail, this]; rfl

/-! ### T3 -/

/-- the status the pass derives, derived again from its own result (whatever resourceVersion the
write assigned), is that result. -/
theorem status_idem (w : World) (mem : OSet) (co : List CRef) (failing : Option String) (r : Nat) :
    finishMem w (deriveStatus { finishMem w (deriveStatus mem co failing) with rv := r } co failing) =
      { finishMem w (deriveStatus mem co failing) with rv := r } := by
  generalize hx : ({ finishMem w (deriveStatus mem co failing) with rv := r } : OSet) = x
  have hxc : x.conds = (finishMem w (deriveStatus mem co failing)).conds := by rw [← hx]
  have hxco : x.controllerOf = co := by rw [← hx, finishMem_eq]; rfl
  have hxg : x.gen = mem.gen := by rw [← hx, finishMem_eq]; rfl
  have hxt : inTransition { x with controllerOf := co } co = inTransition { mem with controllerOf := co } co := by
    rw [← hx, finishMem_eq]; rfl
  have hxp : pausedOp w x = pausedOp w mem := by rw [← hx, finishMem_eq]; rfl
  have hconds : (finishMem w (deriveStatus x co failing)).conds = x.conds := by
    rw [finish_derive_conds, hxt, hxg, hxp, hxc, finish_derive_conds]
    exact deriveConds_idem _ _ _ _ _ (pausedOp_type w mem)
  have hshape : finishMem w (deriveStatus x co failing) =
      { x with controllerOf := co, conds := (finishMem w (deriveStatus x co failing)).conds } := by
    rw [finishMem_eq]; rfl
  rw [hshape, hconds, ← hxco]

/-- **T3a — one pass over a ready ObjectSet makes it clean.**  If every object is settled and
ready (e.g. after the repairing pass of T2 and after the workloads became ready), whatever status
the ObjectSet carries: the pass ends `.ok`, changes no managed object, and afterwards the ObjectSet
is clean — its stored status is the fixpoint of the status derivation. -/
theorem ready_pass_reaches_clean (cfg : Cfg) (rm : Remotes) (name : String) (s : Sys)
    (hq : QuietSys s) (hr : ReadySet cfg s name) :
    (reconcile cfg rm name s).2 = .ok ∧ QuietSys (reconcile cfg rm name s).1 ∧
    CleanSet cfg (reconcile cfg rm name s).1 name ∧
    (∀ k, (reconcile cfg rm name s).1.w.store.get k = s.w.store.get k) ∧
    (∀ n, n ≠ name → (reconcile cfg rm name s).1.sets n = s.sets n) := by
  obtain ⟨mem, hok, hobj⟩ := hr
  obtain ⟨w1, he, hst, hk⟩ := phases_fixpoint cfg mem.owner (lookupPrev s mem) (rm.recon mem) mem.phases s.w []
    hq.objs hok.phases (fun ph hph p hp => (hobj ph hph p hp).settled) (fun ph hph p hp => (hobj ph hph p hp).pass)
  rw [List.nil_append] at he
  obtain ⟨h1, h2, h3, h4, ⟨rv', h5⟩, h6, _⟩ := reconcile_local cfg rm name s mem hq hok w1 _ none he hk
  obtain ⟨hok', howner, hph, _⟩ := setOk_after cfg s _ name mem _ none rv' hok h5
  have hget : ∀ k, (reconcile cfg rm name s).1.w.store.get k = s.w.store.get k := by
    intro k; rw [h4 k, hst]
  refine ⟨h1, h2, ⟨_, hok', ?_, ?_⟩, hget, h6⟩
  · intro ph hph2 p hp
    rw [howner]; rw [hph] at hph2
    exact settledReady_congr (hget _) (hobj ph hph2 p hp)
  · rw [howner, hph, finishMem_congr s.w _ _ h3]
    exact status_idem s.w mem _ none rv'

/-- **T3 — two passes reach the fixpoint.**  From a ready ObjectSet (arbitrary stored status): the
first pass makes it clean, the second pass changes neither any ObjectSet nor the store. -/
theorem two_passes_reach_clean (cfg : Cfg) (rm : Remotes) (name : String) (s : Sys)
    (hq : QuietSys s) (hr : ReadySet cfg s name) :
    let s1 := (reconcile cfg rm name s).1
    let s2 := (reconcile cfg rm name s1).1
    CleanSet cfg s1 name ∧ (reconcile cfg rm name s1).2 = .ok ∧ s2.sets = s1.sets ∧ s2.w.store = s1.w.store := by
  intro s1 s2
  obtain ⟨_, hq1, hc1, _, _⟩ := ready_pass_reaches_clean cfg rm name s hq hr
  exact ⟨hc1, clean_objectset_is_fixpoint cfg rm name s1 hq1 hc1⟩

/-- **The chain for a repairable ObjectSet whose workloads are (or become) ready**: if the
repairing pass got through all phases (Available), then the ObjectSet is ready, the next pass makes
it clean and the one after that is a no-op. -/
theorem repair_then_clean (cfg : Cfg) (rm : Remotes) (name : String) (s : Sys)
    (hq : QuietSys s) (hr : RepairableSet cfg s name)
    (hav : ∀ m, (reconcile cfg rm name s).1.sets name = some m → condTrue m.conds "Available" = true) :
    let s1 := (reconcile cfg rm name s).1
    let s2 := (reconcile cfg rm name s1).1
    let s3 := (reconcile cfg rm name s2).1
    ReadySet cfg s1 name ∧ CleanSet cfg s2 name ∧ s3.sets = s2.sets ∧ s3.w.store = s2.w.store := by
  intro s1 s2 s3
  obtain ⟨_, hq1, ⟨m1, hok1, _⟩, _, mem, mem', done, rest, hs, hs', hspec, _, _, _, hout⟩ :=
    repairable_objectset_reconcile cfg rm name s hq hr
  have hready : ReadySet cfg s1 name := by
    rcases hout with ⟨_, _, hall⟩ | ⟨_, _, _, hfalse, _⟩
    · have hm : m1 = mem' := by
        have := hok1.stored.symm.trans hs'
        exact Option.some.inj this
      obtain ⟨cs, co, rv, hm'⟩ := hspec
      refine ⟨m1, hok1, ?_⟩
      have howner : m1.owner = mem.owner := by rw [hm, hm']; rfl
      have hph : m1.phases = mem.phases := by rw [hm, hm']
      rw [howner, hph]
      exact hall
    · rw [hav mem' hs'] at hfalse; exact absurd hfalse (by decide)
  obtain ⟨hc2, _, h3, h4⟩ := two_passes_reach_clean cfg rm name s1 hq1 hready
  exact ⟨hready, hc2, h3, h4⟩

/-! ### non-vacuity -/

def exCfg : Cfg := { st := .native, flavour := ⟨true, true, true⟩, scope := fun _ => .namespaced, force := false }
def exP : PObj := { kind := "NsThing", ns := "", name := "a", cp := .prevent, payload := "x", presetOwnerRef := false, dryRun := .accept }
def exQ : PObj := { kind := "NsThing", ns := "", name := "b", cp := .prevent, payload := "y", presetOwnerRef := false, dryRun := .accept }

/-- an active ObjectSet with two local phases whose stored status is the derived one. -/
def exSet : OSet :=
  { kind := "ObjectSet", ns := "ns1", name := "os1", uid := "u1", gen := 2, rv := 7, deleting := false
    finCached := true, finOrphan := false, pkgLabel := "pkg", lifecycle := .active
    phases := [⟨"one", "", [exP]⟩, ⟨"two", "", [exQ]⟩], previous := [], revision := 3
    conds := [⟨"Available", "True", "Available", 2, ""⟩, ⟨"Succeeded", "True", "RolloutSuccess", 2, ""⟩]
    controllerOf := [⟨"NsThing", "ns1", "a"⟩, ⟨"NsThing", "ns1", "b"⟩], remotePhases := [] }

/-- the same ObjectSet before its first pass: no status yet. -/
def exFresh : OSet := { exSet with conds := [], controllerOf := [] }

def exObj (uid : Nat) (payload : String) : Obj :=
  { uid := uid, rv := uid, gen := 1, owners := [exSet.owner.ref true], annOwners := [], rev := Rev.num 3
    cacheLabel := true, pkgLabel := "pkg", payload := payload, ready := true, obsGen := some 1
    finalizer := false, deleting := false }

/-- a drifted object: controlled by the ObjectSet, wrong payload, stale revision, labels gone, not ready. -/
def exDrifted : Obj :=
  { uid := 1, rv := 1, gen := 1, owners := [exSet.owner.ref true], annOwners := [], rev := Rev.num 1
    cacheLabel := false, pkgLabel := "", payload := "drift", ready := false, obsGen := none
    finalizer := false, deleting := false }

def exStore : Store :=
  { objs := fun k => if k = keyOf exCfg exSet.owner exP then some (exObj 1 "x")
                     else if k = keyOf exCfg exSet.owner exQ then some (exObj 2 "y") else none
    nextUID := 3, nextRV := 8 }

def exDriftStore : Store :=
  { objs := fun k => if k = keyOf exCfg exSet.owner exP then some exDrifted else none, nextUID := 2, nextRV := 8 }

def exSys (st : Store) (o : OSet) : Sys :=
  { w := { store := st, writes := 0, env := [], events := [] }
    sets := fun n => if n = "os1" then some o else none
    setEvents := [], freed := [], setWrites := 0, setEnv := [] }

theorem exQuiet (st : Store) (o : OSet) : QuietSys (exSys st o) := ⟨rfl, rfl, rfl⟩

theorem exPhasesOk : PhasesOk exCfg exSet.owner exSet.phases := by
  refine ⟨?_, ?_, ?_, by decide +kernel⟩
  · intro ph hph
    simp only [exSet, List.mem_cons, List.mem_nil_iff, or_false] at hph
    rcases hph with rfl | rfl <;> rfl
  · intro ph hph
    simp only [exSet, List.mem_cons, List.mem_nil_iff, or_false] at hph
    rcases hph with rfl | rfl <;> decide +kernel
  · intro ph hph p hp
    simp only [exSet, List.mem_cons, List.mem_nil_iff, or_false] at hph
    rcases hph with rfl | rfl <;>
      (simp only [List.mem_cons, List.mem_nil_iff, or_false] at hp; subst hp; exact ⟨rfl, by decide +kernel⟩)

theorem exSetOk (st : Store) : SetOk exCfg (exSys st exSet) "os1" exSet where
  stored := rfl
  named := rfl
  alive := rfl
  active := rfl
  fin := rfl
  rev := by decide
  notArchived := by decide +kernel
  noDup := by decide +kernel
  phases := exPhasesOk

theorem exFreshOk (st : Store) : SetOk exCfg (exSys st exFresh) "os1" exFresh where
  stored := rfl
  named := rfl
  alive := rfl
  active := rfl
  fin := rfl
  rev := by decide
  notArchived := by decide +kernel
  noDup := by decide +kernel
  phases := exPhasesOk

/-- the hypotheses of T1 are satisfiable: a two-phase ObjectSet, both objects settled and ready,
status Available / Succeeded with both objects in `controllerOf`. -/
example : QuietSys (exSys exStore exSet) ∧ CleanSet exCfg (exSys exStore exSet) "os1" := by
  refine ⟨exQuiet _ _, exSet, exSetOk _, ?_, by decide +kernel⟩
  intro ph hph p hp
  simp only [exSet, List.mem_cons, List.mem_nil_iff, or_false] at hph
  rcases hph with rfl | rfl <;>
    (simp only [List.mem_cons, List.mem_nil_iff, or_false] at hp; subst hp)
  · exact ⟨exObj 1 "x", by decide +kernel,
      ⟨by decide +kernel, rfl, rfl, rfl, Or.inr rfl, by intro h; exact absurd h (by decide),
        by simp [UidsDistinct, exObj], rfl⟩, by decide +kernel⟩
  · exact ⟨exObj 2 "y", by decide +kernel,
      ⟨by decide +kernel, rfl, rfl, rfl, Or.inr rfl, by intro h; exact absurd h (by decide),
        by simp [UidsDistinct, exObj], rfl⟩, by decide +kernel⟩

/-- the hypotheses of T2 are satisfiable by a non-trivial state: no status yet, one object
drifted in every managed field and not ready, the other absent. -/
example : QuietSys (exSys exDriftStore exFresh) ∧ RepairableSet exCfg (exSys exDriftStore exFresh) "os1" := by
  refine ⟨exQuiet _ _, exFresh, exFreshOk _, ?_⟩
  intro ph hph p hp
  simp only [exFresh, exSet, List.mem_cons, List.mem_nil_iff, or_false] at hph
  rcases hph with rfl | rfl <;>
    (simp only [List.mem_cons, List.mem_nil_iff, or_false] at hp; subst hp)
  · exact Or.inr ⟨exDrifted, by decide +kernel, by decide +kernel, by simp [UidsDistinct, exDrifted], rfl⟩
  · exact Or.inl (by decide +kernel)

/-- the hypotheses of T3 are satisfiable: objects settled and ready, no status yet. -/
example : QuietSys (exSys exStore exFresh) ∧ ReadySet exCfg (exSys exStore exFresh) "os1" := by
  refine ⟨exQuiet _ _, exFresh, exFreshOk _, ?_⟩
  intro ph hph p hp
  simp only [exFresh, exSet, List.mem_cons, List.mem_nil_iff, or_false] at hph
  rcases hph with rfl | rfl <;>
    (simp only [List.mem_cons, List.mem_nil_iff, or_false] at hp; subst hp)
  · exact ⟨exObj 1 "x", by decide +kernel,
      ⟨by decide +kernel, rfl, rfl, rfl, Or.inr rfl, by intro h; exact absurd h (by decide),
        by simp [UidsDistinct, exObj], rfl⟩, by decide +kernel⟩
  · exact ⟨exObj 2 "y", by decide +kernel,
      ⟨by decide +kernel, rfl, rfl, rfl, Or.inr rfl, by intro h; exact absurd h (by decide),
        by simp [UidsDistinct, exObj], rfl⟩, by decide +kernel⟩

/-- and the model really behaves like that on these states (a test of the statements, not a
proof of anything general): the pass over the fresh, ready ObjectSet writes exactly the status
`exSet` carries; the pass over the drifted state stops at phase "one" (its object is not ready)
with the drift repaired. -/
example :
    ((reconcile exCfg ⟨fun _ _ w => (w, .error .other), fun _ _ w => (w, .err), fun _ _ w => w⟩ "os1" (exSys exStore exFresh)).1.sets "os1").map
        (fun o => (o.conds, o.controllerOf)) = some (exSet.conds, exSet.controllerOf) ∧
    (let s1 := (reconcile exCfg ⟨fun _ _ w => (w, .error .other), fun _ _ w => (w, .err), fun _ _ w => w⟩ "os1" (exSys exDriftStore exFresh)).1
     (s1.w.store.get (keyOf exCfg exSet.owner exP)).map (fun o => (o.payload, o.rev, o.cacheLabel)) = some ("x", .num 3, true) ∧
     s1.w.store.get (keyOf exCfg exSet.owner exQ) = none ∧
     (s1.sets "os1").map (fun o => findCond o.conds "Available") =
       some (some ⟨"Available", "False", "ProbeFailure", 2, "one"⟩)) := by
  decide +kernel

end Pko.Props.C10Set
