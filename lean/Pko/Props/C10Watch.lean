/-
C10 — "process restart losing all in-memory state incl. the dynamic cache".

The dynamic cache (`internal/dynamiccache.Cache`) answers `CacheNotStartedError` to every read of
a kind nobody called `Watch` for IN THIS PROCESS (`World.started`, model of
`_, ok := c.informerReferences[gvk]`).  A restart empties the registrations (`World.restart`),
`Free(owner)` drops those of one owner (`World.free`).  The theorems below say that the phase
reconciler is immune to that: every read it does through the cache is preceded, in the same step,
by `Watch` for the same kind — on the paused path too — so that for EVERY world (= every state any
schedule of passes, restarts, crashes and teardowns of other owners can lead to) no step fails
for lack of a registration, and every step leaves the registration behind.  Core Lean only.
-/
import Pko.Model.Converge
import Pko.Lemmas.Watch

namespace Pko.Props.C10Watch
open Pko.Kube Pko.Model.Phase Pko.Model.ObjectSet Pko.Model.Converge

/-- the one way a step can fail before it looks at the cluster: `SetControllerReference` refuses a
cross-namespace owner (native strategy). -/
def NsRefused (cfg : Cfg) (ow : Owner) (p : PObj) : Prop :=
  cfg.st = .native ∧ ow.ns ≠ "" ∧ desiredNs ow p ≠ ow.ns

/-- **paused_get_after_watch.**  A PAUSED owner's step reads the object through the dynamic cache
only after registering the kind: whatever the process has registered — nothing at all right after
a restart — the step ends with the object or with "missing", never with an error (the only error
left is the cross-namespace refusal, which has nothing to do with the cache). -/
theorem paused_get_after_watch (cfg : Cfg) (ow : Owner) (prev : List Prev) (p : PObj) (w : World)
    (hp : ow.paused = true) (hns : ¬ NsRefused cfg ow p) :
    (reconcilePhaseObject cfg ow prev p w).2 =
      (match cacheGet w.store (keyOf cfg ow p) with | some o => .actual o | none => .missing) ∧
    (reconcilePhaseObject cfg ow prev p w).1.store = w.store := by
  simp only [NsRefused] at hns
  simp only [reconcilePhaseObject_eq, hns, ↓reduceIte, hp]
  cases cacheGet w.store (keyOf cfg ow p) <;> exact ⟨rfl, rfl⟩

/-- … in particular in the first pass of a new process … -/
theorem paused_get_after_restart (cfg : Cfg) (ow : Owner) (prev : List Prev) (p : PObj) (w : World)
    (hp : ow.paused = true) (hns : ¬ NsRefused cfg ow p) :
    (reconcilePhaseObject cfg ow prev p w.restart).2 =
      (match cacheGet w.store (keyOf cfg ow p) with | some o => .actual o | none => .missing) :=
  (paused_get_after_watch cfg ow prev p w.restart hp hns).1

/-- … and after any other owner (or this one) was freed. -/
theorem paused_get_after_free (cfg : Cfg) (ow : Owner) (prev : List Prev) (p : PObj) (w : World) (r : WRef)
    (hp : ow.paused = true) (hns : ¬ NsRefused cfg ow p) :
    (reconcilePhaseObject cfg ow prev p (w.free r)).2 =
      (match cacheGet w.store (keyOf cfg ow p) with | some o => .actual o | none => .missing) :=
  (paused_get_after_watch cfg ow prev p (w.free r) hp hns).1

/-- **the order matters**: the same lookup BEFORE the registration fails in a fresh process —
"cache access before calling Watch" — whatever the cluster holds.  (This is what a paused
revision would run into after every restart if `Watch` came after the paused early-return.) -/
theorem paused_lookup_needs_watch (p : PObj) (w : World) (k : Key) :
    pausedLookup p w.restart k = (w.restart, .err) := by
  simp only [pausedLookup, restart_started, Bool.false_eq_true, ↓reduceIte]

/-- the same for an active owner: without registration `reconcileObject` fails at its first read. -/
theorem active_read_needs_watch (cfg : Cfg) (ow : Owner) (prev : List Prev) (p : PObj) (w : World) :
    reconcileObject cfg ow prev p w.restart = (w.restart, .err) :=
  reconcileObject_not_started cfg ow prev p w.restart (restart_started w p.kind)

/-! ### every step (re)builds the registration it needs -/

theorem apply_watched (w : World) (k : Key) (a : Applied) : (w.apply k a).1.watched = w.watched := rfl

/-- the part of `reconcileObject` after the reads does not touch the registrations. -/
theorem reconcileObjectWith_watched (cfg : Cfg) (ow : Owner) (prev : List Prev) (p : PObj) (w : World) (k : Key)
    (cur : Option Obj) : (reconcileObjectWith cfg ow prev p w k cur).1.watched = w.watched := by
  cases cur with
  | none => simp only [reconcileObjectWith, apply_watched]
  | some c =>
    simp only [reconcileObjectWith]
    repeat' split
    all_goals first | rfl | exact apply_watched _ _ _

/-- **rollout re-registers**: unless the step is refused for the namespace, the owner watches the
object's kind afterwards — paused or not, whatever was registered before. -/
theorem reconcile_registers (cfg : Cfg) (ow : Owner) (prev : List Prev) (p : PObj) (w : World)
    (hns : ¬ NsRefused cfg ow p) :
    (reconcilePhaseObject cfg ow prev p w).1.watched = (w.watch ow p.kind).watched ∧
    (reconcilePhaseObject cfg ow prev p w).1.started p.kind = true := by
  simp only [NsRefused] at hns
  have h1 : (reconcilePhaseObject cfg ow prev p w).1.watched = (w.watch ow p.kind).watched := by
    simp only [reconcilePhaseObject_eq, hns, ↓reduceIte]
    split
    · split <;> rfl
    · exact reconcileObjectWith_watched _ _ _ _ _ _ _
  refine ⟨h1, ?_⟩
  have h2 := started_watch w ow p.kind
  simp only [World.started] at h2 ⊢
  rw [h1]; exact h2

/-- **teardown re-registers** ("Ensure to watch this type of object, also during teardown!"): once
preflight lets the step look at the object, the owner watches its kind afterwards. -/
theorem teardown_registers (cfg : Cfg) (ow : Owner) (p : PObj) (w : World)
    (hpf : preflightObj cfg ow "" false p = .ok) :
    (teardownPhaseObject cfg ow p w).1.watched = (w.watch ow p.kind).watched := by
  simp only [teardownPhaseObject, hpf]
  repeat' split
  all_goals rfl

/-! ### `Free` and restart -/

/-- `Free(owner)` leaves the registrations of every other owner alone … -/
theorem free_keeps_others (w : World) (r : WRef) (k : String) (o : WRef) (ho : o ≠ r)
    (h : (k, o) ∈ w.watched) : (w.free r).started k = true := by
  simp only [World.started, World.free, List.any_eq_true, List.mem_filter]
  exact ⟨(k, o), ⟨h, by simpa using ho⟩, by simp⟩

/-- … and removes every registration of the owner itself. -/
theorem free_removes_owner (w : World) (r : WRef) (k : String) : (k, r) ∉ (w.free r).watched := by
  simp [World.free]

/-- a crashed pass leaves no registration behind once the process is replaced (the C10 driver:
`crashState` followed by `World.restart`), whatever the cut-off pass had registered. -/
theorem crash_loses_registrations (s0 s1 : Sys) (c : Nat) (k : String) :
    (crashState s0 s1 c).w.restart.started k = false := rfl

/-- Non-vacuity: a paused owner in a fresh process finds its (labelled) object and reports it. -/
example :
    let ow : Owner := ⟨pkoGroup, "ObjectSet", "ns1", "os1", "uid-1", 1, true, ""⟩
    let cfg : Cfg := { st := .native, flavour := ⟨true, true, true⟩, scope := fun _ => .namespaced, force := false }
    let a : PObj := ⟨"NsThing", "", "a", .prevent, "x", false, .accept⟩
    let obj : Obj := { (default : Obj) with uid := 3, rv := 3, owners := [ow.ref true], rev := .num 1, cacheLabel := true, payload := "x" }
    let st : Store := { objs := fun k => if k.name = "a" then some obj else none, nextUID := 4, nextRV := 4 }
    let w : World := { store := st, writes := 0, env := [], events := [] }
    w.started "NsThing" = false ∧
    (reconcilePhaseObject cfg ow [] a w).2 matches .actual _ ∧
    (reconcilePhaseObject cfg ow [] a w).1.started "NsThing" = true ∧
    (pausedLookup a w (keyOf cfg ow a)).2 matches .err := by
  exact ⟨rfl, rfl, rfl, rfl⟩

end Pko.Props.C10Watch
