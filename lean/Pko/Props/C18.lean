/-
Property C18 — ObjectTemplates track their sources and stay within bounds.

  "The object produced by an ObjectTemplate always equals the template rendered with the current
   values of its source objects and environment: a change to any source re-renders it, and
   missing optional sources are retried.  A missing required source, an unparsable template or a
   source or target outside the template's namespace leaves the target object unwritten and is
   reported through the Invalid condition; deleting the ObjectTemplate releases its watches."

Theorems are about `Pko.Model.Template` (the model of the ObjectTemplate controller, tied to the
Go code by the correspondence harness `harness/C18`) and hold for EVERY object store, every
template and source list, every REST scope table and every behaviour of the opaque leaves
(item copy, template rendering).  Because each theorem is about one pass started in an arbitrary
world, it covers every history of source creations / edits / deletions and every interleaving
with the controller that can lead to that world.  The specification vocabulary (`admissible`,
`specGather`, `checkPass`, …) lives in `Pko.Model.TemplateSpec`.
-/
import Pko.Model.Template
import Pko.Model.TemplateSpec
import Pko.Lemmas.C18

namespace Pko.Props.C18
open Pko.Model.Template Pko.Model.TemplateSpec Pko.Lemmas.C18

variable {T : Type}

/-- The pass sent no create / update: every write is a metadata merge patch (cache label). -/
def NoTargetWrite (ws : List Write) : Prop := ∀ x ∈ ws, x.verb = .merge

/-- No object's payload differs between `f` and `g` (in particular none appeared or vanished). -/
def PayloadsUnchanged (f g : Objs) : Prop := ∀ k, (g k).map (·.data) = (f k).map (·.data)

/-- "inside the template's namespace": a namespaced kind whose namespace is the template's
(or left to the default). -/
def InNamespace (scope : String → Scope) (ns kind objNs : String) : Prop :=
  scope kind = .namespaced ∧ (objNs = "" ∨ objNs = ns)

instance (scope : String → Scope) (ns kind objNs : String) : Decidable (InNamespace scope ns kind objNs) := by
  unfold InNamespace; exact inferInstance

/-- The template input the specification assigns to a store. -/
abbrev inputOf (L : Leaves T) (spec : Spec T) (objs : Objs) : GatherRes :=
  specGather L spec objs spec.sources [] false

/-! ### preflight -/

/-- **preflight_characterisation**: the controller's preflight composition rejects exactly the
inadmissible references. -/
theorem preflight_characterisation (scope : String → Scope) (ownerNs kind objNs : String) (h : Bool) :
    preflightViolates scope ownerNs kind objNs h = !admissible scope ownerNs kind objNs h :=
  preflight_iff_admissible scope ownerNs kind objNs h

/-- For a namespaced template, admissible references are exactly those inside its namespace
(without own owner references). -/
theorem admissible_namespaced_iff (scope : String → Scope) (ns kind objNs : String) (h : Bool)
    (hns : ns ≠ "") :
    admissible scope ns kind objNs h = true ↔ InNamespace scope ns kind objNs ∧ h = false := by
  unfold admissible InNamespace
  cases hs : scope kind <;> cases h <;> simp [hns]

/-! ### the pass reads every source afresh -/

/-- **gather_reads_current_sources**: whatever the store, the source loop returns the
specification's input of THAT store — the current values of the sources — and leaves every
payload as it was (it only adds cache labels). -/
theorem gather_reads_current_sources (L : Leaves T) (spec : Spec T) (objs : Objs) :
    (gather L spec objs spec.sources [] false).2.2.2 = inputOf L spec objs ∧
    PayloadsUnchanged objs (gather L spec objs spec.sources [] false).1 := by
  obtain ⟨h1, h2, _, _⟩ := gather_spec L spec spec.sources objs [] false
  exact ⟨h2, fun k => (h1.labelEq.data k).symm⟩

/-- **source_change_changes_input**: no memo.  The only state the controller keeps between
passes is the cache's watch set; two worlds that agree on the API objects and the environment but
differ arbitrarily in that in-memory state produce the same writes, the same objects, the same
status and the same result.  Together with `gather_reads_current_sources` (the input is
`inputOf` of the store at the time of the pass) this says a pass after a source change renders
from the changed value. -/
theorem source_change_changes_input (L : Leaves T) (spec : Spec T) (w₁ w₂ : World)
    (ho : w₁.objs = w₂.objs) (ht : w₁.tmpl = w₂.tmpl) (he : w₁.env = w₂.env) :
    (reconcile L spec w₁).writes = (reconcile L spec w₂).writes ∧
    (reconcile L spec w₁).out = (reconcile L spec w₂).out ∧
    (reconcile L spec w₁).world.objs = (reconcile L spec w₂).world.objs ∧
    (reconcile L spec w₁).world.tmpl = (reconcile L spec w₂).world.tmpl := by
  unfold reconcile
  rw [ht, ho, he]
  cases w₂.tmpl with
  | none => simp [ho, ht]
  | some t =>
    by_cases hd : t.deleting = true
    · by_cases hf : t.finalizer = true <;> simp [hd, hf]
    · simp only [hd]
      cases (templateCore L spec w₂.objs w₂.env t.status).out <;> simp

/-- The input changes exactly as the source's copied value changes: for a template with a single
admissible source that exists, the input is the copy of that object's CURRENT content. -/
theorem single_source_input (L : Leaves T) (spec : Spec T) (src : Source) (objs : Objs) (o : Obj)
    (hs : spec.sources = [src]) (ha : admissible L.scope spec.ns src.kind src.ns false = true)
    (ho : objs (srcKey L spec src) = some o) :
    inputOf L spec objs =
      match copyItems L (srcKey L spec src) (seen o) src.items [] with
      | none => .srcErr false
      | some cfg => .ok cfg false := by
  simp only [inputOf, hs, specGather, ha, if_true, ho]
  cases copyItems L (srcKey L spec src) (seen o) src.items [] <;> simp


/-! ### one pass of the template reconciler, case by case -/

/-- `templateCore` expressed over the specification's input: the source loop contributes only
label patches on admissible sources (`ws`), label additions (`o1`) and watches on source kinds. -/
theorem core_unfold (L : Leaves T) (spec : Spec T) (objs : Objs) (env : String) (st : TStatus) :
    ∃ (o1 : Objs) (ws : List Write) (ks : List String),
      AddsLabels objs o1 ∧
      (∀ x ∈ ws, ∃ src ∈ spec.sources, x = ⟨.merge, srcKey L spec src, false⟩ ∧
          admissible L.scope spec.ns src.kind src.ns false = true) ∧
      (∀ k ∈ ks, ∃ src ∈ spec.sources, k = src.kind) ∧
      (∀ cfg retry, inputOf L spec objs = .ok cfg retry →
        (∀ src ∈ spec.sources, src.kind ∈ ks) ∧
        (∀ src ∈ spec.sources, ∀ o, o1 (srcKey L spec src) = some o → o.label = true)) ∧
      templateCore L spec objs env st =
        match inputOf L spec objs with
        | .srcErr missing =>
          ⟨o1, ws, ks, { st with invalid := .source }, if missing then .requeueRes else .ok⟩
        | .ok cfg retry =>
          let res : Outcome := if retry then .requeueOpt else .ok
          match L.render spec.template cfg env with
          | .templateErr => ⟨o1, ws, ks, { st with invalid := .template }, res⟩
          | .unmarshalErr => ⟨o1, ws, ks, { st with invalid := .template }, res⟩
          | .ok r =>
            if admissible L.scope spec.ns r.kind r.ns r.hasOwner then
              match o1 (targetKey L spec r) with
              | none =>
                ⟨o1.set (targetKey L spec r) (some ⟨r.data, true, 1, none, []⟩),
                  ws ++ [⟨.create, targetKey L spec r, false⟩], ks ++ [r.kind],
                  { st with invalid := .none }, res⟩
              | some o =>
                if o.label then
                  ⟨o1.set (targetKey L spec r)
                      (some { o with data := r.data, gen := if o.data = r.data then o.gen else o.gen + 1 }),
                    ws ++ [⟨.update, targetKey L spec r, false⟩], ks ++ [r.kind],
                    { invalid := .none, conds := mapConds st.conds o,
                      controllerOf := some (targetKey L spec r) }, res⟩
                else
                  ⟨o1, ws ++ [⟨.create, targetKey L spec r, true⟩], ks ++ [r.kind], st, .err⟩
            else ⟨o1, ws, ks, { st with invalid := .source }, res⟩ := by
  obtain ⟨hadd, hres, hws, hks⟩ := gather_spec L spec spec.sources objs [] false
  unfold templateCore
  rcases hg : gather L spec objs spec.sources [] false with ⟨o1, ws, ks, gr⟩
  have hcov := gather_ok_covers L spec spec.sources objs [] false
  rw [hg] at hadd hres hws hks hcov
  simp only at hadd hres hws hks hcov
  refine ⟨o1, ws, ks, hadd, hws, hks, ?_, ?_⟩
  · intro cfg retry hi
    rw [inputOf, ← hres] at hi
    exact hcov cfg retry hi
  rw [inputOf, ← hres]
  cases gr with
  | srcErr m => rfl
  | ok cfg retry =>
    simp only
    cases L.render spec.template cfg env with
    | templateErr => rfl
    | unmarshalErr => rfl
    | ok r =>
      simp only [preflight_iff_admissible, targetKey]
      cases admissible L.scope spec.ns r.kind r.ns r.hasOwner
      · simp
      · simp only [Bool.not_true, Bool.false_eq_true, if_false, if_true]
        split <;> rename_i heq <;> simp only [heq]


theorem payloads_of_addsLabels {f g : Objs} (h : AddsLabels f g) : PayloadsUnchanged f g :=
  fun k => (h.labelEq.data k).symm

theorem noTargetWrite_of_merges {L : Leaves T} {spec : Spec T} {ws : List Write}
    (h : ∀ x ∈ ws, ∃ src ∈ spec.sources, x = ⟨.merge, srcKey L spec src, false⟩ ∧
      admissible L.scope spec.ns src.kind src.ns false = true) : NoTargetWrite ws := by
  intro x hx; obtain ⟨_, _, rfl, _⟩ := h x hx; rfl

/-- **source_error_no_write_invalid**: whenever the specification's input is a source error
(out-of-bounds reference, missing required source, item that cannot be copied) the pass reports
`Invalid=True/SourceError`, returns no error, sends no create/update and leaves every payload
untouched; it asks for the resource retry interval exactly when the error is a missing object. -/
theorem source_error_no_write_invalid (L : Leaves T) (spec : Spec T) (objs : Objs) (env : String)
    (st : TStatus) (m : Bool) (h : inputOf L spec objs = .srcErr m) :
    (templateCore L spec objs env st).status.invalid = .source ∧
    (templateCore L spec objs env st).out = (if m then .requeueRes else .ok) ∧
    NoTargetWrite (templateCore L spec objs env st).writes ∧
    PayloadsUnchanged objs (templateCore L spec objs env st).objs := by
  obtain ⟨o1, ws, ks, hadd, hws, _, _, hc⟩ := core_unfold L spec objs env st
  rw [h] at hc
  rw [hc]
  exact ⟨rfl, rfl, noTargetWrite_of_merges hws, payloads_of_addsLabels hadd⟩

/-- **missing_required_no_write_invalid**: a required source that does not exist — at any
position of the source list, whatever the other sources — leaves the target unwritten (no
create/update, no payload changed) and is reported through `Invalid` (`SourceError`), without a
reconcile error. -/
theorem missing_required_no_write_invalid (L : Leaves T) (spec : Spec T) (objs : Objs) (env : String)
    (st : TStatus)
    (h : ∃ src ∈ spec.sources, src.optional = false ∧ objs (srcKey L spec src) = none) :
    (templateCore L spec objs env st).status.invalid = .source ∧
    (templateCore L spec objs env st).out ≠ .err ∧
    NoTargetWrite (templateCore L spec objs env st).writes ∧
    PayloadsUnchanged objs (templateCore L spec objs env st).objs := by
  obtain ⟨s, hs, hb⟩ := h
  obtain ⟨m, hm⟩ := specGather_bad_source L spec objs spec.sources [] false ⟨s, hs, Or.inr hb⟩
  obtain ⟨h1, h2, h3, h4⟩ := source_error_no_write_invalid L spec objs env st m hm
  refine ⟨h1, ?_, h3, h4⟩
  rw [h2]; cases m <;> simp

/-- **template_error_no_write_invalid**: sources fine, but the template does not parse / does not
execute / does not render into a manifest ⇒ `Invalid=True/TemplateError`, no reconcile error, no
create/update, no payload changed. -/
theorem template_error_no_write_invalid (L : Leaves T) (spec : Spec T) (objs : Objs) (env : String)
    (st : TStatus) (cfg : Config) (retry : Bool) (h : inputOf L spec objs = .ok cfg retry)
    (hr : L.render spec.template cfg env = .templateErr ∨ L.render spec.template cfg env = .unmarshalErr) :
    (templateCore L spec objs env st).status.invalid = .template ∧
    (templateCore L spec objs env st).out = (if retry then .requeueOpt else .ok) ∧
    NoTargetWrite (templateCore L spec objs env st).writes ∧
    PayloadsUnchanged objs (templateCore L spec objs env st).objs := by
  obtain ⟨o1, ws, ks, hadd, hws, _, _, hc⟩ := core_unfold L spec objs env st
  rw [h] at hc
  rcases hr with hr | hr <;> (simp only [hr] at hc; rw [hc]) <;>
    exact ⟨rfl, rfl, noTargetWrite_of_merges hws, payloads_of_addsLabels hadd⟩

/-- Inadmissible target ⇒ `Invalid=True/SourceError`, nothing written. -/
theorem inadmissible_target_no_write_invalid (L : Leaves T) (spec : Spec T) (objs : Objs) (env : String)
    (st : TStatus) (cfg : Config) (retry : Bool) (r : Rendered)
    (h : inputOf L spec objs = .ok cfg retry) (hr : L.render spec.template cfg env = .ok r)
    (ha : admissible L.scope spec.ns r.kind r.ns r.hasOwner = false) :
    (templateCore L spec objs env st).status.invalid = .source ∧
    (templateCore L spec objs env st).out = (if retry then .requeueOpt else .ok) ∧
    NoTargetWrite (templateCore L spec objs env st).writes ∧
    PayloadsUnchanged objs (templateCore L spec objs env st).objs := by
  obtain ⟨o1, ws, ks, hadd, hws, _, _, hc⟩ := core_unfold L spec objs env st
  rw [h] at hc
  simp only [hr, ha, Bool.false_eq_true, if_false] at hc
  rw [hc]
  exact ⟨rfl, rfl, noTargetWrite_of_merges hws, payloads_of_addsLabels hadd⟩

/-- **out_of_namespace_no_write_invalid** (full): for a NAMESPACED ObjectTemplate, a source
reference or a rendered target that is not a namespaced kind inside the template's namespace —
another namespace, a cluster-scoped kind (with or without a namespace written on it), an unknown
API — leaves the target unwritten and is reported through `Invalid`.  (Holds in full since the
repair of `NamespaceEscalation` recorded as finding C11-a.) -/
theorem out_of_namespace_no_write_invalid (L : Leaves T) (spec : Spec T) (objs : Objs) (env : String)
    (st : TStatus) (hns : spec.ns ≠ "")
    (h : (∃ src ∈ spec.sources, ¬ InNamespace L.scope spec.ns src.kind src.ns) ∨
         (∃ cfg retry r, inputOf L spec objs = .ok cfg retry ∧
            L.render spec.template cfg env = .ok r ∧ ¬ InNamespace L.scope spec.ns r.kind r.ns)) :
    (templateCore L spec objs env st).status.invalid = .source ∧
    (templateCore L spec objs env st).out ≠ .err ∧
    NoTargetWrite (templateCore L spec objs env st).writes ∧
    PayloadsUnchanged objs (templateCore L spec objs env st).objs := by
  rcases h with ⟨s, hs, hb⟩ | ⟨cfg, retry, r, hi, hr, hb⟩
  · have hna : admissible L.scope spec.ns s.kind s.ns false = false := by
      cases ha : admissible L.scope spec.ns s.kind s.ns false
      · rfl
      · exact absurd ((admissible_namespaced_iff L.scope spec.ns s.kind s.ns false hns).mp ha).1 hb
    obtain ⟨m, hm⟩ := specGather_bad_source L spec objs spec.sources [] false ⟨s, hs, Or.inl hna⟩
    obtain ⟨h1, h2, h3, h4⟩ := source_error_no_write_invalid L spec objs env st m hm
    refine ⟨h1, ?_, h3, h4⟩
    rw [h2]; cases m <;> simp
  · have hna : admissible L.scope spec.ns r.kind r.ns r.hasOwner = false := by
      cases ha : admissible L.scope spec.ns r.kind r.ns r.hasOwner
      · rfl
      · exact absurd ((admissible_namespaced_iff L.scope spec.ns r.kind r.ns r.hasOwner hns).mp ha).1 hb
    obtain ⟨h1, h2, h3, h4⟩ := inadmissible_target_no_write_invalid L spec objs env st cfg retry r hi hr hna
    refine ⟨h1, ?_, h3, h4⟩
    rw [h2]; cases retry <;> simp


/-! ### the success path -/

/-- **target_eq_render_of_current_sources**: for EVERY store, if the pass returned no error and
left no `Invalid` condition, then the specification's input of that store is defined, the template
rendered on it (and on the current environment) yields an admissible manifest, and the templated
object — at the key the namespace override dictates — carries exactly the rendered payload (and
the cache label, so that its own changes are observed). -/
theorem target_eq_render_of_current_sources (L : Leaves T) (spec : Spec T) (objs : Objs)
    (env : String) (st : TStatus)
    (hout : (templateCore L spec objs env st).out ≠ .err)
    (hinv : (templateCore L spec objs env st).status.invalid = .none) :
    ∃ cfg retry r, inputOf L spec objs = .ok cfg retry ∧
      L.render spec.template cfg env = .ok r ∧
      admissible L.scope spec.ns r.kind r.ns r.hasOwner = true ∧
      ∃ o, (templateCore L spec objs env st).objs (targetKey L spec r) = some o ∧
        o.data = r.data ∧ o.label = true := by
  obtain ⟨o1, ws, ks, hadd, hws, _, _, hc⟩ := core_unfold L spec objs env st
  cases hi : inputOf L spec objs with
  | srcErr m => rw [hi] at hc; rw [hc] at hinv; cases hinv
  | ok cfg retry =>
    rw [hi] at hc
    simp only at hc
    cases hr : L.render spec.template cfg env with
    | templateErr => simp only [hr] at hc; rw [hc] at hinv; cases hinv
    | unmarshalErr => simp only [hr] at hc; rw [hc] at hinv; cases hinv
    | ok r =>
      simp only [hr] at hc
      cases ha : admissible L.scope spec.ns r.kind r.ns r.hasOwner
      · simp only [ha, Bool.false_eq_true, if_false] at hc; rw [hc] at hinv; cases hinv
      · simp only [ha, if_true] at hc
        refine ⟨cfg, retry, r, rfl, hr, ha, ?_⟩
        cases ho : o1 (targetKey L spec r) with
        | none =>
          simp only [ho] at hc
          rw [hc]
          exact ⟨⟨r.data, true, 1, none, []⟩, by simp [Objs.set], rfl, rfl⟩
        | some o =>
          simp only [ho] at hc
          cases hl : o.label
          · simp only [hl, Bool.false_eq_true, if_false] at hc
            rw [hc] at hout; exact absurd rfl hout
          · simp only [hl, if_true] at hc
            rw [hc]
            exact ⟨{ o with data := r.data, gen := if o.data = r.data then o.gen else o.gen + 1 },
              by simp [Objs.set, hl], rfl, hl⟩

/-- **target_eq_render_at_quiescence**: if moreover the templated object is not one of the
template's own sources, the input computed from the store AFTER the pass is the same, i.e. the
templated object equals the rendering of the values its sources hold at that moment: the pass
is a fixpoint of "target = render(current sources, current environment)". -/
theorem target_eq_render_at_quiescence (L : Leaves T) (spec : Spec T) (objs : Objs)
    (env : String) (st : TStatus)
    (hout : (templateCore L spec objs env st).out ≠ .err)
    (hinv : (templateCore L spec objs env st).status.invalid = .none) :
    ∃ cfg retry r, inputOf L spec objs = .ok cfg retry ∧
      L.render spec.template cfg env = .ok r ∧
      ((∀ src ∈ spec.sources, srcKey L spec src ≠ targetKey L spec r) →
        inputOf L spec (templateCore L spec objs env st).objs = .ok cfg retry) := by
  obtain ⟨cfg, retry, r, hi, hr, ha, _⟩ := target_eq_render_of_current_sources L spec objs env st hout hinv
  refine ⟨cfg, retry, r, hi, hr, ?_⟩
  intro hne
  obtain ⟨o1, ws, ks, hadd, hws, _, _, hc⟩ := core_unfold L spec objs env st
  rw [hi] at hc
  simp only [hr, ha, if_true] at hc
  rw [← hi]
  symm
  apply specGather_congr
  intro src hs
  have hk := hne src hs
  rw [hadd.labelEq (srcKey L spec src)]
  cases ho : o1 (targetKey L spec r) with
  | none => simp only [ho] at hc; rw [hc]; simp [Objs.set, hk]
  | some o =>
    simp only [ho] at hc
    cases hl : o.label
    · simp only [hl, Bool.false_eq_true, if_false] at hc; rw [hc]
    · simp only [hl, if_true] at hc; rw [hc]; simp [Objs.set, hk]

/-- A valid template on valid sources never carries `Invalid` after a pass that returned no
error. -/
theorem valid_template_clears_invalid (L : Leaves T) (spec : Spec T) (objs : Objs) (env : String)
    (st : TStatus) (cfg : Config) (retry : Bool) (r : Rendered)
    (hi : inputOf L spec objs = .ok cfg retry) (hr : L.render spec.template cfg env = .ok r)
    (ha : admissible L.scope spec.ns r.kind r.ns r.hasOwner = true)
    (hout : (templateCore L spec objs env st).out ≠ .err) :
    (templateCore L spec objs env st).status.invalid = .none := by
  obtain ⟨o1, ws, ks, hadd, hws, _, _, hc⟩ := core_unfold L spec objs env st
  rw [hi] at hc
  simp only [hr, ha, if_true] at hc
  cases ho : o1 (targetKey L spec r) with
  | none => simp only [ho] at hc; rw [hc]
  | some o =>
    simp only [ho] at hc
    cases hl : o.label
    · simp only [hl, Bool.false_eq_true, if_false] at hc; rw [hc] at hout; exact absurd rfl hout
    · simp only [hl, if_true] at hc; rw [hc]

/-- The result class of a pass whose sources could be read. -/
theorem outcome_of_input (L : Leaves T) (spec : Spec T) (objs : Objs) (env : String)
    (st : TStatus) (cfg : Config) (retry : Bool) (hi : inputOf L spec objs = .ok cfg retry) :
    (templateCore L spec objs env st).out = (if retry then .requeueOpt else .ok) ∨
    (templateCore L spec objs env st).out = .err := by
  obtain ⟨o1, ws, ks, hadd, hws, _, _, hc⟩ := core_unfold L spec objs env st
  rw [hi] at hc
  simp only at hc
  cases hr : L.render spec.template cfg env with
  | templateErr => simp only [hr] at hc; rw [hc]; exact Or.inl rfl
  | unmarshalErr => simp only [hr] at hc; rw [hc]; exact Or.inl rfl
  | ok r =>
    simp only [hr] at hc
    cases ha : admissible L.scope spec.ns r.kind r.ns r.hasOwner
    · simp only [ha, Bool.false_eq_true, if_false] at hc; rw [hc]; exact Or.inl rfl
    · simp only [ha, if_true] at hc
      cases ho : o1 (targetKey L spec r) with
      | none => simp only [ho] at hc; rw [hc]; exact Or.inl rfl
      | some o =>
        simp only [ho] at hc
        cases hl : o.label
        · simp only [hl, Bool.false_eq_true, if_false] at hc; rw [hc]; exact Or.inr rfl
        · simp only [hl, if_true] at hc; rw [hc]; exact Or.inl rfl

/-- **missing_optional_retries**: all sources readable except that some optional source does not
exist ⇒ the pass asks to be run again after the optional-resource interval (unless it ends in a
reconcile error, which is retried anyway), and the absent source by itself is no reason for
`Invalid`: with a template that renders an admissible manifest from the remaining values the
condition is absent after the pass. -/
theorem missing_optional_retries (L : Leaves T) (spec : Spec T) (objs : Objs) (env : String)
    (st : TStatus) (cfg : Config) (retry : Bool) (hi : inputOf L spec objs = .ok cfg retry)
    (hm : ∃ src ∈ spec.sources, src.optional = true ∧ objs (srcKey L spec src) = none) :
    retry = true ∧
    ((templateCore L spec objs env st).out = .requeueOpt ∨ (templateCore L spec objs env st).out = .err) ∧
    (∀ r, L.render spec.template cfg env = .ok r →
      admissible L.scope spec.ns r.kind r.ns r.hasOwner = true →
      (templateCore L spec objs env st).out ≠ .err →
      (templateCore L spec objs env st).status.invalid = .none) := by
  have hr : retry = true :=
    (specGather_retry L spec objs spec.sources [] false cfg retry hi).mpr (Or.inr hm)
  refine ⟨hr, ?_, fun r h1 h2 h3 => valid_template_clears_invalid L spec objs env st cfg retry r hi h1 h2 h3⟩
  have := outcome_of_input L spec objs env st cfg retry hi
  rw [hr] at this
  simpa using this


/-! ### bounds on every write -/

/-- Writes of the template reconciler of a NAMESPACED ObjectTemplate: always a namespaced kind
in the template's namespace — label patches on sources as well as the templated object. -/
theorem core_writes_within_namespace (L : Leaves T) (spec : Spec T) (objs : Objs) (env : String)
    (st : TStatus) (hns : spec.ns ≠ "") :
    ∀ x ∈ (templateCore L spec objs env st).writes,
      x.key.ns = spec.ns ∧ L.scope x.key.kind = .namespaced := by
  obtain ⟨o1, ws, ks, hadd, hws, _, _, hc⟩ := core_unfold L spec objs env st
  have hsrc : ∀ x ∈ ws, x.key.ns = spec.ns ∧ L.scope x.key.kind = .namespaced := by
    intro x hx
    obtain ⟨s, _, rfl, ha⟩ := hws x hx
    exact srcKey_in_namespace L spec s hns ha
  have hboth : ∀ (r : Rendered) (y : Write), y.key = targetKey L spec r →
      admissible L.scope spec.ns r.kind r.ns r.hasOwner = true →
      ∀ x ∈ ws ++ [y], x.key.ns = spec.ns ∧ L.scope x.key.kind = .namespaced := by
    intro r y hy ha x hx
    rcases List.mem_append.mp hx with hx | hx
    · exact hsrc x hx
    · simp only [List.mem_singleton] at hx; subst hx; rw [hy]
      exact targetKey_in_namespace L spec r hns ha
  cases hi : inputOf L spec objs with
  | srcErr m => rw [hi] at hc; rw [hc]; exact hsrc
  | ok cfg retry =>
    rw [hi] at hc
    simp only at hc
    cases hr : L.render spec.template cfg env with
    | templateErr => simp only [hr] at hc; rw [hc]; exact hsrc
    | unmarshalErr => simp only [hr] at hc; rw [hc]; exact hsrc
    | ok r =>
      simp only [hr] at hc
      cases ha : admissible L.scope spec.ns r.kind r.ns r.hasOwner
      · simp only [ha, Bool.false_eq_true, if_false] at hc; rw [hc]; exact hsrc
      · simp only [ha, if_true] at hc
        cases ho : o1 (targetKey L spec r) with
        | none => simp only [ho] at hc; rw [hc]; exact hboth r _ rfl ha
        | some o =>
          simp only [ho] at hc
          cases hl : o.label
          · simp only [hl, Bool.false_eq_true, if_false] at hc; rw [hc]; exact hboth r _ rfl ha
          · simp only [hl, if_true] at hc; rw [hc]; exact hboth r _ rfl ha

/-- **writes_within_namespace**: every write of a reconcile of a namespaced ObjectTemplate — in
every world, live or deleting — goes to the ObjectTemplate itself or to a namespaced kind inside
its namespace. -/
theorem writes_within_namespace (L : Leaves T) (spec : Spec T) (w : World) (hns : spec.ns ≠ "") :
    ∀ x ∈ (reconcile L spec w).writes,
      x.key = tmplKey spec ∨ (x.key.ns = spec.ns ∧ L.scope x.key.kind = .namespaced) := by
  unfold reconcile
  cases w.tmpl with
  | none => simp
  | some t =>
    by_cases hd : t.deleting = true
    · by_cases hf : t.finalizer = true <;> simp [hd, hf]
    · simp only [hd]
      have hcore := core_writes_within_namespace L spec w.objs w.env t.status hns
      have hfw : ∀ x ∈ (if t.finalizer = true then ([] : List Write) else [⟨.merge, tmplKey spec, false⟩]),
          x.key = tmplKey spec := by
        intro x hx; split at hx <;> simp_all
      intro x hx
      cases hout : (templateCore L spec w.objs w.env t.status).out <;> rw [hout] at hx <;>
        simp only [List.mem_append, List.mem_singleton, Bool.false_eq_true, if_false] at hx
      all_goals
        first
        | (rcases hx with (hx | hx) | hx
           · exact Or.inl (hfw x hx)
           · exact Or.inr (hcore x hx)
           · subst hx; exact Or.inl rfl)
        | (rcases hx with hx | hx
           · exact Or.inl (hfw x hx)
           · exact Or.inr (hcore x hx))

/-! ### deletion releases the watches -/

/-- **deletion_frees_watches**: reconciling an ObjectTemplate that is being deleted leaves no
watch of that template in the cache, keeps every other owner's watches, writes to no object, and
lets the deletion complete (the finalizer goes, so the API removes the object). -/
theorem deletion_frees_watches (L : Leaves T) (spec : Spec T) (w : World) (t : Tmpl)
    (ht : w.tmpl = some t) (hd : t.deleting = true) :
    (∀ e ∈ (reconcile L spec w).world.watches, e.2 ≠ Owner.tmpl) ∧
    (∀ e ∈ w.watches, e.2 ≠ Owner.tmpl → e ∈ (reconcile L spec w).world.watches) ∧
    (reconcile L spec w).world.objs = w.objs ∧
    (t.finalizer = true → (reconcile L spec w).world.tmpl = none) := by
  unfold reconcile
  rw [ht]
  have hfree : ∀ e ∈ free w.watches Owner.tmpl, e.2 ≠ Owner.tmpl := fun e he => ((mem_free _ _ _).mp he).2
  have hkeep : ∀ e ∈ w.watches, e.2 ≠ Owner.tmpl → e ∈ free w.watches Owner.tmpl :=
    fun e he h => (mem_free _ _ _).mpr ⟨he, h⟩
  by_cases hf : t.finalizer = true
  · simp only [hd, hf, if_true]
    refine ⟨hfree, hkeep, ?_, ?_⟩ <;> simp
  · have hf' : t.finalizer = false := by simpa using hf
    simp only [hd, hf', if_true, Bool.false_eq_true, if_false]
    refine ⟨hfree, hkeep, ?_, ?_⟩ <;> simp

/-- One step of a history: something in the environment happens, or the controller reconciles. -/
inductive HStep where
  | env (op : EnvOp)
  | reconcile

def hstep (L : Leaves T) (spec : Spec T) (w : World) : HStep → World
  | .env op => (envStep L w op).1
  | .reconcile => (reconcile L spec w).world

def run (L : Leaves T) (spec : Spec T) (w : World) (steps : List HStep) : World :=
  steps.foldl (hstep L spec) w

/-- The template holds a watch only while it exists and carries the `cached` finalizer. -/
def NoOrphanWatch (w : World) : Prop :=
  (∃ e ∈ w.watches, e.2 = Owner.tmpl) → ∃ t, w.tmpl = some t ∧ t.finalizer = true

theorem hstep_noOrphanWatch (L : Leaves T) (spec : Spec T) (w : World) (s : HStep)
    (h : NoOrphanWatch w) : NoOrphanWatch (hstep L spec w s) := by
  cases s with
  | env op =>
    cases op with
    | put k d l => simp only [hstep, envStep]; split <;> exact h
    | del k => simp only [hstep, envStep]; split <;> exact h
    | unlabel k => simp only [hstep, envStep]; split; exact h; split <;> exact h
    | setStatus k og cs => simp only [hstep, envStep]; split; exact h; split <;> exact h
    | delTmpl =>
      simp only [hstep, envStep]
      cases ht : w.tmpl with
      | none => simpa [NoOrphanWatch, ht] using h
      | some t =>
        by_cases hf : t.finalizer = true
        · simp only [hf, if_true]; intro _; exact ⟨_, rfl, rfl⟩
        · simp only [hf]
          intro he
          obtain ⟨t', ht', hf'⟩ := h he
          rw [ht] at ht'; cases ht'; exact absurd hf' hf
    | restart => simp [hstep, envStep, NoOrphanWatch]
    | setEnv v => simpa [hstep, envStep, NoOrphanWatch] using h
  | reconcile =>
    simp only [hstep, reconcile]
    cases ht : w.tmpl with
    | none => simpa [NoOrphanWatch, ht] using h
    | some t =>
      by_cases hd : t.deleting = true
      · by_cases hf : t.finalizer = true <;> simp only [hd, hf, if_true] <;>
          (intro ⟨e, he, h2⟩; exact absurd h2 ((mem_free _ _ _).mp he).2)
      · simp only [hd]
        cases (templateCore L spec w.objs w.env t.status).out <;> (intro _; exact ⟨_, rfl, rfl⟩)

theorem run_noOrphanWatch (L : Leaves T) (spec : Spec T) (steps : List HStep) :
    ∀ w0, NoOrphanWatch w0 → NoOrphanWatch (run L spec w0 steps) := by
  induction steps with
  | nil => intro w0 h0; simpa [run] using h0
  | cons s rest ih =>
    intro w0 h0
    simpa [run] using ih (hstep L spec w0 s) (hstep_noOrphanWatch L spec w0 s h0)

/-- **deleted_template_has_no_watches**: in EVERY history of environment steps (source / target
edits, deletion of the ObjectTemplate, cache restarts, environment changes) and reconciles, in
any order, that starts in a world where the template holds no watch: once the ObjectTemplate is
gone from the API, the cache holds no watch of it. -/
theorem deleted_template_has_no_watches (L : Leaves T) (spec : Spec T) (w0 : World)
    (h0 : NoOrphanWatch w0) (steps : List HStep) (hgone : (run L spec w0 steps).tmpl = none) :
    ∀ e ∈ (run L spec w0 steps).watches, e.2 ≠ Owner.tmpl := by
  have hinv := run_noOrphanWatch L spec steps w0 h0
  intro e he h2
  obtain ⟨t, ht, _⟩ := hinv ⟨e, he, h2⟩
  rw [hgone] at ht; cases ht

/-! ### a change to any source re-renders -/

/-- The model's count of enqueued requests is positive exactly when the specification demands
an enqueue. -/
theorem enqueued_pos_iff (ws : List (String × Owner)) (kind : String) (b a : Option Obj) :
    0 < enqueued ws kind b a ↔ mustEnqueue ws kind b a = true := by
  unfold enqueued mustEnqueue
  by_cases h2 : (kind, Owner.tmpl) ∈ ws <;> cases b <;> cases a <;> simp [h2]
  all_goals first
    | (rename_i x y; by_cases h1 : x = y <;> cases hx : x.label <;> cases hy : y.label <;> simp_all)
    | (rename_i y; cases hy : y.label <;> simp_all)

/-- After a pass of the template reconciler that returned no error and left no `Invalid`, the
kinds handed to `dynamicCache.Watch` include the kind of every source, and every source object
that exists carries the cache label. -/
theorem core_sources_observed (L : Leaves T) (spec : Spec T) (objs : Objs) (env : String)
    (st : TStatus) (hout : (templateCore L spec objs env st).out ≠ .err)
    (hinv : (templateCore L spec objs env st).status.invalid = .none) :
    (∀ src ∈ spec.sources, src.kind ∈ (templateCore L spec objs env st).watched) ∧
    (∀ src ∈ spec.sources, ∀ o, (templateCore L spec objs env st).objs (srcKey L spec src) = some o →
      o.label = true) := by
  obtain ⟨cfg, retry, r, hi, hr, ha, _⟩ :=
    target_eq_render_of_current_sources L spec objs env st hout hinv
  obtain ⟨o1, ws, ks, hadd, hws, _, hcov, hc⟩ := core_unfold L spec objs env st
  obtain ⟨hk1, hk2⟩ := hcov cfg retry hi
  rw [hi] at hc
  simp only [hr, ha, if_true] at hc
  cases ho : o1 (targetKey L spec r) with
  | none =>
    simp only [ho] at hc; rw [hc]
    refine ⟨fun s hs => List.mem_append_left _ (hk1 s hs), ?_⟩
    intro s hs o hso
    by_cases hk : srcKey L spec s = targetKey L spec r
    · simp [Objs.set, hk] at hso; rw [← hso]
    · simp [Objs.set, hk] at hso; exact hk2 s hs o hso
  | some o' =>
    simp only [ho] at hc
    cases hl : o'.label
    · simp only [hl, Bool.false_eq_true, if_false] at hc; rw [hc] at hout; exact absurd rfl hout
    · simp only [hl, if_true] at hc; rw [hc]
      refine ⟨fun s hs => List.mem_append_left _ (hk1 s hs), ?_⟩
      intro s hs o hso
      by_cases hk : srcKey L spec s = targetKey L spec r
      · simp [Objs.set, hk] at hso; rw [← hso]
      · simp [Objs.set, hk] at hso; exact hk2 s hs o hso

/-- **source_change_enqueues**: after a pass over a live ObjectTemplate that returned no error
and left no `Invalid` condition, the cache watches the kind of EVERY source on behalf of the
template and every source object that exists carries the cache label — so any later change to
(or deletion of) a source is seen by the informer and, by `mustEnqueue`, has to put the
ObjectTemplate back on the queue; the next pass then renders from the changed value
(`gather_reads_current_sources`, `target_eq_render_of_current_sources`). -/
theorem source_change_enqueues (L : Leaves T) (spec : Spec T) (w : World) (t : Tmpl)
    (ht : w.tmpl = some t) (hd : t.deleting = false)
    (hout : (reconcile L spec w).out ≠ .err)
    (hinv : ∀ t', (reconcile L spec w).world.tmpl = some t' → t'.status.invalid = .none) :
    ∀ src ∈ spec.sources,
      (src.kind, Owner.tmpl) ∈ (reconcile L spec w).world.watches ∧
      ∀ o after, (reconcile L spec w).world.objs (srcKey L spec src) = some o → after ≠ some o →
        mustEnqueue (reconcile L spec w).world.watches src.kind (some o) after = true := by
  have hcoreOut : (templateCore L spec w.objs w.env t.status).out ≠ .err := by
    intro h; apply hout; simp [reconcile, ht, hd, h]
  have hrec : (reconcile L spec w).world =
      { w with objs := (templateCore L spec w.objs w.env t.status).objs,
               watches := watchAll w.watches (templateCore L spec w.objs w.env t.status).watched .tmpl,
               tmpl := some { t with finalizer := true,
                                     status := (templateCore L spec w.objs w.env t.status).status } } := by
    simp only [reconcile, ht, hd, Bool.false_eq_true, if_false]
  have hcoreInv : (templateCore L spec w.objs w.env t.status).status.invalid = .none := by
    have := hinv _ (by rw [hrec])
    simpa using this
  have hwl := core_sources_observed L spec w.objs w.env t.status hcoreOut hcoreInv
  intro src hs
  rw [hrec]
  have hw : (src.kind, Owner.tmpl) ∈
      watchAll w.watches (templateCore L spec w.objs w.env t.status).watched .tmpl :=
    (mem_watchAll _ _ _ _).mpr (Or.inr ⟨rfl, hwl.1 src hs⟩)
  refine ⟨hw, ?_⟩
  intro o after hso hne
  have hlab := hwl.2 src hs o hso
  simp [mustEnqueue, hlab, hw, Ne.symm hne]

/-! ### the model satisfies the monitored predicate -/

/-- **error_only_on_api_refusal**: the only way a pass of the template reconciler ends in a
reconcile error is that sources, template and target were all fine and the API refused the
creation of the templated object (it exists but is invisible to the label-restricted cache). -/
theorem error_only_on_api_refusal (L : Leaves T) (spec : Spec T) (objs : Objs) (env : String)
    (st : TStatus) (hout : (templateCore L spec objs env st).out = .err) :
    ∃ cfg retry r, inputOf L spec objs = .ok cfg retry ∧ L.render spec.template cfg env = .ok r ∧
      admissible L.scope spec.ns r.kind r.ns r.hasOwner = true ∧
      (⟨.create, targetKey L spec r, true⟩ : Write) ∈ (templateCore L spec objs env st).writes ∧
      (templateCore L spec objs env st).status = st := by
  obtain ⟨o1, ws, ks, hadd, hws, _, _, hc⟩ := core_unfold L spec objs env st
  cases hi : inputOf L spec objs with
  | srcErr m => rw [hi] at hc; rw [hc] at hout; cases m <;> simp at hout
  | ok cfg retry =>
    rw [hi] at hc
    simp only at hc
    cases hr : L.render spec.template cfg env with
    | templateErr => simp only [hr] at hc; rw [hc] at hout; cases retry <;> simp at hout
    | unmarshalErr => simp only [hr] at hc; rw [hc] at hout; cases retry <;> simp at hout
    | ok r =>
      simp only [hr] at hc
      cases ha : admissible L.scope spec.ns r.kind r.ns r.hasOwner
      · simp only [ha, Bool.false_eq_true, if_false] at hc; rw [hc] at hout; cases retry <;> simp at hout
      · simp only [ha, if_true] at hc
        cases ho : o1 (targetKey L spec r) with
        | none => simp only [ho] at hc; rw [hc] at hout; cases retry <;> simp at hout
        | some o =>
          simp only [ho] at hc
          cases hl : o.label
          · simp only [hl, Bool.false_eq_true, if_false] at hc
            exact ⟨cfg, retry, r, rfl, hr, ha, by rw [hc]; simp, by rw [hc]⟩
          · simp only [hl, if_true] at hc; rw [hc] at hout; cases retry <;> simp at hout

theorem all_not_targetWrite {ws : List Write} (h : ∀ x ∈ ws, x.verb = .merge ∨ x.verb = .status) :
    ws.all (fun x => !isTargetWrite x) = true := by
  rw [List.all_eq_true]
  intro x hx
  rcases h x hx with h | h <;> simp [isTargetWrite, h]

theorem untouched_of {keys : List Key} {objs cobjs : Objs} {obs : Obs} {cw : List Write}
    (h1 : NoTargetWrite cw) (h2 : ∀ x ∈ obs.writes, x ∈ cw ∨ x.verb = .merge ∨ x.verb = .status)
    (h3 : PayloadsUnchanged objs cobjs)
    (h4 : ∀ k, obs.objs k = (cobjs k).map fun o => (o.data, o.label)) :
    untouched keys objs obs = true := by
  unfold untouched
  rw [Bool.and_eq_true]
  constructor
  · apply all_not_targetWrite
    intro x hx
    rcases h2 x hx with h | h
    · exact Or.inl (h1 x h)
    · exact h
  · rw [List.all_eq_true]
    intro k _
    simp only [decide_eq_true_eq]
    rw [h4 k, ← h3 k]
    cases cobjs k <;> rfl

theorem retried_of {retry : Bool} {obs : Obs} {o : Outcome} (hout : obs.out = o)
    (h : o = (if retry then .requeueOpt else .ok) ∨ o = .err) : retried retry obs = true := by
  unfold retried
  rw [hout]
  rcases h with h | h <;> cases retry <;> simp_all

/-- **model_satisfies_checkPass** (monitor-vs-model): for every world, every key list, every
template, source list and leaves, what an outside observer sees of the MODEL's reconcile pass
satisfies the property predicate `checkPass` that the driver's monitor evaluates on the
implementation's trace. -/
theorem model_satisfies_checkPass (L : Leaves T) (spec : Spec T) (keys : List Key) (w : World) :
    checkPass L spec keys w (observe (reconcile L spec w)) = true := by
  unfold checkPass
  cases ht : w.tmpl with
  | none => rfl
  | some t =>
    simp only
    by_cases hd : t.deleting = true
    · simp only [hd, if_true]
      rw [List.all_eq_true]
      intro e he
      have := (deletion_frees_watches L spec w t ht hd).1 e he
      simpa using this
    · have hd' : t.deleting = false := by simpa using hd
      simp only [hd', Bool.false_eq_true, if_false]
      -- what the observer sees, in terms of the core result `c`
      have hW := writes_within_namespace L spec w
      have hobs : (observe (reconcile L spec w)).out = (templateCore L spec w.objs w.env t.status).out ∧
          ((templateCore L spec w.objs w.env t.status).out ≠ .err →
            (observe (reconcile L spec w)).invalid = (templateCore L spec w.objs w.env t.status).status.invalid) ∧
          (∀ x ∈ (observe (reconcile L spec w)).writes,
            x ∈ (templateCore L spec w.objs w.env t.status).writes ∨ x.verb = .merge ∨ x.verb = .status) ∧
          (∀ x ∈ (templateCore L spec w.objs w.env t.status).writes, x ∈ (observe (reconcile L spec w)).writes) ∧
          (∀ k, (observe (reconcile L spec w)).objs k =
            ((templateCore L spec w.objs w.env t.status).objs k).map fun o => (o.data, o.label)) ∧
          (observe (reconcile L spec w)).watches =
            watchAll w.watches (templateCore L spec w.objs w.env t.status).watched .tmpl := by
        have hfw : ∀ y ∈ (if t.finalizer = true then ([] : List Write) else [⟨.merge, tmplKey spec, false⟩]),
            y.verb = .merge := by
          intro y hy; split at hy <;> simp_all
        simp only [observe, reconcile, ht, hd', Bool.false_eq_true, if_false]
        cases hco : (templateCore L spec w.objs w.env t.status).out <;>
          (refine ⟨rfl, ?_, ?_, ?_, fun k => rfl, rfl⟩
           · simp
           · intro x hx
             simp only [List.mem_append, List.mem_singleton] at hx
             first
             | (rcases hx with (hx | hx) | hx
                · exact Or.inr (Or.inl (hfw x hx))
                · exact Or.inl hx
                · exact Or.inr (Or.inr (by rw [hx])))
             | (rcases hx with hx | hx
                · exact Or.inr (Or.inl (hfw x hx))
                · exact Or.inl hx)
           · intro x hx; simp [hx])
      obtain ⟨hout, hinv, hws1, hws2, hobjs, hwat⟩ := hobs
      have hW' : spec.ns ≠ "" → ∀ x ∈ (observe (reconcile L spec w)).writes,
          x.key = tmplKey spec ∨ (x.key.ns = spec.ns ∧ L.scope x.key.kind = .namespaced) := hW
      generalize observe (reconcile L spec w) = obs at hout hinv hws1 hws2 hobjs hwat hW' ⊢
      unfold checkLive
      rw [Bool.and_eq_true]
      constructor
      · unfold bounded
        by_cases hns : spec.ns = ""
        · simp [hns]
        · simp only [hns, decide_false, Bool.false_or]
          rw [List.all_eq_true]
          intro x hx
          rcases hW' hns x hx with h | ⟨h1, h2⟩
          · simp [h]
          · simp [h1, h2]
      · cases hi : specGather L spec w.objs spec.sources [] false with
        | srcErr m =>
          obtain ⟨h1, h2, h3, h4⟩ := source_error_no_write_invalid L spec w.objs w.env t.status m hi
          have hne : (templateCore L spec w.objs w.env t.status).out ≠ .err := by
            rw [h2]; cases m <;> simp
          simp only [Bool.and_eq_true, decide_eq_true_eq]
          exact ⟨(hinv hne).trans h1, untouched_of h3 hws1 h4 hobjs⟩
        | ok cfg retry =>
          simp only
          have hoi := outcome_of_input L spec w.objs w.env t.status cfg retry hi
          cases hr : L.render spec.template cfg w.env with
          | templateErr =>
            obtain ⟨h1, h2, h3, h4⟩ :=
              template_error_no_write_invalid L spec w.objs w.env t.status cfg retry hi (Or.inl hr)
            have hne : (templateCore L spec w.objs w.env t.status).out ≠ .err := by
              rw [h2]; cases retry <;> simp
            simp only [Bool.and_eq_true, decide_eq_true_eq]
            exact ⟨⟨(hinv hne).trans h1, untouched_of h3 hws1 h4 hobjs⟩, retried_of hout hoi⟩
          | unmarshalErr =>
            obtain ⟨h1, h2, h3, h4⟩ :=
              template_error_no_write_invalid L spec w.objs w.env t.status cfg retry hi (Or.inr hr)
            have hne : (templateCore L spec w.objs w.env t.status).out ≠ .err := by
              rw [h2]; cases retry <;> simp
            simp only [Bool.and_eq_true, decide_eq_true_eq]
            exact ⟨⟨(hinv hne).trans h1, untouched_of h3 hws1 h4 hobjs⟩, retried_of hout hoi⟩
          | ok r =>
            simp only
            cases ha : admissible L.scope spec.ns r.kind r.ns r.hasOwner
            · obtain ⟨h1, h2, h3, h4⟩ :=
                inadmissible_target_no_write_invalid L spec w.objs w.env t.status cfg retry r hi hr ha
              have hne : (templateCore L spec w.objs w.env t.status).out ≠ .err := by
                rw [h2]; cases retry <;> simp
              simp only [Bool.false_eq_true, if_false, Bool.and_eq_true, decide_eq_true_eq]
              exact ⟨⟨(hinv hne).trans h1, untouched_of h3 hws1 h4 hobjs⟩, retried_of hout hoi⟩
            · simp only [if_true]
              by_cases hoe : (templateCore L spec w.objs w.env t.status).out = .err
              · obtain ⟨cfg', retry', r', hi', hr', _, hw, _⟩ :=
                  error_only_on_api_refusal L spec w.objs w.env t.status hoe
                rw [inputOf, hi] at hi'
                cases hi'
                rw [hr] at hr'
                cases hr'
                rw [hout, hoe]
                simp only [if_true]
                rw [List.any_eq_true]
                exact ⟨_, hws2 _ hw, by simp⟩
              · have hinv0 := valid_template_clears_invalid L spec w.objs w.env t.status cfg retry r hi hr ha hoe
                obtain ⟨cfg', retry', r', hi', hr', _, o, ho1, ho2, ho3⟩ :=
                  target_eq_render_of_current_sources L spec w.objs w.env t.status hoe hinv0
                rw [inputOf, hi] at hi'
                cases hi'
                rw [hr] at hr'
                cases hr'
                rw [hout]
                simp only [hoe, if_false, Bool.and_eq_true, decide_eq_true_eq]
                have hso := core_sources_observed L spec w.objs w.env t.status hoe hinv0
                refine ⟨⟨⟨(hinv hoe).trans hinv0, ?_⟩, retried_of hout hoi⟩, ?_⟩
                · rw [hobjs, ho1]
                  simp [ho2, ho3]
                · unfold sourcesObserved
                  rw [List.all_eq_true]
                  intro src hs
                  rw [Bool.and_eq_true]
                  constructor
                  · rw [hwat]
                    simpa using (mem_watchAll _ _ _ _).mpr (Or.inr ⟨rfl, hso.1 src hs⟩)
                  · rw [hobjs]
                    cases hob : (templateCore L spec w.objs w.env t.status).objs (srcKey L spec src) with
                    | none => rfl
                    | some o => simpa using hso.2 src hs o hob

/-! ### non-vacuity: a concrete universe in which the hypotheses of the theorems are met -/

namespace Example

/-- kinds: `CM` namespaced, `CR` cluster-scoped, anything else unknown; an item copies
`data[key]` to `dest`; the template prints the whole config plus the environment into a `CM`
named `t` (namespace left to the default). -/
def leaves : Leaves Unit :=
  { scope := fun k => if k = "CM" then .namespaced else if k = "CR" then .cluster else .unknown,
    copy := fun it _ o cfg => (o.data.lookup it.key).map fun v => cfg ++ [(it.dest, v)],
    render := fun _ cfg env => .ok ⟨"CM", "", "t", cfg ++ [("env", env)], false⟩ }

def src (kind ns : String) (opt : Bool) : Source := ⟨kind, ns, "s0", opt, [⟨"a", "x"⟩]⟩

def spec (s : Source) : Spec Unit := { ns := "ns1", template := (), sources := [s] }

def fresh : Tmpl := ⟨false, false, ⟨.none, [], none⟩⟩

def world (v : Option String) : World :=
  { objs := fun k => if k = ⟨"CM", "ns1", "s0"⟩ then v.map (fun x => ⟨[("a", x)], false, 1, none, []⟩) else none,
    tmpl := some fresh, watches := [("CM", .peer)], env := "e0" }

/-- history: source present → pass (labels the source, creates the target = rendering, no Invalid,
watches CM) → source edited → pass (target = rendering of the NEW value) → source deleted → pass
(Invalid/SourceError, resource retry, target left alone) → ObjectTemplate deleted → pass (watches
released, peer's watch kept, object gone). -/
example :
    let L := leaves
    let sp := spec (src "CM" "" false)
    let tk : Key := ⟨"CM", "ns1", "t"⟩
    let sk : Key := ⟨"CM", "ns1", "s0"⟩
    let r1 := reconcile L sp (world (some "1"))
    let w2 := (envStep L r1.world (.put sk [("a", "2")] false))
    let r2 := reconcile L sp w2.1
    let w3 := (envStep L r2.world (.del sk))
    let r3 := reconcile L sp w3.1
    let w4 := (envStep L r3.world .delTmpl)
    let r4 := reconcile L sp w4.1
    (r1.out = .ok ∧ r1.writes.map (·.verb) = [.merge, .merge, .create, .status] ∧
      (r1.world.objs tk).map (·.data) = some [("x", "1"), ("env", "e0")] ∧
      (r1.world.objs sk).map (·.label) = some true ∧
      r1.world.watches = [("CM", .peer), ("CM", .tmpl)] ∧
      r1.world.tmpl.map (·.status.invalid) = some .none) ∧
    (w2.2 = 2 ∧ r2.out = .ok ∧ (r2.world.objs tk).map (·.data) = some [("x", "2"), ("env", "e0")] ∧
      r2.writes.map (·.verb) = [.update, .status]) ∧
    (w3.2 = 1 ∧ r3.out = .requeueRes ∧ r3.world.tmpl.map (·.status.invalid) = some .source ∧
      (r3.world.objs tk).map (·.data) = some [("x", "2"), ("env", "e0")] ∧
      r3.writes.map (·.verb) = [.status]) ∧
    (r4.world.tmpl = none ∧ r4.world.watches = [("CM", .peer)]) := by
  decide

/-- hypotheses of `out_of_namespace_no_write_invalid` / `missing_optional_retries` are
satisfiable and the conclusions are what the model computes: a cluster-scoped source kind (with
the template's namespace written on it), a source in another namespace, an unknown API ⇒
`Invalid/SourceError` and no write but the finalizer and the status; an absent optional source ⇒
retry after the optional interval, target rendered from what is there, no `Invalid`. -/
example :
    let L := leaves
    let r1 := reconcile L (spec (src "CR" "ns1" false)) (world none)
    let r2 := reconcile L (spec (src "CM" "ns2" false)) (world none)
    let r3 := reconcile L (spec (src "Nope" "" false)) (world none)
    let r4 := reconcile L (spec (src "CM" "" true)) (world none)
    (¬ InNamespace L.scope "ns1" "CR" "ns1" ∧ ¬ InNamespace L.scope "ns1" "CM" "ns2" ∧
      ¬ InNamespace L.scope "ns1" "Nope" "") ∧
    (r1.out = .ok ∧ r1.world.tmpl.map (·.status.invalid) = some .source ∧
      r1.writes.map (·.verb) = [.merge, .status] ∧ r1.world.watches = [("CM", .peer)]) ∧
    (r2.out = .ok ∧ r2.world.tmpl.map (·.status.invalid) = some .source ∧
      r2.writes.map (·.verb) = [.merge, .status]) ∧
    (r3.out = .ok ∧ r3.world.tmpl.map (·.status.invalid) = some .source ∧
      r3.writes.map (·.verb) = [.merge, .status]) ∧
    (r4.out = .requeueOpt ∧ r4.world.tmpl.map (·.status.invalid) = some .none ∧
      (r4.world.objs ⟨"CM", "ns1", "t"⟩).map (·.data) = some [("env", "e0")]) := by
  decide

end Example

end Pko.Props.C18
