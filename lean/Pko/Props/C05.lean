/-
Property C05 — Deletes hit only objects PKO controls, pinned to the inspected version.

Theorems about `teardownPhaseObject` / `teardownPhase` of `Pko.Model.Phase`, for both owner
strategies, every store and every schedule of third-party operations between PKO's read and
its write (`World.env`).
-/
import Pko.Model.Phase
import Pko.Lemmas.Watch

namespace Pko.Props.C05
open Pko.Kube Pko.Model.Phase

/-- What one teardown step may do to the API, in terms of the object it READ at the start of the step. -/
inductive StepShape (cfg : Cfg) (ow : Owner) (p : PObj) (w : World) (w' : World) : Prop where
  /-- nothing was written and the store is untouched -/
  | nothing : w'.events = w.events → w'.store.objs = w.store.objs → StepShape cfg ow p w w'
  /-- co-owned object: one merge patch that drops (at most) the owner's own native reference and
  the cache label; never a delete -/
  | deref (cur : Obj) (changed : Bool) (res : Option ApiErr) :
      w.store.get (keyOf cfg ow p) = some cur →
      isController cfg.st (ow.ref true) cur = false → isOwner cfg.st (ow.ref true) cur = true →
      w'.events = w.events ++ [.merge (keyOf cfg ow p) changed
        (match cfg.st with
          | .native => removeFirst (sameObj (ow.ref true)) cur.owners
          | .annotation => cur.owners) res] →
      StepShape cfg ow p w w'
  /-- controlled object: one delete carrying exactly the uid and resourceVersion that were read -/
  | delete (cur : Obj) (res : Option ApiErr) :
      w.store.get (keyOf cfg ow p) = some cur →
      isController cfg.st (ow.ref true) cur = true →
      w'.events = w.events ++ [.delete (keyOf cfg ow p) cur.uid cur.rv res] →
      StepShape cfg ow p w w'

/-- **delete_only_controller / coowned_only_deref / foreign_untouched** in one statement:
a teardown step on one object has one of the three shapes above. -/
theorem teardownPhaseObject_shape (cfg : Cfg) (ow : Owner) (p : PObj) (w : World) :
    StepShape cfg ow p w (teardownPhaseObject cfg ow p w).1 := by
  simp only [teardownPhaseObject, watch_store, watch_beforeWrite_store]
  split
  · exact .nothing rfl rfl
  · exact .nothing rfl rfl
  · cases hget : w.store.get (keyOf cfg ow p) with
    | none => exact .nothing rfl rfl
    | some cur =>
      simp only
      by_cases hc : isController cfg.st (ow.ref true) cur = true
      · simp only [hc, Bool.not_true, Bool.false_eq_true, ↓reduceIte]
        cases hd : (w.beforeWrite.store.delete (keyOf cfg ow p) cur.uid cur.rv) with
        | mk s r =>
          cases r with
          | ok u => exact .delete cur _ hget hc rfl
          | error e => cases e <;> exact .delete cur _ hget hc rfl
      · have hc' : isController cfg.st (ow.ref true) cur = false := by simpa using hc
        simp only [hc', Bool.not_false, ↓reduceIte]
        by_cases ho : isOwner cfg.st (ow.ref true) cur = true
        · simp only [ho, Bool.not_true, Bool.false_eq_true, ↓reduceIte]
          cases hm : (w.beforeWrite.store.mergeOwnersPatch (keyOf cfg ow p)
              (match cfg.st with
                | .native => removeFirst (sameObj (ow.ref true)) cur.owners
                | .annotation => cur.owners)) with
          | mk s r =>
            cases r with
            | ok o => exact .deref cur _ _ hget hc' ho rfl
            | error e => exact .deref cur _ _ hget hc' ho rfl
        · have ho' : isOwner cfg.st (ow.ref true) cur = false := by simpa using ho
          simp only [ho', Bool.not_false, ↓reduceIte]
          exact .nothing rfl rfl

/-- The API's delete has no effect unless both preconditions match the stored object. -/
theorem delete_precondition (s : Store) (k : Key) (u rv : Nat) (c : Obj)
    (hget : s.get k = some c) (hne : c.uid ≠ u ∨ c.rv ≠ rv) :
    s.delete k u rv = (s, .error .conflict) := by
  simp [Store.delete, hget, hne]

/-- **delete_pinned**: if a third party changed the object between PKO's read and its delete
(any write bumps the resourceVersion, a re-creation changes the uid), or removed it, the teardown
step leaves the store exactly as the third party left it — the object survives. -/
theorem delete_pinned (cfg : Cfg) (ow : Owner) (p : PObj) (w : World) (cur : Obj)
    (hpf : preflightObj cfg ow "" false p = .ok)
    (hget : w.store.get (keyOf cfg ow p) = some cur)
    (hc : isController cfg.st (ow.ref true) cur = true)
    (hchg : ∀ c, w.beforeWrite.store.get (keyOf cfg ow p) = some c → c.uid ≠ cur.uid ∨ c.rv ≠ cur.rv) :
    (teardownPhaseObject cfg ow p w).1.store.objs = w.beforeWrite.store.objs := by
  simp only [teardownPhaseObject, watch_store, watch_beforeWrite_store, hpf, hget, hc, Bool.not_true, Bool.false_eq_true, ↓reduceIte]
  cases hg : w.beforeWrite.store.get (keyOf cfg ow p) with
  | none =>
    have : w.beforeWrite.store.delete (keyOf cfg ow p) cur.uid cur.rv = (w.beforeWrite.store, .error .notFound) := by
      simp [Store.delete, hg]
    simp [this, World.log]
  | some c =>
    have := delete_precondition _ _ cur.uid cur.rv c hg (hchg c hg)
    simp [this, World.log]

theorem set_get_other (s : Store) (k k' : Key) (v : Option Obj) (hk : k' ≠ k) :
    (s.set k v).get k' = s.get k' := by
  simp [Store.get, Store.set, hk]

theorem commit_get_other (s : Store) (k k' : Key) (a b : Obj) (hk : k' ≠ k) :
    (commit s k a b).1.get k' = s.get k' := by
  simp only [commit]
  split
  · exact set_get_other _ _ _ _ hk
  · split
    · rfl
    · simp [Store.get, Store.set, hk]

theorem delete_get_other (s : Store) (k k' : Key) (u rv : Nat) (hk : k' ≠ k) :
    (s.delete k u rv).1.get k' = s.get k' := by
  simp only [Store.delete]
  split
  · rfl
  · split
    · rfl
    · split
      · split
        · rfl
        · simp [Store.get, Store.set, hk]
      · exact set_get_other _ _ _ _ hk

theorem mergeOwnersPatch_get_other (s : Store) (k k' : Key) (os : List ORef) (hk : k' ≠ k) :
    (s.mergeOwnersPatch k os).1.get k' = s.get k' := by
  simp only [Store.mergeOwnersPatch]
  split
  · rfl
  · exact commit_get_other _ _ _ _ _ hk

/-- Objects at other keys are never touched by a teardown step: whatever is found there
afterwards is what was there before, or what third parties made of it. -/
theorem teardownPhaseObject_other_keys (cfg : Cfg) (ow : Owner) (p : PObj) (w : World) (k : Key)
    (hk : k ≠ keyOf cfg ow p) :
    (teardownPhaseObject cfg ow p w).1.store.get k = w.store.get k ∨
    (teardownPhaseObject cfg ow p w).1.store.get k = w.beforeWrite.store.get k := by
  simp only [teardownPhaseObject, watch_store, watch_beforeWrite_store]
  split
  · left; rfl
  · left; rfl
  · cases hget : w.store.get (keyOf cfg ow p) with
    | none => left; rfl
    | some cur =>
      simp only
      split
      · split
        · left; rfl
        · right
          have := mergeOwnersPatch_get_other w.beforeWrite.store (keyOf cfg ow p) k
            (match cfg.st with
              | .native => removeFirst (sameObj (ow.ref true)) cur.owners
              | .annotation => cur.owners) hk
          revert this
          cases (w.beforeWrite.store.mergeOwnersPatch (keyOf cfg ow p) _) with
          | mk s r => intro this; cases r <;> simpa [World.log] using this
      · right
        have := delete_get_other w.beforeWrite.store (keyOf cfg ow p) k cur.uid cur.rv hk
        revert this
        cases (w.beforeWrite.store.delete (keyOf cfg ow p) cur.uid cur.rv) with
        | mk s r =>
          intro this
          cases r with
          | ok u => simpa [World.log] using this
          | error e => cases e <;> simpa [World.log] using this

/-- Pass level: every event `TeardownPhase` appends is a merge patch or a delete on the key of
a listed object (never an apply). -/
theorem teardownPhase_events (cfg : Cfg) (ow : Owner) (ps : List PObj) (w : World) (b : Bool) :
    ∃ evs, (teardownPhase.go cfg ow ps w b).1.events = w.events ++ evs ∧
      ∀ e ∈ evs, ∃ p ∈ ps,
        (∃ ch os res, e = .merge (keyOf cfg ow p) ch os res) ∨ (∃ u rv res, e = .delete (keyOf cfg ow p) u rv res) := by
  induction ps generalizing w b with
  | nil => exact ⟨[], by simp [teardownPhase.go], by simp⟩
  | cons p rest ih =>
    have hshape := teardownPhaseObject_shape cfg ow p w
    have hhead : ∃ ev0, (teardownPhaseObject cfg ow p w).1.events = w.events ++ ev0 ∧
        ∀ e ∈ ev0, (∃ ch os res, e = .merge (keyOf cfg ow p) ch os res) ∨ (∃ u rv res, e = .delete (keyOf cfg ow p) u rv res) := by
      cases hshape with
      | nothing h _ => exact ⟨[], by simpa using h, by simp⟩
      | deref cur ch res _ _ _ h => exact ⟨_, h, by intro e hm; simp at hm; exact Or.inl ⟨_, _, _, hm⟩⟩
      | delete cur res _ _ h => exact ⟨_, h, by intro e hm; simp at hm; exact Or.inr ⟨_, _, _, hm⟩⟩
    obtain ⟨ev0, he0, hj0⟩ := hhead
    simp only [teardownPhase.go]
    cases hr : teardownPhaseObject cfg ow p w with
    | mk w' res =>
      rw [hr] at he0; simp only at he0
      cases res with
      | err => exact ⟨ev0, he0, fun e hm => ⟨p, by simp, hj0 e hm⟩⟩
      | done =>
        obtain ⟨evs, hev, hj⟩ := ih w' b
        refine ⟨ev0 ++ evs, by simp [hev, he0, List.append_assoc], ?_⟩
        intro e hm
        rcases List.mem_append.1 hm with h | h
        · exact ⟨p, by simp, hj0 e h⟩
        · obtain ⟨q, hq, r⟩ := hj e h; exact ⟨q, by simp [hq], r⟩
      | notDone =>
        obtain ⟨evs, hev, hj⟩ := ih w' false
        refine ⟨ev0 ++ evs, by simp [hev, he0, List.append_assoc], ?_⟩
        intro e hm
        rcases List.mem_append.1 hm with h | h
        · exact ⟨p, by simp, hj0 e h⟩
        · obtain ⟨q, hq, r⟩ := hj e h; exact ⟨q, by simp [hq], r⟩

/-- Non-vacuity: a controlled object is deleted with its uid/rv; a re-created one survives. -/
example :
    let ow : Owner := ⟨pkoGroup, "ObjectSet", "ns1", "own", "u-own", 3, false, ""⟩
    let cfg : Cfg := { st := .native, flavour := ⟨true, true, true⟩, scope := fun _ => .namespaced, force := false }
    let p : PObj := ⟨"NsThing", "", "a", .prevent, "x", false, .accept⟩
    let o : Obj := { (default : Obj) with uid := 1, rv := 1, owners := [ow.ref true] }
    let s : Store := { objs := fun k => if k = ⟨"NsThing", "ns1", "a"⟩ then some o else none, nextUID := 2, nextRV := 2 }
    let w : World := { store := s, writes := 0, env := [], events := [] }
    let w2 : World := { w with env := [(0, .recreate ⟨"NsThing", "ns1", "a"⟩)] }
    ((teardownPhaseObject cfg ow p w).1.store.get ⟨"NsThing", "ns1", "a"⟩).isNone ∧
    ((teardownPhaseObject cfg ow p w2).1.store.get ⟨"NsThing", "ns1", "a"⟩).isSome := by
  decide

end Pko.Props.C05
