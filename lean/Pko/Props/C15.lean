/-
Property C15 — Delegating a phase to an ObjectSetPhase preserves behaviour.

Theorems about `Pko.Model.Remote` (ObjectSet side of a delegated phase and the ObjectSetPhase
controller pass).  The phase controller reuses the SAME `PhaseReconciler` model with the phase
object as owner, so every theorem of C01, C05, C11 (adoption decisions, deletes, preflight and
namespace confinement) — all stated for an arbitrary `Owner` — holds verbatim for delegated
phases; the theorems below add what is specific to delegation.
The eventual equivalence of whole two-controller executions is NOT proved (`…_partial` note at
the end); it is explored by the sys correspondence stream.
-/
import Pko.Model.Remote
import Pko.Props.C03
import Pko.Props.C04
import Pko.Props.C09

namespace Pko.Props.C15
open Pko.Kube Pko.Model.Phase Pko.Model.ObjectSet Pko.Model.Status Pko.Model.Remote

/-- **phase_carries**: the phase object an ObjectSet asks for carries the phase's objects, the
ObjectSet's revision, previous revisions, paused state and package label, is named after set and
phase, and is controlled by the ObjectSet. -/
theorem phase_carries (o : OSet) (ph : PhaseSpec) :
    let p := desiredPhase o ph
    p.name = o.name ++ "-" ++ ph.name ∧ p.objs = ph.objs ∧ p.revision = o.revision ∧
    p.previous = o.previous ∧ (p.paused = true ↔ o.lifecycle = .paused) ∧
    p.ctrlName = o.name ∧ p.ctrlUID = o.uid ∧ p.pkgLabel = o.pkgLabel := by
  simp [desiredPhase, phaseName]

theorem propagatePause_events (o : OSet) (n : String) (cur : OPhase) (w : World) :
    (propagatePause o n cur w).1.events = w.events := by
  simp only [propagatePause]; split <;> simp [setPhase, freshRV, World.tick]

/-- reconciling a delegated phase never writes a managed object itself. -/
theorem remoteReconcile_events (o : OSet) (ph : PhaseSpec) (w : World) :
    (remoteReconcile o ph w).1.events = w.events := by
  simp only [remoteReconcile]
  split
  · simp [remoteContinue, propagatePause_events, setPhase, freshRV, freshUID, World.tick]
  · simp [remoteContinue, propagatePause_events]

theorem remoteTeardown_events (o : OSet) (ph : PhaseSpec) (w : World) :
    (remoteTeardown o ph w).1.events = w.events := by
  simp only [remoteTeardown]
  (repeat' split) <;> simp [setPhase, freshRV, World.tick]

/-- **exactly one phase object per delegated phase**: it is created only when absent (under its
fixed name), and then equals the desired object; an existing one is never re-created — the only
write it may receive from the ObjectSet's rollout is the pause patch. -/
theorem create_only_when_absent (o : OSet) (ph : PhaseSpec) (w : World) :
    (w.phases (phaseName o ph) = none →
      (remoteReconcile o ph w).1.phases (phaseName o ph) =
        some { desiredPhase o ph with uid := s!"uid-{w.store.nextUID}", gen := 1, rv := w.store.nextRV } ∧
      (remoteReconcile o ph w).1.phaseEvents = w.phaseEvents ++ [.create (phaseName o ph) none]) ∧
    (∀ cur, w.phases (phaseName o ph) = some cur →
      (remoteReconcile o ph w).1.phaseEvents = w.phaseEvents ∨
      ∃ b, (remoteReconcile o ph w).1.phaseEvents = w.phaseEvents ++ [.pausePatch (phaseName o ph) b none]) := by
  constructor
  · intro h
    -- the created object already carries the desired pause state: no pause patch follows
    simp only [remoteReconcile, h, remoteContinue, propagatePause, desiredPhase, ne_eq, not_true_eq_false,
      ↓reduceIte]
    exact ⟨by simp [setPhase, freshRV, freshUID, World.tick, desiredPhase],
           by simp [setPhase, freshRV, freshUID, World.tick]⟩
  · intro cur h
    simp only [remoteReconcile, h, remoteContinue, propagatePause]
    split
    · right; exact ⟨decide (o.lifecycle = .paused), by simp [setPhase, freshRV, World.tick]⟩
    · left; rfl

/-- generation of the phase object after the pause propagation of this pass. -/
def genAfter (o : OSet) (cur : OPhase) : Nat :=
  if cur.paused ≠ decide (o.lifecycle = .paused) then cur.gen + 1 else cur.gen

theorem propagatePause_snd (o : OSet) (n : String) (cur : OPhase) (w : World) :
    (propagatePause o n cur w).2.gen = genAfter o cur ∧
    (propagatePause o n cur w).2.conds = cur.conds ∧
    (propagatePause o n cur w).2.controllerOf = cur.controllerOf := by
  simp only [propagatePause, genAfter]; split <;> simp

/-- **available_trusted_only_current_generation**: the ObjectSet counts a delegated phase as
passed only if the phase object exists and reports Available=True with observedGeneration equal
to the phase object's CURRENT generation — the generation after this pass's own pause patch, so a
report made before a pause flip is never trusted. -/
theorem available_trusted_only_current_generation (o : OSet) (ph : PhaseSpec) (w : World) (co : List CRef)
    (h : (remoteReconcile o ph w).2 = .ok (co, true)) :
    ∃ cur c, w.phases (phaseName o ph) = some cur ∧
      findCond cur.conds "Available" = some c ∧ c.obsGen = genAfter o cur ∧ c.status = "True" ∧
      co = cur.controllerOf := by
  simp only [remoteReconcile] at h
  cases hp : w.phases (phaseName o ph) with
  | none =>
    -- a phase object created in this pass has reported nothing yet
    rw [hp] at h
    simp [remoteContinue, propagatePause, desiredPhase, relayStatus, findCond] at h
  | some cur =>
    rw [hp] at h
    simp only [remoteContinue, Except.ok.injEq] at h
    have hs := propagatePause_snd o (phaseName o ph) cur
      { w with remoteRefs := addRemote w.remoteRefs (cur.name, cur.uid) }
    simp only [relayStatus, hs.2.1, hs.2.2, hs.1] at h
    cases hc : findCond cur.conds "Available" with
    | none => rw [hc] at h; simp at h
    | some c =>
      rw [hc] at h
      simp only at h
      by_cases hg : c.obsGen ≠ genAfter o cur
      · simp [hg] at h
      · have hg' : c.obsGen = genAfter o cur := by simpa using hg
        simp only [hg, ↓reduceIte, Prod.mk.injEq, decide_eq_true_eq] at h
        exact ⟨cur, c, rfl, hc, hg', h.2, h.1.symm⟩

/-- Corollary: since the phase controller only ever reports for generations that exist
(`obsGen ≤ gen`), a delegated phase passes only if NO pause flip was needed in this pass. -/
theorem passes_only_without_pause_flip (o : OSet) (ph : PhaseSpec) (w : World) (co : List CRef)
    (h : (remoteReconcile o ph w).2 = .ok (co, true))
    (hinv : ∀ cur, w.phases (phaseName o ph) = some cur → ∀ c ∈ cur.conds, c.obsGen ≤ cur.gen) :
    ∃ cur, w.phases (phaseName o ph) = some cur ∧ cur.paused = decide (o.lifecycle = .paused) := by
  obtain ⟨cur, c, hcur, hfc, hgen, _, _⟩ := available_trusted_only_current_generation o ph w co h
  refine ⟨cur, hcur, ?_⟩
  have hmem : c ∈ cur.conds := List.mem_of_find?_eq_some hfc
  have hle := hinv cur hcur c hmem
  simp only [genAfter] at hgen
  by_cases hflip : cur.paused ≠ decide (o.lifecycle = .paused)
  · simp [hflip] at hgen; omega
  · simpa using hflip

/-- **teardown = delete and wait**: the ObjectSet regards a delegated phase as torn down only
when the phase object is gone or is not its own; otherwise it (re-)issues the delete and waits. -/
theorem remote_teardown_waits (o : OSet) (ph : PhaseSpec) (w : World) :
    ((remoteTeardown o ph w).2 = .done ↔
      (w.phases (phaseName o ph) = none ∨
       ∃ cur, w.phases (phaseName o ph) = some cur ∧ (cur.ctrlName ≠ o.name ∨ cur.ctrlUID ≠ o.uid))) ∧
    ((remoteTeardown o ph w).2 ≠ .done →
      (remoteTeardown o ph w).1.phaseEvents = w.phaseEvents ++ [.delete (phaseName o ph) none]) := by
  simp only [remoteTeardown]
  cases hp : w.phases (phaseName o ph) with
  | none => simp
  | some cur =>
    simp only
    by_cases hown : cur.ctrlName ≠ o.name ∨ cur.ctrlUID ≠ o.uid
    · simp [hown]
    · simp only [hown, ↓reduceIte]
      constructor
      · constructor
        · intro h; revert h; (repeat' split) <;> simp
        · intro h; rcases h with h | ⟨c, hc, hne⟩
          · cases h
          · cases hc; exact absurd hne hown
      · intro _; (repeat' split) <;> simp [setPhase, freshRV, World.tick]

/-- **delegated_pass_eq_local_pass**: the managed-object writes of an ObjectSetPhase controller
pass on a live phase object are exactly those of the in-process phase reconciler run with the
phase object as owner on the same store — the same objects, the same adoption decisions, the same
preflight, in the same order (finalizer and status writes touch only the phase object). -/
theorem delegated_pass_eq_local_pass (cfg : Cfg) (setKind ns name : String) (s : Sys) (mem : OPhase)
    (hget : s.w.phases name = some mem) (hlive : mem.deleting = false) (hfin : mem.finCached = true) :
    (reconcilePhaseCtl cfg setKind ns name s).1.w.events =
      (reconcilePhaseObjs cfg (phaseOwner mem setKind ns) (lookupPrevFor s setKind mem.previous) mem.objs s.w).1.events := by
  have hlw : ∀ (w : World) (m : OPhase) (f : OPhase → OPhase), (lockedPhaseWrite w m f).1.events = w.events := by
    intro w m f; simp only [lockedPhaseWrite]; (repeat' split) <;> simp [setPhase, freshRV, World.tick]
  have hus : ∀ (w : World) (m : OPhase), (updatePhaseStatus w m).1.events = w.events := by
    intro w m; simp only [updatePhaseStatus]; split <;> simp [hlw]
  have haps : ∀ (x : World × Except ApiErr OPhase) (r : Res), (afterPhaseStatus x r).1 = x.1 := by
    intro x r; obtain ⟨w, e⟩ := x; cases e <;> rfl
  simp only [reconcilePhaseCtl, hget, hlive, Bool.false_eq_true, ↓reduceIte, setPhaseFinalizer, hfin]
  cases hr : reconcilePhaseObjs cfg (phaseOwner mem setKind ns) (lookupPrevFor s setKind mem.previous) mem.objs s.w with
  | mk w' r =>
    obtain ⟨oc, objs⟩ := r
    cases oc <;> simp [haps, hus]

/-- an entry of the type just set IS the condition just set. -/
theorem setCond_mem_type (cs : List Cond) (c0 c : Cond) (hm : c ∈ setCond cs c0) (ht : c.type = c0.type) : c = c0 := by
  simp only [setCond] at hm
  split at hm
  · obtain ⟨x, _, hx⟩ := List.mem_map.1 hm
    by_cases hxt : x.type = c0.type
    · simp [hxt] at hx; exact hx.symm
    · simp [hxt] at hx; subst hx; exact absurd ht hxt
  · rename_i hnone
    rcases List.mem_append.1 hm with h | h
    · exfalso; apply hnone; simp only [List.any_eq_true]; exact ⟨c, h, by simp [ht]⟩
    · simpa using h

/-- the status a phase controller pass writes says Available=True exactly when every object of the
phase was returned and passed its probes — the SAME criterion the in-process phase uses — and
every Available entry it leaves is stamped with the phase object's generation. -/
theorem phase_status_reflects_probes (gen : Nat) (conds : List Cond) (failed : List String) :
    let cs := if failed.isEmpty then setCond conds (availableCond gen true "Available" "")
              else setCond conds (availableCond gen false "ProbeFailure" "")
    (condTrue cs "Available" = true ↔ failed = []) ∧
    ∀ c ∈ cs, c.type = "Available" → c.obsGen = gen := by
  by_cases hf : failed.isEmpty
  · have : failed = [] := by simpa using hf
    simp only [hf, ↓reduceIte, this, iff_true]
    exact ⟨Pko.Lemmas.ObjectSet.condTrue_setCond_true _ "Available" _ _ _,
      fun c hc ht => by rw [setCond_mem_type _ _ c hc (by simpa [availableCond] using ht)]; rfl⟩
  · have hne : failed ≠ [] := by simpa using hf
    simp only [hf, Bool.false_eq_true, ↓reduceIte, hne, iff_false, Bool.not_eq_true]
    exact ⟨Pko.Lemmas.ObjectSet.condTrue_setCond_false _ "Available" "False" _ _ _ (by simp),
      fun c hc ht => by rw [setCond_mem_type _ _ c hc (by simpa [availableCond] using ht)]; rfl⟩

/-- C03's gating theorem instantiated with the real delegated-phase behaviour. -/
theorem rollout_gated_with_delegation (cfg : Cfg) (o : OSet) (prev : List Prev) (w : World) :
    ∃ evs, (reconcilePhases cfg o.owner prev (remoteReconcile o) o.phases w []).1.events = w.events ++ evs ∧
      ∀ e ∈ evs, ∃ l1 v l2,
        Pko.Props.C03.visitsPh cfg o.owner prev (remoteReconcile o) o.phases w = l1 ++ v :: l2 ∧
        (∃ p ∈ v.1.objs, ∃ c ch, e = .apply (keyOf cfg o.owner p) c ch) ∧
        ∀ u ∈ l1, Pko.Props.C03.Clean cfg o.owner prev (remoteReconcile o) u.1 u.2 :=
  Pko.Props.C03.rollout_gated cfg o.owner prev (remoteReconcile o) (remoteReconcile_events o) o.phases w []

/-- C04's reverse-order theorem instantiated with the real delegated-phase teardown. -/
theorem teardown_reverse_with_delegation (cfg : Cfg) (o : OSet) (w : World) :
    ∃ evs, (teardownPhases cfg o.owner (remoteTeardown o) o.phases.reverse w).1.events = w.events ++ evs ∧
      ∀ e ∈ evs, ∃ l1 v l2,
        Pko.Props.C04.tvisitsPh cfg o.owner (remoteTeardown o) o.phases.reverse w = l1 ++ v :: l2 ∧
        (∃ p ∈ v.1.objs, (∃ ch os res, e = .merge (keyOf cfg o.owner p) ch os res) ∨
                          (∃ u rv res, e = .delete (keyOf cfg o.owner p) u rv res)) ∧
        ∀ u ∈ l1, Pko.Props.C04.PhaseDone cfg o.owner (remoteTeardown o) u.1 u.2 :=
  Pko.Props.C04.teardown_reverse cfg o.owner (remoteTeardown o) (remoteTeardown_events o) o.phases w

/-- handing the pause to an existing phase object (fix C09-a) writes no managed object. -/
theorem remoteSyncPaused_events (o : OSet) (ph : PhaseSpec) (w : World) :
    (remoteSyncPaused o ph w).events = w.events := by
  simp only [remoteSyncPaused]
  split
  · rfl
  · exact propagatePause_events _ _ _ _

/-- **a paused ObjectSet pauses every existing phase object that comes after the phase its pass
stops at** (fix C09-a): after `syncPausedAfter` each such phase object carries `paused = true`. -/
theorem remoteSyncPaused_pauses (o : OSet) (ph : PhaseSpec) (w : World) (hp : o.lifecycle = .paused)
    (cur : OPhase) (hc : w.phases (phaseName o ph) = some cur) :
    ∃ p, (remoteSyncPaused o ph w).phases (phaseName o ph) = some p ∧ p.paused = true := by
  simp only [remoteSyncPaused, hc, propagatePause, hp]
  by_cases h : cur.paused = true
  · exact ⟨cur, by simp [h, hc], h⟩
  · have h' : cur.paused = false := by simpa using h
    refine ⟨{ cur with paused := true, gen := cur.gen + 1, rv := (w.tick).store.nextRV }, ?_, rfl⟩
    simp [h', setPhase, freshRV, World.tick]

/-- C09's hands-off theorem instantiated with the real delegated-phase behaviour. -/
theorem paused_no_object_writes_with_delegation (cfg : Cfg) (name : String) (s : Sys) (mem : OSet)
    (hget : s.sets name = some mem) (hpaused : mem.lifecycle = .paused) (hnd : mem.deleting = false) :
    (reconcile cfg remotes name s).1.w.events = s.w.events :=
  Pko.Props.C09.paused_no_object_writes cfg remotes name s mem hget
    (fun o ph w => remoteReconcile_events o ph w) (fun o ph w => remoteSyncPaused_events o ph w) hpaused hnd

/-- Non-vacuity: a delegated phase whose object reports Available for its generation passes; after
the ObjectSet is paused the same report is not trusted any more (the pause patch moves the
generation on). -/
example :
    let o : OSet := { (default : OSet) with kind := "ObjectSet", ns := "ns1", name := "os1", uid := "uid-1", gen := 1, revision := 1 }
    let ph : PhaseSpec := ⟨"p1", "default", []⟩
    let p : OPhase := { desiredPhase o ph with uid := "uid-2", gen := 1, rv := 5, conds := [⟨"Available", "True", "Available", 1, ""⟩] }
    let w : World := { store := { objs := fun _ => none, nextUID := 3, nextRV := 6 }, writes := 0, env := [], events := [],
                       phases := fun n => if n = "os1-p1" then some p else none }
    (remoteReconcile o ph w).2 = .ok ([], true) ∧
    (remoteReconcile { o with lifecycle := .paused } ph w).2 = .ok ([], false) := by
  exact ⟨rfl, rfl⟩

/-! ### (S1B) the phase object's identity in status.remotePhases, orphan deletion of a phase object -/

/-- `addRemoteObjectSetPhase` lists the reference it is given … -/
theorem addRemote_mem (refs : List (String × String)) (r : String × String) : r ∈ addRemote refs r := by
  unfold addRemote
  split
  · rename_i h
    obtain ⟨x, hx, hn⟩ := List.any_eq_true.mp h
    exact List.mem_map.mpr ⟨x, hx, by simp [of_decide_eq_true hn]⟩
  · simp

/-- … and leaves NO other entry under the same name: a reference recorded earlier for a phase
object of that name (an older uid) is replaced, never kept. -/
theorem addRemote_no_stale (refs : List (String × String)) (r x : String × String)
    (hx : x ∈ addRemote refs r) (hn : x.1 = r.1) : x = r := by
  unfold addRemote at hx
  split at hx
  · obtain ⟨y, _, hy⟩ := List.mem_map.mp hx
    by_cases hyn : y.1 = r.1
    · simpa [hyn] using hy.symm
    · simp only [hyn, ↓reduceIte] at hy
      exact absurd (hy ▸ hn) hyn
  · rename_i h
    rcases List.mem_append.mp hx with h1 | h1
    · exact absurd (List.any_eq_true.mpr ⟨x, h1, by simp [hn]⟩) h
    · simpa using h1

/-- with the phase object at hand the ObjectSet records it (name, current uid) and keeps no other
uid under that name; a pause flip does not change the object's identity. -/
theorem remoteContinue_reports (o : OSet) (n : String) (cur : OPhase) (w : World)
    (hname : cur.name = n) (hget : w.phases n = some cur) :
    ∃ p, (remoteContinue o n cur w).1.phases n = some p ∧ p.name = n ∧
      (n, p.uid) ∈ (remoteContinue o n cur w).1.remoteRefs ∧
      ∀ x ∈ (remoteContinue o n cur w).1.remoteRefs, x.1 = n → x.2 = p.uid := by
  subst hname
  have hmem := addRemote_mem w.remoteRefs (cur.name, cur.uid)
  have hst : ∀ x ∈ addRemote w.remoteRefs (cur.name, cur.uid), x.1 = cur.name → x.2 = cur.uid := by
    intro x hx hn
    have := addRemote_no_stale w.remoteRefs (cur.name, cur.uid) x hx hn
    simp [this]
  simp only [remoteContinue, propagatePause]
  split
  · exact ⟨{ cur with paused := decide (o.lifecycle = .paused), gen := cur.gen + 1, rv := w.store.nextRV },
      by simp [setPhase, freshRV, World.tick], rfl,
      by simpa [setPhase, freshRV, World.tick] using hmem,
      by simpa [setPhase, freshRV, World.tick] using hst⟩
  · exact ⟨cur, by simpa using hget, rfl, by simpa using hmem, by simpa using hst⟩

/-- **remote_reports_current_uid.** A pass of the ObjectSet over a delegated phase — whether it
FINDS the phase object or (re-)CREATES it, e.g. after a third party deleted it — records the phase
object that exists afterwards under its current uid and keeps no other uid for that name:
`isControlledByPreviousRevision` of the next revision compares exactly these (name, uid) pairs with
the controller reference of an object.  (`hwf`: a stored phase object carries the name it is stored
under.) -/
theorem remote_reports_current_uid (o : OSet) (ph : PhaseSpec) (w : World)
    (hwf : ∀ cur, w.phases (phaseName o ph) = some cur → cur.name = phaseName o ph) :
    ∃ p, (remoteReconcile o ph w).1.phases (phaseName o ph) = some p ∧ p.name = phaseName o ph ∧
      (phaseName o ph, p.uid) ∈ (remoteReconcile o ph w).1.remoteRefs ∧
      ∀ x ∈ (remoteReconcile o ph w).1.remoteRefs, x.1 = phaseName o ph → x.2 = p.uid := by
  cases hget : w.phases (phaseName o ph) with
  | none =>
    simp only [remoteReconcile, hget]
    exact remoteContinue_reports o _ _ _ (by simp [desiredPhase]) (by simp [setPhase])
  | some cur =>
    simp only [remoteReconcile, hget]
    exact remoteContinue_reports o _ cur w (hwf cur hget) hget

/-- **orphan_deleted_phase_touches_nothing.** A pass of the ObjectSetPhase controller on a phase
object that is being deleted with orphan propagation (the API server put the "orphan" finalizer on
it) issues no write on any managed object — nothing is deleted, nothing de-referenced, whatever the
phase lists and whoever controls it; only the phase object's own finalizer / status are written. -/
theorem orphan_deleted_phase_touches_nothing (cfg : Cfg) (setKind ns name : String) (s : Sys) (mem : OPhase)
    (hget : s.w.phases name = some mem) (hdel : mem.deleting = true) (horph : mem.finOrphan = true) :
    (reconcilePhaseCtl cfg setKind ns name s).1.w.events = s.w.events ∧
    (reconcilePhaseCtl cfg setKind ns name s).1.w.store.objs = s.w.store.objs := by
  have hlw : ∀ (w : World) (m : OPhase) (f : OPhase → OPhase),
      (lockedPhaseWrite w m f).1.events = w.events ∧ (lockedPhaseWrite w m f).1.store.objs = w.store.objs := by
    intro w m f; simp only [lockedPhaseWrite]; (repeat' split) <;> simp [setPhase, freshRV, World.tick]
  have hus : ∀ (w : World) (m : OPhase),
      (updatePhaseStatus w m).1.events = w.events ∧ (updatePhaseStatus w m).1.store.objs = w.store.objs := by
    intro w m; simp only [updatePhaseStatus]; split <;> simp [hlw]
  have hsf : ∀ (w : World) (m : OPhase) (b : Bool),
      (setPhaseFinalizer w m b).1.events = w.events ∧ (setPhaseFinalizer w m b).1.store.objs = w.store.objs := by
    intro w m b; simp only [setPhaseFinalizer]; (repeat' split) <;> simp [hlw]
  have haps : ∀ (x : World × Except ApiErr OPhase) (r : Res), (afterPhaseStatus x r).1 = x.1 := by
    intro x r; obtain ⟨w, e⟩ := x; cases e <;> rfl
  have htr : (if mem.finCached then (if mem.finOrphan then (s.w, TRes.done) else teardownPhase cfg (phaseOwner mem setKind ns) mem.objs s.w) else (s.w, TRes.done)) = (s.w, TRes.done) := by
    simp [horph]
  simp only [reconcilePhaseCtl, hget, hdel, ↓reduceIte, htr]
  -- (`Free` drops the phase object's cache registrations: no write, the store is untouched)
  cases hf : setPhaseFinalizer (s.w.free (phaseOwner mem setKind ns).wref) mem false with
  | mk w' r =>
    have h1 := hsf (s.w.free (phaseOwner mem setKind ns).wref) mem false
    rw [hf] at h1
    simp only at h1
    have h2 : w'.events = s.w.events ∧ w'.store.objs = s.w.store.objs := h1
    cases r <;> simp [haps, hus, h2.1, h2.2]

/-- Non-vacuity: a phase object re-created after a third party deleted it is reported under its new
uid (`SetRemotePhases` folds the collected references into the recorded ones): the uid recorded before is gone. -/
example :
    let o : OSet := { (default : OSet) with kind := "ObjectSet", ns := "ns1", name := "os1", uid := "uid-1", gen := 1, revision := 1, remotePhases := [("os1-p1", "uid-2")] }
    let ph : PhaseSpec := ⟨"p1", "default", []⟩
    let w : World := { store := { objs := fun _ => none, nextUID := 5, nextRV := 9 }, writes := 0, env := [], events := [] }
    (remoteReconcile o ph w).1.remoteRefs.foldl addRemote o.remotePhases = [("os1-p1", "uid-5")] := by
  decide +kernel

/- NOT PROVED (`eventual_equivalence_partial`): that a whole execution of ObjectSet controller +
ObjectSetPhase controller under a fair schedule reaches the same end state as the in-process
execution.  The sys correspondence stream explores it; see DESIGN.md §6 C15. -/

end Pko.Props.C15
