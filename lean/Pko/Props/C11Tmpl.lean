/-
Property C11, ObjectTemplate clause — "ObjectTemplates never create, modify or delete
cluster-scoped objects or objects in another namespace" and "no object is created or patched
unless it passed preflight".

The object an ObjectTemplate writes is rendered from the values its sources hold at the time of
the pass: kind, metadata.namespace and ownerReferences of that object are template OUTPUT and can
change while the ObjectTemplate (spec, generation, uid) stays as it is.  The code that exists
(`templateReconciler.templateObject`) runs the preflight checks on the rendered object in every
pass; the model (`Pko.Model.Template`) has no state a verdict could be kept in.  The theorems say
what follows, for every store, template, source list, REST scope table and behaviour of the opaque
leaves (item copy, text/template + yaml):

* `verdict_is_of_this_pass` — two worlds that agree on the API objects, the environment and the
  ObjectTemplate, but differ arbitrarily in what the operator PROCESS holds (the dynamic cache's
  registrations: all there is) give the same writes, result, objects and status: nothing that
  happened in earlier passes of the process — in particular no earlier "passed" — reaches a pass;
* `inadmissible_render_writes_nothing` — in EVERY world (= after every history), if the template
  rendered with the CURRENT sources and environment is not admissible, the pass sends no create /
  update, changes no payload, ends without error and reports Invalid (SourceError);
* `writes_stay_inside` — every write of every pass of a namespaced ObjectTemplate goes to the
  ObjectTemplate itself or to a namespaced kind inside its namespace;
* `model_satisfies_checkPassNs` — monitor-vs-model: the model's passes satisfy the predicate the
  driver `Pko.Drv.C11Tmpl` evaluates on the implementation's passes.
-/
import Pko.Model.TemplateNsSpec
import Pko.Props.C18

namespace Pko.Props.C11Tmpl
open Pko.Model.Template Pko.Model.TemplateSpec Pko.Model.TemplateNsSpec Pko.Props.C18

variable {T : Type}

/-- **verdict_is_of_this_pass**: the pass is a function of the API objects, the environment and
the ObjectTemplate at the time of the pass; the in-memory state of the operator process (`watches`
is all of it) has no say. -/
theorem verdict_is_of_this_pass (L : Leaves T) (spec : Spec T) (w₁ w₂ : World)
    (ho : w₁.objs = w₂.objs) (ht : w₁.tmpl = w₂.tmpl) (he : w₁.env = w₂.env) :
    (reconcile L spec w₁).writes = (reconcile L spec w₂).writes ∧
    (reconcile L spec w₁).out = (reconcile L spec w₂).out ∧
    (reconcile L spec w₁).world.objs = (reconcile L spec w₂).world.objs ∧
    (reconcile L spec w₁).world.tmpl = (reconcile L spec w₂).world.tmpl :=
  source_change_changes_input L spec w₁ w₂ ho ht he

/-- In particular a restart of the operator (which empties the registrations) changes nothing about
what the next pass writes: the pass before and after the restart are the same function of the API. -/
theorem restart_irrelevant (L : Leaves T) (spec : Spec T) (w : World) :
    (reconcile L spec (envStep L w .restart).1).writes = (reconcile L spec w).writes ∧
    (reconcile L spec (envStep L w .restart).1).out = (reconcile L spec w).out ∧
    (reconcile L spec (envStep L w .restart).1).world.objs = (reconcile L spec w).world.objs ∧
    (reconcile L spec (envStep L w .restart).1).world.tmpl = (reconcile L spec w).world.tmpl :=
  verdict_is_of_this_pass L spec _ w rfl rfl rfl

/-- **inadmissible_render_writes_nothing**: whatever happened before (the statement is about
EVERY world), a pass over a live ObjectTemplate whose template — rendered with the sources and the
environment as they are NOW — yields an object that does not pass preflight (API unknown, own
ownerReferences, and for a namespaced template: cluster-scoped kind or other namespace; for a
cluster template: namespaced kind without namespace) sends no create and no update, leaves every
payload as it is, does not fail, and persists `Invalid` with reason SourceError. -/
theorem inadmissible_render_writes_nothing (L : Leaves T) (spec : Spec T) (w : World) (t : Tmpl)
    (ht : w.tmpl = some t) (hd : t.deleting = false)
    (cfg : Config) (retry : Bool) (r : Rendered)
    (h : inputOf L spec w.objs = .ok cfg retry) (hr : L.render spec.template cfg w.env = .ok r)
    (ha : admissible L.scope spec.ns r.kind r.ns r.hasOwner = false) :
    (∀ x ∈ (reconcile L spec w).writes, x.verb ≠ .create ∧ x.verb ≠ .update) ∧
    PayloadsUnchanged w.objs (reconcile L spec w).world.objs ∧
    (reconcile L spec w).out ≠ .err ∧
    (∃ t', (reconcile L spec w).world.tmpl = some t' ∧ t'.status.invalid = .source) := by
  obtain ⟨hinv, hout, hnw, hpay⟩ :=
    inadmissible_target_no_write_invalid L spec w.objs w.env t.status cfg retry r h hr ha
  have hne : (templateCore L spec w.objs w.env t.status).out ≠ .err := by
    rw [hout]; cases retry <;> simp
  unfold reconcile
  rw [ht]
  simp only [hd, Bool.false_eq_true, if_false]
  cases hc : (templateCore L spec w.objs w.env t.status).out with
  | err => exact absurd hc hne
  | ok =>
    refine ⟨?_, hpay, by simp, _, rfl, hinv⟩
    intro x hx
    simp only [List.mem_append, List.mem_singleton] at hx
    rcases hx with (hx | hx) | hx
    · split at hx
      · simp at hx
      · simp at hx; subst hx; simp
    · have := hnw x hx; simp [this]
    · subst hx; simp
  | requeueOpt =>
    refine ⟨?_, hpay, by simp, _, rfl, hinv⟩
    intro x hx
    simp only [List.mem_append, List.mem_singleton] at hx
    rcases hx with (hx | hx) | hx
    · split at hx
      · simp at hx
      · simp at hx; subst hx; simp
    · have := hnw x hx; simp [this]
    · subst hx; simp
  | requeueRes =>
    refine ⟨?_, hpay, by simp, _, rfl, hinv⟩
    intro x hx
    simp only [List.mem_append, List.mem_singleton] at hx
    rcases hx with (hx | hx) | hx
    · split at hx
      · simp at hx
      · simp at hx; subst hx; simp
    · have := hnw x hx; simp [this]
    · subst hx; simp

/-- **writes_stay_inside**: every write of every pass of a namespaced ObjectTemplate — live or
deleting, in every world — goes to the ObjectTemplate itself or to a namespaced kind inside its
namespace. -/
theorem writes_stay_inside (L : Leaves T) (spec : Spec T) (w : World) (hns : spec.ns ≠ "") :
    ∀ x ∈ (reconcile L spec w).writes,
      x.key = tmplKey spec ∨ (x.key.ns = spec.ns ∧ L.scope x.key.kind = .namespaced) :=
  writes_within_namespace L spec w hns

theorem model_bounded (L : Leaves T) (spec : Spec T) (w : World) :
    bounded L spec (observe (reconcile L spec w)) = true := by
  unfold bounded
  by_cases hns : spec.ns = ""
  · simp [hns]
  · simp only [hns, decide_false, Bool.false_or, List.all_eq_true, Bool.or_eq_true, Bool.and_eq_true,
      decide_eq_true_eq]
    intro x hx
    exact writes_stay_inside L spec w hns x hx

/-- the C18 predicate for a live pass implies the C11 one -/
theorem checkLiveNs_of_checkLive (L : Leaves T) (spec : Spec T) (keys : List Key) (objs : Objs)
    (env : String) (obs : Obs) (h : checkLive L spec keys objs env obs = true) :
    checkLiveNs L spec keys objs env obs = true := by
  unfold checkLive at h
  unfold checkLiveNs renderingOf
  rw [Bool.and_eq_true] at h ⊢
  refine ⟨h.1, ?_⟩
  have hm := h.2
  cases hg : specGather L spec objs spec.sources [] false with
  | srcErr m =>
    rw [hg] at hm
    simp only [Bool.and_eq_true] at hm
    simpa using hm.2
  | ok cfg retry =>
    rw [hg] at hm
    simp only at hm ⊢
    cases hr : L.render spec.template cfg env with
    | templateErr =>
      rw [hr] at hm
      simp only [Bool.and_eq_true] at hm
      simpa using hm.1.2
    | unmarshalErr =>
      rw [hr] at hm
      simp only [Bool.and_eq_true] at hm
      simpa using hm.1.2
    | ok r =>
      rw [hr] at hm
      simp only at hm ⊢
      by_cases ha : admissible L.scope spec.ns r.kind r.ns r.hasOwner = true
      · simp [ha]
      · simp only [ha, Bool.false_eq_true, if_false, Bool.and_eq_true] at hm ⊢
        exact ⟨hm.1.1, hm.1.2⟩

/-- **model_satisfies_checkPassNs** (monitor-vs-model): in every world the model's pass satisfies
the predicate `Pko.Drv.C11Tmpl.monitor` evaluates on the implementation's passes. -/
theorem model_satisfies_checkPassNs (L : Leaves T) (spec : Spec T) (keys : List Key) (w : World) :
    checkPassNs L spec keys w (observe (reconcile L spec w)) = true := by
  have hcp := model_satisfies_checkPass L spec keys w
  unfold checkPassNs
  rw [Bool.and_eq_true]
  refine ⟨model_bounded L spec w, ?_⟩
  unfold checkPass at hcp
  cases ht : w.tmpl with
  | none => rfl
  | some t =>
    rw [ht] at hcp
    simp only at hcp ⊢
    by_cases hd : t.deleting = true
    · simp [hd]
    · simp only [hd, Bool.false_eq_true, if_false] at hcp ⊢
      exact checkLiveNs_of_checkLive L spec keys w.objs w.env _ hcp

/-! ### non-vacuity: a template whose rendered kind follows a source value -/

namespace Example

/-- kind of the rendered object = what the source says ("Cluster" ⇒ the cluster-scoped kind) -/
def leaves : Leaves Unit :=
  { scope := fun k => if k = "ClusterPackage" then .cluster else if k = "Package" ∨ k = "ConfigMap" then .namespaced else .unknown
    copy := fun _ _ o cfg => some (cfg ++ o.data)
    render := fun _ cfg _ =>
      .ok ⟨if cfg.lookup "scope" = some "Cluster" then "ClusterPackage" else "Package", "", "my-app", [], false⟩ }

def spec : Spec Unit :=
  { ns := "tenant-a", template := (), sources := [⟨"ConfigMap", "", "cfg", false, [⟨".data.scope", ".scope"⟩]⟩] }

def world (scope : String) (watches : List (String × Owner)) : World :=
  { objs := fun k => if k = ⟨"ConfigMap", "tenant-a", "cfg"⟩ then some ⟨[("scope", scope)], true, 1, none, []⟩ else none
    tmpl := some ⟨true, false, ⟨.none, [], none⟩⟩, watches := watches, env := "" }

/-- source says "Namespaced": the Package is created; the SAME process (same registrations) after the
source was flipped to "Cluster": nothing is created, Invalid is reported. -/
example :
    ((reconcile leaves spec (world "Namespaced" [])).writes.map (·.verb) = [.create, .status]) ∧
    ((reconcile leaves spec (world "Cluster" (reconcile leaves spec (world "Namespaced" [])).world.watches)).writes.map (·.verb)
        = [.status]) ∧
    ((reconcile leaves spec (world "Cluster" [("Package", .tmpl)])).world.tmpl.map (·.status.invalid) = some .source) := by
  decide

end Example

end Pko.Props.C11Tmpl
